(* Linearizability of recorded map histories: an (untrusted) Wing-Gong style
   search finds a witness order, the extracted, verified [lin_ok] validates it.
   Input: blocks  H / C tid op key val ok got inv ret ... / Z   (keys and values as decimal 64-bit numbers) *)
open Model
open Zutil

type c = { op : char; key : int; vl : int; ok : bool; got : int; inv : int; ret : int }

let zbytes (v : int) : z list = [z_of_int (v land 0xffffff); z_of_int ((v lsr 24) land 0xffffff); z_of_int (v lsr 48)]

let to_call (x : c) : call =
  let k = [z_of_int x.key] in
  let (o, r) = match x.op with
    | 'G' -> (LGet k, LVal (if x.ok then Some (zbytes x.got) else None))
    | 'I' -> (LInsert (k, zbytes x.vl), LBool x.ok)
    | _ -> (LRemove k, LBool x.ok) in
  { c_op = o; c_res = r; c_inv = nat_of_int x.inv; c_ret = nat_of_int x.ret }

(* untrusted search over an int-keyed assoc state *)
let search (init : (int * int) list) (h : c array) : int list option =
  let n = Array.length h in
  let seen = Hashtbl.create 1024 in
  let rec go (donemask : int) (state : (int * int) list) (acc : int list) : int list option =
    if donemask = (1 lsl n) - 1 then Some (List.rev acc)
    else begin
      let key = (donemask, state) in
      if Hashtbl.mem seen key then None else begin
        Hashtbl.add seen key ();
        (* minimal pending calls: no other pending call returned before their invocation *)
        let minret = ref max_int in
        for i = 0 to n - 1 do if donemask land (1 lsl i) = 0 then minret := min !minret h.(i).ret done;
        let res = ref None in
        let i = ref 0 in
        while !res = None && !i < n do
          let j = !i in
          if donemask land (1 lsl j) = 0 && h.(j).inv <= !minret then begin
            let x = h.(j) in
            let cur = List.assoc_opt x.key state in
            let step = match x.op with
              | 'G' -> if (x.ok && cur = Some x.got) || (not x.ok && cur = None) then Some state else None
              | 'I' -> if x.ok && cur = None then Some ((x.key, x.vl) :: state)
                       else if (not x.ok) && cur <> None then Some state else None
              | _ -> if x.ok && cur <> None then Some (List.remove_assoc x.key state)
                     else if (not x.ok) && cur = None then Some state else None in
            (match step with
             | Some st -> res := go (donemask lor (1 lsl j)) (List.sort compare st) (j :: acc)
             | None -> ())
          end;
          incr i
        done;
        !res
      end
    end in
  go 0 (List.sort compare init) []

let () =
  let cur = ref [] in
  let init = ref [] in
  let total = ref 0 and bad = ref 0 in
  (try while true do
    let line = input_line stdin in
    match split_on ' ' line with
    | ["H"] -> cur := []; init := []
    | "X" :: _ -> cur := []; init := []
    | ["J"; k; v] -> init := (int_of_string k, int_of_string v) :: !init
    | ["C"; _; op; key; vl; ok; got; inv; ret] ->
      cur := { op = op.[0]; key = int_of_string key; vl = int_of_string vl; ok = ok = "1"; got = int_of_string got;
               inv = int_of_string inv; ret = int_of_string ret } :: !cur
    | ["Z"] | ["Y"] ->
      incr total;
      let h = Array.of_list (List.rev !cur) in
      if Array.length h > 60 then print_endline "TOOLONG"
      else (match search !init h with
        | None -> incr bad; print_endline "NONLIN no witness order exists"
        | Some order ->
          let hc = Array.to_list (Array.map to_call h) in
          let init_m = List.map (fun (k, v) -> ([z_of_int k], zbytes v)) !init in
          if lin_ok init_m hc (List.map nat_of_int order) then print_endline "ok"
          else begin incr bad; print_endline "NONLIN witness rejected by the verified validator" end)
    | _ -> ()
  done with End_of_file -> ());
  Printf.printf "T histories=%d nonlinearizable=%d\n" !total !bad
