(* Linearizability of recorded map histories: an (untrusted) Wing-Gong style
   search finds a witness order, the extracted, verified [lin_ok] validates it.
   Input: blocks  H / C tid op key val ok got inv ret ... / Z   (keys and values as decimal 64-bit numbers)
   Scans (V lines of harness/olc_sched) are turned into chains of successor queries (C09): the first asks for the
   least key >= the bound, each later one for the least key > the key just delivered, the last one (unless the
   visitor halted the scan) finds nothing; every query must take effect between the previous delivery and its own.
   Verdicts per history: point operations only ("ok" / "NONLIN"); for histories with scans a line starting SCAN: every
   scan step must be an INTERVAL successor query (Olc/IterModel.wquery, the guarantee proved for the iterator in
   C09c_next_step / C09c_seek): for some linearization of the point operations, the delivered entry is in the map at some
   moment between the previous delivery and this one, and every key between the bound and the delivered key is absent
   at some moment of that interval; the final step of an unhalted scan likewise finds nothing left.  (A step is NOT an
   atomic successor query - machine-checked counterexample C09c_step_not_atomic; the stricter atomic-chain reading is
   reported on lines starting ATOMIC for information only.) *)
open Model
open Zutil

type c = { op : char; key : int; vl : int; ok : bool; got : int; inv : int; ret : int;
           strict : bool; far : int option; res : (int * int) option }   (* op 'N' / 'P': key = near bound *)
let point op key vl ok got inv ret = { op; key; vl; ok; got; inv = 2 * inv; ret = 2 * ret; strict = false; far = None; res = None }

let zbytes (v : int) : z list = [z_of_int (v land 0xffffff); z_of_int ((v lsr 24) land 0xffffff); z_of_int (v lsr 48)]

let to_call (x : c) : call =
  let k = [z_of_int x.key] in
  let (o, r) = match x.op with
    | 'G' -> (LGet k, LVal (if x.ok then Some (zbytes x.got) else None))
    | 'I' -> (LInsert (k, zbytes x.vl), LBool x.ok)
    | 'N' | 'P' ->
      let far = (match x.far with Some f -> Some [z_of_int f] | None -> None) in
      let r = LEntry (match x.res with Some (rk, rv) -> Some ([z_of_int rk], zbytes rv) | None -> None) in
      ((if x.op = 'N' then LNext (k, x.strict, far) else LPrev (k, x.strict, far)), r)
    | _ -> (LRemove k, LBool x.ok) in
  { c_op = o; c_res = r; c_inv = nat_of_int x.inv; c_ret = nat_of_int x.ret }

(* untrusted search over an int-keyed assoc state *)
let search (init : (int * int) list) (h : c array) : int list option =
  let n = Array.length h in
  let seen = Hashtbl.create 1024 in
  let rec go (donemask : int) (state : (int * int) list) (acc : int list) : int list option =
    if donemask = (1 lsl n) - 1 then Some (List.rev acc)
    else begin
      let key = (donemask, state) in
      if Hashtbl.mem seen key then None else begin
        Hashtbl.add seen key ();
        (* minimal pending calls: no other pending call returned before their invocation *)
        let minret = ref max_int in
        for i = 0 to n - 1 do if donemask land (1 lsl i) = 0 then minret := min !minret h.(i).ret done;
        let res = ref None in
        let i = ref 0 in
        while !res = None && !i < n do
          let j = !i in
          if donemask land (1 lsl j) = 0 && h.(j).inv <= !minret then begin
            let x = h.(j) in
            let cur = List.assoc_opt x.key state in
            let step = match x.op with
              | 'G' -> if (x.ok && cur = Some x.got) || (not x.ok && cur = None) then Some state else None
              | 'I' -> if x.ok && cur = None then Some ((x.key, x.vl) :: state)
                       else if (not x.ok) && cur <> None then Some state else None
              | 'N' ->
                let cands = List.filter (fun (k, _) -> (if x.strict then k > x.key else k >= x.key) &&
                                                       (match x.far with Some f -> k < f | None -> true)) state in
                let best = List.fold_left (fun a (k, v) -> match a with Some (k', _) when k' < k -> a | _ -> Some (k, v)) None cands in
                if best = x.res then Some state else None
              | 'P' ->
                let cands = List.filter (fun (k, _) -> (if x.strict then k < x.key else k <= x.key) &&
                                                       (match x.far with Some f -> k > f | None -> true)) state in
                let best = List.fold_left (fun a (k, v) -> match a with Some (k', _) when k' > k -> a | _ -> Some (k, v)) None cands in
                if best = x.res then Some state else None
              | _ -> if x.ok && cur <> None then Some (List.remove_assoc x.key state)
                     else if (not x.ok) && cur = None then Some state else None in
            (match step with
             | Some st -> res := go (donemask lor (1 lsl j)) (List.sort compare st) (j :: acc)
             | None -> ())
          end;
          incr i
        done;
        !res
      end
    end in
  go 0 (List.sort compare init) []

(* ---- scans as interval queries ------------------------------------------------------------------------------ *)
type sscan = { fwd : bool; near0 : int; sfar : int option; halted : bool; sinv : int; sret : int; ds : (int * int * int) list }

(* all orders of the point operations that respect real time and are sequentially legal (no memo: the scan check depends on the order) *)
let all_orders (init : (int * int) list) (h : c array) (accept : int list -> bool) : bool =
  let n = Array.length h in
  let found = ref false in
  let budget = ref 200000 in
  let rec go donemask state acc =
    if !found || !budget <= 0 then ()
    else if donemask = (1 lsl n) - 1 then (decr budget; if accept (List.rev acc) then found := true)
    else begin
      let minret = ref max_int in
      for i = 0 to n - 1 do if donemask land (1 lsl i) = 0 then minret := min !minret h.(i).ret done;
      for j = 0 to n - 1 do
        if not !found && donemask land (1 lsl j) = 0 && h.(j).inv <= !minret then begin
          let x = h.(j) in
          let cur = List.assoc_opt x.key state in
          let step = match x.op with
            | 'G' -> if (x.ok && cur = Some x.got) || (not x.ok && cur = None) then Some state else None
            | 'I' -> if x.ok && cur = None then Some ((x.key, x.vl) :: state)
                     else if (not x.ok) && cur <> None then Some state else None
            | _ -> if x.ok && cur <> None then Some (List.remove_assoc x.key state)
                   else if (not x.ok) && cur = None then Some state else None in
          (match step with Some st -> decr budget; go (donemask lor (1 lsl j)) st (j :: acc) | None -> ())
        end
      done
    end in
  go 0 init [];
  !found

(* states S_0 .. S_n along an order *)
let states_along init (h : c array) order =
  let st = ref init in
  let out = ref [init] in
  List.iter (fun j ->
    let x = h.(j) in
    (match x.op with
     | 'I' -> if x.ok then st := (x.key, x.vl) :: !st
     | 'R' -> if x.ok then st := List.remove_assoc x.key !st
     | _ -> ());
    out := !st :: !out) order;
  Array.of_list (List.rev !out)

(* moments (number of operations already applied) compatible with the real-time interval [a, b] (doubled stamps) *)
let moment_range (h : c array) order a b =
  let lo = ref 0 and hi = ref (List.length order) in
  List.iteri (fun pos j ->
    if h.(j).ret < a then lo := max !lo (pos + 1);
    if h.(j).inv > b then hi := min !hi pos) order;
  (!lo, !hi)

let scan_interval_ok init (h : c array) order (s : sscan) : bool =
  let st = states_along init h order in
  let inside k = match s.sfar with None -> true | Some f -> if s.fwd then k < f else k > f in
  let beyond bound strict k = if s.fwd then (if strict then k > bound else k >= bound) else (if strict then k < bound else k <= bound) in
  let before k k' = if s.fwd then k < k' else k > k' in   (* k comes before k' in the scan direction *)
  let step a b bound strict (res : (int * int) option) =
    let (lo, hi) = moment_range h order a b in
    if lo > hi then false else begin
      let present_all x = (let r = ref true in for m = lo to hi do if not (List.mem_assoc x st.(m)) then r := false done; !r) in
      let cand = List.filter (fun (x, _) -> beyond bound strict x && inside x) st.(lo) in
      match res with
      | Some (k, v) ->
        beyond bound strict k && inside k &&
        (let r = ref false in for m = lo to hi do if List.assoc_opt k st.(m) = Some v then r := true done; !r) &&
        List.for_all (fun (x, _) -> not (before x k && present_all x)) cand
      | None -> List.for_all (fun (x, _) -> not (present_all x)) cand
    end in
  let rec go prev bound strict = function
    | [] -> s.halted || step prev (2 * s.sret) bound strict None
    | (k, v, t) :: rest -> step prev (2 * t) bound strict (Some (k, v)) && go (2 * t) k true rest in
  go (2 * s.sinv) s.near0 false s.ds

let () =
  let cur = ref [] in
  let scans = ref [] in
  let sscans = ref [] in
  let init = ref [] in
  let total = ref 0 and bad = ref 0 in
  (try while true do
    let line = input_line stdin in
    match split_on ' ' line with
    | ["H"] -> cur := []; init := []; scans := []; sscans := []
    | "X" :: _ -> cur := []; init := []; scans := []; sscans := []
    | "V" :: _ :: inv :: ret :: kind :: a :: b :: dir :: halted :: ":" :: seen ->
      (* a scan as a chain of successor queries *)
      let inv = int_of_string inv and ret = int_of_string ret and a = int_of_string a and b = int_of_string b in
      let fwd, near, far, impossible = (match kind with
        | "S" -> (dir = "f", (if dir = "f" then 0 else max_int), None, false)
        | "F" -> (dir = "f", a, None, false)
        | _ -> if a < b then (true, a, Some b, false) else if a > b then (false, a, Some b, false) else (true, a, Some a, true)) in
      let ds = List.map (fun s -> match String.split_on_char '@' s with
        | [kv; t] -> (match String.split_on_char '=' kv with [k; v] -> (int_of_string k, int_of_string v, int_of_string t) | _ -> failwith "V")
        | _ -> failwith "V") seen in
      let opc = if fwd then 'N' else 'P' in
      let rec chain prev_t near strict = function
        | [] -> if halted = "h" then [] else
            [{ op = opc; key = near; vl = 0; ok = true; got = 0; inv = prev_t; ret = 2 * ret; strict; far; res = None }]
        | (k, v, t) :: rest ->
          { op = opc; key = near; vl = 0; ok = true; got = 0; inv = prev_t; ret = 2 * t; strict; far; res = Some (k, v) }
          :: chain (2 * t + 1) k true rest in
      ignore impossible;
      sscans := { fwd; near0 = near; sfar = far; halted = (halted = "h"); sinv = inv; sret = ret; ds } :: !sscans;
      scans := !scans @ chain (2 * inv) near false ds
    | ["J"; k; v] -> init := (int_of_string k, int_of_string v) :: !init
    | ["C"; _; op; key; vl; ok; got; inv; ret] ->
      cur := point op.[0] (int_of_string key) (int_of_string vl) (ok = "1") (int_of_string got)
               (int_of_string inv) (int_of_string ret) :: !cur
    | ["Z"] | ["Y"] ->
      incr total;
      let judge prefix h =
        if Array.length h > 60 then print_endline (prefix ^ "TOOLONG")
        else (match search !init h with
          | None -> incr bad; print_endline (prefix ^ "NONLIN no witness order exists")
          | Some order ->
            let hc = Array.to_list (Array.map to_call h) in
            let init_m = List.map (fun (k, v) -> ([z_of_int k], zbytes v)) !init in
            if lin_ok init_m hc (List.map nat_of_int order) then print_endline (prefix ^ "ok")
            else begin incr bad; print_endline (prefix ^ "NONLIN witness rejected by the verified validator") end) in
      judge "" (Array.of_list (List.rev !cur));
      if !sscans <> [] then begin
        let h = Array.of_list (List.rev !cur) in
        if Array.length h > 12 then print_endline "SCAN TOOLONG"
        else begin
          let ok = all_orders !init h (fun order ->
            let hc = Array.to_list (Array.map to_call h) in
            let init_m = List.map (fun (k, v) -> ([z_of_int k], zbytes v)) !init in
            lin_ok init_m hc (List.map nat_of_int order) &&
            List.for_all (scan_interval_ok !init h order) !sscans) in
          if ok then print_endline "SCAN ok"
          else begin incr bad; print_endline "SCAN NONLIN no linearization of the point operations makes every scan step an interval successor query" end
        end;
        (* informational: the stricter reading (each step an atomic successor query inside the linearization) *)
        let saved = !bad in
        (let h2 = Array.of_list (List.rev !cur @ !scans) in
         if Array.length h2 <= 60 then
           (match search !init h2 with None -> print_endline "ATOMIC no" | Some _ -> print_endline "ATOMIC yes")
         else print_endline "ATOMIC toolong");
        bad := saved
      end
    | _ -> ()
  done with End_of_file -> ());
  Printf.printf "T histories=%d nonlinearizable=%d\n" !total !bad
