(* Trace validation for the OLC index: the event traces printed by
   harness/olc_sched (E lines) are projected per node and replayed through the
   extracted acceptor (OlcTrace.node_diag = LockModel.lrun per node) and the
   no-wait-while-holding check.  One verdict line per execution that carries a trace.
   Additionally the events of every get / insert / remove (between the OPBEGIN / OPEND markers of one thread) are
   checked by the extracted read-protocol acceptor Olc/Protocol.op_ok (no unvalidated read, lock coupling, no write
   guard left at return); violations are printed as PROTO lines. *)
open Model
open Zutil

type raw = { tid : int; kind : string; blk : int; off : int; a : int; b : int; a64 : int64 }

let () =
  let evs = ref [] in
  let has_trace = ref false in
  let n = ref 0 and rejected = ref 0 and total_events = ref 0 in
  let proto_ops = ref 0 and proto_bad = ref 0 in
  let finish () =
    if !has_trace then begin
      incr n;
      let l = List.rev !evs in
      total_events := !total_events + List.length l;
      (* per block: allocator, whether a lock event was seen, word indices, initial state *)
      let alloc_by = Hashtbl.create 16 and locked = Hashtbl.create 16 in
      let words : (int, (int, int) Hashtbl.t) Hashtbl.t = Hashtbl.create 16 in
      let init_mem : (int * int, int) Hashtbl.t = Hashtbl.create 64 in
      let init_lw : (int, int) Hashtbl.t = Hashtbl.create 16 in
      let skip_block = Hashtbl.create 4 in
      let widx blk off =
        let t = match Hashtbl.find_opt words blk with Some t -> t | None -> let t = Hashtbl.create 8 in Hashtbl.add words blk t; t in
        match Hashtbl.find_opt t off with Some i -> i | None -> let i = Hashtbl.length t in Hashtbl.add t off i; i in
      let out = ref [] in
      (* read-protocol acceptor per operation *)
      let cur_op : (int, (string * pev list ref)) Hashtbl.t = Hashtbl.create 8 in
      List.iter (fun e ->
        let add pe = match Hashtbl.find_opt cur_op e.tid with Some (_, r) -> r := pe :: !r | None -> () in
        let nb = nat_of_int e.blk in
        match e.kind with
        | "OPBEGIN" -> Hashtbl.replace cur_op e.tid (Printf.sprintf "%c %x" (Char.chr (e.a land 255)) e.b, ref [])
        | "OPEND" ->
          (match Hashtbl.find_opt cur_op e.tid with
           | Some (name, r) ->
             incr proto_ops;
             let is_scan = (match name.[0] with 'G' | 'I' | 'R' -> false | _ -> true) in
             if not ((if is_scan then scan_ok else op_ok) (List.rev !r)) then begin
               incr proto_bad;
               if !proto_bad <= 5 then Printf.printf "PROTO thread %d op %s: read protocol violated (unvalidated read, broken lock coupling, guard left held, or a version used for another node)\n" e.tid name
             end;
             Hashtbl.remove cur_op e.tid
           | None -> ())
        | "ALLOC" -> add (PAlloc nb)
        | "RLOCK" -> add (PRLock (nb, e.a land 3 = 0, z_of_int e.a))
        | "CHECK" -> add (PCheck (nb, e.a = e.b, z_of_int e.a))
        | "UPGRADE" -> add (PUpgrade (nb, e.b = 1, z_of_int e.a))
        | "WUNLOCK" -> add (PUnlock nb)
        | "WOBSOLETE" -> add (PObsolete nb)
        | "LOAD" -> add (PLoad nb)
        | "STORE" -> add (PStore nb)
        | _ -> ()) l;
      List.iter (fun e ->
        match e.kind with
        | "OPBEGIN" | "OPEND" -> ()
        | "ALLOC" -> Hashtbl.replace alloc_by e.blk e.tid
        | "FREE" | "RETIRE" -> ()
        | "LOAD" | "STORE" ->
          (* fields overlap (unions of byte arrays and machine words): memory is modelled byte by byte *)
          let size = max 1 (min 8 e.b) in
          for k = 0 to size - 1 do
            let i = widx e.blk (e.off + k) in
            let v = Int64.to_int (Int64.logand (Int64.shift_right_logical e.a64 (8 * k)) 255L) in
            let shared = Hashtbl.mem locked e.blk in
            if not shared then
              (* initialisation of a node nobody else has seen yet: defines its initial contents *)
              Hashtbl.replace init_mem (e.blk, i) v
            else begin
              if not (Hashtbl.mem init_mem (e.blk, i)) then Hashtbl.replace init_mem (e.blk, i) (if e.kind = "LOAD" then v else 0);
              let t = nat_of_int (e.tid + 1) in
              out := (nat_of_int e.blk, (if e.kind = "LOAD" then ELoad (t, nat_of_int i, z_of_int v) else EStore (t, nat_of_int i, z_of_int v))) :: !out
            end
          done
        | k ->
          let t = nat_of_int (e.tid + 1) in
          if not (Hashtbl.mem locked e.blk) then begin
            Hashtbl.replace locked e.blk ();
            (* the word as first observed *)
            (match k with
             | "RLOCK" | "SPIN" -> Hashtbl.replace init_lw e.blk e.a
             | "CHECK" -> Hashtbl.replace init_lw e.blk e.b
             | "UPGRADE" -> if e.b = 1 then Hashtbl.replace init_lw e.blk e.a else Hashtbl.replace skip_block e.blk ()
             | _ -> Hashtbl.replace skip_block e.blk ())
          end;
          let ev = match k with
            | "RLOCK" -> Some (ERLock (t, z_of_int e.a)) | "SPIN" -> Some (ESpin t)
            | "CHECK" -> Some (ECheck (t, z_of_int e.a, z_of_int e.b))
            | "UPGRADE" -> Some (EUpgrade (t, z_of_int e.a, e.b = 1))
            | "WUNLOCK" -> Some (EWUnlock (t, z_of_int e.a)) | "WOBSOLETE" -> Some (EWObsolete t)
            | _ -> None in
          (match ev with Some ev -> out := (nat_of_int e.blk, ev) :: !out | None -> ())) l;
      let tr = List.rev !out in
      let inits = Hashtbl.fold (fun blk () acc ->
        if Hashtbl.mem skip_block blk then acc else begin
          let nw = match Hashtbl.find_opt words blk with Some t -> Hashtbl.length t | None -> 0 in
          let mem = List.init nw (fun i -> z_of_int (match Hashtbl.find_opt init_mem (blk, i) with Some v -> v | None -> 0)) in
          let lw = match Hashtbl.find_opt init_lw blk with Some v -> v | None -> 0 in
          (nat_of_int blk, { lw = z_of_int lw; lmem = mem; guards = [] }) :: acc
        end) locked [] in
      (* projection per node done here (one pass), then the extracted node_diag on each node's own events:
         node_diag [(b, s)] (events of b) = the acceptor on b's projection; avoids nodes x events work *)
      let by_node : (int, (nat * event) list ref) Hashtbl.t = Hashtbl.create 64 in
      List.iter (fun (b, ev) ->
        let k = int_of_nat b in
        match Hashtbl.find_opt by_node k with Some r -> r := (b, ev) :: !r | None -> Hashtbl.add by_node k (ref [(b, ev)])) tr;
      let diag = List.fold_left (fun acc (b, st) ->
        match acc with
        | Some _ -> acc
        | None ->
          let evs = match Hashtbl.find_opt by_node (int_of_nat b) with Some r -> List.rev !r | None -> [] in
          node_diag [(b, st)] evs) None inits in
      (match diag with
       | Some (b, i) -> incr rejected; Printf.printf "REJECT node %d event %d of its projection\n" (int_of_nat b) (int_of_nat i)
       | None ->
         if no_wait_while_holding [] tr then print_endline "ok"
         else begin incr rejected; print_endline "REJECT a thread waits while holding a write guard" end)
    end;
    evs := []; has_trace := false in
  (try while true do
    let line = input_line stdin in
    match split_on ' ' line with
    | "X" :: _ -> evs := []; has_trace := false
    | ["E"; tid; kind; blk; off; a; b] ->
      has_trace := true;
      evs := { tid = int_of_string tid; kind; blk = int_of_string blk; off = int_of_string off;
               a = (try int_of_string a with _ -> 0); b = (try int_of_string b with _ -> 0);
               a64 = (try Int64.of_string ("0u" ^ a) with _ -> 0L) } :: !evs
    | ["Y"] -> finish ()
    | _ -> ()
  done with End_of_file -> ());
  Printf.printf "T traces=%d rejected=%d events=%d protocol_ops=%d protocol_bad=%d\n" !n !rejected !total_events !proto_ops !proto_bad
