(* Replays the event traces printed by harness/lock_sched through the
   extracted acceptor LockModel.lrun_diag.  One verdict line per execution. *)
open Model
open Zutil

let () =
  let evs = ref [] in
  let sched = ref "" in
  let n = ref 0 and rejected = ref 0 in
  (try while true do
    let line = input_line stdin in
    let t = split_on ' ' line in
    match t with
    | "X" :: _ -> evs := []; sched := line
    | ["E"; tid; k; a; b] ->
      let tid = nat_of_int (int_of_string tid) in
      let za = z_of_int (int_of_string a) and zb = z_of_int (int_of_string b) in
      let e = match k with
        | "RLOCK" -> ERLock (tid, za)
        | "SPIN" -> ESpin tid
        | "CHECK" -> ECheck (tid, za, zb)
        | "UPGRADE" -> EUpgrade (tid, za, int_of_string b = 1)
        | "WUNLOCK" -> EWUnlock (tid, za)
        | "WOBSOLETE" -> EWObsolete tid
        | "LOAD" -> ELoad (tid, nat_of_int (int_of_string a), zb)
        | "STORE" -> EStore (tid, nat_of_int (int_of_string a), zb)
        | _ -> failwith ("event " ^ k) in
      evs := e :: !evs
    | ["Y"] ->
      incr n;
      let tr = List.rev !evs in
      (match lrun_diag (linit (nat_of_int 3)) tr O with
       | (_, None) -> print_endline "ok"
       | (_, Some i) -> incr rejected; Printf.printf "REJECT event %d of %d :: %s\n" (int_of_nat i) (List.length tr) !sched)
    | _ -> ()
  done with End_of_file -> ());
  Printf.printf "T executions=%d rejected=%d\n" !n !rejected
