(* Model side of the sequential ART correspondence: same line protocol as
   harness/seq_diff.cpp.  First line: "Z <leaf-1> <n4> <n16> <n48> <n256>".
   Mode "blocks" (C10, Art/ArtAlloc.v): every D line also carries
   " A=<size>x<count>,..." - the live multiset maintained operation by operation as
   live + op_allocs - op_frees (it must equal the blocks of the tree, theorem
   C10h_live_is_tree; checked here again) - and " T=+<allocs>/-<frees>" - the sizes
   the operations since the previous D obtained from / returned to the allocator. *)
open Model
open Zutil

let unhex s = if s = "-" then [] else bytes_of_hex s
let hexs l = if l = [] then "-" else hex_of_bytes l

let cls_name = function C4 -> "I4" | C16 -> "I16" | C48 -> "I48" | C256 -> "I256"

let rec canon (n : node) : string =
  match n with
  | Leaf (_, k, v) -> "L" ^ hexs k ^ "=" ^ hexs v
  | Inode (c, p, ch) ->
    cls_name c ^ "[" ^ hexs p ^ "]{" ^
    String.concat "," (List.map (fun (b, c') -> Printf.sprintf "%02x" (int_of_z b) ^ ":" ^ canon c') ch) ^ "}"

let show_res f = function
  | Ok a -> f a
  | Err Oob -> "ERR-oob"
  | Err OutOfFuel -> "ERR-fuel"
  | Err Malformed -> "ERR-malformed"

let show_scan l =
  if l = [] then "none" else String.concat "," (List.map (fun (k, v) -> hexs k ^ ":" ^ hexs v) l)

(* multiset of sizes as "<size>x<count>,..." in ascending size order *)
let multiset_str (l : z list) : string =
  let l = List.sort compare (List.map int_of_z l) in
  let rec go acc = function
    | [] -> List.rev acc
    | x :: r -> (match acc with
        | (y, n) :: acc' when y = x -> go ((y, n + 1) :: acc') r
        | _ -> go ((x, 1) :: acc) r) in
  match go [] l with
  | [] -> "-"
  | g -> String.concat "," (List.map (fun (x, n) -> Printf.sprintf "%dx%d" x n) g)

let halt_of s = if s = "-" then None else Some (nat_of_int (int_of_string s))

let () =
  let sz = ref { sz_leaf = z_of_int 11; sz4 = z_of_int 48; sz16 = z_of_int 160; sz48 = z_of_int 672; sz256 = z_of_int 2064 } in
  let d = ref db0 in
  let allocs = Array.length Sys.argv > 1 && Sys.argv.(1) = "allocs" in
  let blocks = Array.length Sys.argv > 1 && Sys.argv.(1) = "blocks" in
  let live = ref (Some []) in          (* None: the model itself would free a size that is not live *)
  let got = ref [] and returned = ref [] in
  let effect al fr =
    got := al @ !got; returned := fr @ !returned;
    live := (match !live with Some l -> free_all fr (l @ al) | None -> None) in
  let show_allocs r = if not allocs then "" else match r with Ok n -> Printf.sprintf " a=%d" (int_of_nat n) | Err _ -> " a=?" in
  (try while true do
    let line = input_line stdin in
    let toks = split_on ' ' line in
    match toks with
    | "Z" :: a :: b :: c :: e :: f :: _ ->
      let zi s = z_of_int (int_of_string s) in
      sz := { sz_leaf = zi a; sz4 = zi b; sz16 = zi c; sz48 = zi e; sz256 = zi f }
    | ["N"] -> d := db0; live := Some []; got := []; returned := []; print_endline "N"
    | ["I"; k; v] ->
      let k = unhex k and v = unhex v in
      let a = show_allocs (db_insert_allocs !d k v) in
      if blocks then effect (ins_allocs !sz !d k v) (ins_frees !sz !d k v);
      (match db_insert !sz !d k v with
       | Ok (d', r) -> d := d'; print_endline ((if r then "1" else "0") ^ a)
       | Err _ as e -> print_endline (show_res (fun _ -> "") e))
    | ["R"; k] ->
      let a = show_allocs (db_remove_allocs !d (unhex k)) in
      if blocks then effect (rem_allocs !sz !d (unhex k)) (rem_frees !sz !d (unhex k));
      (match db_remove !sz !d (unhex k) with
       | Ok (d', r) -> d := d'; print_endline ((if r then "1" else "0") ^ a)
       | Err _ as e -> print_endline (show_res (fun _ -> "") e))
    | ["LK"] | ["LV"] -> print_endline "length_error"
    | ["G"; k] when allocs -> print_endline (show_res (function None -> "0" | Some _ -> "1") (db_get !d (unhex k)))
    | ["G"; k] ->
      print_endline (show_res (function None -> "-" | Some (id, v) -> string_of_int (int_of_z id) ^ ":" ^ hexs v) (db_get !d (unhex k)))
    | ["E"] -> print_endline (if db_empty !d then "1" else "0")
    | ["C"] -> if blocks then effect [] (db_blocks !sz !d); d := db_clear !d; print_endline "C"
    | ["S"; dir; h] -> print_endline (show_res show_scan (db_scan !d (dir = "f") (halt_of h)))
    | ["F"; k; dir; h] -> print_endline (show_res show_scan (db_scan_from !d (unhex k) (dir = "f") (halt_of h)))
    | ["Q"; a; b; h] -> print_endline (show_res show_scan (db_scan_range !d (unhex a) (unhex b) (halt_of h)))
    | [("QA" | "QB") as o; a; n; h] ->
      (* bounds that alias one caller buffer: the full key and its first n bytes *)
      let full = unhex a in
      let rec take k l = match l with x :: r when k > 0 -> x :: take (k - 1) r | _ -> [] in
      let part = take (int_of_string n) full in
      let (x, y) = if o = "QA" then (full, part) else (part, full) in
      print_endline (show_res show_scan (db_scan_range !d x y (halt_of h)))
    | ["D"] ->
      let s = !d.st in
      let i z = string_of_int (int_of_z z) in
      let four f = String.concat "," [i (f C4); i (f C16); i (f C48); i (f C256)] in
      let a =
        if not blocks then "" else begin
          let t = " T=+" ^ multiset_str !got ^ "/-" ^ multiset_str !returned in
          got := []; returned := [];
          match !live with
          | None -> " A=MODEL-FREES-A-SIZE-NOT-LIVE" ^ t
          | Some l ->
            if multiset_str l <> multiset_str (db_blocks !sz !d) then " A=MODEL-LIVE-IS-NOT-THE-TREE" ^ t
            else " A=" ^ multiset_str l ^ t
        end in
      Printf.printf "%s L=%s N=%s G=%s S=%s SP=%s M=%s%s\n"
        (match !d.root with None -> "empty" | Some n -> canon n)
        (i s.n_leaf) (four s.n_i) (four s.grow) (four s.shrink) (i s.splits) (i s.mem) a
    | _ -> print_endline "?"
  done with End_of_file -> ())
