(* Conversions between OCaml strings/ints and the extracted Coq numbers. *)
open Model

(* Coq's String module / string type are extracted too; keep OCaml's in scope for the drivers *)
module String = Stdlib.String
type string = Stdlib.String.t
module List = Stdlib.List

let rec pos_of_int (n : int) : positive =
  if n = 1 then XH else if n land 1 = 0 then XO (pos_of_int (n lsr 1)) else XI (pos_of_int (n lsr 1))
let z_of_int (n : int) : z = if n = 0 then Z0 else if n > 0 then Zpos (pos_of_int n) else Zneg (pos_of_int (-n))
let rec int_of_pos = function XH -> 1 | XO p -> 2 * int_of_pos p | XI p -> 2 * int_of_pos p + 1
let int_of_z = function Z0 -> 0 | Zpos p -> int_of_pos p | Zneg p -> - (int_of_pos p)
let rec nat_of_int n = if n <= 0 then O else S (nat_of_int (n - 1))
let rec int_of_nat = function O -> 0 | S n -> 1 + int_of_nat n

let hexval c = match c with
  | '0'..'9' -> Char.code c - 48 | 'a'..'f' -> Char.code c - 87 | 'A'..'F' -> Char.code c - 55
  | _ -> failwith "hex digit"

(* bits, least significant first *)
let rec pos_of_bits = function
  | [] -> None
  | b :: r -> (match pos_of_bits r with
      | None -> if b then Some XH else None
      | Some p -> Some (if b then XI p else XO p))

let z_of_hex (s : string) : z =
  let neg = String.length s > 0 && s.[0] = '-' in
  let s = if neg then String.sub s 1 (String.length s - 1) else s in
  let bits = ref [] in
  String.iter (fun c -> let v = hexval c in
    bits := ((v land 1) <> 0) :: ((v land 2) <> 0) :: ((v land 4) <> 0) :: ((v land 8) <> 0) :: !bits) s;
  match pos_of_bits !bits with None -> Z0 | Some p -> if neg then Zneg p else Zpos p

let rec bits_of_pos = function XH -> [true] | XO p -> false :: bits_of_pos p | XI p -> true :: bits_of_pos p

let hex_of_pos p =
  let bits = Array.of_list (bits_of_pos p) in
  let n = Array.length bits in
  let nd = (n + 3) / 4 in
  let b = Buffer.create nd in
  for d = nd - 1 downto 0 do
    let v = ref 0 in
    for k = 3 downto 0 do
      let i = d * 4 + k in
      v := !v * 2 + (if i < n && bits.(i) then 1 else 0)
    done;
    Buffer.add_char b "0123456789abcdef".[!v]
  done;
  Buffer.contents b

let hex_of_z = function Z0 -> "0" | Zpos p -> hex_of_pos p | Zneg p -> "-" ^ hex_of_pos p

let bytes_of_hex (s : string) : z list =
  let n = String.length s / 2 in
  List.init n (fun i -> z_of_int (hexval s.[2*i] * 16 + hexval s.[2*i+1]))

let hex_of_bytes (l : z list) : string =
  let b = Buffer.create 64 in
  List.iter (fun z -> Buffer.add_string b (Printf.sprintf "%02x" (int_of_z z))) l;
  Buffer.contents b

let split_on c s = String.split_on_char c s |> List.filter (fun x -> x <> "")
