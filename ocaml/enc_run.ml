(* Model side of the encoder correspondence: reads script lines, runs the
   extracted model, prints one result line per input line. *)
open Model
open Zutil

let parse_text (t : string) : z list =
  (* "hex" or "bb*count:hex" (run of byte bb, then suffix) *)
  match String.index_opt t '*' with
  | None -> bytes_of_hex t
  | Some i ->
    let b = z_of_int (hexval t.[0] * 16 + hexval t.[1]) in
    let rest = String.sub t (i + 1) (String.length t - i - 1) in
    let (cnt, suf) = match String.index_opt rest ':' with
      | None -> (int_of_string rest, "")
      | Some j -> (int_of_string (String.sub rest 0 j), String.sub rest (j + 1) (String.length rest - j - 1)) in
    List.init cnt (fun _ -> b) @ bytes_of_hex suf

let parse_tok (tok : string) : eop =
  if tok = "R" then EReset else
  let k = tok.[0] in
  let colon = String.index tok ':' in
  let arg = String.sub tok (colon + 1) (String.length tok - colon - 1) in
  let n = if colon > 1 then int_of_string (String.sub tok 1 (colon - 1)) else 0 in
  match k with
  | 'U' -> EEnc (CU (nat_of_int n, z_of_hex arg))
  | 'I' -> EEnc (CI (nat_of_int n, z_of_hex arg))
  | 'F' -> EEnc (CF ((if n = 4 then f32 else f64), z_of_hex arg))
  | 'T' -> EEnc (CText (parse_text arg))
  | _ -> failwith ("bad token " ^ tok)

let show_comp = function
  | CU (_, v) -> hex_of_z v
  | CI (_, v) -> hex_of_z v
  | CF (_, v) -> hex_of_z v
  | CText _ -> "?"

let () =
  let st = ref enc_init in
  let since = ref [] in  (* components since last reset, reversed *)
  (try while true do
    let line = input_line stdin in
    if line = "N" then begin st := enc_init; since := []; print_endline "N" end
    else begin
      let ops = List.map parse_tok (split_on ' ' line) in
      List.iter (fun o -> match o with EReset -> since := [] | EEnc c -> since := c :: !since) ops;
      st := enc_run !st ops;
      let comps = List.rev !since in
      let fixed = List.for_all (fun c -> match c with CText _ -> false | _ -> true) comps in
      let dec =
        if not fixed then "-" else
        match decode_seq (List.map ty_of comps) !st.e_buf with
        | None -> "oob"
        | Some cs -> String.concat "," (List.map show_comp cs) in
      Printf.printf "V=%s C=%d D=%s\n" (hex_of_bytes !st.e_buf) (int_of_z !st.e_cap) dec
    end
  done with End_of_file -> ())
