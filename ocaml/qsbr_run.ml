(* Model side of the coarse QSBR correspondence (same protocol as harness/qsbr_coarse.cpp).
   Additionally prints " UNSAFE=<ptr:waiting...>" when a free happens with a non-empty waiting set. *)
open Model
open Zutil

let ids l = String.concat " " (List.map (fun z -> string_of_int (int_of_z z)) l)

let () =
  let n = if Array.length Sys.argv > 1 then int_of_string Sys.argv.(1) else 4 in
  let s = ref (qinit (nat_of_int n)) in
  let next = ref 0 in
  (try while true do
    let line = input_line stdin in
    match split_on ' ' line with
    | ["Z"; _] -> s := qinit (nat_of_int n); print_endline "Z"
    | [op; i] ->
      let t = nat_of_int (int_of_string i) in
      let o = match op with
        | "G" -> QRegister t | "U" -> QUnregister t | "Q" -> QQuiescent t
        | "R" -> let p = !next in incr next; QRetire (t, z_of_int p)
        | _ -> failwith "op" in
      if not (op_enabled !s o) then print_endline "DISABLED"
      else begin
        (* frees and their waiting sets are evaluated on the state before the ghost drop *)
        let (s1, f) = match o with
          | QRegister t -> q_register !s t | QUnregister t -> q_unregister !s t
          | QQuiescent t -> q_quiescent !s t | QRetire (t, p) -> q_retire !s t p in
        let unsafe = List.filter_map (fun p -> match wait_of s1.q_wait p with [] -> None
            | ws -> Some (string_of_int (int_of_z p) ^ ":" ^ String.concat "/" (List.map (fun t -> string_of_int (int_of_nat t)) ws))) f in
        let (s2, _) = qstep !s o in
        s := s2;
        let b = Buffer.create 200 in
        Buffer.add_string b (Printf.sprintf "E=%d T=%d P=%d" (int_of_z s2.q_ep) (int_of_z s2.q_T) (int_of_z s2.q_P));
        Buffer.add_string b (" OP=" ^ String.concat "|" (List.map ids s2.q_oprev));
        Buffer.add_string b (" OC=" ^ String.concat "|" (List.map ids s2.q_ocur));
        List.iteri (fun k x ->
          if x.t_reg then
            Buffer.add_string b (Printf.sprintf " t%d=1,%d,%d,%d,[%s],[%s]" k (int_of_z x.t_lsq) (int_of_z x.t_ls) (int_of_z x.t_qs) (ids x.t_prev) (ids x.t_cur))
          else Buffer.add_string b (Printf.sprintf " t%d=0" k)) s2.q_thr;
        Buffer.add_string b (" F=" ^ ids f);
        if unsafe <> [] then Buffer.add_string b (" UNSAFE=" ^ String.concat "," unsafe);
        print_endline (Buffer.contents b)
      end
    | _ -> print_endline "?"
  done with End_of_file -> ())
