(* Model side of the qsbr_ptr correspondence: the extracted interpreter run on
   the method table generated from qsbr_ptr.hpp (same protocol as harness/ptr_diff.cpp). *)
open Model
open Zutil

let () =
  let s = ref pinit in
  (try while true do
    let line = input_line stdin in
    let t = split_on ' ' line in
    let n i = nat_of_int (int_of_string (List.nth t i)) in
    let zi i = z_of_int (int_of_string (List.nth t i)) in
    let op = match List.hd t with
      | "P" -> let off = int_of_string (List.nth t 2) in Some (OpCtorPtr (n 1, z_of_int (if off < 0 then 0 else off + 2048 + 1000)))
      | "D" -> Some (OpCtorDefault (n 1))
      | "C" -> Some (OpCtorCopy (n 1, n 2)) | "M" -> Some (OpCtorMove (n 1, n 2))
      | "AC" -> Some (OpAssignCopy (n 1, n 2)) | "AM" -> Some (OpAssignMove (n 1, n 2))
      | "I" -> Some (OpPreInc (n 1)) | "J" -> Some (OpPreDec (n 1))
      | "PI" -> Some (OpPostInc (n 1, n 2)) | "PD" -> Some (OpPostDec (n 1, n 2))
      | "AA" -> Some (OpAddAssign (n 1, zi 2)) | "SA" -> Some (OpSubAssign (n 1, zi 2))
      | "A" -> Some (OpAdd (n 1, n 2, zi 3)) | "S" -> Some (OpSub (n 1, n 2, zi 3))
      | "X" -> Some (OpDtor (n 1))
      | _ -> None in
    let extra = ref "" in
    (match op with
     | Some o ->
       if not (pop_ok !s o) then extra := " NOTOK"
       else (match pstep ptr_methods !s o with Some s' -> s := s' | None -> extra := " STUCK")
     | None -> if List.hd t = "V" then extra := (if quiescent_allowed !s then " Q=accepted" else " Q=rejected"));
    let vs = List.sort compare (List.map (fun (i, v) -> (int_of_nat i, int_of_z v)) !s.vals) in
    let rs = List.sort compare (List.map int_of_z !s.reg) in
    Printf.printf "%s| R=%s%s\n" (String.concat "" (List.map (fun (i, v) -> Printf.sprintf "%d:%d " i v) vs))
      (String.concat "," (List.map string_of_int rs)) !extra
  done with End_of_file -> ());
  print_endline "SPAN ok"
