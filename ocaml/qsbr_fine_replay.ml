(* Replays the event traces printed by harness/qsbr_sched --trace 1 through the
   extracted fine-grained acceptor QsbrFine.fstep.  One verdict line per
   execution (suppressed for accepted ones with -q), then a summary line.
   An accepted execution whose ghost recorded an unsafe free is reported as BAD. *)
open Model
open Zutil

let op_of_code = function
  | 0x53 -> OpStart | 0x55 -> OpResume | 0x51 -> OpQuiescent | 0x52 -> OpRetire
  | 0x50 -> OpPause | 0x45 -> OpExit
  | c -> failwith (Printf.sprintf "op code %x" c)

let ol_of = function "0" -> OPrev | "1" -> OCur | s -> failwith ("orphan list " ^ s)

(* epoch field (bits 62..63) of a hex word *)
let epoch_of_hex (s : string) : int =
  if String.length s < 16 then 0 else hexval s.[0] lsr 2

let parse tid k a b c : fevent option =
  let t = nat_of_int tid in
  match k with
  | "CALL" -> Some (FCall (t, op_of_code (int_of_string ("0x" ^ a)), z_of_hex b))
  | "RET" -> Some (FRet (t, op_of_code (int_of_string ("0x" ^ a))))
  | "QLOAD" -> Some (FLoad (t, z_of_hex a))
  | "QCAS" -> Some (FCas (t, z_of_hex a, z_of_hex b))
  | "QFSUB" -> Some (FFetchSub (t, z_of_hex a))
  | "QSPIN" -> Some (FSpin t)
  | "OLOAD" -> Some (FOLoad (t, ol_of c, z_of_hex a))
  | "OCAS" -> Some (FOCas (t, ol_of c, z_of_hex a, z_of_hex b))
  | "OXCHG" -> Some (FOXchg (t, ol_of c, z_of_hex a))
  | "OMOVE" -> Some (FOMove (t, z_of_hex a, z_of_hex b))
  | "OAPPEND" -> Some (FOAppend (t, z_of_hex a))
  | "ALLOC" -> Some (FAlloc (t, z_of_hex c))
  | "RETIRE" -> Some (FRetire (t, z_of_hex c))
  | "FREE" -> Some (FFree (t, z_of_hex c))
  | _ -> None

(* coverage: how often each program counter took a step, and what it became *)
let pc_name = function
  | PIdle -> "Idle" | PRet -> "Ret" | PRegLoad -> "RegLoad" | PRegCas _ -> "RegCas" | PRegSpin _ -> "RegSpin"
  | PRetObs _ -> "RetObs" | PRetLoad _ -> "RetLoad" | PQLoad -> "QLoad" | PRmFsub (CallQ _, _) -> "RmFsub/Q"
  | PRmFsub (CallU _, _) -> "RmFsub/U" | PChXPrev _ -> "ChXPrev" | PChXCur _ -> "ChXCur" | PChMove _ -> "ChMove"
  | PChAppend _ -> "ChAppend" | PChLoad _ -> "ChLoad" | PChCas _ -> "ChCas" | PULoad _ -> "ULoad"
  | PUCas u -> if int_of_z u.u_old.w_P = 0 then "UCas/inprogress" else "UCas" | POLoad _ -> "OLoad" | POCas _ -> "OCas"

let cov : (string, int) Hashtbl.t = Hashtbl.create 64
let tally k = Hashtbl.replace cov k (1 + try Hashtbl.find cov k with Not_found -> 0)

let rec run_cov s tr i =
  match tr with
  | [] -> (s, None)
  | e :: tr' ->
    (match fstep s e with
     | Some s' ->
       let t = ev_tid e in
       let free = (match e with FFree _ -> true | _ -> false) in
       if not free then tally (pc_name (get_fthr s t).ft_pc ^ " -> " ^ pc_name (get_fthr s' t).ft_pc);
       run_cov s' tr' (S i)
     | None -> (s, Some i))

let () =
  let coverage = Array.exists (fun a -> a = "-cov") Sys.argv in
  let quiet = Array.exists (fun a -> a = "-q") Sys.argv in
  let evs = ref [] and lines = ref [] in
  let sched = ref "" in
  let maxtid = ref 0 and ep0 = ref (-1) in
  let n = ref 0 and rejected = ref 0 and nev = ref 0 and nbad = ref 0 and nprob = ref 0 and leftover = ref 0 in
  (try while true do
    let line = input_line stdin in
    match split_on ' ' line with
    | "X" :: _ -> evs := []; lines := []; sched := line; maxtid := 0; ep0 := -1
    | ["E"; tid; k; a; b; c] ->
      let tid = int_of_string tid in
      if tid > !maxtid then maxtid := tid;
      if !ep0 < 0 && k = "QLOAD" then ep0 := epoch_of_hex a;
      (match parse tid k a b c with
       | Some e -> evs := e :: !evs; lines := line :: !lines
       | None -> failwith ("event " ^ line))
    | "P" :: _ -> incr nprob; print_endline line
    | ["Y"] ->
      incr n;
      let tr = List.rev !evs in
      nev := !nev + List.length tr;
      let s0 = finit (nat_of_int (!maxtid + 1)) (z_of_int (max !ep0 0)) in
      (match (if coverage then run_cov s0 tr O else frun_diag s0 tr O) with
       | (s, None) ->
         let bad = fbad s in
         if bad <> [] then begin
           incr nbad;
           Printf.printf "BAD %d unsafe free(s), first %s :: %s\n" (List.length bad)
             (hex_of_z (fst (List.hd bad))) !sched
         end else if not quiet then print_endline "ok";
         leftover := !leftover + List.length (fpending s)
       | (_, Some i) ->
         incr rejected;
         let i = int_of_nat i in
         Printf.printf "REJECT at event %d: %s :: %s\n" i (List.nth (List.rev !lines) i) !sched)
    | _ -> ()
  done with End_of_file -> ());
  if coverage then
    List.iter (fun (k, v) -> Printf.printf "C %-28s %d\n" k v)
      (List.sort compare (Hashtbl.fold (fun k v l -> (k, v) :: l) cov []));
  Printf.printf "T traces=%d rejected=%d events=%d bad=%d harness_problems=%d pending_at_end=%d\n"
    !n !rejected !nev !nbad !nprob !leftover
