"""C08: strong exception guarantee.  Coq theorems over the allocate-then-commit
fault model (coq/Art/ArtFault.v) + exhaustive fault enumeration on the
implementation: for every insert/remove of generated histories and every k the
library's own injector fails the k-th allocation, the state must be observably
unchanged and the retry must give the normal result; the number of allocation
points per operation is compared with the model's prediction.  Length errors
and QSBR start / resume / request failures are enumerated too."""
import os, json
from vlib import *
import artgen

DBG_HOOKS = ['-O1', '-DUNODB_DETAIL_WITH_STATS', '-DUNODB_DETAIL_STANDALONE', '-DUNODB_SPINLOCK_LOOP_VALUE=1', '-DUNODB_DETAIL_VERIF_HOOKS']
CLASSES = ['db', 'mutex', 'olc']
KINDS = ['u64', 'bytes']


def histories(tier, kind):
    hs = artgen.histories('quick', seed(), kind, scan_ops=False)
    if tier != 'thorough':
        td = [h for h in hs if h.tag.startswith('teardown')]
        hs = [h for h in hs if not h.tag.startswith('teardown')][:18] + td[::6]
    out = []
    for h in hs:
        if 'k1' in h.tag:
            continue
        ops = [o for o in h.ops if o[0] in 'NIRG']
        # length-error probes in the middle and at the end
        mid = len(ops) // 2
        ops = ops[:mid] + ['LV', 'LK'] + ops[mid:] + ['LV']
        out.append((h.tag, ops))
    return out


def check(pid, tier, replay=None):
    res = Result(pid, tier)
    res.assumptions = [
        'the library\'s allocation_failure_injector (test_heap.hpp) fails the k-th and every later allocation until reset',
        'OLC index with a single registered thread (deferred deallocations execute at once)',
        'model: all allocations of an operation precede its first change of the tree (checked on the implementation by the '
        'enumeration; for unodb::db also by C08b: the order of allocation / accounting / publication extracted from the source)',
        'C08b: effect tokens are classified by callee / member names (tools/fault2v.py); stores are recognised only at *node, '
        '*node_in_parent, root and through the listed helpers on existing nodes; std:: callees are whitelisted by name',
    ]
    # C08b: effect shapes of insert_internal / remove_internal regenerated from the source (tools/fault2v.py)
    proof_stage(res, ['fault'], ['Properties/Properties_C08.v', 'Properties/Properties_C08b.v'], pid)
    res.coverage['trusted_base'] = TRUSTED_COMMON + [
        'translator tools/fault2v.py over clang 14 JSON AST of the instantiated db<uint64_t, value_view> (C08b)',
        'extraction: ExtrOcamlBasic only; ocaml/art_run.ml (allocs mode)',
        'harness/fault_enum.cpp built without NDEBUG (library assertions and injector active) with the allocation hooks',
    ]
    srcs = [os.path.join(VERIF, 'harness', 'fault_enum.cpp')] + [os.path.join(REPO, f) for f in ('qsbr.cpp', 'qsbr_ptr.cpp', 'art_internal.cpp', 'test_heap.cpp')]
    with Lock():
        err = extract_and_build_ocaml(['art_run'])
        b, berr = build_cxx('fault_enum', srcs, DBG_HOOKS)
    if err or berr:
        res.violation('cannot build the fault enumeration: ' + (err or berr)[-800:], {'kind': 'build'}, found_input=False)
        return res.finish()
    if replay:
        rp = json.load(open(replay))
        rc, a, e = sh([os.path.join(BIN, 'fault_enum'), rp['class'], rp['kind']], input='\n'.join(rp['ops']) + '\n', timeout=300)
        print(a, e[-500:])
        return 0
    total_ops = faults = nbad = ncorr = 0
    dist = {}
    samples = []
    from concurrent.futures import ThreadPoolExecutor
    jobs = []
    for kind in KINDS:
        hs = histories(tier, kind)
        lines = []
        spans = []
        for tag, ops in hs:
            spans.append((len(lines), len(lines) + len(ops), tag))
            lines += ops
        for cls in CLASSES:
            jobs.append((cls, kind, lines, spans))

    def run(job):
        cls, kind, lines, spans = job
        text = '\n'.join(lines) + '\n'
        rc, a, e = sh([os.path.join(BIN, 'fault_enum'), cls, kind], input=text, timeout=3000)
        rc2, m, e2 = sh([os.path.join(OCAML, 'art_run'), 'allocs'], input=text, timeout=3000)
        return job, rc, a.splitlines(), e, m.splitlines()
    with ThreadPoolExecutor(max_workers=6) as ex:
        outs = list(ex.map(run, jobs))
    for (cls, kind, lines, spans), rc, A, e, M in outs:
        if rc != 0 or len(A) != len(lines):
            at = len(A)
            sp = [s for s in spans if s[0] <= at < s[1]] or [spans[-1]]
            res.violation('fault enumeration stopped (rc=%d) on %s/%s in history %s after %d ops (assertion failure, crash or hang): %s'
                          % (rc, cls, kind, sp[0][2], at - sp[0][0], (e or '')[-400:]),
                          {'kind': 'crash', 'class': cls, 'kind_': kind, 'ops': lines[sp[0][0]:min(at + 1, sp[0][1])]})
            continue
        for (lo, hi, tag) in spans:
            dist[tag.split('-')[0]] = dist.get(tag.split('-')[0], 0) + 1
            for j in range(lo, hi):
                if lines[j][0] not in 'IRL':
                    continue
                total_ops += 1
                a = A[j]
                if ' a=' in a:
                    faults += int(a.split(' a=')[1].split()[0])
                if 'PROBLEM' in a or 'NO-length_error' in a:
                    nbad += 1
                    if nbad <= 3:
                        res.violation('C08 violated on the implementation (%s/%s, history %s): %s: %s' % (cls, kind, tag, lines[j][:60], a[:200]),
                                      {'kind': 'property-on-implementation', 'class': cls, 'kind': kind, 'ops': lines[lo:j + 1], 'impl': a})
                    break
                if a != M[j]:
                    ncorr += 1
                    if ncorr <= 3:
                        res.violation('model and implementation disagree on the result / number of allocation points (%s/%s, history %s, %s): '
                                      'impl %s / model %s; the strong-guarantee checks on the implementation did not fail'
                                      % (cls, kind, tag, lines[j][:60], a[:80], M[j][:80]),
                                      {'kind': 'correspondence', 'class': cls, 'kind': kind, 'ops': lines[lo:j + 1],
                                       'broken': 'fault_enum vs extracted ArtFault allocation counts'}, found_input=False)
                    break
        if len(samples) < 2:
            lo, hi, tag = spans[min(3, len(spans) - 1)]
            samples.append({'class': cls, 'kind': kind, 'ops': lines[lo:hi][:10], 'impl': A[lo:hi][:10]})
    rc, o, e = sh([os.path.join(BIN, 'fault_enum'), 'qsbr'], timeout=300)
    res.coverage['qsbr_faults'] = o.strip().splitlines()
    if rc != 0 or 'QSBR problems=0' not in o:
        res.violation('C08 violated on the implementation (QSBR thread start / resume / deallocation request under allocation failure): '
                      + (o + e)[-400:], {'kind': 'property-on-implementation', 'cmd': 'build/bin/fault_enum qsbr', 'output': o})
    if not res.proof_ok and not res.violations:
        res.violation('proof obligation no longer checks: ' + ' | '.join(res.broken)[:500],
                      {'kind': 'proof', 'broken': res.broken, 'log': res.proof_log[-1500:]}, found_input=False)
    elif not res.proof_ok:
        res.coverage['broken_obligations'] = res.broken
    res.coverage.update({
        'evaluations': total_ops + faults, 'operations_faulted': total_ops, 'fault_points_enumerated': faults,
        'distinct_nontrivial': faults,
        'rule': 'every insert / remove of the C01 histories (corpus, dense, mixed, variable-length) on db, mutex_db, olc_db x uint64 / '
                'byte-string keys: for k = 1, 2, ... fail the k-th allocation until the operation succeeds (so every allocation point of '
                'every operation is hit once), compare dump / statistics / scan / live allocation set before and after each failure; '
                'over-long key and value probes; QSBR thread start, resume and deferred-deallocation requests likewise',
        'input_distribution': dist, 'disagreements_found': ncorr, 'property_failures_on_impl': nbad, 'exhaustive': True,
    })
    res.coverage['samples'] = samples
    return res.finish()
