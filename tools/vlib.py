"""Common machinery for the checks: locking, generation, Coq build and
obligation accounting, harness builds, evidence, violations, known findings."""
import fcntl, hashlib, json, os, re, subprocess, sys, time, glob, shutil

VERIF = os.path.dirname(os.path.dirname(os.path.abspath(__file__)))
REPO = os.environ.get('VERIF_REPO', '/repo')
COQ = os.path.join(VERIF, 'coq')
BUILD = os.path.join(VERIF, 'build')
BIN = os.path.join(BUILD, 'bin')
OCAML = os.path.join(BUILD, 'ocaml')
EVID = os.environ.get('VERIF_EVIDENCE_DIR') or os.path.join(VERIF, 'evidence')
REPLAYS = os.path.join(EVID, 'replays')
NPROC = 16

FORBIDDEN = re.compile(r'\b(Admitted|admit|Axiom|Axioms|Parameter|Parameters|Conjecture|Conjectures)\b|Unset\s+Guard|bypass_check|Admit\s+Obligations|type-in-type|impredicative-set|Unset\s+Universe|Unset\s+Positivity')

# axioms declared by the Coq standard library itself that theorems may depend on (only C11b does, through Flocq's
# b32_of_bits / b64_of_bits and Bcompare_correct); anything else reported by Print Assumptions / coqchk is a broken obligation
STDLIB_AXIOMS = {
    'ClassicalDedekindReals.sig_not_dec', 'ClassicalDedekindReals.sig_forall_dec',
    'FunctionalExtensionality.functional_extensionality_dep', 'Classical_Prop.classic',
    'Coq.Reals.ClassicalDedekindReals.sig_not_dec', 'Coq.Reals.ClassicalDedekindReals.sig_forall_dec',
    'Coq.Logic.FunctionalExtensionality.functional_extensionality_dep', 'Coq.Logic.Classical_Prop.classic',
}

TRUSTED_COMMON = [
    'Coq 8.16.1 kernel (coqc, full .vo build; vm_compute used, native_compute not used)',
    'no axioms declared by the development (grep gate + Print Assumptions per theorem)',
]


def _limit_memory():
    """address-space cap for every child (harness binaries, coqc, ocaml drivers): a seeded or real defect that corrupts the heap
    can make a harness allocate without bound (observed: 45 GB); the run then ends with an allocation failure / abort,
    which the caller reports, instead of exhausting the machine"""
    try:
        import resource
        gb = int(os.environ.get('VERIF_MEM_GB', '12'))
        resource.setrlimit(resource.RLIMIT_AS, (gb << 30, gb << 30))
    except Exception:
        pass


def sh(cmd, timeout=600, cwd=None, env=None, input=None):
    e = dict(os.environ)
    if env:
        e.update(env)
    try:
        p = subprocess.run(cmd, shell=isinstance(cmd, str), cwd=cwd, env=e, input=input,
                           capture_output=True, text=True, timeout=timeout, preexec_fn=_limit_memory)
        return p.returncode, p.stdout, p.stderr
    except subprocess.TimeoutExpired as ex:
        out = ex.stdout.decode() if isinstance(ex.stdout, bytes) else (ex.stdout or '')
        err = ex.stderr.decode() if isinstance(ex.stderr, bytes) else (ex.stderr or '')
        return 124, out, err + '\nTIMEOUT after %ss' % timeout


class Lock:
    """Serialises generate/prove/extract/build stages between concurrent checks."""

    def __init__(self, name='build'):
        os.makedirs(BUILD, exist_ok=True)
        self.path = os.path.join(BUILD, '.%s.lock' % name)

    def __enter__(self):
        self.f = open(self.path, 'w')
        fcntl.flock(self.f, fcntl.LOCK_EX)
        return self

    def __exit__(self, *a):
        fcntl.flock(self.f, fcntl.LOCK_UN)
        self.f.close()


def seed():
    try:
        return int(os.environ.get('VERIF_SEED', '1'))
    except ValueError:
        return 1


class Rng:
    """Small deterministic PRNG (splitmix64) so every random choice derives from VERIF_SEED."""

    def __init__(self, s):
        self.s = (s * 0x9E3779B97F4A7C15 + 0x1234567) & 0xFFFFFFFFFFFFFFFF

    def next(self):
        self.s = (self.s + 0x9E3779B97F4A7C15) & 0xFFFFFFFFFFFFFFFF
        z = self.s
        z = ((z ^ (z >> 30)) * 0xBF58476D1CE4E5B9) & 0xFFFFFFFFFFFFFFFF
        z = ((z ^ (z >> 27)) * 0x94D049BB133111EB) & 0xFFFFFFFFFFFFFFFF
        return z ^ (z >> 31)

    def below(self, n):
        return self.next() % n

    def choice(self, l):
        return l[self.below(len(l))]

    def chance(self, num, den):
        return self.below(den) < num


# ---------------------------------------------------------------- Coq

def coq_makefile():
    mk = os.path.join(COQ, 'Makefile')
    cp = os.path.join(COQ, '_CoqProject')
    if not os.path.exists(mk) or os.path.getmtime(mk) < os.path.getmtime(cp):
        rc, o, e = sh('coq_makefile -f _CoqProject -o Makefile', cwd=COQ)
        if rc != 0:
            raise RuntimeError('coq_makefile failed: ' + e)


def grep_gate():
    bad = []
    for p in glob.glob(os.path.join(COQ, '**', '*.v'), recursive=True):
        for i, line in enumerate(open(p, errors='replace'), 1):
            if FORBIDDEN.search(line):
                bad.append('%s:%d: %s' % (os.path.relpath(p, VERIF), i, line.strip()[:120]))
    return bad


def run_gen(targets):
    """Regenerate coq/Gen from /repo's current headers. Returns dict of errors."""
    # every generated file named in _CoqProject must exist for make to run at all: (re)generate the ones that are
    # missing as well (e.g. a check invoked without setup.sh); their errors only matter to the checks that use them
    want = list(targets)
    try:
        listed = [l.strip()[4:-2] for l in open(os.path.join(COQ, '_CoqProject')) if l.startswith('Gen/')]
        byfile = {'GenEncode': 'enc', 'GenFloat': 'float', 'GenLockWord': 'lock', 'GenQsbrState': 'qsbr', 'GenKeyPrefix': 'prefix', 'GenCompare': 'compare', 'GenSizes': 'sizes',
                  'GenMutexMethods': 'mutex', 'GenPtrMethods': 'ptr', 'GenAsserts': 'asserts', 'GenFaultShape': 'fault'}
        for f in listed:
            if not os.path.exists(os.path.join(COQ, 'Gen', f + '.v')) and byfile.get(f) and byfile[f] not in want:
                want.append(byfile[f])
    except OSError:
        pass
    rc, o, e = sh([sys.executable, os.path.join(VERIF, 'tools', 'gen.py')] + want, timeout=900)
    errs = {}
    for line in o.splitlines():
        m = re.match(r'GEN-ERROR (\w+): (.*)', line)
        if m and m.group(1) in targets:
            errs[m.group(1)] = m.group(2)
    if rc not in (0, 1):
        errs['gen.py'] = (e or o)[-1500:]
    return errs


def theorem_names(vfile):
    names = []
    for line in open(vfile):
        m = re.match(r'\s*(Theorem|Lemma|Example|Corollary)\s+([A-Za-z0-9_\']+)', line)
        if m:
            names.append(m.group(2))
    return names


def coq_prove(prop_files, timeout=1500):
    """make -k the given Properties files (forcing their recompilation so that
    Print Assumptions output is fresh).  Returns a dict:
      obligations, discharged, failed: [(file, line, msg)], assumptions: {thm: text}"""
    coq_makefile()
    targets = []
    for f in prop_files:
        vo = os.path.join(COQ, f[:-2] + '.vo')
        if os.path.exists(vo):
            os.remove(vo)
        targets.append(f[:-2] + '.vo')
    rc, o, e = sh(['make', '-k', '-j%d' % NPROC] + targets, cwd=COQ, timeout=timeout)
    text = o + '\n' + e
    failed = []
    for m in re.finditer(r'File "\./([^"]+)", line (\d+), characters [\d-]+:\s*\n(Error:.*?)(?=\n\S*make|\nFile |\Z)', text, re.S):
        failed.append((m.group(1), int(m.group(2)), ' '.join(m.group(3).split())[:400]))
    if rc != 0 and not failed:
        failed.append(('make', 0, text[-800:]))
    obligations = 0
    discharged = 0
    per_file = {}
    for f in prop_files:
        names = theorem_names(os.path.join(COQ, f))
        obligations += len(names)
        ok = os.path.exists(os.path.join(COQ, f[:-2] + '.vo'))
        per_file[f] = ok
        if ok:
            discharged += len(names)
        else:
            # which theorems precede the failing line in this file
            fl = [x for x in failed if x[0] == f]
            if fl:
                line = fl[0][1]
                cnt = 0
                for i, l in enumerate(open(os.path.join(COQ, f)), 1):
                    if i >= line:
                        break
                    if re.match(r'\s*(Qed|Defined)\.', l):
                        cnt += 1
                discharged += cnt
    # assumptions: one block per Print Assumptions in stdout: "Closed under the global context" or
    # "Axioms:" followed by "name : type" entries (the type may continue on indented lines)
    axioms = set()
    closed_blocks = axiom_blocks = 0
    in_ax = False
    for l in o.splitlines():
        if l.startswith('Closed under the global context'):
            closed_blocks += 1
            in_ax = False
        elif l.startswith('Axioms:'):
            axiom_blocks += 1
            in_ax = True
        elif in_ax:
            if not l.strip() or l.startswith('COQC') or l.startswith('make') or l.startswith('File '):
                in_ax = False
            elif not l[0].isspace():
                axioms.add(l.split()[0].rstrip(':'))
    return {'obligations': obligations, 'discharged': discharged, 'failed': failed,
            'per_file': per_file, 'axioms': sorted(axioms), 'closed_blocks': closed_blocks,
            'axiom_blocks': axiom_blocks, 'log': text[-3000:]}


def extract_and_build_ocaml(drivers, timeout=600):
    """Re-extract model.ml and build the given OCaml drivers (names without .ml)."""
    os.makedirs(OCAML, exist_ok=True)
    coq_makefile()
    # the models must be compiled (not the proofs)
    rc, o, e = sh(['make', '-k', '-j%d' % NPROC, 'Extract/Extract.vo'], cwd=COQ, timeout=timeout)
    if rc != 0:
        return 'model build/extraction failed: ' + (o + e)[-1500:]
    rc, o, e = sh(['coqc', '-Q', COQ, 'Unodb', os.path.join(COQ, 'Extract', 'Extract.v')], cwd=OCAML, timeout=timeout)
    if rc != 0:
        return 'extraction failed: ' + (o + e)[-1500:]
    for f in glob.glob(os.path.join(VERIF, 'ocaml', '*.ml')):
        shutil.copy(f, OCAML)
    for d in drivers:
        deps = ['model.mli', 'model.ml', 'zutil.ml']
        extra = DRIVER_DEPS.get(d, [])
        rc, o, e = sh(['ocamlfind', 'ocamlopt', '-w', '-a', '-O3'] + deps + extra + [d + '.ml', '-o', d], cwd=OCAML, timeout=timeout)
        if rc != 0:
            return 'ocaml build of %s failed: %s' % (d, (o + e)[-1500:])
    return None


DRIVER_DEPS = {}

CXX = ['g++', '-std=c++20', '-mavx2', '-I' + REPO, '-I' + os.path.join(VERIF, 'harness')]


def build_cxx(name, sources, flags=(), out=None, timeout=900):
    """Compile a harness against /repo's current working tree."""
    os.makedirs(BIN, exist_ok=True)
    outp = os.path.join(BIN, out or name)
    cmd = CXX + list(flags) + list(sources) + ['-o', outp, '-lpthread']
    rc, o, e = sh(cmd, timeout=timeout)
    if rc != 0:
        return None, (o + e)[-3000:]
    return outp, None


# ---------------------------------------------------------------- findings / evidence

def known_findings():
    p = os.path.join(VERIF, 'known_findings.json')
    if not os.path.exists(p):
        return []
    return json.load(open(p)).get('findings', [])


class Result:
    def __init__(self, pid, tier):
        self.pid = pid
        self.tier = tier
        self.t0 = time.time()
        self.violations = []   # (summary, replay dict, found_input: bool)
        self.known_hits = []
        self.coverage = {'samples': []}
        self.assumptions = []
        self.level = 'proof'

    def violation(self, summary, replay, found_input=True, signature=None):
        """signature: a string matched against known_findings entries (status 'known')."""
        for k in known_findings():
            if k.get('status') == 'known' and k.get('property') == self.pid and signature is not None \
                    and signature == k.get('signature'):
                self.known_hits.append((k, summary))
                return
        self.violations.append((summary, replay, found_input))

    def finish(self):
        os.makedirs(EVID, exist_ok=True)
        os.makedirs(REPLAYS, exist_ok=True)
        seen = set()
        for k, summary in self.known_hits:
            if k['id'] in seen:
                continue
            seen.add(k['id'])
            print('KNOWN-FINDING: property=%s %s (%s)' % (self.pid, k['what'], k['id']))
        rc = 0
        for summary, replay, found in self.violations:
            h = hashlib.sha256(json.dumps(replay, sort_keys=True, default=str).encode()).hexdigest()[:12]
            path = os.path.join(REPLAYS, '%s-%s.json' % (self.pid, h))
            replay = dict(replay)
            replay['summary'] = summary
            replay['property'] = self.pid
            replay['replay_cmd'] = './check %s --replay %s' % (self.pid, os.path.relpath(path, VERIF))
            json.dump(replay, open(path, 'w'), indent=1, default=str)
            print('VIOLATION property=%s replay=%s%s' % (self.pid, path, '' if found else ' no-failing-input-found'))
            print('  ' + summary[:600])
            rc = 1
        ev = {
            'property_id': self.pid,
            'tier': self.tier,
            'seed': seed(),
            'level': self.level,
            'coverage': self.coverage,
            'assumptions': self.assumptions,
            'wall_s': round(time.time() - self.t0, 2),
            'violations': len(self.violations),
        }
        ev['coverage']['known_findings_hit'] = sorted(seen)
        json.dump(ev, open(os.path.join(EVID, self.pid + '.json'), 'w'), indent=1, default=str)
        return rc


def proof_stage(res, gen_targets, prop_files, what):
    """generate + prove; records coverage and reports broken obligations.
    Returns True when every obligation was discharged."""
    with Lock():
        bad = grep_gate()
        gerrs = run_gen(gen_targets)
        pr = coq_prove(prop_files)
    cov = res.coverage
    cov['obligations'] = pr['obligations']
    cov['discharged'] = pr['discharged']
    cov['checker_cmd'] = 'tools/gen.py %s && make -k -C coq %s (coqc 8.16.1, full .vo)' % (
        ' '.join(gen_targets), ' '.join(f[:-2] + '.vo' for f in prop_files))
    cov['print_assumptions'] = {'closed_under_global_context': pr['closed_blocks'], 'with_axioms': pr['axiom_blocks'],
                                'axioms': pr['axioms']}
    cov['generated_from_source'] = list(gen_targets)
    ok = True
    if bad:
        ok = False
        res.violation('forbidden construct in the Coq development: ' + '; '.join(bad[:5]),
                      {'kind': 'grep-gate', 'hits': bad}, found_input=False)
    res.broken = []
    for a in pr['axioms']:
        if a not in STDLIB_AXIOMS:
            ok = False
            res.broken.append('a theorem depends on an axiom outside the named standard-library set: ' + a)
    for t, e in gerrs.items():
        ok = False
        res.broken.append('translator failed on %s: %s' % (t, e))
    for f, line, msg in pr['failed']:
        ok = False
        res.broken.append('%s:%d %s' % (f, line, msg))
    if pr['discharged'] != pr['obligations'] and not res.broken:
        ok = False
        res.broken.append('not all obligations discharged: %d of %d' % (pr['discharged'], pr['obligations']))
    if ok and res.tier == 'thorough':
        # independent re-check of the compiled property files and everything they depend on
        mods = ['Unodb.' + f[:-2].replace('/', '.') for f in prop_files]
        rc, o, e = sh(['coqchk', '-o', '-silent', '-Q', '.', 'Unodb'] + mods, cwd=COQ, timeout=3000)
        summ = o[o.find('CONTEXT SUMMARY'):] if 'CONTEXT SUMMARY' in o else (o + e)[-800:]
        ax = ''
        if '* Axioms:' in summ:
            ax = summ.split('* Axioms:')[1].split('* Constants')[0].strip()
        cov['coqchk'] = {'rc': rc, 'modules': mods, 'axioms': ax or '?'}
        names = [] if ax == '<none>' else [x.strip() for x in ax.replace('\n', ' ').split() if '.' in x and ':' not in x]
        if rc != 0 or not ax or any(n not in STDLIB_AXIOMS for n in names):
            ok = False
            res.broken.append('coqchk: rc=%s axioms=%s' % (rc, ax[:300]))
    res.proof_ok = ok
    res.proof_log = pr['log']
    return ok
