#!/bin/sh
# usage: mkseedwt.sh <dir>  : scratch worktree of /repo HEAD with a configured + built _build (same options as the baseline)
wt="$1"
git -C /repo worktree remove --force "$wt" 2>/dev/null; git -C /repo worktree prune
git -C /repo worktree add --detach "$wt" HEAD >/dev/null 2>&1 || exit 1
for s in googletest benchmark deepstate; do
  rmdir "$wt/3rd_party/$s" 2>/dev/null; [ -d /repo/3rd_party/$s ] && cp -r /repo/3rd_party/$s "$wt/3rd_party/$s"
done
cmake -G Ninja -S "$wt" -B "$wt/_build" -DCMAKE_BUILD_TYPE=RelWithDebInfo -DCMAKE_CXX_FLAGS=-Wno-error -DSTATS=ON -DTESTS=ON -DBENCHMARKS=OFF > "$wt/_build.cfg.log" 2>&1 || { tail -20 "$wt/_build.cfg.log"; exit 1; }
cmake --build "$wt/_build" -j${JOBS:-10} > "$wt/_build.log" 2>&1 || { tail -30 "$wt/_build.log"; exit 1; }
echo ok
