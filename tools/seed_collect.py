#!/usr/bin/env python3
"""Copy the seeded changes a sub-agent produced (/tmp/mut_<ID>_out/<n>/) into /verif/seeded/<ID>/<n>/
(patch.diff, meta.json, demonstration files; no binaries, nothing above 300 kB)."""
import sys, os, shutil, json
VERIF = os.path.dirname(os.path.dirname(os.path.abspath(__file__)))
pid = sys.argv[1]
src = '/tmp/mut_%s_out' % pid
n = 0
for d in sorted(os.listdir(src)):
    sd = os.path.join(src, d)
    if not (os.path.isdir(sd) and os.path.exists(os.path.join(sd, 'patch.diff'))):
        continue
    dd = os.path.join(VERIF, 'seeded', pid, d)
    os.makedirs(dd, exist_ok=True)
    for f in sorted(os.listdir(sd)):
        fp = os.path.join(sd, f)
        if not os.path.isfile(fp) or os.path.getsize(fp) > 300000:
            continue
        with open(fp, 'rb') as fh:
            head = fh.read(4)
        if head == b'\x7fELF':
            continue
        shutil.copy(fp, os.path.join(dd, f))
    mp = os.path.join(dd, 'meta.json')
    if not os.path.exists(mp):
        json.dump({'property': pid, 'title': d}, open(mp, 'w'), indent=1)
    else:
        m = json.load(open(mp))
        m.setdefault('property', pid)
        json.dump(m, open(mp, 'w'), indent=1)
    n += 1
print(pid, n, 'changes collected')
