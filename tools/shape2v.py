#!/usr/bin/env python3
"""Method-shape mode of the translator: extracts, per method of mutex_db
(mutex_art.hpp) and of qsbr_ptr (qsbr_ptr.hpp), a term of a tiny statement
language and emits it as a Gallina constant.  The theorems are proved once for
every method table satisfying a boolean shape predicate; the generated table
is discharged by vm_compute."""
import json, os, sys
sys.path.insert(0, os.path.dirname(os.path.abspath(__file__)))
from cxx2v import Unit, Unsupported, kids, CLANG_FLAGS
import subprocess

REPO = os.environ.get('VERIF_REPO', '/repo')


def dump(tu, filt, flags):
    d = '/tmp/shape2v_%d' % os.getpid()
    os.makedirs(d, exist_ok=True)
    src = os.path.join(d, 'tu.cpp')
    open(src, 'w').write(tu)
    cmd = ['clang++'] + CLANG_FLAGS + list(flags) + ['-Xclang', '-ast-dump=json', '-Xclang', '-ast-dump-filter=' + filt, src]
    p = subprocess.run(cmd, capture_output=True, text=True, timeout=300)
    os.remove(src)
    if p.returncode != 0:
        raise Unsupported('clang failed: ' + p.stderr[-1500:])
    s = p.stdout
    dec = json.JSONDecoder()
    i, n, objs = 0, len(p.stdout), []
    while i < n:
        while i < n and s[i].isspace():
            i += 1
        if i >= n:
            break
        o, i = dec.raw_decode(s, i)
        objs.append(o)
    return objs


def strip(n):
    while n['kind'] in ('ImplicitCastExpr', 'ParenExpr', 'ExprWithCleanups', 'MaterializeTemporaryExpr', 'CXXBindTemporaryExpr',
                        'InitListExpr', 'CXXFunctionalCastExpr', 'ConstantExpr') and len(kids(n)) == 1:
        n = kids(n)[0]
    return n


def member_chain(n):
    """for a MemberExpr chain rooted at this: list of member names, e.g. ['db_','clear']"""
    out = []
    n = strip(n)
    while n['kind'] == 'MemberExpr':
        out.append(n.get('name'))
        n = strip(kids(n)[0])
    if n['kind'] == 'CXXThisExpr':
        return list(reversed(out))
    return None


def contains(n, pred):
    if pred(n):
        return True
    return any(contains(c, pred) for c in kids(n))


# ---------------------------------------------------------------- mutex_db

TU_MUTEX = '''#include "global.hpp"
#include "mutex_art.hpp"
template class unodb::mutex_db<std::uint64_t, unodb::value_view>;
void verif_use_scans(unodb::mutex_db<std::uint64_t, unodb::value_view>& d) {
  auto fn = [](const unodb::visitor<unodb::mutex_db<std::uint64_t, unodb::value_view>::iterator>&) { return false; };
  d.scan(fn, true);
  d.scan_from(1, fn, true);
  d.scan_range(1, 2, fn);
  (void)d.get_node_count<unodb::node_type::I4>();
  (void)d.get_growing_inode_count<unodb::node_type::I4>();
  (void)d.get_shrinking_inode_count<unodb::node_type::I4>();
}
'''


def mutex_call_name(e):
    """if e is (a cast of) db_.name(...), return name"""
    e = strip(e)
    if e['kind'] in ('CXXMemberCallExpr',):
        ch = member_chain(kids(e)[0])
        if ch and len(ch) == 2 and ch[0] == 'db_':
            return ch[1]
    if e['kind'] == 'CXXConstructExpr' and len(kids(e)) == 1:
        return mutex_call_name(kids(e)[0])
    return None


def self_call_name(e):
    e = strip(e)
    if e['kind'] == 'CXXMemberCallExpr':
        ch = member_chain(kids(e)[0])
        if ch and len(ch) == 1:
            return ch[0]
    return None


def is_lock_decl(v, kind):
    t = v.get('type', {}).get('qualType', '')
    if kind not in t:
        return False
    init = kids(v)
    if not init:
        return False
    return contains(init[-1], lambda x: x['kind'] == 'MemberExpr' and x.get('name') == 'mutex')


def touches_db_or_mutex(n):
    return contains(n, lambda x: x['kind'] == 'MemberExpr' and x.get('name') in ('db_', 'mutex'))


def mutex_stmt(s):
    k = s['kind']
    if k == 'DeclStmt':
        vs = [c for c in kids(s) if c['kind'] == 'VarDecl']
        if len(vs) == 1:
            v = vs[0]
            if is_lock_decl(v, 'lock_guard'):
                return 'MLockGuard'
            if is_lock_decl(v, 'unique_lock'):
                return 'MUniqueLock'
            init = kids(v)
            if init:
                nm = mutex_call_name(init[-1])
                if nm:
                    return 'MLetCall "%s"' % nm
                if not touches_db_or_mutex(init[-1]):
                    return 'MLocal'
        return 'MOther "decl"'
    if k == 'ReturnStmt':
        ks = kids(s)
        if not ks:
            return 'MRetVoid'
        e = strip(ks[0])
        nm = mutex_call_name(e)
        if nm:
            return 'MRetCall "%s"' % nm
        sn = self_call_name(e)
        if sn:
            return 'MRetSelf "%s"' % sn
        if e['kind'] == 'CallExpr':
            callee = strip(kids(e)[0])
            if callee['kind'] == 'DeclRefExpr' and callee['referencedDecl'].get('name') == 'make_pair' and len(kids(e)) == 3:
                second = strip(kids(e)[2])
                if second['kind'] == 'CXXTemporaryObjectExpr' and 'unique_lock' in second['type']['qualType'] and not kids(second):
                    return 'MRetEmptyLock'
                if second['kind'] == 'CallExpr':
                    c2 = strip(kids(second)[0])
                    if c2['kind'] == 'DeclRefExpr' and c2['referencedDecl'].get('name') == 'move':
                        a = strip(kids(second)[1])
                        if a['kind'] == 'DeclRefExpr' and 'unique_lock' in a['type']['qualType']:
                            return 'MRetMoveLock'
        if not touches_db_or_mutex(e):
            return 'MRetValue'
        return 'MOther "return"'
    if k == 'IfStmt':
        ks = kids(s)
        c = strip(ks[0])
        then = [mutex_stmt(x) for x in flat(ks[1])]
        if len(ks) > 2:
            return 'MOther "if-else"'
        neg = c['kind'] == 'UnaryOperator' and c.get('opcode') == '!'
        if neg and not touches_db_or_mutex(c):
            return 'MIfMiss [%s]' % '; '.join(then)
        return 'MOther "if"'
    if k == 'CXXMemberCallExpr':
        nm = mutex_call_name(s)
        if nm:
            return 'MCall "%s"' % nm
        callee = strip(kids(s)[0])
        if callee['kind'] == 'MemberExpr' and callee.get('name') == 'unlock':
            base = strip(kids(callee)[0])
            if base['kind'] == 'DeclRefExpr' and 'unique_lock' in base['type']['qualType']:
                return 'MUnlock'
        return 'MOther "call"'
    if k == 'ParenExpr' or (k in ('CXXStaticCastExpr', 'CStyleCastExpr') and s.get('castKind') == 'ToVoid'):
        return None  # compiled-out assertion
    if k == 'NullStmt':
        return None
    return 'MOther "%s"' % k


def flat(s):
    if s['kind'] == 'CompoundStmt':
        out = []
        for c in kids(s):
            out += flat(c)
        return out
    return [s]


def gen_mutex():
    objs = dump(TU_MUTEX, 'mutex_db', ['-DNDEBUG', '-DUNODB_SPINLOCK_LOOP_VALUE=1'])
    spec = None
    for o in objs:
        if o['kind'] == 'ClassTemplateSpecializationDecl' and o.get('name') == 'mutex_db':
            spec = o
        if o['kind'] == 'ClassTemplateDecl':
            for c in o.get('inner', []):
                if c.get('kind') == 'ClassTemplateSpecializationDecl' and any(m.get('kind') == 'CXXMethodDecl' for m in c.get('inner', [])):
                    spec = spec or c
    if spec is None:
        raise Unsupported('mutex_db<uint64_t, value_view> specialization not found')
    methods = []
    access = 'private'
    for m in spec.get('inner', []):
        k = m.get('kind')
        if k == 'AccessSpecDecl':
            access = m.get('access', access)
            continue
        cands = []
        if k == 'CXXMethodDecl':
            cands = [m]
        elif k == 'FunctionTemplateDecl':
            cands = [x for x in m.get('inner', []) if x.get('kind') == 'CXXMethodDecl']
        for f in cands:
            body = [c for c in f.get('inner', []) if c.get('kind') == 'CompoundStmt']
            if not body or f.get('isImplicit') or f.get('name', '').startswith('operator'):
                continue
            stmts = [x for x in (mutex_stmt(s) for s in flat(body[0])) if x is not None]
            static = f.get('storageClass') == 'static'
            methods.append((f['name'], access == 'public', static, stmts))
    # de-duplicate template instantiations with identical shape
    seen = set()
    uniq = []
    for m in methods:
        key = (m[0], tuple(m[3]))
        if key not in seen:
            seen.add(key)
            uniq.append(m)
    out = 'Definition mutex_methods : list mmethod :=\n  [ '
    out += '\n  ; '.join('{| m_name := "%s"; m_public := %s; m_static := %s; m_body := [%s] |}' %
                         (n, 'true' if p else 'false', 'true' if st else 'false', '; '.join(b)) for n, p, st, b in uniq)
    out += ' ].\n'
    return 'mutex_art.hpp mutex_db<uint64_t, value_view>', out, 'Mutex.MutexShape'


# ---------------------------------------------------------------- qsbr_ptr

TU_PTR = '''#include "global.hpp"
#include "qsbr_ptr.hpp"
template class unodb::qsbr_ptr<std::byte>;
'''


def ptr_expr(e):
    """classify the new value of ptr"""
    e = strip(e)
    if e['kind'] == 'MemberExpr' and e.get('name') == 'ptr':
        base = strip(kids(e)[0])
        if base['kind'] == 'DeclRefExpr':
            return 'POther'
        if base['kind'] == 'CXXThisExpr':
            return 'PSelf'
    if e['kind'] == 'DeclRefExpr':
        return 'PArg'
    if e['kind'] == 'CallExpr':
        c = strip(kids(e)[0])
        if c['kind'] == 'DeclRefExpr' and c['referencedDecl'].get('name') == 'exchange':
            a0 = strip(kids(e)[1])
            a1 = strip(kids(e)[2])
            if a0['kind'] == 'MemberExpr' and a0.get('name') == 'ptr' and a1['kind'] in ('CXXNullPtrLiteralExpr',):
                return 'PExchangeOther'
            if a0['kind'] == 'MemberExpr' and a0.get('name') == 'ptr' and a1['kind'] == 'ImplicitCastExpr':
                return 'PExchangeOther'
    return None


def ptr_ret_expr(e):
    """shape of a pure return expression over the wrapped pointer(s)"""
    e = strip(e)
    def is_self_ptr(x):
        x = strip(x)
        if x['kind'] == 'MemberExpr' and x.get('name') == 'ptr' and strip(kids(x)[0])['kind'] == 'CXXThisExpr':
            return True
        if x['kind'] == 'CXXMemberCallExpr':
            c = strip(kids(x)[0])
            return c['kind'] == 'MemberExpr' and c.get('name') == 'get' and strip(kids(c)[0])['kind'] == 'CXXThisExpr'
        return False
    def is_other_get(x):
        x = strip(x)
        if x['kind'] == 'CXXMemberCallExpr':
            c = strip(kids(x)[0])
            return c['kind'] == 'MemberExpr' and c.get('name') == 'get' and strip(kids(c)[0])['kind'] == 'DeclRefExpr'
        return False
    if is_self_ptr(e):
        return 'PRetPtr'
    if e['kind'] == 'UnaryOperator' and e.get('opcode') == '*' and is_self_ptr(kids(e)[0]):
        return 'PRetDeref'
    if e['kind'] == 'ArraySubscriptExpr' and is_self_ptr(kids(e)[0]) and strip(kids(e)[1])['kind'] == 'DeclRefExpr':
        return 'PRetIndex'
    if e['kind'] == 'BinaryOperator' and is_self_ptr(kids(e)[0]) and is_other_get(kids(e)[1]):
        return 'PRetBin "%s"' % e.get('opcode')
    if e['kind'] == 'CXXOperatorCallExpr' and len(kids(e)) == 3:
        c = strip(kids(e)[0])
        if c['kind'] == 'DeclRefExpr' and c['referencedDecl'].get('name') == 'operator+':
            return 'PRetOtherPlusN'
    return None


def ptr_stmt(s):
    s = strip(s) if s['kind'] in ('ExprWithCleanups',) else s
    k = s['kind']
    if k in ('CallExpr', 'CXXMemberCallExpr'):
        c = strip(kids(s)[0])
        nm = c['referencedDecl'].get('name') if c['kind'] == 'DeclRefExpr' else c.get('name')
        if nm in ('register_active_ptr', 'unregister_active_ptr'):
            a = strip(kids(s)[1])
            if a['kind'] == 'MemberExpr' and a.get('name') == 'ptr' and strip(kids(a)[0])['kind'] == 'CXXThisExpr':
                return 'PReg' if nm == 'register_active_ptr' else 'PUnreg'
        return 'POtherStmt "call"'
    if k == 'UnaryOperator' and s.get('opcode') in ('++', '--'):
        a = strip(kids(s)[0])
        if a['kind'] == 'MemberExpr' and a.get('name') == 'ptr':
            return 'PSet (%s)' % ('PInc' if s['opcode'] == '++' else 'PDec')
        if a['kind'] == 'UnaryOperator' and a.get('opcode') == '*' and strip(kids(a)[0])['kind'] == 'CXXThisExpr':
            return 'PCallSelf "%s"' % ('pre_inc' if s['opcode'] == '++' else 'pre_dec')
    if k == 'CXXOperatorCallExpr':
        c = strip(kids(s)[0])
        nm = c['referencedDecl'].get('name') if c['kind'] == 'DeclRefExpr' else ''
        a = strip(kids(s)[1])
        tgt_this = a['kind'] == 'UnaryOperator' and a.get('opcode') == '*' and strip(kids(a)[0])['kind'] == 'CXXThisExpr'
        tgt_result = a['kind'] == 'DeclRefExpr' and a['referencedDecl'].get('name') == 'result'
        if nm in ('operator++', 'operator--') and tgt_this:
            return 'PCallSelf "%s"' % ('pre_inc' if nm == 'operator++' else 'pre_dec')
        if nm in ('operator+=', 'operator-=') and tgt_result:
            return 'PCallResult "%s"' % ('add_assign' if nm == 'operator+=' else 'sub_assign')
    if k in ('BinaryOperator', 'CompoundAssignOperator'):
        l = strip(kids(s)[0])
        if l['kind'] == 'MemberExpr' and l.get('name') == 'ptr' and strip(kids(l)[0])['kind'] == 'CXXThisExpr':
            if s.get('opcode') == '=':
                e = ptr_expr(kids(s)[1])
                if e:
                    return 'PSet (%s)' % e
            if s.get('opcode') == '+=':
                return 'PSet (PAddN)'
            if s.get('opcode') == '-=':
                return 'PSet (PSubN)'
    if k == 'IfStmt':
        ks = kids(s)
        c = strip(ks[0])
        if c['kind'] == 'BinaryOperator' and c.get('opcode') == '==' and strip(kids(c)[0])['kind'] == 'CXXThisExpr':
            return 'PSelfGuard'
    if k == 'ReturnStmt':
        ks = kids(s)
        if not ks:
            return None
        e = strip(ks[0])
        if e['kind'] == 'UnaryOperator' and e.get('opcode') == '*' and strip(kids(e)[0])['kind'] == 'CXXThisExpr':
            return 'PRetSelf'
        if e['kind'] == 'DeclRefExpr' and e['referencedDecl'].get('name') == 'result':
            return 'PRetResult'
        if e['kind'] == 'CXXConstructExpr' and len(kids(e)) == 1 and strip(kids(e)[0])['kind'] == 'DeclRefExpr' and \
                strip(kids(e)[0])['referencedDecl'].get('name') == 'result':
            return 'PRetResult'
        r = ptr_ret_expr(e)
        if r:
            return r
        return 'POtherStmt "return"'
    if k == 'DeclStmt':
        vs = [c for c in kids(s) if c['kind'] == 'VarDecl']
        if len(vs) == 1 and vs[0].get('name') == 'result':
            init = strip(kids(vs[0])[-1]) if kids(vs[0]) else None
            if init is not None and contains(init, lambda x: x['kind'] == 'CXXThisExpr'):
                return 'PCopyToResult'
    if k == 'ParenExpr' or (k in ('CXXStaticCastExpr', 'CStyleCastExpr') and s.get('castKind') == 'ToVoid') or k == 'NullStmt':
        return None
    return 'POtherStmt "%s"' % k


def gen_ptr():
    objs = dump(TU_PTR, 'qsbr_ptr', ['-UNDEBUG'])
    spec = None
    for o in objs:
        cs = [o] if o['kind'] == 'ClassTemplateSpecializationDecl' else \
            [c for c in o.get('inner', []) if c.get('kind') == 'ClassTemplateSpecializationDecl'] if o['kind'] == 'ClassTemplateDecl' else []
        for c in cs:
            if c.get('name') == 'qsbr_ptr' and any(m.get('kind') in ('CXXMethodDecl', 'CXXConstructorDecl') and
                                                   any(x.get('kind') == 'CompoundStmt' for x in m.get('inner', []))
                                                   for m in c.get('inner', [])):
                spec = spec or c
    if spec is None:
        raise Unsupported('qsbr_ptr<std::byte> specialization not found')
    methods = []
    for m in spec.get('inner', []):
        k = m.get('kind')
        if k not in ('CXXMethodDecl', 'CXXConstructorDecl', 'CXXDestructorDecl') or m.get('isImplicit'):
            continue
        body = [c for c in m.get('inner', []) if c.get('kind') == 'CompoundStmt']
        if not body:
            continue
        sig = m['type']['qualType']
        name = m['name']
        stmts = []
        if k == 'CXXConstructorDecl':
            for ci in m.get('inner', []):
                if ci.get('kind') == 'CXXCtorInitializer' and ci.get('anyInit', {}).get('name') == 'ptr':
                    e = ptr_expr(kids(ci)[0]) if kids(ci) else None
                    stmts.append('PInit (%s)' % e if e else 'POtherStmt "init"')
            params = [c for c in m.get('inner', []) if c.get('kind') == 'ParmVarDecl']
            pt = (params[0]['type'].get('desugaredQualType') or params[0]['type']['qualType']) if params else ''
            if not params:
                name = 'ctor_default'
            elif pt.rstrip().endswith('&&'):
                name = 'ctor_move'
            elif pt.rstrip().endswith('&'):
                name = 'ctor_copy'
            else:
                name = 'ctor_ptr'
        elif k == 'CXXDestructorDecl':
            name = 'dtor'
        else:
            params = [c for c in m.get('inner', []) if c.get('kind') == 'ParmVarDecl']
            pt = (params[0]['type'].get('desugaredQualType') or params[0]['type']['qualType']) if params else ''
            mp = {'operator=': 'assign_move' if '&&' in pt else 'assign_copy',
                  'operator++': 'post_inc' if params else 'pre_inc', 'operator--': 'post_dec' if params else 'pre_dec',
                  'operator+=': 'add_assign', 'operator-=': 'sub_assign',
                  'operator+': 'add', 'operator-': 'sub' if 'qsbr_ptr' not in pt else 'diff',
                  'operator*': 'deref', 'operator[]': 'index', 'operator->': 'arrow', 'get': 'get',
                  'operator==': 'eq', 'operator<=': 'le', 'operator>=': 'ge', 'operator<': 'lt', 'operator>': 'gt'}
            name = mp.get(name, name)
        for s in flat(body[0]):
            x = ptr_stmt(s)
            if x is not None:
                stmts.append(x)
        methods.append((name, stmts))
    out = 'Definition ptr_methods : list (string * list pstmt) :=\n  [ '
    out += '\n  ; '.join('("%s", [%s])' % (n, '; '.join(b)) for n, b in methods)
    out += ' ].\n'
    return 'qsbr_ptr.hpp qsbr_ptr<std::byte> (assertions enabled)', out, 'Ptr.PtrShape'


HEADER = '''(** GENERATED by tools/shape2v.py from %s -- do not edit, not committed. *)
From Coq Require Import List String.
From Unodb Require Import %s.
Import ListNotations.
Local Open Scope string_scope.

'''


def emit(path, origin, body, imp):
    text = HEADER % (origin, imp) + body
    old = open(path).read() if os.path.exists(path) else None
    if old != text:
        open(path, 'w').write(text)


if __name__ == '__main__':
    for g in (gen_mutex, gen_ptr):
        try:
            o, b, imp = g()
            print(b)
        except Unsupported as e:
            print('ERR', e)
