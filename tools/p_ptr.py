"""C17: qsbr_ptr wrappers.  Coq theorems over an interpreter of the method
table regenerated from qsbr_ptr.hpp (assertion-enabled AST) + correspondence of
the extracted interpreter with the real wrappers (assertion-enabled and NDEBUG
builds) on operation scripts, raw-pointer shadow and forked quiescent() probes."""
import os, json
from vlib import *

DBG = ['-O1', '-DUNODB_DETAIL_WITH_STATS', '-DUNODB_DETAIL_STANDALONE', '-DUNODB_SPINLOCK_LOOP_VALUE=1']
REL = ['-O1', '-DNDEBUG', '-DUNODB_DETAIL_WITH_STATS', '-DUNODB_SPINLOCK_LOOP_VALUE=1']


def successors(live, next_id, rng=None, small=True):
    """all well-formed operations in a state; live = frozenset of (id, nonnull). Pointer arithmetic is only applied to
    non-null wrappers (arithmetic on a null pointer is outside the contract of raw pointers as well)"""
    ops = []
    fresh = next_id
    ids = {i for i, _ in live}
    nn = {i for i, n in live if n}

    def setn(l, i, v):
        return frozenset([(j, n) for j, n in l if j != i] + [(i, v)])
    ops.append(('P %d 100' % fresh, setn(live, fresh, True), fresh + 1))
    ops.append(('P %d -1' % fresh, setn(live, fresh, False), fresh + 1))
    ops.append(('D %d' % fresh, setn(live, fresh, False), fresh + 1))
    for s in sorted(ids):
        sn = s in nn
        ops.append(('C %d %d' % (fresh, s), setn(live, fresh, sn), fresh + 1))
        ops.append(('M %d %d' % (fresh, s), setn(setn(live, fresh, sn), s, False), fresh + 1))
        if sn:
            ops.append(('I %d' % s, live, next_id))
            ops.append(('J %d' % s, live, next_id))
            ops.append(('PI %d %d' % (s, fresh), setn(live, fresh, True), fresh + 1))
            ops.append(('AA %d 3' % s, live, next_id))
            ops.append(('SA %d 2' % s, live, next_id))
            ops.append(('A %d %d 4' % (s, fresh), setn(live, fresh, True), fresh + 1))
        ops.append(('X %d' % s, frozenset((j, n) for j, n in live if j != s), next_id))
        for d in sorted(ids):
            if d != s:
                ops.append(('AC %d %d' % (d, s), setn(live, d, sn), next_id))
                ops.append(('AM %d %d' % (d, s), setn(setn(live, d, sn), s, False), next_id))
    return ops


def gen_scripts(tier, rng):
    scripts = []
    depth = 4 if tier == 'thorough' else 3

    def rec(live, nid, d, acc):
        if d == 0:
            scripts.append(list(acc))
            return
        for op, l2, n2 in successors(live, nid):
            if len(l2) > 3:
                continue
            acc.append(op)
            rec(l2, n2, d - 1, acc)
            acc.pop()
    rec(frozenset(), 0, depth, [])
    for _ in range(400 if tier == 'thorough' else 60):
        live, nid, acc = frozenset(), 0, []
        for i in range(200):
            cand = successors(live, nid)
            # keep the number of live wrappers bounded; pointer arithmetic stays inside the buffer by construction
            cand = [c for c in cand if len(c[1]) <= 5]
            op, live, nid = cand[rng.below(len(cand))]
            acc.append(op)
            if i % 23 == 0:
                acc.append('V')
        scripts.append(acc)
    return scripts


def clear_ops(script):
    """destroy everything that is still alive at the end of a script (shadow replay)"""
    live = set()
    for op in script:
        t = op.split()
        if t[0] in ('P', 'D', 'C', 'M'):
            live.add(int(t[1]))
        elif t[0] in ('PI', 'PD', 'A', 'S'):
            live.add(int(t[2]))
        elif t[0] == 'X':
            live.discard(int(t[1]))
    return ['X %d' % i for i in sorted(live)]


def check(pid, tier, replay=None):
    res = Result(pid, tier)
    res.assumptions = [
        'pointer arithmetic on std::byte* as integer arithmetic on addresses',
        'self-assignment is outside the property ("between distinct objects")',
        'the thread-local registry is read through "#define private public"; the quiescent() verdict through a forked child',
    ]
    proof_stage(res, ['ptr'], ['Properties/Properties_C17.v'], pid)
    res.coverage['trusted_base'] = TRUSTED_COMMON + [
        'method-shape translator tools/shape2v.py + clang 14 JSON AST (qsbr_ptr<std::byte>, assertions enabled)',
        'extraction: ExtrOcamlBasic only; OCaml driver ocaml/ptr_run.ml',
        'harness/ptr_diff.cpp (raw-pointer shadow, registry dump, forked quiescent probe)',
    ]
    srcs = [os.path.join(VERIF, 'harness', 'ptr_diff.cpp'), os.path.join(REPO, 'qsbr.cpp'), os.path.join(REPO, 'qsbr_ptr.cpp')]
    with Lock():
        err = extract_and_build_ocaml(['ptr_run'])
        b1, e1 = build_cxx('ptr_diff_dbg', srcs, DBG)
        b2, e2 = build_cxx('ptr_diff_rel', srcs, REL)
    if err or e1 or e2:
        res.violation('cannot build the correspondence: ' + (err or e1 or e2)[-800:], {'kind': 'build'}, found_input=False)
        return res.finish()
    rng = Rng(seed())
    scripts = [json.load(open(replay))['ops']] if replay else gen_scripts(tier, rng)
    lines = []
    spans = []
    for s in scripts:
        full = s + clear_ops(s) + ['V']
        spans.append((len(lines), len(lines) + len(full)))
        lines += full
    text = '\n'.join(lines) + '\n'
    rc1, a, ea = sh([os.path.join(BIN, 'ptr_diff_dbg')], input=text, timeout=1800)
    rc3, r, er = sh([os.path.join(BIN, 'ptr_diff_rel')], input=text, timeout=1800)
    # the same script with a second registered thread holding the epoch: every probe is a repeated quiescent state of one epoch
    rc4, a2, ea2 = sh([os.path.join(BIN, 'ptr_diff_dbg'), 'multi'], input=text, timeout=1800)
    rc2, m, em = sh([os.path.join(OCAML, 'ptr_run')], input=text, timeout=1800)
    A, R, M = a.splitlines(), r.splitlines(), m.splitlines()
    if replay:
        for l, x, y in zip(lines, A, M):
            print('%s\n   impl : %s\n   model: %s' % (l, x, y))
        return 0
    A2 = a2.splitlines()
    for name, rc, out, e in (('assertion-enabled', rc1, A, ea), ('NDEBUG', rc3, R, er), ('assertion-enabled, two registered threads', rc4, A2, ea2)):
        if rc != 0 or len(out) != len(lines) + 1:
            at = len(out)
            sp = [s for s in spans if s[0] <= at < s[1]] or [spans[-1]]
            res.violation('%s harness stopped (rc=%d) after %d lines: %s' % (name, rc, at, (e or '')[-300:]),
                          {'kind': 'crash', 'ops': lines[sp[0][0]:min(at + 1, sp[0][1])]})
            return res.finish()
    nbad = 0
    distinct = set()
    for (lo, hi) in spans:
        distinct.add(hash(tuple(A[lo:hi])))
        for j in range(lo, hi):
            prob = None
            if 'CMPBAD' in A[j] or 'CMPBAD' in R[j]:
                prob = ('property', 'a wrapper operation disagrees with the raw pointer operation')
            elif A[j].split('|')[0] != R[j].split('|')[0]:
                prob = ('property', 'assertion-enabled and NDEBUG builds disagree on the wrapped addresses')
            else:
                # independent registry check on the implementation's own line
                vals = [int(x.split(':')[1]) for x in A[j].split('|')[0].split()]
                reg = A[j].split('R=')[1].split(' ')[0]
                regs = sorted(int(x) for x in reg.split(',') if x)
                want = sorted(v for v in vals if v != 0)
                if regs != want:
                    prob = ('property', 'registry %s differs from the live non-null wrappers %s' % (regs, want))
                elif 'Q=' in A[j] and ((('Q=accepted' in A[j]) != (not want))):
                    prob = ('property', 'quiescent() verdict %s with live non-null wrappers %s' % (A[j].split('Q=')[1], want))
                elif 'Q=' in A2[j] and ((('Q=accepted' in A2[j]) != (not want))):
                    prob = ('property', 'with a second registered thread (repeated quiescent state of one epoch): quiescent() verdict %s with '
                                        'live non-null wrappers %s' % (A2[j].split('Q=')[1], want))
                elif A[j] != M[j]:
                    prob = ('correspondence', 'impl %s / model %s' % (A[j][:160], M[j][:160]))
            if prob:
                nbad += 1
                if nbad <= 3:
                    kind, d = prob
                    if kind == 'property':
                        res.violation('C17 violated on the implementation: ' + d, {'kind': 'property-on-implementation', 'ops': lines[lo:j + 1],
                                                                                  'impl': A[j]})
                    else:
                        res.violation('model and implementation disagree: %s; the raw-pointer shadow and registry checks on the '
                                      'implementation did not fail' % d,
                                      {'kind': 'correspondence', 'ops': lines[lo:j + 1], 'broken': 'ptr_diff vs extracted PtrModel on GenPtrMethods'},
                                      found_input=False)
                break
    if A[-1] != 'SPAN ok' or R[-1] != 'SPAN ok' or A2[-1] != 'SPAN ok':
        res.violation('qsbr_ptr_span does not yield the elements / size of the span it was built from', {'kind': 'property-on-implementation',
                                                                                                        'ops': ['SPAN']})
    if not res.proof_ok and not res.violations:
        res.violation('proof obligation no longer checks: ' + ' | '.join(res.broken)[:500],
                      {'kind': 'proof', 'broken': res.broken, 'log': res.proof_log[-1500:]}, found_input=False)
    elif not res.proof_ok:
        res.coverage['broken_obligations'] = res.broken
    res.coverage.update({
        'evaluations': len(lines), 'scripts': len(spans), 'distinct_nontrivial': len(distinct),
        'rule': 'all well-formed scripts up to length 3 (4 thorough) over at most 3 live wrappers from {construct from pointer / nullptr, '
                'default-construct, copy, move, copy-assign, move-assign between distinct objects, ++, --, post-++, +=, -=, +, destroy}, '
                'random scripts of 200 operations with a forked quiescent() probe every 23 operations; each script ends by destroying '
                'every wrapper and probing again; run in assertion-enabled and NDEBUG builds; distinct = distinct implementation output',
        'disagreements_checked': len(lines), 'disagreements_found': nbad, 'exhaustive': False,
    })
    k = spans[len(spans) // 2]
    res.coverage['samples'] = [{'script': lines[k[0]:k[1]][:12], 'impl': A[k[0]:k[1]][:12]}]
    return res.finish()
