#!/usr/bin/env python3
"""cxx2v: translate small pure C++ functions of /repo (clang JSON AST) into
Gallina definitions over Z with explicit wrap-around.

Expression mode only handles a closed subset; anything else raises
Unsupported, which the runner reports as a broken tie.  For every function f
two definitions are emitted: [f args : Z|bool] and [f_defined args : bool]
(the conjunction of the no-signed-overflow / shift-in-range side conditions
along the evaluated path)."""
import json, subprocess, sys, os, hashlib, re

REPO = os.environ.get('VERIF_REPO', '/repo')
CLANG_FLAGS = ['-std=c++20', '-mavx2', '-DUNODB_DETAIL_WITH_STATS',
               '-I' + REPO, '-fsyntax-only', '-Wno-everything']


class Unsupported(Exception):
    pass


INT_TYPES = {
    'char': (8, True), 'signed char': (8, True), 'unsigned char': (8, False),
    'short': (16, True), 'unsigned short': (16, False),
    'int': (32, True), 'unsigned int': (32, False),
    'long': (64, True), 'unsigned long': (64, False),
    'long long': (64, True), 'unsigned long long': (64, False),
    'int8_t': (8, True), 'uint8_t': (8, False), 'int16_t': (16, True), 'uint16_t': (16, False),
    'int32_t': (32, True), 'uint32_t': (32, False), 'int64_t': (64, True), 'uint64_t': (64, False),
    'size_t': (64, False), 'std::size_t': (64, False),
    '__int128': (128, True), 'unsigned __int128': (128, False),
    'byte': (8, False),  # std::byte (enum class : unsigned char); norm_type strips std::
}


def norm_type(t):
    q = t.get('desugaredQualType') or t.get('qualType') or ''
    q = q.replace('const ', '').replace(' const', '').replace('volatile ', '')
    q = q.replace('&', '').strip()
    q = re.sub(r'^std::', '', q)
    return q


def ctype(node):
    """('i', width, signed) | ('b',) | ('f', width) | ('o', name)"""
    q = norm_type(node.get('type', {}))
    if q == 'bool':
        return ('b',)
    if q == 'float':
        return ('f', 32)
    if q == 'double':
        return ('f', 64)
    if q in INT_TYPES:
        w, s = INT_TYPES[q]
        return ('i', w, s)
    return ('o', q)


def rng(t):
    _, w, s = t
    return (-(1 << (w - 1)), (1 << (w - 1)) - 1) if s else (0, (1 << w) - 1)


def wrap(t, e):
    _, w, s = t
    if s:
        return '(((%s) + %d) mod %d - %d)' % (e, 1 << (w - 1), 1 << w, 1 << (w - 1))
    return '((%s) mod %d)' % (e, 1 << w)


def in_range(t, e):
    lo, hi = rng(t)
    return '((%d <=? (%s)) && ((%s) <=? %d))' % (lo, e, e, hi)


def lit(e):
    m = re.fullmatch(r'\(?(-?\d+)\)?', e)
    return int(m.group(1)) if m else None


def conj(*ds):
    ds = [d for d in ds if d is not None]
    if not ds:
        return None
    r = ds[0]
    for d in ds[1:]:
        r = '(%s && %s)' % (r, d)
    return r


def kids(n):
    return [c for c in n.get('inner', []) if not c.get('kind', '').endswith('Comment')
            and not c.get('kind', '').endswith('Attr')]


class Unit:
    """All nodes of one or more AST dumps."""

    def __init__(self):
        self.vars = {}   # id -> VarDecl node
        self.funcs = []  # (node, parent_name)
        self.rec_kind = {}  # id(node) -> kind of the innermost enclosing record declaration
        self.records = {}  # name -> complete CXXRecordDecl node

    def load(self, tu_text, filt, extra_flags=()):
        d = '/tmp/cxx2v_%d' % os.getpid()
        os.makedirs(d, exist_ok=True)
        src = os.path.join(d, 'tu.cpp')
        open(src, 'w').write(tu_text)
        cmd = ['clang++'] + CLANG_FLAGS + list(extra_flags) + ['-Xclang', '-ast-dump=json', '-Xclang',
                                                              '-ast-dump-filter=' + filt, src]
        p = subprocess.run(cmd, capture_output=True, text=True, timeout=300)
        os.remove(src)
        if p.returncode != 0:
            raise Unsupported('clang failed on filter %s: %s' % (filt, p.stderr[-2000:]))
        s = p.stdout
        dec = json.JSONDecoder()
        i = 0
        n = len(s)
        while i < n:
            while i < n and s[i].isspace():
                i += 1
            if i >= n:
                break
            o, i = dec.raw_decode(s, i)
            self.walk(o, None)

    def walk(self, n, parent, rec=None):
        k = n.get('kind')
        if k == 'VarDecl' and 'id' in n:
            self.vars[n['id']] = n
        if k in ('FunctionDecl', 'CXXMethodDecl', 'CXXConstructorDecl'):
            self.funcs.append((n, parent))
            self.rec_kind[id(n)] = rec
        if k == 'CXXRecordDecl' and n.get('completeDefinition') and 'name' in n:
            self.records[n['name']] = n
        name = n.get('name', parent) if k in ('CXXRecordDecl', 'ClassTemplateDecl', 'ClassTemplateSpecializationDecl', 'NamespaceDecl') else parent
        if k == 'ClassTemplateDecl':
            rec = 'pattern'          # the templated CXXRecordDecl below holds dependent bodies
        elif k == 'ClassTemplateSpecializationDecl':
            rec = 'specialization'
        elif k == 'CXXRecordDecl' and rec is None:
            rec = 'record'
        for c in n.get('inner', []):
            if isinstance(c, dict):
                self.walk(c, name, rec)

    def find(self, name, sig_sub=None, parent=None, rec=None):
        """rec: None | 'record' | 'pattern' | 'specialization' -- restricts the kind of
        the enclosing record (a class template's dependent pattern vs an instantiation)."""
        out = []
        for n, p in self.funcs:
            if n.get('name') != name:
                continue
            if rec is not None and self.rec_kind.get(id(n)) != rec:
                continue
            if sig_sub is not None and sig_sub not in n.get('type', {}).get('qualType', ''):
                continue
            if parent is not None and p != parent:
                continue
            if not any(c.get('kind') == 'CompoundStmt' for c in n.get('inner', [])):
                continue
            out.append(n)
        # de-duplicate identical bodies (same function dumped twice)
        uniq = {}
        for n in out:
            uniq[json.dumps(strip_locs(n), sort_keys=True)] = n
        out = list(uniq.values())
        if len(out) != 1:
            raise Unsupported('expected exactly one definition of %s [%s] in %s, found %d' % (name, sig_sub, parent, len(out)))
        return out[0]


def record_layout(tu_text, record, extra_flags=()):
    """Byte offsets of the (nested) members of [record] (its exact name as printed by
    clang's -fdump-record-layouts, e.g. 'union ns::u').  Returns (members, sizeof) with
    members: path tuple -> (offset, declared type text).  The TU must make the record
    complete (e.g. through a sizeof)."""
    d = '/tmp/cxx2v_%d' % os.getpid()
    os.makedirs(d, exist_ok=True)
    src = os.path.join(d, 'layout.cpp')
    open(src, 'w').write(tu_text)
    cmd = ['clang++'] + CLANG_FLAGS + list(extra_flags) + ['-Xclang', '-fdump-record-layouts', src]
    p = subprocess.run(cmd, capture_output=True, text=True, timeout=300)
    os.remove(src)
    if p.returncode != 0:
        raise Unsupported('clang failed on record layout: %s' % p.stderr[-2000:])
    found = []
    for blk in p.stdout.split('*** Dumping AST Record Layout')[1:]:
        lines = [l for l in blk.split('\n') if '|' in l]
        if not lines or lines[0].split('|', 1)[1].strip() != record:
            continue
        members, stack, size = {}, [], None
        for l in lines[1:]:
            off, txt = l.split('|', 1)
            if not off.strip():
                m = re.search(r'sizeof=(\d+)', txt)
                if m:
                    size = int(m.group(1))
                continue
            if ':' in off:
                raise Unsupported('bit-field in record %s' % record)
            depth = (len(txt) - len(txt.lstrip(' ')) - 1) // 2
            ty, _, name = txt.strip().rpartition(' ')
            if depth < 1 or not ty or '(' in name:
                raise Unsupported('cannot parse layout line %r' % l)
            stack = stack[:depth - 1] + [name]
            members[tuple(stack)] = (int(off), ty)
        found.append((members, size))
    if len(found) != 1 or found[0][1] is None:
        raise Unsupported('expected exactly one layout of %s, found %d' % (record, len(found)))
    return found[0]


def strip_locs(n):
    if isinstance(n, dict):
        return {k: strip_locs(v) for k, v in n.items() if k not in ('loc', 'range', 'id', 'previousDecl', 'parentDeclContextId', 'mangledName')}
    if isinstance(n, list):
        return [strip_locs(x) for x in n]
    return n


FMT = {32: 'f32', 64: 'f64'}


class Fn:
    def __init__(self, unit, node, coqname, mode='return', inputs=(), this_fields=()):
        self.u = unit
        self.node = node
        self.name = coqname
        self.mode = mode          # 'return' | 'callarg:<callee>' | 'var:<name>'
        self.env = {}             # decl id -> coq name
        self.params = []          # (coqname, ctype)
        self.extra_inputs = list(inputs)  # names of uninitialised locals that are inputs
        self.this_fields = dict(this_fields)  # member name -> coq param name (fields read through this)
        self.used_fields = []
        # -- optional configuration (set by the driver after construction) --
        self.obj_params = {}      # parameter of class type -> {member name -> coq param name}
        self.drop_params = ()     # opaque parameters (only allowed inside input_exprs calls)
        self.union_views = {}     # member path from the object, e.g. ('f','len') ->
        #                           (word member, byte offset, byte size[, element count]):
        #                           little-endian byte view of a word member of the same union
        self.fn_calls = {}        # callee name -> (coq name, add <coq>_defined?, takes the receiver's fields?)
        self.input_exprs = ()     # calls on opaque objects that become fresh inputs
        self.abort_calls = ('__assert_fail',)
        self.bound_fields = set()  # fields of *this re-bound by a store (mode 'field:<f>')
        self.opaque_ver = {}
        self.in_branch = 0

    # ---------- expressions: return (term, defined or None) ----------
    def E(self, n):
        k = n['kind']
        t = ctype(n)
        ks = kids(n)
        if k in ('ParenExpr', 'ExprWithCleanups', 'MaterializeTemporaryExpr', 'CXXBindTemporaryExpr', 'CXXFunctionalCastExpr') and k != 'CXXFunctionalCastExpr':
            return self.E(ks[0])
        if k == 'ConstantExpr':
            if 'value' in n and t[0] in ('i',):
                return (str(int(n['value'])), None)
            return self.E(ks[0])
        if k == 'IntegerLiteral':
            return ('(%d)' % int(n['value']) if int(n['value']) < 0 else str(int(n['value'])), None)
        if k == 'CXXBoolLiteralExpr':
            return ('true' if n['value'] else 'false', None)
        if k == 'InitListExpr' and len(ks) == 1:
            return self.E(ks[0])
        if k == 'UnaryExprOrTypeTraitExpr' and n.get('name') == 'sizeof':
            at = n.get('argType') or (ks[0].get('type') if ks else None)
            q = norm_type(at)
            if q in INT_TYPES:
                return (str(INT_TYPES[q][0] // 8), None)
            if q == 'byte':
                return ('1', None)
            raise Unsupported('sizeof(%s)' % q)
        if k == 'DeclRefExpr':
            rd = n['referencedDecl']
            if rd['id'] in self.env:
                return (self.env[rd['id']], None)
            if rd['kind'] == 'VarDecl' and rd['id'] in self.u.vars:
                v = self.u.vars[rd['id']]
                init = [c for c in kids(v)]
                if not init:
                    raise Unsupported('constant %s has no initialiser' % rd.get('name'))
                sub = Fn(self.u, None, '')
                e, d = sub.E(init[-1])
                if d is not None:
                    raise Unsupported('constant %s with side conditions' % rd.get('name'))
                return (e, None)
            raise Unsupported('reference to unknown declaration %s' % rd.get('name'))
        if k == 'MemberExpr':
            # this->field (implicit) read
            if ks and ks[0]['kind'] == 'CXXThisExpr' and n.get('name') in self.this_fields:
                return (self.field_of('this', n['name']), None)
            base, path = self.member_path(n)
            if base is not None and len(path) == 1 and self.has_field(base, path[0]):
                return (self.field_of(base, path[0]), None)
            if base is not None and path in self.union_views:
                v = self.union_views[path]
                if len(v) != 3:
                    raise Unsupported('array member %s read without subscript' % '.'.join(path))
                word, off, size = v
                return (self.byte_view(self.field_of(base, word), str(8 * off), size), None)
            raise Unsupported('member expression %s' % n.get('name'))
        if k in ('ImplicitCastExpr', 'CXXStaticCastExpr', 'CStyleCastExpr', 'CXXFunctionalCastExpr'):
            ck = n.get('castKind')
            e, d = self.E(ks[0])
            st = ctype(ks[0])
            if ck in ('LValueToRValue', 'NoOp', 'FunctionToPointerDecay', 'ConstructorConversion', 'UserDefinedConversion'):
                return (e, d)
            if ck == 'IntegralCast':
                if st[0] == 'b' and t[0] == 'i':
                    return ('(if %s then 1 else 0)' % e, d)
                if st[0] != 'i' or t[0] != 'i':
                    raise Unsupported('IntegralCast %s -> %s' % (st, t))
                lo, hi = rng(st)
                lo2, hi2 = rng(t)
                if lo2 <= lo and hi <= hi2:
                    return (e, d)
                if ks[0]['kind'] == 'IntegerLiteral' or re.fullmatch(r'\(?-?\d+\)?', e):
                    v = int(e.strip('()'))
                    w = t[1]
                    v %= (1 << w)
                    if t[2] and v >= (1 << (w - 1)):
                        v -= (1 << w)
                    return ('(%d)' % v if v < 0 else str(v), d)
                return (wrap(t, e), d)
            if ck == 'IntegralToBoolean':
                return ('(negb ((%s) =? 0))' % e, d)
            if ck == 'IntegralToFloating':
                if re.fullmatch(r'\(?0\)?', e):
                    return ('0', d)  # +0.0 has the all-zero bit pattern
                raise Unsupported('IntegralToFloating of non-zero')
            raise Unsupported('cast kind %s' % ck)
        if k == 'UnaryOperator':
            op = n['opcode']
            e, d = self.E(ks[0])
            if op == '!':
                return ('(negb %s)' % e, d)
            if t[0] == 'f' and op == '-':
                return ('(fnegate %s %s)' % (FMT[t[1]], e), d)
            if t[0] != 'i':
                raise Unsupported('unary %s on %s' % (op, t))
            if op == '+':
                return (e, d)
            if op == '-':
                if t[2]:
                    r = '(- (%s))' % e
                    return (r, conj(d, in_range(t, r)))
                return (wrap(t, '- (%s)' % e), d)
            if op == '~':
                if t[2]:
                    return ('(- (%s) - 1)' % e, d)
                return ('(%d - (%s))' % ((1 << t[1]) - 1, e), d)
            raise Unsupported('unary operator %s' % op)
        if k == 'BinaryOperator':
            op = n['opcode']
            a, da = self.E(ks[0])
            b, db = self.E(ks[1])
            ta = ctype(ks[0])
            if op in ('<', '<=', '>', '>=', '==', '!='):
                if ta[0] == 'f':
                    if op == '>' and b == '0':
                        return ('(fgt0 %s %s)' % (FMT[ta[1]], a), conj(da, db))
                    raise Unsupported('float comparison %s' % op)
                if ta[0] == 'b':
                    if op == '==':
                        return ('(Bool.eqb %s %s)' % (a, b), conj(da, db))
                    raise Unsupported('bool comparison')
                if ta[0] != 'i':
                    raise Unsupported('comparison on %s' % (ta,))
                f = {'<': '(%s <? %s)', '<=': '(%s <=? %s)', '>': '(%s >? %s)', '>=': '(%s >=? %s)',
                     '==': '(%s =? %s)', '!=': '(negb (%s =? %s))'}[op]
                return (f % (a, b), conj(da, db))
            if op == '&&':
                return ('(%s && %s)' % (a, b), conj(da, None if db is None else '(if %s then %s else true)' % (a, db)))
            if op == '||':
                return ('(%s || %s)' % (a, b), conj(da, None if db is None else '(if %s then true else %s)' % (a, db)))
            if op == ',':
                return (b, conj(da, db))
            if t[0] != 'i':
                raise Unsupported('binary %s on %s' % (op, t))
            return self.arith(op, t, a, b, conj(da, db))
        if k == 'ConditionalOperator':
            c, dc = self.E(ks[0])
            a, da = self.E(ks[1])
            b, db = self.E(ks[2])
            d = None
            if da is not None or db is not None:
                d = '(if %s then %s else %s)' % (c, da or 'true', db or 'true')
            return ('(if %s then %s else %s)' % (c, a, b), conj(dc, d))
        if k in ('CXXTemporaryObjectExpr', 'CXXConstructExpr', 'CXXFunctionalCastExpr') and len(ks) == 1:
            return self.E(ks[0])
        if k in ('CallExpr', 'CXXMemberCallExpr', 'CXXOperatorCallExpr'):
            return self.call(n, t, ks)
        raise Unsupported('expression kind %s' % k)

    # ---------- objects: *this and parameters of class type ----------
    def strip_casts(self, c):
        while c['kind'] in ('ImplicitCastExpr', 'ParenExpr') and c.get('castKind', 'NoOp') in ('NoOp', 'LValueToRValue'):
            c = kids(c)[0]
        return c

    def member_path(self, n):
        """(base, path): base = 'this' | name of a parameter of class type | None;
        path = member names from the object outwards-in, e.g. this->f.len -> ('f','len')."""
        path = []
        c = n
        while c['kind'] == 'MemberExpr':
            path.insert(0, c.get('name'))
            c = self.strip_casts(kids(c)[0])
        if c['kind'] == 'CXXThisExpr':
            return 'this', tuple(path)
        if c['kind'] == 'DeclRefExpr' and c['referencedDecl'].get('name') in self.obj_params \
                and c['referencedDecl'].get('kind') == 'ParmVarDecl':
            return c['referencedDecl']['name'], tuple(path)
        return None, tuple(path)

    def has_field(self, base, member):
        if base == 'this':
            return member in self.this_fields
        return member in self.obj_params.get(base, {})

    def field_of(self, base, member):
        if base == 'this':
            if member not in self.this_fields:
                raise Unsupported('unknown field %s of *this' % member)
            nm = self.this_fields[member]
            if nm not in self.used_fields and nm not in self.bound_fields:
                self.used_fields.append(nm)
            return nm
        if member not in self.obj_params.get(base, {}):
            raise Unsupported('unknown field %s of %s' % (member, base))
        return self.obj_params[base][member]

    def receiver_fields(self, base):
        if base == 'this':
            return [self.field_of('this', m) for m in self.this_fields]
        return [self.field_of(base, m) for m in self.obj_params[base]]

    def byte_view(self, word, bitpos, size):
        """[size] bytes at bit position [bitpos] of the little-endian word [word]."""
        return '((Z.shiftr %s %s) mod %d)' % (word, bitpos, 1 << (8 * size))

    def arith(self, op, t, a, b, d):
        w, s = t[1], t[2]
        la, lb = lit(a), lit(b)
        if la is not None and lb is not None and op in ('+', '-', '*', '<<', '>>', '&', '|', '^'):
            if op in ('<<', '>>') and not (0 <= lb < w):
                raise Unsupported('constant shift out of range')
            v = {'+': la + lb, '-': la - lb, '*': la * lb, '<<': la << lb if op == '<<' else 0, '>>': la >> lb if op == '>>' else 0,
                 '&': la & lb, '|': la | lb, '^': la ^ lb}[op]
            lo, hi = rng(t)
            if s and op != '<<' and not (lo <= v <= hi):
                raise Unsupported('constant signed overflow')
            v %= (1 << w)
            if s and v >= (1 << (w - 1)):
                v -= (1 << w)
            return ('(%d)' % v if v < 0 else str(v), d)
        if op in ('+', '-', '*'):
            r = '(%s %s %s)' % (a, op, b)
            if s:
                return (r, conj(d, in_range(t, r)))
            return (wrap(t, r), d)
        if op in ('&', '|', '^'):
            f = {'&': 'Z.land', '|': 'Z.lor', '^': 'Z.lxor'}[op]
            return ('(%s %s %s)' % (f, a, b), d)
        if op == '<<':
            sh = '((0 <=? %s) && (%s <? %d))' % (b, b, w)
            return (wrap(t, 'Z.shiftl %s %s' % (a, b)), conj(d, sh))
        if op == '>>':
            sh = '((0 <=? %s) && (%s <? %d))' % (b, b, w)
            return ('(Z.shiftr %s %s)' % (a, b), conj(d, sh))
        if op == '/':
            nz = '(negb (%s =? 0))' % b
            if s:
                r = '(Z.quot %s %s)' % (a, b)
                return (r, conj(d, nz, in_range(t, r)))
            return ('(%s / %s)' % (a, b), conj(d, nz))
        if op == '%':
            nz = '(negb (%s =? 0))' % b
            if s:
                return ('(Z.rem %s %s)' % (a, b), conj(d, nz))
            return ('(%s mod %s)' % (a, b), conj(d, nz))
        raise Unsupported('binary operator %s' % op)

    def callee_name(self, n, ks):
        c = ks[0]
        while c['kind'] in ('ImplicitCastExpr', 'ParenExpr'):
            c = kids(c)[0]
        if c['kind'] == 'DeclRefExpr':
            return c['referencedDecl'].get('name'), c
        if c['kind'] == 'MemberExpr':
            return c.get('name'), c
        raise Unsupported('callee %s' % c['kind'])

    def call(self, n, t, ks):
        name, cal = self.callee_name(n, ks)
        args = ks[1:]
        if name == '__builtin_expect' and len(args) == 2:
            a, da = self.E(args[0])
            b, db = self.E(args[1])
            return (a, conj(da, db))
        if name in getattr(self, 'known_methods', {}) and cal['kind'] == 'MemberExpr':
            # method of a value object translated separately: [coq args... receiver]
            coq, nargs = self.known_methods[name]
            if cal.get('isArrow') or len(args) != nargs:
                raise Unsupported('method call %s with %d args' % (name, len(args)))
            parts = [self.arg(name, i, a) for i, a in enumerate(args)] + [self.E(kids(cal)[0])]
            return self.app(coq, parts)
        if name in getattr(self, 'identity_methods', ('get',)) and not args and cal['kind'] == 'MemberExpr':
            base = kids(cal)[0]
            while base['kind'] in ('ImplicitCastExpr', 'ParenExpr'):
                base = kids(base)[0]
            if base['kind'] == 'DeclRefExpr':
                return self.E(base)
            if base['kind'] in ('MemberExpr', 'CXXOperatorCallExpr'):
                return self.E(base)  # wrapper around a field: this->f.load(), operator T()
        if name == 'operator[]' and n['kind'] == 'CXXOperatorCallExpr' and len(args) == 2:
            # subscript of an array member that is viewed through a word of the same union
            arr = self.strip_casts(args[0])
            base, path = self.member_path(arr) if arr['kind'] == 'MemberExpr' else (None, ())
            v = self.union_views.get(path) if base is not None else None
            if v is None or len(v) != 4:
                raise Unsupported('operator[] on something that is not a viewed array member')
            word, off, size, count = v
            ti = ctype(args[1])
            if ti[0] != 'i':
                raise Unsupported('subscript type')
            i, di = self.E(args[1])
            inb = '((0 <=? %s) && (%s <? %d))' % (i, i, count)
            return (self.byte_view(self.field_of(base, word), '(8 * (%d + %d * %s))' % (off, size, i), size), conj(di, inb))
        if name in self.fn_calls:
            coq, with_def, takes_fields = self.fn_calls[name]
            parts = [self.E(a) for a in args]
            terms = [p[0] for p in parts]
            if takes_fields:
                if cal['kind'] != 'MemberExpr':
                    raise Unsupported('call %s without an object' % name)
                rc = self.strip_casts(kids(cal)[0])
                if rc['kind'] == 'CXXThisExpr':
                    terms += self.receiver_fields('this')
                elif rc['kind'] == 'DeclRefExpr' and rc['referencedDecl'].get('kind') == 'ParmVarDecl' \
                        and rc['referencedDecl'].get('name') in self.obj_params:
                    terms += self.receiver_fields(rc['referencedDecl']['name'])
                else:
                    raise Unsupported('receiver of %s' % name)
            d = conj(*[p[1] for p in parts])
            if with_def:
                d = conj(d, '(%s_defined %s)' % (coq, ' '.join(terms)) if terms else '%s_defined' % coq)
            return ('(%s %s)' % (coq, ' '.join(terms)) if terms else coq, d)
        if name in self.input_exprs:
            # a call on opaque objects: its value is a fresh input of the function
            refs = []

            def collect(x):
                if isinstance(x, dict):
                    if x.get('kind') == 'DeclRefExpr' and x['referencedDecl'].get('kind') in ('ParmVarDecl', 'VarDecl'):
                        refs.append(x['referencedDecl'].get('name'))
                    for c in x.get('inner', []):
                        collect(c)
            for a in ([kids(cal)[0]] if cal['kind'] == 'MemberExpr' else []) + list(args):
                collect(a)
            if not refs or any(r not in self.drop_params for r in refs):
                raise Unsupported('input call %s on non-opaque arguments %s' % (name, refs))
            if t[0] != 'i':
                raise Unsupported('input call %s of non-integer type' % name)
            nm = '_'.join([name] + ['%s_v%d' % (r, self.opaque_ver[r]) if self.opaque_ver.get(r) else r for r in refs])
            nm = re.sub(r'[^A-Za-z0-9_]', '_', nm)
            if nm not in [p[0] for p in self.params]:
                self.params.append((nm, t))
            return (nm, None)
        if name == 'max' and not args and t[0] == 'i':
            return (str(rng(t)[1]), None)
        if name == 'min' and not args and t[0] == 'i':
            return (str(rng(t)[0]), None)
        if name == 'infinity' and not args and t[0] == 'f':
            return ('(finf %s)' % FMT[t[1]], None)
        if name == 'quiet_NaN' and not args and t[0] == 'f':
            return ('(fqnan %s)' % FMT[t[1]], None)
        if name in ('isnan', 'isinf') and len(args) == 1:
            ta = ctype(args[0])
            a, d = self.E(args[0])
            if ta[0] != 'f':
                raise Unsupported('%s on non-float' % name)
            return ('(%s %s %s)' % ('f_is_nan' if name == 'isnan' else 'f_is_inf', FMT[ta[1]], a), d)
        if name == 'bit_cast' and len(args) == 1:
            ta = ctype(args[0])
            if (ta[0] == 'f' and t == ('i', ta[1], False)) or (t[0] == 'f' and ta == ('i', t[1], False)):
                return self.E(args[0])
            raise Unsupported('bit_cast between %s and %s' % (ta, t))
        if name in ('bswap', '__builtin_bswap16', '__builtin_bswap32', '__builtin_bswap64') and len(args) == 1 and t[0] == 'i':
            a, d = self.E(args[0])
            return ('(bswap %d %s)' % (t[1] // 8, a), d)
        if name in ('min', 'max') and len(args) == 2 and t[0] == 'i':
            a, da = self.E(args[0])
            b, db = self.E(args[1])
            return ('(Z.%s %s %s)' % (name, a, b), conj(da, db))
        if name in ('countr_zero', 'countl_zero', 'popcount') and len(args) == 1:
            ta = ctype(args[0])
            a, d = self.E(args[0])
            return ('(%s %d %s)' % (name, ta[1], a), d)
        if name in getattr(self, 'known_calls', {}):
            coq, nargs = self.known_calls[name]
            if len(args) != nargs:
                raise Unsupported('call %s with %d args' % (name, len(args)))
            parts = [self.arg(name, i, a) for i, a in enumerate(args)]
            return self.app(coq, parts)
        raise Unsupported('call to %s' % name)

    def arg(self, callee, i, a):
        if a['kind'] == 'CXXDefaultArgExpr':
            # clang 14 does not dump the default; the driver supplies it from the callee's ParmVarDecl
            da = getattr(self, 'default_args', {})
            if (callee, i) not in da:
                raise Unsupported('default argument %d of %s' % (i, callee))
            return (da[(callee, i)], None)
        return self.E(a)

    def app(self, coq, parts):
        term = '(%s %s)' % (coq, ' '.join(p[0] for p in parts)) if parts else coq
        d = conj(*[p[1] for p in parts])
        if getattr(self, 'call_defined', False):
            # the callee's own side conditions are part of the caller's
            dc = '(%s_defined %s)' % (coq, ' '.join(p[0] for p in parts)) if parts else '%s_defined' % coq
            d = conj(d, dc)
        return (term, d)

    # ---------- statements ----------
    def flat(self, s):
        if s is None:
            return []
        if s['kind'] == 'CompoundStmt':
            out = []
            for c in kids(s):
                out += self.flat(c)
            return out
        if s['kind'] in ('NullStmt',):
            return []
        return [s]

    def terminates(self, stmts):
        return bool(stmts) and stmts[-1]['kind'] == 'ReturnStmt'

    def assigned(self, stmts):
        out = []
        for s in stmts:
            if s['kind'] in ('BinaryOperator', 'CompoundAssignOperator') and s.get('opcode', '').endswith('='):
                l = kids(s)[0]
                if l['kind'] != 'DeclRefExpr' or l['referencedDecl']['id'] not in self.env:
                    raise Unsupported('assignment to non-local')
                nm = self.env[l['referencedDecl']['id']]
                if nm not in out:
                    out.append(nm)
            elif s['kind'] == 'IfStmt':
                ks = kids(s)
                for b in ks[1:]:
                    for nm in self.assigned(self.flat(b)):
                        if nm not in out:
                            out.append(nm)
            else:
                raise Unsupported('statement %s in non-returning branch' % s['kind'])
        return out

    def block(self, stmts, tail=None):
        """returns (term, defined-or-None); tail = tuple of var names to yield if block does not return"""
        if not stmts:
            if tail is not None:
                if len(tail) == 1:
                    return (tail[0], None)
                return ('(' + ', '.join(tail) + ')', None)
            if self.mode.startswith('field:') and not self.in_branch:
                nm = self.this_fields.get(self.mode.split(':', 1)[1])
                if nm is None or nm not in self.bound_fields:
                    raise Unsupported('field %s never stored in %s' % (self.mode, self.name))
                return (nm, None)  # the function's effect: final value of the field
            raise Unsupported('control reaches end of function %s' % self.name)
        s, rest = stmts[0], stmts[1:]
        while s['kind'] == 'ExprWithCleanups':
            s = kids(s)[0]  # full-expression with temporaries
        k = s['kind']
        if k == 'ParenExpr' or (k in ('CXXStaticCastExpr', 'CStyleCastExpr') and s.get('castKind') == 'ToVoid'):
            inner = s
            while inner['kind'] == 'ParenExpr':
                inner = kids(inner)[0]
            if inner.get('castKind') == 'ToVoid':
                return self.block(rest, tail)  # compiled-out assertion
            if inner['kind'] == 'ConditionalOperator' and len(kids(inner)) == 3:
                # live assertion: cond ? (void)0 : abort(...)  -- cond joins the side conditions
                c0, ok, bad = kids(inner)
                okc = ok
                while okc['kind'] == 'ParenExpr':
                    okc = kids(okc)[0]
                if okc.get('castKind') == 'ToVoid' and bad['kind'] == 'CallExpr' \
                        and self.callee_name(bad, kids(bad))[0] in self.abort_calls:
                    while c0['kind'] in ('ParenExpr',) or (c0['kind'] == 'CXXStaticCastExpr' and c0.get('castKind') == 'NoOp'):
                        c0 = kids(c0)[0]
                    c, dc = self.E(c0)
                    r, dr = self.block(rest, tail)
                    return (r, conj(dc, c, dr))
            raise Unsupported('expression statement')
        if k == 'CXXOperatorCallExpr' and self.callee_name(s, kids(s))[0] == 'operator=' and len(kids(s)) == 3:
            lhs = self.strip_casts(kids(s)[1])
            if lhs['kind'] == 'DeclRefExpr' and lhs['referencedDecl'].get('name') in self.drop_params:
                # re-assignment of an opaque object: later input_exprs calls see a new version
                if self.in_branch:
                    raise Unsupported('opaque assignment under a branch')
                nm0 = lhs['referencedDecl']['name']
                self.check_opaque(kids(s)[2])
                self.opaque_ver[nm0] = self.opaque_ver.get(nm0, 0) + 1
                return self.block(rest, tail)
            if lhs['kind'] == 'MemberExpr':
                base, path = self.member_path(lhs)
                if base == 'this' and len(path) == 1 and self.mode == 'field:' + path[0] and path[0] in self.this_fields:
                    if self.in_branch:
                        raise Unsupported('field store under a branch')
                    e, d = self.E(kids(s)[2])
                    nm = self.this_fields[path[0]]
                    self.bound_fields.add(nm)
                    r, dr = self.block(rest, tail)
                    dd = None
                    if d is not None or dr is not None:
                        dd = conj(d, None if dr is None else '(let %s := %s in %s)' % (nm, e, dr))
                    return ('(let %s := %s in\n  %s)' % (nm, e, r), dd)
            raise Unsupported('operator= statement')
        if k == 'DeclStmt':
            term = None
            decls = [c for c in kids(s) if c['kind'] == 'VarDecl']
            if len(decls) != 1:
                raise Unsupported('multi-declaration')
            v = decls[0]
            nm = self.fresh(v['name'])
            init = kids(v)
            if init:
                c0 = init[-1]
                while c0['kind'] in ('ImplicitCastExpr', 'ParenExpr', 'ExprWithCleanups', 'MaterializeTemporaryExpr'):
                    c0 = kids(c0)[0]
                if c0['kind'] == 'CXXMemberCallExpr' and self.callee_name(c0, kids(c0))[0] in getattr(self, 'input_calls', ()):
                    self.env[v['id']] = nm
                    self.params.append((nm, ctype(v)))
                    return self.block(rest, tail)
            if not init:
                if v['name'] in self.extra_inputs:
                    self.env[v['id']] = nm
                    self.params.append((nm, ctype(v)))
                    return self.block(rest, tail)
                raise Unsupported('uninitialised local %s' % v['name'])
            e, d = self.E(init[-1])
            self.env[v['id']] = nm
            r, dr = self.block(rest, tail)
            dd = None
            if d is not None or dr is not None:
                dd = '(let %s := %s in %s)' % (nm, e, conj(d, dr))
            return ('(let %s := %s in\n  %s)' % (nm, e, r), dd)
        if k == 'ReturnStmt':
            ks = kids(s)
            if self.mode == 'return':
                return self.E(ks[0])
            if self.mode.startswith('callarg:'):
                c = ks[0]
                while c['kind'] in ('ImplicitCastExpr', 'ParenExpr', 'ExprWithCleanups'):
                    c = kids(c)[0]
                if c['kind'] != 'CXXMemberCallExpr':
                    raise Unsupported('expected a member call in return')
                name, _ = self.callee_name(c, kids(c))
                if name != self.mode.split(':', 1)[1] or len(kids(c)) != 2:
                    raise Unsupported('expected call to %s' % self.mode)
                self.result_type = ctype(kids(c)[1])
                return self.E(kids(c)[1])
            if self.mode.startswith('var:'):
                want = self.mode.split(':', 1)[1]
                for i, nm in self.env.items():
                    if nm == want:
                        return (nm, None)
                raise Unsupported('result variable %s never assigned' % want)
        if k in ('BinaryOperator', 'CompoundAssignOperator') and s.get('opcode', '').endswith('=') and s['opcode'] not in ('==', '!=', '<=', '>='):
            ks = kids(s)
            l = ks[0]
            if l['kind'] != 'DeclRefExpr':
                raise Unsupported('assignment target %s' % l['kind'])
            lid = l['referencedDecl']['id']
            lt = ctype(l)
            if lid not in self.env:
                # first assignment to an output reference parameter
                if self.mode == 'var:' + l['referencedDecl'].get('name', ''):
                    self.env[lid] = l['referencedDecl']['name']
                    self.result_type = lt
                else:
                    raise Unsupported('assignment to unknown %s' % l['referencedDecl'].get('name'))
            nm = self.env[lid]
            if s['opcode'] == '=':
                e, d = self.E(ks[1])
            else:
                op = s['opcode'][:-1]
                ct = s.get('computeResultType')
                if lt[0] != 'i' or (ct and norm_type(ct) in INT_TYPES and INT_TYPES[norm_type(ct)] != (lt[1], lt[2])):
                    raise Unsupported('compound assignment with promotion')
                b, db = self.E(ks[1])
                e, d = self.arith(op, lt, nm, b, db)
            r, dr = self.block(rest, tail)
            dd = None
            if d is not None or dr is not None:
                dd = '(let %s := %s in %s)' % (nm, e, conj(d, dr))
            return ('(let %s := %s in\n  %s)' % (nm, e, r), dd)
        if k == 'IfStmt':
            self.in_branch += 1
            try:
                return self.if_stmt(s, rest, tail)
            finally:
                self.in_branch -= 1
        return self.other_stmt(s, rest, tail)

    def check_opaque(self, e):
        """every variable mentioned in e must be opaque (or e is skipped wrongly)"""
        if isinstance(e, dict):
            if e.get('kind') == 'DeclRefExpr' and e['referencedDecl'].get('kind') in ('ParmVarDecl', 'VarDecl') \
                    and e['referencedDecl'].get('name') not in self.drop_params:
                raise Unsupported('opaque assignment mentions %s' % e['referencedDecl'].get('name'))
            if e.get('kind') in ('CXXThisExpr',):
                raise Unsupported('opaque assignment mentions this')
            for c in e.get('inner', []):
                self.check_opaque(c)

    def if_stmt(self, s, rest, tail):
        ks = kids(s)
        c, dc = self.E(ks[0])
        th = self.flat(ks[1])
        el = self.flat(ks[2]) if len(ks) > 2 else []
        if self.terminates(th):
            a, da = self.block(th, None)
            b, db = self.block(el + rest, tail)
            d = None
            if da is not None or db is not None:
                d = '(if %s then %s else %s)' % (c, da or 'true', db or 'true')
            return ('(if %s\n  then %s\n  else %s)' % (c, a, b), conj(dc, d))
        if self.terminates(el):
            a, da = self.block(th + rest, tail)
            b, db = self.block(el, None)
            d = None
            if da is not None or db is not None:
                d = '(if %s then %s else %s)' % (c, da or 'true', db or 'true')
            return ('(if %s\n  then %s\n  else %s)' % (c, a, b), conj(dc, d))
        vs = tuple(self.assigned(th) + [x for x in self.assigned(el) if x not in self.assigned(th)])
        if not vs:
            raise Unsupported('if without effect')
        a, da = self.block(th, vs)
        b, db = self.block(el, vs)
        pat = vs[0] if len(vs) == 1 else "'(" + ', '.join(vs) + ')'
        r, dr = self.block(rest, tail)
        d = None
        if da is not None or db is not None:
            d = '(if %s then %s else %s)' % (c, da or 'true', db or 'true')
        bind = '(if %s then %s else %s)' % (c, a, b)
        dd = conj(dc, d)
        if dr is not None:
            dd = conj(dd, '(let %s := %s in %s)' % (pat, bind, dr))
        return ('(let %s := %s in\n  %s)' % (pat, bind, r), dd)

    def other_stmt(self, s, rest, tail):
        k = s['kind']
        if k in ('CXXMemberCallExpr', 'CallExpr'):
            name, _ = self.callee_name(s, kids(s))
            if self.mode == 'callarg:' + str(name):
                self.result_type = ctype(kids(s)[1])
                return self.E(kids(s)[1])
            if name in getattr(self, 'skip_calls', ()):
                return self.block(rest, tail)
            if name in getattr(self, 'input_calls', ()):
                # e.g. decode(u): the local passed by reference becomes an input
                a = kids(s)[1]
                while a['kind'] in ('ImplicitCastExpr', 'ParenExpr'):
                    a = kids(a)[0]
                if a['kind'] != 'DeclRefExpr':
                    raise Unsupported('input call argument')
                return self.block(rest, tail)
            raise Unsupported('call statement %s' % name)
        raise Unsupported('statement kind %s' % k)

    def fresh(self, base):
        base = re.sub(r'[^A-Za-z0-9_]', '_', base)
        used = set(self.env.values()) | {p[0] for p in self.params}
        nm = base
        i = 0
        while nm in used or nm in ('if', 'then', 'else', 'let', 'in', 'fun', 'end', 'at', 'as', 'is_prefix',
                                  'by', 'for', 'with', 'match', 'return', 'where', 'forall', 'exists', 'using', 'fix', 'cofix',
                                  'Type', 'Prop', 'Set', 'SProp'):
            i += 1
            nm = '%s_%d' % (base, i)
        return nm

    def translate(self):
        n = self.node
        body = None
        inits = []
        for c in kids(n):
            if c['kind'] == 'ParmVarDecl':
                q = c['type'].get('qualType', '')
                if c.get('name') in self.drop_params:
                    continue  # opaque object: only reachable through input_exprs
                if c.get('name') in self.obj_params:
                    for m, nm in self.obj_params[c['name']].items():
                        self.params.append((nm, ('i', 64, False)))
                    continue  # object of class type: one parameter per listed field
                if q.endswith('&') and 'const' not in q:
                    continue  # output reference parameter
                nm = self.fresh(c.get('name', 'arg'))
                self.env[c['id']] = nm
                self.params.append((nm, ctype(c)))
            elif c['kind'] == 'CompoundStmt':
                body = c
            elif c['kind'] == 'CXXCtorInitializer':
                inits.append(c)
        if body is None:
            raise Unsupported('no body for %s' % self.name)
        pre = None
        if inits:
            # constructor: the member initialiser of the result field is the first store
            want = self.mode.split(':', 1)[1] if self.mode.startswith('field:') else None
            if len(inits) != 1 or inits[0].get('anyInit', {}).get('name') != want or want not in self.this_fields:
                raise Unsupported('constructor initialisers of %s' % self.name)
            e0, d0 = self.E(kids(inits[0])[0])
            self.bound_fields.add(self.this_fields[want])
            pre = (self.this_fields[want], e0, d0)
        self.result_type = None
        rt = None
        if self.mode == 'return':
            q = n['type']['qualType'].split('(')[0].strip()
            rt = ctype({'type': {'qualType': q}})
            if rt[0] == 'o':
                rt = None
        term, d = self.block(self.flat(body))
        if pre is not None:
            nm, e0, d0 = pre
            term = '(let %s := %s in\n  %s)' % (nm, e0, term)
            d = conj(d0, None if d is None else '(let %s := %s in %s)' % (nm, e0, d))
        rt = self.result_type or rt
        tyof = getattr(self, 'coq_type', lambda nm, ct: 'bool' if ct == ('b',) else 'Z')  # hook: cxx2v_mem.MemFn
        params = [(p[0], tyof(p[0], p[1])) for p in self.params] + [(p, tyof(p, None)) for p in self.used_fields]
        ps = ' '.join('(%s : %s)' % p for p in params)
        res = getattr(self, 'result_coq', None) or ('bool' if (rt and rt[0] == 'b') else 'Z')
        out = 'Definition %s %s : %s :=\n  %s.\n\n' % (self.name, ps, res, term)
        out += 'Definition %s_defined %s : bool :=\n  %s.\n\n' % (self.name, ps, d or 'true')
        return out


HEADER = '''(** GENERATED by tools/cxx2v.py from %s -- do not edit, not committed.
    Source hash: %s *)
From Coq Require Import ZArith Bool.
From Unodb Require Import Base.Bytes Base.GenPrims.
Local Open Scope Z_scope.
Local Open Scope bool_scope.

'''


def emit(path, origin, body):
    h = hashlib.sha256(body.encode()).hexdigest()[:16]
    text = HEADER % (origin, h) + body
    old = open(path).read() if os.path.exists(path) else None
    if old != text:
        open(path, 'w').write(text)
    return h
