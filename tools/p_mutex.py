"""C13: mutex index.  Coq theorems over the method table regenerated from
mutex_art.hpp (every operation is lock; one call into the wrapped index;
unlock -- get hands the lock out exactly on a hit) + free-running stress with
complete histories validated by the extracted, verified linearizability
validator, and inspection of every returned lock handle."""
import os, json
from vlib import *

REL = ['-O1', '-DNDEBUG', '-DUNODB_DETAIL_WITH_STATS', '-DUNODB_SPINLOCK_LOOP_VALUE=1']


def check(pid, tier, replay=None):
    res = Result(pid, tier)
    res.assumptions = [
        'mutual exclusion of std::mutex (modelled by the mutex_ok acceptor)',
        'the wrapped db<> behaves as the sequential map when its calls are serialised (C01)',
        'the stress runs are model validation / failing-input search: free-running OS threads, not a proof over schedules',
    ]
    proof_stage(res, ['mutex'], ['Properties/Properties_C13.v'], pid)
    res.coverage['trusted_base'] = TRUSTED_COMMON + [
        'method-shape translator tools/shape2v.py + clang 14 JSON AST (mutex_db<uint64_t, value_view>)',
        'extraction: ExtrOcamlBasic only; ocaml/lin_run.ml (untrusted search, verified validator lin_ok)',
        'harness/mutex_stress.cpp (global sequence counter for call/return stamps)',
    ]
    with Lock():
        err = extract_and_build_ocaml(['lin_run'])
        b, berr = build_cxx('mutex_stress', [os.path.join(VERIF, 'harness', 'mutex_stress.cpp'), os.path.join(REPO, 'art_internal.cpp')], REL)
    if err or berr:
        res.violation('cannot build the stress harness: ' + (err or berr)[-800:], {'kind': 'build'}, found_input=False)
        return res.finish()
    thorough = tier == 'thorough'
    total = bad = 0
    handle_problems = 0
    samples = []
    from concurrent.futures import ThreadPoolExecutor
    configs = []
    for nt in (2, 3, 4, 8):
        for nk in (1, 2, 3):
            configs.append((nt, 12 if nt <= 4 else 6, nk, 1500 if thorough else 150))

    def run(cfg):
        nt, nops, nk, runs = cfg
        rc, o, e = sh([os.path.join(BIN, 'mutex_stress'), str(nt), str(nops), str(nk), str(runs), str(seed())], timeout=1800)
        rc2, o2, e2 = sh([os.path.join(OCAML, 'lin_run')], input=o, timeout=1800) if rc == 0 else (1, '', '')
        return cfg, rc, o, e, o2
    with ThreadPoolExecutor(max_workers=4) as ex:
        outs = list(ex.map(run, configs))
    for cfg, rc, o, e, o2 in outs:
        if rc != 0:
            res.violation('mutex_stress crashed (rc=%d) with config %s: %s' % (rc, cfg, e[-300:]), {'kind': 'crash', 'config': cfg})
            continue
        hp = int(o.rsplit('handle_problems=', 1)[1].split()[0])
        handle_problems += hp
        blocks = o.split('\nZ\n')
        verdicts = [l for l in o2.splitlines() if l == 'ok' or l.startswith('NONLIN') or l == 'TOOLONG']
        for blk, v in zip(blocks, verdicts):
            total += 1
            if v.startswith('NONLIN'):
                bad += 1
                if bad <= 3:
                    res.violation('C13 violated on the implementation: recorded history is not linearizable (%s), threads=%d keys=%d' % (v, cfg[0], cfg[2]),
                                  {'kind': 'property-on-implementation', 'config': cfg, 'history': [l for l in blk.splitlines() if l.startswith('C ')]})
        if len(samples) < 2:
            samples.append({'config': cfg, 'history': [l for l in blocks[0].splitlines() if l.startswith('C ')][:16]})
    if handle_problems:
        res.violation('C13 violated on the implementation: %d returned lock handles were wrong (a hit not owning the lock, a miss owning it, '
                      'or value bytes changing while the handle was held)' % handle_problems, {'kind': 'property-on-implementation',
                                                                                                'cmd': 'build/bin/mutex_stress'})
    if not res.proof_ok and not res.violations:
        res.violation('proof obligation no longer checks: ' + ' | '.join(res.broken)[:500],
                      {'kind': 'proof', 'broken': res.broken, 'log': res.proof_log[-1500:]}, found_input=False)
    elif not res.proof_ok:
        res.coverage['broken_obligations'] = res.broken
    res.coverage.update({
        'evaluations': total, 'distinct_nontrivial': total, 'nonlinearizable': bad, 'handle_problems': handle_problems,
        'rule': 'free-running threads (2,3,4,8) x key spaces (1,2,3 keys) x random get/insert/remove mixes with yields; every complete '
                'history is given to a Wing-Gong search whose witness order is validated by the extracted lin_ok; every returned handle '
                'is inspected (owns_lock on hit, not on miss, value bytes stable while held); histories counted as distinct (random timing)',
        'exhaustive': False,
    })
    res.coverage['samples'] = samples
    return res.finish()
