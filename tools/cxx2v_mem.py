#!/usr/bin/env python3
"""cxx2v_mem: byte-memory extension of cxx2v.Fn, used by the `compare` target of gen.py.

Values of three more kinds are translated, all to Coq terms of type [list Z]:

  pointer   (const void*, const T*)   the bytes of the object / region the pointer points into, from the
                                      pointer onwards.  A pointer is only ever used to READ bytes through
                                      memcmp; [memcmp_defined] demands that the n bytes read exist.
  byte span (unodb::key_view)         the bytes the span views.  This abstraction forgets WHERE the bytes
                                      live; it is sound only as long as the code looks at the viewed bytes
                                      (.data() / .size_bytes()).  The object representation of the span
                                      itself (&span reinterpreted as bytes) is its pointer and its length:
                                      taking it makes the ADDRESS an extra parameter [<name>_addr] of the
                                      generated function ([span_object_bytes addr bytes]), so the result
                                      has another arity than the bridge expects and visibly depends on
                                      where the key buffer lives (defect D1 of the pinned tree).
  &x, x of an integral type           [int_object_bytes n x]: the n little-endian object bytes of x
                                      (little-endian target asserted in the translation unit).

Everything else is cxx2v.Fn unchanged."""
import re
import cxx2v
from cxx2v import Fn, Unsupported, kids, ctype, conj, norm_type, INT_TYPES

SPAN = 'span<std::byte, 18446744073709551615>'   # after norm_type (const and the leading std:: stripped)
PASS_CASTS = ('NoOp', 'LValueToRValue')
WRAPPERS = ('ParenExpr', 'ExprWithCleanups', 'MaterializeTemporaryExpr', 'CXXBindTemporaryExpr')


def vkind(n):
    t = ctype(n)
    if t[0] == 'o':
        if t[1] == SPAN:
            return 'span'
        if t[1].endswith('*'):
            return 'ptr'
    return None


class MemFn(Fn):
    def __init__(self, *a, **kw):
        Fn.__init__(self, *a, **kw)
        self.coq_types = {}     # coq parameter / field name -> coq type (default: by C type)
        self.result_coq = None  # coq result type when it is not Z / bool
        self.mem_calls = {}     # (callee name, substring of the callee's function type) -> coq name
        self.call_defined = True

    # ---------- types of the generated parameters ----------
    def coq_type(self, nm, ct):
        if nm in self.coq_types:
            return self.coq_types[nm]
        if ct is not None and ct[0] == 'o':
            if ct[1] == SPAN or ct[1].endswith('*'):
                return 'list Z'
            raise Unsupported('parameter %s of type %s' % (nm, ct[1]))
        return 'bool' if ct == ('b',) else 'Z'

    def member_path(self, n):
        base, path = Fn.member_path(self, n)
        return base, tuple(p for p in path if p)   # members of the anonymous union are members of the object

    # ---------- expressions ----------
    def E(self, n):
        vk = vkind(n)
        if vk == 'ptr':
            return self.P(n)
        if vk == 'span':
            return self.S(n)
        if n['kind'] == 'UnaryExprOrTypeTraitExpr' and n.get('name') == 'sizeof':
            ks = kids(n)
            at = n.get('argType') or (ks[0].get('type') if ks else None)
            if norm_type(at) == SPAN:
                return ('span_object_size', None)   # sizeof(key_view); pinned by a static_assert in the unit
        return Fn.E(self, n)

    def lvalue_name(self, n):
        """coq name of an lvalue that is a parameter or a field of *this / of an object parameter"""
        c = n
        while c['kind'] in WRAPPERS or (c['kind'] == 'ImplicitCastExpr' and c.get('castKind') == 'NoOp'):
            c = kids(c)[0]
        if c['kind'] == 'DeclRefExpr' and c['referencedDecl']['id'] in self.env:
            return self.env[c['referencedDecl']['id']]
        if c['kind'] == 'MemberExpr':
            base, path = self.member_path(c)
            if base is not None and len(path) == 1 and self.has_field(base, path[0]):
                return self.field_of(base, path[0])
        raise Unsupported('lvalue %s is not a parameter or a known field' % c['kind'])

    def S(self, n):
        """a span-valued expression: the bytes it views"""
        k = n['kind']
        ks = kids(n)
        if k in WRAPPERS:
            return self.S(ks[0])
        if k == 'ImplicitCastExpr' and n.get('castKind') in PASS_CASTS:
            return self.S(ks[0])
        if k == 'CXXConstructExpr' and len(ks) == 1 and vkind(ks[0]) == 'span' \
                and re.search(r'^void \((const )?std::span<const std::byte, 18446744073709551615> &&?\)', n.get('ctorType', {}).get('qualType', '')):
            return self.S(ks[0])   # copy / move of a span views the same bytes
        if k in ('DeclRefExpr', 'MemberExpr'):
            return (self.lvalue_name(n), None)
        raise Unsupported('span expression %s' % k)

    def P(self, n):
        """a pointer-valued expression: the bytes it points to"""
        k = n['kind']
        ks = kids(n)
        if k in WRAPPERS:
            return self.P(ks[0])
        if k in ('ImplicitCastExpr', 'CXXStaticCastExpr', 'CXXReinterpretCastExpr', 'CStyleCastExpr'):
            ck = n.get('castKind')
            if ck in PASS_CASTS:
                return self.P(ks[0])
            if ck == 'BitCast':
                to = ctype(n)[1]
                if to not in ('void *', 'byte *', 'unsigned char *', 'char *'):
                    raise Unsupported('pointer cast to %s' % to)
                return self.P(ks[0])   # the object representation: [P] already yields object bytes
            raise Unsupported('pointer cast kind %s' % ck)
        if k == 'DeclRefExpr':
            return (self.lvalue_name(n), None)
        if k == 'UnaryOperator' and n.get('opcode') == '&':
            lv = ks[0]
            t = ctype(lv)
            if t[0] == 'i':
                e, d = Fn.E(self, lv)
                return ('(int_object_bytes %d %s)' % (t[1] // 8, e), d)
            if vkind(lv) == 'span':
                nm = self.lvalue_name(lv)
                addr = nm + '_addr'
                if addr not in [p[0] for p in self.params]:
                    self.params.append((addr, ('i', 64, False)))   # where the viewed buffer lives: a new input
                return ('(span_object_bytes %s %s)' % (addr, nm), None)
            raise Unsupported('address of an object of type %s' % (t,))
        if k == 'CXXMemberCallExpr':
            name, cal = self.callee_name(n, ks)
            if name == 'data' and len(ks) == 1 and cal['kind'] == 'MemberExpr' and vkind(kids(cal)[0]) == 'span':
                e, d = self.S(kids(cal)[0])
                return ('(span_data %s)' % e, d)
            raise Unsupported('pointer-valued call %s' % name)
        raise Unsupported('pointer expression %s' % k)

    def call(self, n, t, ks):
        name, cal = self.callee_name(n, ks)
        args = ks[1:]
        if name == 'memcmp' and len(args) == 3 and cal['kind'] == 'DeclRefExpr':
            parts = [self.E(a) for a in args]
            if vkind(args[0]) != 'ptr' or vkind(args[1]) != 'ptr' or ctype(args[2])[0] != 'i':
                raise Unsupported('memcmp argument types')
            terms = ' '.join(p[0] for p in parts)
            return ('(memcmp %s)' % terms, conj(*([p[1] for p in parts] + ['(memcmp_defined %s)' % terms])))
        if name in ('size_bytes',) and not args and cal['kind'] == 'MemberExpr' and vkind(kids(cal)[0]) == 'span':
            e, d = self.S(kids(cal)[0])
            return ('(span_size_bytes %s)' % e, d)
        if cal['kind'] == 'DeclRefExpr':
            fty = cal.get('type', {}).get('qualType', '')
            hits = [coq for (nm, sub), coq in self.mem_calls.items() if nm == name and sub in fty]
            if len(hits) > 1:
                raise Unsupported('ambiguous callee %s : %s' % (name, fty))
            if hits:
                return self.app(hits[0], [self.E(a) for a in args])
        return Fn.call(self, n, t, ks)

    # ---------- statements ----------
    def block(self, stmts, tail=None):
        if stmts:
            s = stmts[0]
            if s['kind'] == 'DeclStmt' and kids(s) and all(c['kind'] == 'StaticAssertDecl' for c in kids(s)):
                return self.block(stmts[1:], tail)
            if s['kind'] == 'IfStmt' and s.get('isConstexpr'):
                ks = kids(s)
                c = ks[0]
                if c['kind'] != 'ConstantExpr' or 'value' not in c:
                    raise Unsupported('if constexpr with a dependent condition')
                taken = str(c['value']).lower() in ('true', '1')
                br = ks[1] if taken else (ks[2] if len(ks) > 2 else None)
                return self.block(self.flat(br) + stmts[1:], tail)
        return Fn.block(self, stmts, tail)
