"""C07: optimistic lock.  Coq theorems over every accepted event sequence +
word-function bridges regenerated from optimistic_lock.hpp + trace
validation: the real lock under the deterministic scheduler, every trace
replayed by the extracted acceptor, the property also checked directly on
the implementation inside the harness."""
import os, json
from vlib import *

HOOK_FLAGS = ['-O1', '-DNDEBUG', '-DUNODB_DETAIL_WITH_STATS', '-DUNODB_SPINLOCK_LOOP_VALUE=1', '-DUNODB_DETAIL_VERIF_HOOKS']


def programs(rng, n):
    """2-3 thread programs over read sections (1-3 loads, optional interim check),
    upgrades with multi-word writes, unlock or unlock-and-obsolete"""
    progs = ['R31;R20|W50;W61|R30;W70', 'R30|W50', 'W50|W60', 'R31|W51', 'R30;R30|W50;W60|W71', 'W50;R30|W60;R31|R20;W70']
    for _ in range(n):
        nt = 2 + rng.below(2)
        ts = []
        for t in range(nt):
            acts = []
            for _ in range(1 + rng.below(3)):
                if rng.chance(1, 2):
                    acts.append('R%d%d' % (1 + rng.below(3), rng.below(2)))
                else:
                    acts.append('W%d%d' % (1 + rng.below(9), 1 if rng.chance(1, 5) else 0))
            ts.append(';'.join(acts))
        progs.append('|'.join(ts))
    return progs


def check(pid, tier, replay=None):
    res = Result(pid, tier)
    res.assumptions = [
        'sequential consistency: every atomic access is one indivisible event (the C++ memory model weakness of acquire/relaxed/fence is not modelled)',
        'usage discipline as enforced by the C++ types: only a write_guard holder stores / unlocks; upgrades use versions obtained from try_read_lock',
        'fewer than 2^62 write acquisitions per lock (C07_no_wrap)',
        'hook placement: every access of the lock word and of in_critical_section has a scheduling point and an observation',
    ]
    proof_stage(res, ['lock'], ['Properties/Properties_C07.v'], pid)
    res.coverage['trusted_base'] = TRUSTED_COMMON + [
        'translator tools/cxx2v.py + clang 14 JSON AST (version_type::is_free/is_write_locked/is_obsolete/set_locked_bit, atomic_version_type::write_unlock)',
        'extraction: ExtrOcamlBasic only; OCaml 4.13.1; driver ocaml/lock_replay.ml',
        'hooks in /repo behind UNODB_DETAIL_VERIF_HOOKS; harness/dsched.hpp (deterministic scheduler), harness/lock_sched.cpp',
    ]
    with Lock():
        err = extract_and_build_ocaml(['lock_replay'])
        b, berr = build_cxx('lock_sched', [os.path.join(VERIF, 'harness', 'lock_sched.cpp')], HOOK_FLAGS)
    if err or berr:
        res.violation('cannot build the trace validation: ' + (err or berr)[-800:], {'kind': 'build', 'error': err or berr}, found_input=False)
        return res.finish()
    if replay:
        rp = json.load(open(replay))
        rc, o, e = sh([os.path.join(BIN, 'lock_sched'), '--prog', rp['program'], '--replay', rp['schedule']], timeout=120)
        print(o)
        rc, o2, e = sh([os.path.join(OCAML, 'lock_replay')], input=o, timeout=120)
        print(o2)
        return 0
    rng = Rng(seed())
    thorough = tier == 'thorough'
    progs = programs(rng, 60 if thorough else 34)
    bound = 3 if thorough else 2
    maxe = 40000 if thorough else 2500
    nrand = 3000 if thorough else 200
    total = 0
    rejected = 0
    problems = 0
    events = 0
    distinct = set()
    samples = []
    from concurrent.futures import ThreadPoolExecutor

    def run_prog(arg):
        pi, prog = arg
        rc, o, e = sh([os.path.join(BIN, 'lock_sched'), '--prog', prog, '--bound', str(bound), '--max', str(maxe),
                       '--random', str(nrand), '--seed', str(seed() + pi)], timeout=900)
        rc2, o2, e2 = sh([os.path.join(OCAML, 'lock_replay')], input=o, timeout=900) if rc == 0 else (1, '', '')
        return pi, prog, rc, o, e, o2

    with ThreadPoolExecutor(max_workers=8) as ex_:
        outs = list(ex_.map(run_prog, list(enumerate(progs))))
    for pi, prog, rc, o, e, o2 in outs:
        if rc != 0:
            res.violation('lock_sched failed (rc=%d) on program %s: %s' % (rc, prog, e[-300:]), {'kind': 'crash', 'program': prog})
            continue
        verdicts = [l for l in o2.splitlines() if l == 'ok' or l.startswith('REJECT')]
        # split executions
        execs = o.split('\nY\n')
        for ex, v in zip(execs, verdicts):
            lines = ex.splitlines()
            if not lines:
                continue
            xs = [l for l in lines if l.startswith('X')]
            sched = xs[0][2:].replace(' ', ',') if xs else ''
            evs = [l for l in lines if l.startswith('E ')]
            events += len(evs)
            total += 1
            distinct.add(hash(tuple(evs)))
            ps = [l[2:] for l in lines if l.startswith('P ')]
            if ps:
                problems += 1
                if problems <= 3:
                    res.violation('C07 violated on the implementation: %s (program %s)' % (ps[0], prog),
                                  {'kind': 'property-on-implementation', 'program': prog, 'schedule': sched, 'trace': evs, 'problems': ps})
            elif v.startswith('REJECT'):
                rejected += 1
                if rejected <= 3:
                    res.violation('the model rejects a trace of the implementation (%s) on program %s; the property checked inside the '
                                  'harness did not fail on it' % (v.split('::')[0].strip(), prog),
                                  {'kind': 'correspondence', 'program': prog, 'schedule': sched, 'trace': evs, 'verdict': v,
                                   'broken': 'trace validation lock_sched vs extracted LockModel.lrun'}, found_input=False)
            if len(samples) < 3 and len(evs) > 12 and pi < 3:
                samples.append({'program': prog, 'schedule': sched, 'trace': evs[:30], 'verdict': v})
    kinds_seen = set()
    for s_ in samples:
        pass
    # the tie is only as good as the hooks: an execution without lock events means they do not fire
    need = {'RLOCK', 'CHECK', 'UPGRADE', 'WUNLOCK', 'WOBSOLETE', 'LOAD', 'STORE'}
    for pi, prog, rc, o, e, o2 in outs:
        for l in o.splitlines():
            if l.startswith('E '):
                kinds_seen.add(l.split(' ')[2])
    if total == 0 or events < 4 * total or not need <= kinds_seen:
        res.violation('trace validation is vacuous: %d executions, %d events, event kinds seen %s (expected %s) - the hooks in '
                      'optimistic_lock.hpp do not fire' % (total, events, sorted(kinds_seen), sorted(need)),
                      {'kind': 'correspondence', 'broken': 'verification hooks / lock_sched event log'}, found_input=False)
    if not res.proof_ok and not res.violations:
        res.violation('proof obligation no longer checks: ' + ' | '.join(res.broken)[:500],
                      {'kind': 'proof', 'broken': res.broken, 'log': res.proof_log[-1500:]}, found_input=False)
    elif not res.proof_ok:
        res.coverage['broken_obligations'] = res.broken
    # a reader waits for as long as the writer holds the lock: free-running probe (no scheduler), the wait loop counted through the hook
    nspin = 300000000 if thorough else 100000000
    rc, o, e = sh([os.path.join(BIN, 'lock_sched'), '--spinprobe', str(nspin)], timeout=300)
    sp = [l[2:] for l in o.splitlines() if l.startswith('P ')]
    if rc != 0 or sp or 'S spinprobe' not in o:
        res.violation('C07 violated on the implementation: %s' % (sp[0] if sp else 'spin probe failed (rc=%d) %s' % (rc, e[-200:])),
                      {'kind': 'property-on-implementation', 'program': 'spinprobe', 'args': ['--spinprobe', str(nspin)], 'problems': sp})
    res.coverage['spin_probe_wait_iterations'] = nspin
    res.coverage.update({
        'evaluations': total,
        'distinct_nontrivial': len(distinct),
        'traces_validated_against_impl': total - rejected,
        'events_replayed': events,
        'programs': len(progs),
        'rule': 'programs of 2-3 threads over {read section with 1-3 loads and optional interim check, upgrade + 3-word write, unlock / '
                'unlock-and-obsolete} on one optimistic_lock and three in_critical_section words; all schedules up to %d preemptions '
                '(stateless DFS, cap %d per program) plus %d random schedules per program; distinct = distinct event traces' % (bound, maxe, nrand),
        'preemption_bound': bound,
        'rejected_traces': rejected,
        'property_failures_on_impl': problems,
        'exhaustive': False,
    })
    res.coverage['samples'] = samples
    return res.finish()
