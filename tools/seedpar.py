#!/usr/bin/env python3
"""Run checks against seeded changes in parallel WITHOUT touching /repo: for every seeded directory a scratch export of
/repo's HEAD gets the patch applied, a scratch copy of /verif (with its compiled .vo files) is pointed at it through
VERIF_REPO, the property's check runs there, and both scratch copies are removed.  Equivalent to tools/seedtest.py
(git -C /repo apply; check; git checkout) but several changes can be examined at once and /repo stays usable.
usage: seedpar.py [-j N] [--props C01,C02 | --all] [--tier quick] <seeded dir>...
Results are written into each directory's meta.json (verif_result / caught_by) and printed."""
import sys, os, json, subprocess, argparse, time, shutil, tempfile
from concurrent.futures import ThreadPoolExecutor

VERIF = os.path.dirname(os.path.dirname(os.path.abspath(__file__)))
ALL = ['C%02d' % i for i in range(1, 18)]


def sh(cmd, **kw):
    return subprocess.run(cmd, capture_output=True, text=True, **kw)


def one(d, props, tier, keep):
    d = os.path.abspath(d)
    patch = os.path.join(d, 'patch.diff')
    mp = os.path.join(d, 'meta.json')
    meta = json.load(open(mp)) if os.path.exists(mp) else {}
    props = props or [meta.get('property')]
    tmp = tempfile.mkdtemp(prefix='seedpar_')
    repo = os.path.join(tmp, 'repo')
    ver = os.path.join(tmp, 'verif')
    res = {}
    try:
        os.makedirs(repo)
        p = subprocess.run('git -C /repo archive HEAD | tar -x -C %s' % repo, shell=True, capture_output=True, text=True)
        if p.returncode != 0:
            return d, {'error': 'archive: ' + p.stderr}
        sh(['git', 'init', '-q'], cwd=repo)
        r = sh(['git', 'apply', patch], cwd=repo)
        if r.returncode != 0:
            return d, {'error': 'patch does not apply: ' + r.stderr[-400:]}
        sh(['rsync', '-a', '--exclude', '.git', '--exclude', 'seeded', '--exclude', 'build/seed_evidence', VERIF + '/', ver + '/'])
        env = dict(os.environ)
        env['VERIF_REPO'] = repo
        env['VERIF_EVIDENCE_DIR'] = os.path.join(ver, 'build', 'seed_evidence')
        for pid in props:
            t0 = time.time()
            pr = sh(['./check', pid, '--tier', tier], cwd=ver, env=env)
            lines = [l for l in pr.stdout.splitlines() if l.startswith('VIOLATION') or l.startswith('  ') or l.startswith('KNOWN')]
            res[pid] = {'rc': pr.returncode, 'caught': pr.returncode != 0, 'wall_s': round(time.time() - t0, 1),
                        'lines': [l[:400] for l in lines[:6]]}
            if keep:
                open(os.path.join(d, 'check_%s.log' % pid), 'w').write(pr.stdout[-20000:] + '\n--- stderr\n' + pr.stderr[-5000:])
    finally:
        shutil.rmtree(tmp, ignore_errors=True)
    if meta:
        meta.setdefault('verif_result', {}).update(res)
        meta['caught_by'] = sorted(p for p, r in meta['verif_result'].items() if r.get('caught'))
        json.dump(meta, open(mp, 'w'), indent=1)
    return d, res


def main():
    ap = argparse.ArgumentParser()
    ap.add_argument('dirs', nargs='+')
    ap.add_argument('-j', type=int, default=4)
    ap.add_argument('--props', default=None)
    ap.add_argument('--all', action='store_true')
    ap.add_argument('--tier', default='quick')
    ap.add_argument('--keep-logs', action='store_true')
    a = ap.parse_args()
    props = ALL if a.all else (a.props.split(',') if a.props else None)
    with ThreadPoolExecutor(max_workers=a.j) as ex:
        for d, res in ex.map(lambda d: one(d, props, a.tier, a.keep_logs), a.dirs):
            print(d)
            if 'error' in res:
                print('   ERROR ' + res['error'])
                continue
            for pid, r in res.items():
                print('   %s rc=%d %.0fs %s' % (pid, r['rc'], r['wall_s'], 'CAUGHT' if r['caught'] else 'not caught'))
                for l in r['lines'][:3]:
                    print('      ' + l[:260])
    return 0


if __name__ == '__main__':
    sys.exit(main())
