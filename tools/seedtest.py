#!/usr/bin/env python3
"""Apply a seeded change to /repo, run checks, undo it.  Never commits anything to /repo.
usage: seedtest.py <dir with patch.diff [+ meta.json]> [--props C01,C02] [--all] [--tier quick]
Evidence of these runs goes to build/seed_evidence (the committed evidence is from the unchanged tree only)."""
import sys, os, json, subprocess, argparse, time

VERIF = os.path.dirname(os.path.dirname(os.path.abspath(__file__)))
ALL = ['C%02d' % i for i in range(1, 18)]


def git(*a):
    return subprocess.run(['git', '-C', '/repo'] + list(a), capture_output=True, text=True)


def main():
    ap = argparse.ArgumentParser()
    ap.add_argument('dir')
    ap.add_argument('--props', default=None)
    ap.add_argument('--all', action='store_true')
    ap.add_argument('--tier', default='quick')
    a = ap.parse_args()
    d = os.path.abspath(a.dir)
    patch = os.path.join(d, 'patch.diff')
    meta = {}
    mp = os.path.join(d, 'meta.json')
    if os.path.exists(mp):
        meta = json.load(open(mp))
    props = ALL if a.all else (a.props.split(',') if a.props else [meta.get('property')])
    st = git('status', '--porcelain', '--untracked-files=no').stdout.strip()
    if st:
        print('refusing: /repo has local modifications:\n' + st)
        return 2
    r = git('apply', '--check', patch)
    if r.returncode != 0:
        print('patch does not apply: ' + r.stderr)
        return 2
    git('apply', patch)
    env = dict(os.environ)
    env['VERIF_EVIDENCE_DIR'] = os.path.join(VERIF, 'build', 'seed_evidence')
    results = {}
    try:
        for p in props:
            t0 = time.time()
            pr = subprocess.run(['./check', p, '--tier', a.tier], cwd=VERIF, env=env, capture_output=True, text=True)
            lines = [l for l in pr.stdout.splitlines() if l.startswith('VIOLATION') or l.startswith('  ')]
            results[p] = {'rc': pr.returncode, 'caught': pr.returncode != 0, 'wall_s': round(time.time() - t0, 1),
                          'lines': [l[:400] for l in lines[:6]]}
            print(p, 'rc=%d' % pr.returncode, '%.0fs' % (time.time() - t0))
            for l in lines[:6]:
                print('   ' + l[:300])
    finally:
        git('checkout', '--', '.')
    st = git('status', '--porcelain', '--untracked-files=no').stdout.strip()
    if st:
        print('WARNING: /repo not clean after undo:\n' + st)
    if meta:
        meta.setdefault('verif_result', {}).update(results)
        meta['caught_by'] = sorted(p for p, r in meta['verif_result'].items() if r['caught'])
        json.dump(meta, open(mp, 'w'), indent=1)
    return 0


if __name__ == '__main__':
    sys.exit(main())
