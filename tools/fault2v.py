#!/usr/bin/env python3
"""Effect-shape mode of the translator (C08b): from clang's JSON AST of the
INSTANTIATED unodb::db<std::uint64_t, value_view> it extracts, for
db::insert_internal / db::remove_internal and everything they call that has
an effect, a tree of effect tokens (coq/Art/FaultShape.v) in source order
with the branch structure kept, and the bodies of the unique_ptr deleters.

Rules (a broken rule raises Unsupported = broken tie, never a silent skip):
 * every call is resolved through its declaration id.  A callee with a body
   (any function of namespace unodb) is walked; if its body has effects it
   must be in INLINE (then it is spliced in, bracketed by TEnterNoexcept /
   TLeaveNoexcept when it is declared noexcept), otherwise it is pure and
   contributes nothing.  A callee without a body must be in STD_PURE.
 * allocate_aligned = TAlloc, free_aligned = TFree, the statistics methods of
   db = TStat, `++key_prefix_splits` = TStat, a unique_ptr with one of the db
   deleters constructed from (pointer, deleter) = TGuard when the enclosing
   function allocated the block, TAdopt (+ deleter tokens at the end of the
   enclosing scope of the caller) otherwise, `.release()` of such a pointer =
   TRelease, `*node = ..` / `*node_in_parent = ..` / `root = ..` = TPublish,
   calls of the PUBLISH helpers on an existing node = TPublish followed by
   their body, `throw` = TThrow.
 * `while (true)` of the two entry points is cut after one iteration (TLoop);
   every other loop must be free of effects.
"""
import json, os, re, subprocess, sys
sys.path.insert(0, os.path.dirname(os.path.abspath(__file__)))
from cxx2v import Unsupported, kids, CLANG_FLAGS

sys.setrecursionlimit(20000)

TU = '''#include "global.hpp"
#include "art.hpp"
template class unodb::db<std::uint64_t, unodb::value_view>;
'''

FN_KINDS = ('FunctionDecl', 'CXXMethodDecl', 'CXXConstructorDecl', 'CXXDestructorDecl', 'CXXConversionDecl')

# functions that are allowed to have effects (spliced in at the call)
INLINE = {'insert_internal', 'remove_internal', 'add_or_choose_subtree', 'remove_or_choose_subtree', 'make_db_leaf_ptr',
          'make_db_inode_unique_ptr', 'create', 'init', 'add_two_to_empty',
          'basic_inode_4', 'basic_inode_16', 'basic_inode_48', 'basic_inode_256',
          'inode_4', 'inode_16', 'inode_48', 'inode_256', 'remove_child_pointer', 'direct_remove_child_pointer'}
# helpers that change an EXISTING node: TPublish, then their body; must be noexcept
PUBLISH = {'add_to_nonfull', 'remove', 'leave_last_child', 'cut', 'prepend'}
# functions that wrap an existing block into an owning pointer (freed at the end of the caller's scope)
ADOPTERS = {'reclaim_leaf_on_scope_exit', 'make_db_inode_reclaimable_ptr'}
STATS = {'increment_leaf_count': ('SCount', 1), 'decrement_leaf_count': ('SCount', -1),
         'increment_inode_count': ('SCount', 1), 'decrement_inode_count': ('SCount', -1),
         'account_growing_inode': ('SGrow', 1), 'account_shrinking_inode': ('SShrink', 1)}
# callees without a body in the dump (std:: / compiler builtins) that are known not to allocate
STD_PURE = {'move', 'forward', 'operator==', 'operator!=', 'operator<', 'operator<=', 'operator>', 'operator>=',
            'operator*', 'operator->', 'operator[]', 'operator++', 'operator--', 'operator+', 'operator-', 'operator+=',
            'operator bool', 'get', 'size', 'size_bytes', 'data', 'begin', 'end', 'cbegin', 'cend', 'subspan', 'first',
            'has_value', 'value', 'empty', 'copy_backward', 'memcpy', 'memcmp', 'memset', 'min', 'max', 'is_sorted', 'fill', 'fill_n', 'copy', 'copy_n',
            'bit_cast', 'countr_zero', 'countl_zero', 'popcount', 'to_integer', 'addressof', 'launder', 'get_deleter',
            'is_constant_evaluated', 'make_pair', 'exchange', 'swap', 'all_of', 'distance', 'operator='}
DENY = {'operator new', 'operator new[]', 'make_unique', 'make_shared', 'push_back', 'emplace_back', 'resize', 'reserve',
        'insert', 'emplace', 'malloc', 'aligned_alloc', 'posix_memalign', 'allocate'}
VALUE_TYPES = re.compile(r'(basic_art_key|std::span|key_view|value_view|basic_node_ptr|node_ptr|tree_depth|std::optional|'
                         r'std::pair|std::tuple|basic_db_leaf_deleter|basic_db_inode_deleter|db_inode_deleter|key_prefix|'
                         r'std::length_error|find_result|std::array|in_fake_critical_section|iter_result|__m128i|__m256i)')
UNKNOWN = set()
NODE_KINDS = {'0': 'KLeaf', '1': 'KI4', '2': 'KI16', '3': 'KI48', '4': 'KI256'}


def norm_sig(t):
    t = t.rstrip()
    return t[:-len(' noexcept(false)')] if t.endswith(' noexcept(false)') else t


def kind_of_type(t):
    m = re.search(r'inode_(4|16|48|256)\b', t)
    if m:
        return 'KI' + m.group(1)
    if 'leaf' in t:
        return 'KLeaf'
    return None


def strip(n):
    while n['kind'] in ('ImplicitCastExpr', 'ParenExpr', 'ExprWithCleanups', 'MaterializeTemporaryExpr', 'CXXBindTemporaryExpr',
                        'CXXFunctionalCastExpr', 'ConstantExpr', 'CXXStaticCastExpr', 'CXXReinterpretCastExpr',
                        'CXXConstCastExpr') and len(kids(n)) == 1:
        n = kids(n)[0]
    if n['kind'] == 'InitListExpr' and len(kids(n)) == 1:
        return strip(kids(n)[0])
    return n


def qt(n):
    t = n.get('type', {})
    return t.get('desugaredQualType') or t.get('qualType') or ''


def is_noexcept(fn):
    return fn.get('type', {}).get('qualType', '').rstrip().endswith('noexcept')


def has_body(fn):
    return any(c.get('kind') == 'CompoundStmt' for c in fn.get('inner', []))


def effects(items):
    for it in items:
        if it[0] in ('tok', 'adopt', 'adopt-here'):
            return True
        if it[0] == 'alt' and any(effects(b) for b in it[1]):
            return True
        if it[0] == 'test' and any(effects(b) for b in it[3]):
            return True
        if it[0] in ('scope', 'loop') and effects(it[1]):
            return True
        if it[0] == 'call' and effects(it[3]):
            return True
    return False


def control(items):
    for it in items:
        if it[0] in ('ret', 'unreach', 'brk'):
            return True
        if it[0] == 'alt' and any(control(b) for b in it[1]):
            return True
        if it[0] == 'test' and any(control(b) for b in it[3]):
            return True
        if it[0] in ('scope', 'loop') and control(it[1]):
            return True
    return False


class Walker:
    def __init__(self, objs):
        self.byid = {}
        self.owner = {}
        self.ctors = {}
        for o in objs:
            self.index(o, None)
        self.memo = {}
        self.active = []
        self.deleter_kind = None

    def index(self, n, owner):
        k = n.get('kind')
        if k in FN_KINDS and 'id' in n:
            if has_body(n) or n['id'] not in self.byid:
                self.byid[n['id']] = n
                self.owner[n['id']] = owner
            if k == 'CXXConstructorDecl' and has_body(n):
                self.ctors.setdefault(norm_sig(n['type']['qualType']), []).append(n)
        o2 = owner
        if k in ('CXXRecordDecl', 'ClassTemplateSpecializationDecl'):
            targ = ''
            for c in n.get('inner', []):
                if c.get('kind') == 'TemplateArgument' and 'type' in c:
                    targ = c['type'].get('qualType', '')
                    break
            o2 = (k, n.get('name'), targ)
        for c in n.get('inner', []):
            self.index(c, o2)

    # ------------------------------------------------------------ functions
    def fn_items(self, fn):
        fid = fn['id']
        key = (fid, self.deleter_kind)
        if key in self.memo:
            return self.memo[key]
        if fid in [a['id'] for a in self.active]:
            raise Unsupported('recursion through ' + fn.get('name', '?'))
        self.active.append({'id': fid, 'fn': fn, 'allocated': False})
        try:
            items = []
            for c in kids(fn):
                if c['kind'] == 'CXXCtorInitializer':
                    for e in kids(c):
                        items += self.expr(e)
            body = [c for c in kids(fn) if c['kind'] == 'CompoundStmt']
            if not body:
                raise Unsupported('no body for ' + fn.get('name', '?'))
            items += [('scope', self.block(body[0], top=fn.get('name') in ('insert_internal', 'remove_internal')))]
        finally:
            self.active.pop()
        self.memo[key] = items
        return items

    def cur(self):
        return self.active[-1]

    # ------------------------------------------------------------ statements
    def block(self, n, top=False):
        out = []
        for s in kids(n):
            out += self.stmt(s, top)
        return out

    def stmt(self, n, top=False):
        k = n['kind']
        if k == 'CompoundStmt':
            return [('scope', self.block(n))]
        if k == 'DeclStmt':
            out = []
            for v in kids(n):
                if v['kind'] in ('VarDecl', 'DecompositionDecl'):
                    for e in kids(v):
                        if e['kind'] != 'BindingDecl':
                            out += self.expr(e)
                            if v['kind'] == 'VarDecl':
                                out += self.bind(v['id'], e)
                elif v['kind'] in ('TypedefDecl', 'TypeAliasDecl', 'StaticAssertDecl', 'UsingDecl'):
                    pass
                else:
                    raise Unsupported('declaration ' + v['kind'])
            return out
        if k == 'IfStmt':
            ks = kids(n)
            if n.get('hasInit') or n.get('hasVar'):
                raise Unsupported('if with initialiser')
            cond, then = ks[0], ks[1]
            els = ks[2] if len(ks) > 2 else None
            if n.get('isConstexpr'):
                c = cond
                while c['kind'] != 'ConstantExpr' and len(kids(c)) == 1:
                    c = kids(c)[0]
                if c['kind'] != 'ConstantExpr' or c.get('value') not in ('true', 'false'):
                    raise Unsupported('if constexpr without a value')
                chosen = then if c['value'] == 'true' else els
                return [('scope', self.stmt(chosen))] if chosen is not None else []
            out = self.expr(cond)
            a = [('scope', self.stmt(then))]
            b = [('scope', self.stmt(els))] if els is not None else []
            t = self.null_test(cond)
            if t is not None and (effects(a + b) or control(a + b)):
                var, what, positive = t
                return out + [('test', var, what, [a, b] if positive else [b, a])]
            return out + self.alt([a, b])
        if k == 'ReturnStmt':
            out = []
            tag = None
            for e in kids(n):
                out += self.expr(e)
                tag = self.ret_tag(e)
            return out + [('ret', tag)]
        if k in ('WhileStmt', 'ForStmt', 'DoStmt', 'CXXForRangeStmt'):
            ks = kids(n)
            if k == 'WhileStmt' and top and strip(ks[0])['kind'] == 'CXXBoolLiteralExpr' and strip(ks[0]).get('value') is True:
                body = self.stmt(ks[1])
                if any(self.has_brk(body) for _ in (0,)):
                    raise Unsupported('break / continue in the descent loop')
                return [('loop', body)]
            items = []
            for c in n.get('inner', []):
                if c and c.get('kind'):
                    items += self.stmt(c) if c['kind'].endswith('Stmt') else self.expr(c)
            if effects(items):
                raise Unsupported('loop with effects in ' + self.cur()['fn'].get('name', '?'))
            if self.has_ret(items):
                return [('alt', [[('ret',)], []])]     # effect-free loop that may leave the function (over-approximated)
            return []
        if k == 'SwitchStmt':
            ks = kids(n)
            out = self.expr(ks[0])
            body = ks[-1]
            if body['kind'] != 'CompoundStmt':
                raise Unsupported('switch body')
            groups = []
            for s in kids(body):
                if s['kind'] in ('CaseStmt', 'DefaultStmt'):
                    while s['kind'] in ('CaseStmt', 'DefaultStmt'):
                        s = kids(s)[-1]
                    groups.append(self.stmt(s))
                else:
                    if not groups:
                        raise Unsupported('statement before the first case')
                    groups[-1] += self.stmt(s)
            for g in groups:
                if not self.ends(g):
                    raise Unsupported('switch case that falls through in ' + self.cur()['fn'].get('name', '?'))
            return out + self.alt([[('scope', g)] for g in groups])
        if k in ('NullStmt',):
            return []
        if k in ('BreakStmt', 'ContinueStmt'):
            return [('brk',)]
        if k in ('CXXTryStmt', 'GotoStmt', 'LabelStmt', 'CoreturnStmt'):
            raise Unsupported('statement ' + k)
        if k.endswith('Stmt') and k not in ('DeclStmt',):
            raise Unsupported('statement ' + k)
        return self.expr(n)

    def null_test(self, cond):
        """(variable id, 'null' | 'none', then-branch-is-the-positive-case) for `x == nullptr`, `x != nullptr`,
        `!opt` / `opt` on a local variable x; None for any other condition"""
        c = strip(cond)
        if c['kind'] == 'CallExpr':
            f = strip(kids(c)[0])
            if f['kind'] == 'DeclRefExpr' and f['referencedDecl'].get('name') == '__builtin_expect':
                c = strip(kids(c)[1])
        if c['kind'] == 'BinaryOperator' and c.get('opcode') in ('==', '!='):
            a, b = strip(kids(c)[0]), strip(kids(c)[1])
            if b['kind'] == 'DeclRefExpr' and a['kind'] == 'CXXNullPtrLiteralExpr':
                a, b = b, a
            if a['kind'] == 'DeclRefExpr' and b['kind'] == 'CXXNullPtrLiteralExpr' and a['referencedDecl']['kind'] == 'VarDecl':
                return a['referencedDecl']['id'], 'null', c['opcode'] == '=='
        neg = False
        if c['kind'] == 'UnaryOperator' and c.get('opcode') == '!':
            neg = True
            c = strip(kids(c)[0])
        if c['kind'] == 'CXXMemberCallExpr':
            m = strip(kids(c)[0])
            if m['kind'] == 'MemberExpr' and m.get('name') == 'operator bool' and 'optional' in qt(kids(m)[0]):
                x = strip(kids(m)[0])
                if x['kind'] == 'DeclRefExpr' and x['referencedDecl']['kind'] == 'VarDecl':
                    return x['referencedDecl']['id'], 'none', neg
        return None

    def ret_tag(self, e):
        """what a return expression is known to be: ('const', 'null' | 'none' | 'some-null'), ('var', id),
        ('pass',) = the value returned by the call that is the whole expression, or None"""
        e = strip(e)
        if e['kind'] == 'CXXNullPtrLiteralExpr':
            return ('const', 'null')
        if e['kind'] == 'DeclRefExpr' and e['referencedDecl']['kind'] == 'VarDecl':
            return ('var', e['referencedDecl']['id'])
        if e['kind'] in ('CXXConstructExpr', 'CXXTemporaryObjectExpr', 'InitListExpr') and 'optional' in qt(e):
            ks = kids(e)
            if not ks:
                return ('const', 'none')
            if len(ks) == 1 and strip(ks[0])['kind'] == 'CXXNullPtrLiteralExpr':
                return ('const', 'some-null')
            if len(ks) == 1 and 'optional' in qt(ks[0]):
                return self.ret_tag(ks[0])
            return None
        if e['kind'] in ('CallExpr', 'CXXMemberCallExpr'):
            name, did, base = self.callee(e)
            fn = self.byid.get(did)
            if fn is not None and has_body(fn) and name in INLINE:
                return ('pass',)
        return None

    def has_brk(self, items):
        for it in items:
            if it[0] == 'brk':
                return True
            if it[0] == 'alt' and any(self.has_brk(b) for b in it[1]):
                return True
            if it[0] == 'test' and any(self.has_brk(b) for b in it[3]):
                return True
            if it[0] == 'scope' and self.has_brk(it[1]):
                return True
        return False

    def has_ret(self, items):
        for it in items:
            if it[0] == 'ret':
                return True
            if it[0] == 'alt' and any(self.has_ret(b) for b in it[1]):
                return True
            if it[0] == 'test' and any(self.has_ret(b) for b in it[3]):
                return True
            if it[0] == 'scope' and self.has_ret(it[1]):
                return True
        return False

    def ends(self, items):
        if not items:
            return False
        last = items[-1]
        if last[0] in ('ret', 'unreach'):
            return True
        if last[0] == 'scope':
            return self.ends(last[1])
        if last[0] == 'alt':
            return all(self.ends(b) for b in last[1])
        if last[0] == 'test':
            return all(self.ends(b) for b in last[3])
        return False

    def alt(self, branches):
        if not any(effects(b) or control(b) for b in branches):
            return []
        return [('alt', branches)]

    # ------------------------------------------------------------ expressions
    def expr(self, n):
        k = n.get('kind')
        if k is None:
            return []
        if k in ('CallExpr', 'CXXMemberCallExpr', 'CXXOperatorCallExpr'):
            return self.call(n)
        if k in ('CXXConstructExpr', 'CXXTemporaryObjectExpr'):
            return self.construct(n)
        if k == 'CXXNewExpr':
            if not n.get('isPlacement'):
                raise Unsupported('non-placement new in ' + self.cur()['fn'].get('name', '?'))
            ks = kids(n)
            ctor = [c for c in ks if c['kind'] in ('CXXConstructExpr', 'InitListExpr')]
            rest = [c for c in ks if c not in ctor]
            out = []
            for c in rest + ctor:       # placement arguments are evaluated before the constructor runs
                out += self.expr(c)
            return out
        if k == 'CXXDeleteExpr':
            raise Unsupported('delete expression')
        if k == 'CXXThrowExpr':
            out = []
            for c in kids(n):
                out += self.expr(c)
            return out + [('tok', 'TThrow'), ('unreach',)]
        if k in ('LambdaExpr', 'CoawaitExpr', 'StmtExpr', 'CXXInheritedCtorInitExpr'):
            raise Unsupported('expression ' + k)
        if k == 'ConditionalOperator':
            ks = kids(n)
            return self.expr(ks[0]) + self.alt([self.expr(ks[1]), self.expr(ks[2])])
        if k == 'BinaryOperator' and n.get('opcode') in ('&&', '||'):
            ks = kids(n)
            return self.expr(ks[0]) + self.alt([self.expr(ks[1]), []])
        if k == 'BinaryOperator' and n.get('opcode') == '=':
            ks = kids(n)
            l = strip(ks[0])
            b = self.bind(l['referencedDecl']['id'], ks[1]) if l['kind'] == 'DeclRefExpr' else []
            return self.expr(ks[1]) + self.expr(ks[0]) + self.store(ks[0]) + b
        if k in ('UnaryOperator', 'CompoundAssignOperator') and (k == 'CompoundAssignOperator' or n.get('opcode') in ('++', '--')):
            ks = kids(n)
            out = []
            for c in ks:
                out += self.expr(c)
            tgt = strip(ks[0])
            if tgt['kind'] == 'MemberExpr' and strip(kids(tgt)[0])['kind'] == 'CXXThisExpr' and self.this_is_db():
                if tgt.get('name') == 'key_prefix_splits' and n.get('opcode') == '++':
                    return out + [('tok', 'TStat SSplits 1')]
                raise Unsupported('update of db member ' + str(tgt.get('name')))
            return out
        out = []
        for c in kids(n):
            if c.get('kind', '').endswith('Decl'):
                continue
            out += self.stmt(c) if c.get('kind', '').endswith('Stmt') else self.expr(c)
        return out

    def bind(self, var, init):
        """the variable takes the value of [init]: the result of an inlined call, the content of an optional
        variable, or something unknown"""
        e = strip(init)
        t = self.ret_tag(e)
        if t == ('pass',):
            return [('bind', var)]
        if e['kind'] == 'CXXOperatorCallExpr' and len(kids(e)) == 2:
            f, a = strip(kids(e)[0]), strip(kids(e)[1])
            if f['kind'] == 'DeclRefExpr' and f['referencedDecl'].get('name') == 'operator*' and a['kind'] == 'DeclRefExpr' \
                    and 'optional' in qt(a):
                return [('deref', var, a['referencedDecl']['id'])]
        if t is not None and t[0] == 'const':
            return [('bindc', var, t[1])]
        return [('unbind', var)]

    def this_is_db(self):
        o = self.owner.get(self.cur()['id'])
        return bool(o) and o[1] == 'db'

    def store(self, lhs):
        """token for a store through [lhs], or nothing when the place is local / private"""
        l = strip(lhs)
        if l['kind'] == 'UnaryOperator' and l.get('opcode') == '*':
            p = strip(kids(l)[0])
            if p['kind'] == 'DeclRefExpr' and 'node_ptr' in qt(l):
                return [('tok', 'TPublish "%s"' % p['referencedDecl'].get('name', 'slot'))]
        if l['kind'] == 'MemberExpr' and l.get('name') == 'root' and strip(kids(l)[0])['kind'] == 'CXXThisExpr':
            return [('tok', 'TPublish "root"')]
        return []

    def callee(self, n):
        k = n['kind']
        c = strip(kids(n)[0])
        if c['kind'] == 'DeclRefExpr':
            return c['referencedDecl'].get('name'), c['referencedDecl'].get('id'), None
        if c['kind'] == 'MemberExpr':
            return c.get('name'), c.get('referencedMemberDecl'), kids(c)[0] if kids(c) else None
        if c['kind'] == 'CXXPseudoDestructorExpr':
            return '~pseudo', None, None
        raise Unsupported('callee of kind %s in %s' % (c['kind'], self.cur()['fn'].get('name', '?')))

    def call(self, n):
        name, did, base = self.callee(n)
        ks = kids(n)
        here = self.cur()['fn'].get('name', '?')
        args = []
        if n['kind'] == 'CXXOperatorCallExpr' and name == 'operator=' and len(ks) == 3:
            args = self.expr(ks[2]) + self.expr(ks[1])
        else:
            for c in ks:
                args += self.expr(c)
        if name in DENY:
            raise Unsupported('call of %s in %s' % (name, here))
        if name == '~pseudo':
            return args
        if name in ('cannot_happen', '__builtin_unreachable', 'abort', 'terminate'):
            return args + [('unreach',)]       # [[noreturn]]: the path ends without reaching the caller
        if name == 'allocate_aligned':
            kd = self.deleter_kind or kind_of_type(self.cur()['fn']['type']['qualType'].split('(')[0])
            if kd is None:
                raise Unsupported('allocation of an unknown block kind in ' + here)
            self.cur()['allocated'] = True
            return args + [('tok', 'TAlloc ' + kd)]
        if name == 'free_aligned':
            if self.deleter_kind is None:
                raise Unsupported('free_aligned outside a deleter, in ' + here)
            return args + [('tok', 'TFree ' + self.deleter_kind)]
        if name in STATS:
            cls, d = STATS[name]
            fn = self.byid.get(did)
            kd = None
            if 'leaf' in name:
                kd = 'KLeaf'
            elif fn is not None:
                for t in kids(fn):
                    if t['kind'] == 'TemplateArgument':
                        if 'type' in t:
                            kd = kind_of_type(t['type']['qualType'])
                        elif 'value' in t:
                            kd = NODE_KINDS.get(str(t['value']))
                        break
            if kd is None:
                raise Unsupported('statistics call %s without a node kind in %s' % (name, here))
            return args + [('tok', 'TStat (%s %s) (%d)' % (cls, kd, d))]
        if name in ('increase_memory_use', 'decrease_memory_use'):
            raise Unsupported('direct memory accounting in ' + here)
        if name == 'release' and base is not None and 'unique_ptr' in qt(base):
            t = qt(base)
            if 'basic_db_leaf_deleter' in t or 'basic_db_inode_deleter' in t:
                return args + [('tok', 'TRelease ' + kind_of_type(t.split('deleter')[0]))]
            raise Unsupported('release() of %s in %s' % (t[:80], here))
        if name in ('reset',) and base is not None and 'unique_ptr' in qt(base):
            raise Unsupported('reset() of an owning pointer in ' + here)
        if name in ADOPTERS or (name in ('make_db_inode_unique_ptr', 'make_db_leaf_ptr') and self.is_adopter(did)):
            t = qt(n)
            if not ('basic_db_leaf_deleter' in t or 'basic_db_inode_deleter' in t):
                raise Unsupported('%s returns %s: not one of the db deleters' % (name, t[:120]))
            fn = self.byid.get(did)
            if fn is None or not is_noexcept(fn):
                raise Unsupported('adopter %s is not noexcept' % name)
            return args + [('adopt', kind_of_type(t.split('deleter')[0]))]
        if n['kind'] == 'CXXOperatorCallExpr' and name == 'operator=' and len(ks) == 3:
            st = self.store(ks[1])
            if st:
                return args + st
        fn = self.byid.get(did)
        if fn is not None and has_body(fn):
            items = self.fn_items(fn)
            if name in PUBLISH and self.on_existing_node(name):
                if not is_noexcept(fn):
                    raise Unsupported('%s changes an existing node and is not noexcept' % name)
                return args + [('tok', 'TPublish "%s"' % name), ('call', name, True, items)]
            if effects(items) and name not in INLINE:
                raise Unsupported('%s (called from %s) has effects %s and is not in the inline list'
                                  % (name, here, self.first_effect(items)))
            if name in INLINE:
                return args + [('call', name, is_noexcept(fn) and effects(items), items)]
            return args
        if name in STD_PURE or (name or '').startswith(('__builtin_', '_mm', '__')):
            return args
        if os.environ.get('FAULT2V_COLLECT'):
            UNKNOWN.add((name, here))
            return args
        raise Unsupported('unclassified call of %s (no body in namespace unodb, not whitelisted) in %s' % (name, here))

    def on_existing_node(self, name):
        # cut: only in the prefix-split constructor; prepend: inside leave_last_child -- both on nodes of the tree
        return True

    def first_effect(self, items):
        for it in items:
            if it[0] in ('tok', 'adopt'):
                return str(it[1])
            if it[0] in ('alt', 'test'):
                for b in it[-1]:
                    r = self.first_effect(b)
                    if r:
                        return r
            if it[0] in ('scope', 'loop'):
                r = self.first_effect(it[1])
                if r:
                    return r
            if it[0] == 'call':
                r = self.first_effect(it[3])
                if r:
                    return r
        return None

    def is_adopter(self, did):
        fn = self.byid.get(did)
        if fn is None:
            return False
        ps = [c for c in kids(fn) if c['kind'] == 'ParmVarDecl']
        return len(ps) == 2 and ps[0]['type']['qualType'].rstrip().endswith('*')

    def construct(self, n):
        t = qt(n)
        ks = kids(n)
        here = self.cur()['fn'].get('name', '?')
        args = []
        for c in ks:
            args += self.expr(c)
        if 'unique_ptr' in t.split('<')[0] or t.startswith('std::unique_ptr'):
            if not ('basic_db_leaf_deleter' in t or 'basic_db_inode_deleter' in t):
                raise Unsupported('owning pointer with an unknown deleter in %s: %s' % (here, t[:100]))
            if len(ks) >= 2:
                kd = kind_of_type(t.split('deleter')[0])
                if self.cur()['allocated']:
                    return args + [('tok', 'TGuard ' + kd)]
                return args + [('adopt-here', kd)]
            return args                      # default / move construction: ownership stays on the stack
        ct = n.get('ctorType', {}).get('qualType')
        cands = [c for c in self.ctors.get(norm_sig(ct), [])] if ct else []
        cls = re.match(r'(?:const )?(?:unodb::detail::|unodb::)?(\w+)', t)
        cname = cls.group(1) if cls else ''
        if re.fullmatch(r'(basic_)?inode(_4|_16|_48|_256|_impl)?', cname) or cname in ('basic_inode',):
            # the constructor (possibly inherited) whose signature matches; all candidates must agree
            shapes = []
            for c in cands:
                o = self.owner.get(c['id'])
                inheriting = any(x['kind'] == 'CXXCtorInitializer' and any(y['kind'] == 'CXXInheritedCtorInitExpr' for y in kids(x))
                                 for x in kids(c))
                if inheriting:
                    continue        # `using parent::parent;` -- the base constructor with this signature is among the candidates
                if o and o[0] == 'ClassTemplateSpecializationDecl':
                    shapes.append((c, self.fn_items(c)))
            if not shapes:
                raise Unsupported('constructor of %s not found in %s (%s) cands=%s' % (cname, here, (ct or '')[-200:], [(self.owner.get(c['id']) or ('',''))[:2] for c in cands]))
            reprs = {repr(s[1]) for s in shapes}
            if len(reprs) != 1:
                # several specialisations print the same signature: keep those whose class matches the kind
                kd = kind_of_type(t)
                sel = [s for s in shapes if kind_of_type('inode_' + (self.owner[s[0]['id']][1] or '').split('_')[-1]) == kd]
                reprs = {repr(s[1]) for s in sel}
                if len(reprs) != 1:
                    raise Unsupported('ambiguous constructor of %s: %s' % (cname, [(self.owner[x[0]['id']], x[0]['id'], len(repr(x[1]))) for x in shapes]))
                shapes = sel
            c, items = shapes[0]
            if effects(items):
                return args + [('call', 'ctor ' + (self.owner[c['id']][1] or cname), is_noexcept(c), items)]
            return args
        if VALUE_TYPES.search(t.split('<')[0]) or not ks:
            return args
        if cands:
            eff = [c for c in cands if effects(self.fn_items(c))]
            if eff:
                raise Unsupported('constructor of %s has effects' % t[:80])
            return args
        raise Unsupported('unclassified construction of %s in %s' % (t[:100], here))


# ---------------------------------------------------------------- items -> shape

def toks(ts, k):
    for t in reversed(ts):
        k = 'Tok (%s) (%s)' % (t, k) if k != 'Stop' else 'Tok (%s) Stop' % t
    return k


def alts(ss):
    uniq = []
    for s in ss:
        if s not in uniq:
            uniq.append(s)
    r = uniq[-1]
    for s in reversed(uniq[:-1]):
        r = 'Alt (%s) (%s)' % (s, r)
    return r


def conv(items, env, nxt, ret, sdef, fdef, D):
    """items -> shape, in continuation-passing style.  env: what is known about local pointer / optional
    variables of the current function ('null', 'nonnull', 'none', 'some-null', 'some') and, under '$ret',
    about the value returned by the last inlined call; nxt(env): the shape after falling off the end of this
    scope; ret(tag): the shape after `return` once the scope-exit actions of the function have run;
    sdef / fdef: pending scope-exit token lists of this scope / of the outer scopes of the same function."""
    if not items:
        return toks([t for d in reversed(sdef) for t in d], nxt(env))
    it, rest = items[0], items[1:]

    def go(e, sd=sdef):
        return conv(rest, e, nxt, ret, sd, fdef, D)
    if it[0] == 'tok':
        return toks([it[1]], go(env))
    if it[0] in ('adopt', 'adopt-here'):
        return toks(['TAdopt ' + it[1]], go(env, sdef + [D[it[1]]]))
    if it[0] == 'ret':
        spec = it[1] if len(it) > 1 else None
        tag = None
        if spec is not None:
            tag = spec[1] if spec[0] == 'const' else env.get(spec[1]) if spec[0] == 'var' else env.get('$ret')
        return toks([t for d in reversed(fdef + sdef) for t in d], ret(tag))
    if it[0] == 'unreach':
        return 'Stop'
    if it[0] == 'brk':
        raise Unsupported('break / continue outside an effect-free loop')
    if it[0] == 'scope':
        return conv(it[1], env, go, ret, [], fdef + sdef, D)
    if it[0] == 'alt':
        return alts([conv(b, env, go, ret, [], fdef + sdef, D) for b in it[1]])
    if it[0] == 'test':
        _, var, what, (pos, neg) = it
        v = env.get(var)
        yes = v == what
        no = v is not None and not yes
        out = []
        if not no:
            out.append(conv(pos, dict(env, **{var: what}), go, ret, [], fdef + sdef, D))
        if not yes:
            other = v if v is not None else ('nonnull' if what == 'null' else 'some')
            out.append(conv(neg, dict(env, **{var: other}), go, ret, [], fdef + sdef, D))
        return alts(out)
    if it[0] == 'bind':
        return go(dict(env, **{it[1]: env.get('$ret')}))
    if it[0] == 'bindc':
        return go(dict(env, **{it[1]: it[2]}))
    if it[0] == 'unbind':
        return go(dict(env, **{it[1]: None}))
    if it[0] == 'deref':
        src = env.get(it[2])
        return go(dict(env, **{it[1]: 'null' if src == 'some-null' else None}))
    if it[0] == 'call':
        _, name, nx, body = it

        def after(tag):
            k = go(dict(env, **{'$ret': tag}))
            return toks(['TLeaveNoexcept'], k) if nx else k
        inner = conv(body, {}, lambda e: after(None), after, [], [], D)
        return toks(['TEnterNoexcept "%s"' % name], inner) if nx else inner
    if it[0] == 'loop':
        return conv(it[1], env, lambda e: 'Tok (TLoop) Stop', ret, [], fdef + sdef, D)
    raise Unsupported('item ' + it[0])


def lift_adopts(items):
    """An adopting construction inside an adopter-like function body cannot be scoped there."""
    for it in items:
        if it[0] == 'adopt-here':
            raise Unsupported('owning pointer adopted outside a listed adopter function')
        if it[0] in ('alt', 'test'):
            for b in it[-1]:
                lift_adopts(b)
        if it[0] in ('scope', 'loop'):
            lift_adopts(it[1])
        if it[0] == 'call':
            lift_adopts(it[3])


def load_objs(flags=()):
    d = '/tmp/fault2v_%d' % os.getpid()
    os.makedirs(d, exist_ok=True)
    src = os.path.join(d, 'tu.cpp')
    open(src, 'w').write(TU)
    cmd = ['clang++'] + CLANG_FLAGS + ['-DNDEBUG', '-DUNODB_SPINLOCK_LOOP_VALUE=1'] + list(flags) + \
          ['-Xclang', '-ast-dump=json', '-Xclang', '-ast-dump-filter=unodb', src]
    p = subprocess.run(cmd, capture_output=True, text=True, timeout=600)
    os.remove(src)
    os.rmdir(d)
    if p.returncode != 0:
        raise Unsupported('clang failed: ' + p.stderr[-1500:])
    s = p.stdout
    dec = json.JSONDecoder()
    i, n, objs = 0, len(s), []
    while i < n:
        while i < n and s[i].isspace():
            i += 1
        if i >= n:
            break
        o, i = dec.raw_decode(s, i)
        objs.append(o)
    return objs


def flat_tokens(items):
    out = []
    for it in items:
        if it[0] == 'tok':
            out.append(it[1])
        elif it[0] == 'scope':
            out += flat_tokens(it[1])
        elif it[0] in ('ret', 'bind', 'bindc', 'unbind', 'deref'):
            pass
        else:
            raise Unsupported('deleter body is not straight-line: ' + it[0])
    return out


def gen_fault(objs=None):
    w = Walker(objs if objs is not None else load_objs())
    # ---- the deleters: operator() of basic_db_leaf_deleter<db> and basic_db_inode_deleter<inode_N, db>
    deleters = {}
    for fid, fn in w.byid.items():
        o = w.owner.get(fid)
        if fn.get('name') != 'operator()' or not o or o[0] != 'ClassTemplateSpecializationDecl' or not has_body(fn):
            continue
        if o[1] == 'basic_db_leaf_deleter':
            kd = 'KLeaf'
        elif o[1] == 'basic_db_inode_deleter':
            kd = kind_of_type(o[2])
        else:
            continue
        if kd is None:
            raise Unsupported('deleter specialisation %s<%s>' % (o[1], o[2][:60]))
        if not is_noexcept(fn):
            raise Unsupported('deleter of %s is not noexcept' % kd)
        w.deleter_kind = kd
        try:
            ts = flat_tokens(w.fn_items(fn))
        finally:
            w.deleter_kind = None
        if kd in deleters and deleters[kd] != ts:
            raise Unsupported('two different deleters for ' + kd)
        deleters[kd] = ts
    for kd in ('KLeaf', 'KI4', 'KI16', 'KI48', 'KI256'):
        if kd not in deleters:
            raise Unsupported('no deleter found for ' + kd)
    # ---- the two entry points of the instantiated db
    ops = []
    for name in ('insert_internal', 'remove_internal'):
        c = [fn for fid, fn in w.byid.items() if fn.get('name') == name and has_body(fn)
             and (w.owner.get(fid) or ('',))[0] == 'ClassTemplateSpecializationDecl' and w.owner[fid][1] == 'db']
        if len(c) != 1:
            raise Unsupported('%d instantiated bodies of db::%s' % (len(c), name))
        items = w.fn_items(c[0])
        lift_adopts(items)
        if is_noexcept(c[0]):
            items = [('call', name, True, items)]
        sh = conv(items, {}, lambda e: 'Stop', lambda tag: 'Tok (TReturn) Stop', [], [], deleters)
        ops.append((name, sh))
    out = 'Definition gen_fault_table : fault_table :=\n  {| ft_deleters :=\n      [ '
    out += '\n      ; '.join('(%s, [%s])' % (kd, '; '.join(deleters[kd])) for kd in ('KLeaf', 'KI4', 'KI16', 'KI48', 'KI256'))
    out += ' ];\n     ft_ops :=\n      [ '
    out += '\n      ; '.join('("%s",\n         %s)' % (n, s) for n, s in ops)
    out += ' ] |}.\n'
    return 'art.hpp / art_internal_impl.hpp: db<uint64_t, value_view>::insert_internal / remove_internal and callees', out, 'Art.FaultShape'


HEADER = '''(** GENERATED by tools/fault2v.py from %s -- do not edit, not committed. *)
From Coq Require Import List String ZArith.
From Unodb Require Import %s.
Import ListNotations.
Local Open Scope string_scope.
Local Open Scope Z_scope.

'''


def emit(path, origin, body, imp):
    text = HEADER % (origin, imp) + body
    old = open(path).read() if os.path.exists(path) else None
    if old != text:
        open(path, 'w').write(text)


if __name__ == '__main__':
    objs = None
    if len(sys.argv) > 1 and sys.argv[1].endswith('.pkl'):
        import pickle
        objs = pickle.load(open(sys.argv[1], 'rb'))
    try:
        o, b, imp = gen_fault(objs)
        print(b)
        if UNKNOWN:
            print('UNKNOWN', sorted(UNKNOWN))
    except Unsupported as e:
        print('UNKNOWN', sorted(UNKNOWN))
        print('ERR', e)
        sys.exit(1)
