"""C16: results independent of build configuration; assertions stay silent.
Coq: the model's outputs do not depend on the statistics component / node
sizes (C16_stats_obs) and the SIMD search variants equal the list-level
functions the model uses.  Tie: seq_diff built in all 16 configurations
{AVX2, SSE4.1} x {stats, no stats} x {assertions, NDEBUG} x {PAUSE, EMPTY},
the same histories in each, every build diffed against the extracted model;
assertion-enabled builds must not abort."""
import os, json, itertools
from vlib import *
import artgen

CLASSES = ['db', 'mutex', 'olc']
KINDS = ['u64', 'bytes']


def configs():
    out = []
    for simd, stats, asserts, spin in itertools.product(('avx2', 'sse41'), (1, 0), (1, 0), (1, 2)):
        name = 'seq_%s_%s_%s_%s' % (simd, 'st' if stats else 'nost', 'as' if asserts else 'nd', 'pause' if spin == 1 else 'empty')
        flags = ['-O1', '-mavx2' if simd == 'avx2' else '-msse4.1', '-DUNODB_SPINLOCK_LOOP_VALUE=%d' % spin]
        if stats:
            flags.append('-DUNODB_DETAIL_WITH_STATS')
        flags += ['-DUNODB_DETAIL_STANDALONE'] if asserts else ['-DNDEBUG']
        out.append((name, flags, stats, asserts))
    return out


def build_cfg(name, flags):
    os.makedirs(BIN, exist_ok=True)
    srcs = [os.path.join(VERIF, 'harness', 'seq_diff.cpp')] + [os.path.join(REPO, f) for f in ('qsbr.cpp', 'qsbr_ptr.cpp', 'art_internal.cpp')]
    cmd = ['g++', '-std=c++20', '-I' + REPO, '-I' + os.path.join(VERIF, 'harness')] + flags + srcs + ['-o', os.path.join(BIN, name), '-lpthread']
    rc, o, e = sh(cmd, timeout=1200)
    return None if rc == 0 else (o + e)[-2000:]


DBG_FLAGS = ['-O1', '-DUNODB_DETAIL_STANDALONE', '-DUNODB_DETAIL_WITH_STATS', '-DUNODB_SPINLOCK_LOOP_VALUE=1', '-DUNODB_DETAIL_VERIF_HOOKS']


def olc_assert_exploration(res, tier):
    """Assertions under concurrency: harness/olc_sched.cpp built WITH the library's assertions (the sequential matrix cannot
    reach the optimistic-read paths that run while a writer is active) explores the point / scan / two-writer programs of
    C03 / C09 with all single-preemption schedules (+ random ones); an assertion that fires aborts the run."""
    import p_olc
    from concurrent.futures import ThreadPoolExecutor
    srcs = [os.path.join(VERIF, 'harness', 'olc_sched.cpp')] + [os.path.join(REPO, f) for f in ('qsbr.cpp', 'qsbr_ptr.cpp', 'art_internal.cpp')]
    with Lock():
        b, berr = build_cxx('olc_sched_dbg', srcs, DBG_FLAGS)
    if berr:
        res.violation('cannot build the assertion-enabled olc_sched: ' + berr[-500:], {'kind': 'build'}, found_input=False)
        return
    thorough = tier == 'thorough'
    progs = []
    for pid in ('C09', 'C03'):
        for pr in p_olc.programs(pid, tier):
            if pr not in progs and (thorough or pr[0].count(',') < 30):
                progs.append(pr)
    maxe = 1200 if thorough else 400
    nrand = 120 if thorough else 40

    def run(a):
        i, (init, prog) = a
        rc, o, e = sh([b, '--init', init, '--prog', prog, '--bound', '1', '--max', str(maxe), '--random', str(nrand),
                       '--seed', str(seed() + i), '--qs', 'every', '--sample', '0'], timeout=3000 if thorough else 900)
        return init, prog, rc, sum(1 for l in o.split('\n') if l.startswith('X ')), (e or '')[-400:]
    with ThreadPoolExecutor(max_workers=12) as ex:
        outs = list(ex.map(run, enumerate(progs)))
    execs = sum(o[3] for o in outs)
    nb = 0
    for init, prog, rc, nx, e in outs:
        if rc != 0:
            nb += 1
            if nb <= 3:
                what = 'an internal assertion fired' if 'Assertion' in e else 'stopped (rc=%d)' % rc
                res.violation('C16 violated on the implementation: assertion-enabled OLC index, init {%s} program %s, %s after %d explored '
                              'schedules: %s' % (init, prog, what, nx, e.strip().split('\n')[0][:300]),
                              {'kind': 'property-on-implementation', 'harness': 'olc_sched (assertion build)', 'init': init, 'program': prog,
                               'flags': DBG_FLAGS, 'args': ['--bound', '1', '--max', str(maxe), '--random', str(nrand), '--qs', 'every'],
                               'stderr': e},
                              signature='olc-assert:' + (e.split('Assertion "')[1].split('"')[0] if 'Assertion "' in e else 'rc%d' % rc))
    res.coverage['olc_assertion_build_programs'] = len(progs)
    res.coverage['olc_assertion_build_executions'] = execs
    res.coverage['olc_assertion_build_failures'] = nb
    if execs < len(progs) * 5:
        res.violation('the assertion-enabled OLC exploration is vacuous (%d executions)' % execs,
                      {'kind': 'correspondence', 'broken': 'olc_sched assertion build'}, found_input=False)


def strip_stats(line):
    return line.split(' L=')[0] if ' L=' in line else line


def check(pid, tier, replay=None):
    res = Result(pid, tier)
    res.assumptions = [
        'the spin-wait variant (PAUSE / empty body) is a scheduling hint without semantic content; the model has no notion of it',
        'the 16 configurations are compared on the sequential histories of C01/C02 (incl. scans followed by removals on the OLC index); '
        'concurrent executions are covered by C03/C09/C14',
    ]
    proof_stage(res, ['asserts'], ['Properties/Properties_C16.v', 'Properties/Properties_C16b.v'], pid)
    res.coverage['trusted_base'] = TRUSTED_COMMON + [
        'extraction: ExtrOcamlBasic only; ocaml/art_run.ml',
        'harness/seq_diff.cpp compiled 16 times with g++ -O1 and the configuration macros / -mavx2 or -msse4.1',
    ]
    from concurrent.futures import ThreadPoolExecutor
    cfgs = configs()
    with Lock():
        err = extract_and_build_ocaml(['art_run'])
        with ThreadPoolExecutor(max_workers=16) as ex:
            berrs = list(ex.map(lambda c: build_cfg(c[0], c[1]), cfgs))
    if err or any(berrs):
        bad = [c[0] for c, b in zip(cfgs, berrs) if b]
        res.violation('cannot build configuration(s) %s: %s' % (bad, (err or [b for b in berrs if b][0])[-600:]),
                      {'kind': 'build', 'configs': bad}, found_input=False)
        return res.finish()
    if replay and json.load(open(replay)).get('harness', '').startswith('olc_sched'):
        rp = json.load(open(replay))
        srcs = [os.path.join(VERIF, 'harness', 'olc_sched.cpp')] + [os.path.join(REPO, f) for f in ('qsbr.cpp', 'qsbr_ptr.cpp', 'art_internal.cpp')]
        b, berr = build_cxx('olc_sched_dbg', srcs, rp.get('flags', DBG_FLAGS))
        if berr:
            print(berr[-1000:])
            return 1
        rc, o, e = sh([b, '--init', rp['init'], '--prog', rp['program']] + rp['args'] + ['--seed', str(seed()), '--sample', '0'], timeout=3000)
        print('olc_sched (assertion build) rc=%d executions=%d' % (rc, sum(1 for l in o.split('\n') if l.startswith('X '))), (e or '')[-600:])
        return 0
    if replay:
        rp = json.load(open(replay))
        for name, flags, stats, asserts in cfgs:
            if name == rp.get('config', name):
                rc, a, e = sh([os.path.join(BIN, name), rp['class'], rp['kind']], input='\n'.join(rp['ops']) + '\n', timeout=300)
                print(name, 'rc=%d' % rc, a[-600:], e[-300:])
        return 0
    total = 0
    nbad = 0
    per_cfg = {}
    samples = []
    jobs = []
    for kind in KINDS:
        hs = artgen.histories('quick', seed(), kind, scan_ops=True)
        if tier != 'thorough':
            td = [h for h in hs if h.tag.startswith('teardown')]
            rest = [h for h in hs if not h.tag.startswith('teardown')]
            hs = rest[:4] + rest[4:40:2] + td[::5]
        hs = [h for h in hs if 'k1' not in h.tag]
        lines = []
        spans = []
        for h in hs:
            spans.append((len(lines), len(lines) + len(h.ops), h.tag))
            lines += h.ops
        text = '\n'.join(lines) + '\n'
        for cls in CLASSES:
            jobs.append((kind, cls, lines, spans, text))

    model_cache = {}
    import threading
    mlock = threading.Lock()

    def run_cfg(arg):
        job, cfg = arg
        kind, cls, lines, spans, text = job
        # node sizes (hence the reported memory use) legitimately differ between configurations: each build reports its own
        rc0, z, e0 = sh([os.path.join(BIN, cfg[0]), cls, kind], input='Z\n', timeout=60)
        key = (jobs.index(job), z.strip())
        with mlock:
            have = key in model_cache
        if not have:
            rc2, m, e2 = sh([os.path.join(OCAML, 'art_run')], input=z.strip() + '\n' + text, timeout=1800)
            with mlock:
                model_cache[key] = m.splitlines()
        rc, a, e = sh([os.path.join(BIN, cfg[0]), cls, kind], input=text, timeout=1800)
        return rc, a.splitlines(), e, key

    work = [(j, c) for j in jobs for c in cfgs]
    with ThreadPoolExecutor(max_workers=16) as ex:
        outs = list(ex.map(run_cfg, work))
    for (job, cfg), (rc, A, e, key) in zip(work, outs):
        kind, cls, lines, spans, text = job
        M = model_cache[key]
        name, flags, stats, asserts = cfg
        per_cfg[name] = per_cfg.get(name, 0) + len(A)
        total += len(A)
        if rc != 0 or len(A) != len(lines):
            at = len(A)
            sp = [s for s in spans if s[0] <= at < s[1]] or [spans[-1]]
            nbad += 1
            if nbad <= 3:
                res.violation('configuration %s stopped (rc=%d%s) on %s/%s in history %s after %d ops: %s'
                              % (name, rc, ', an internal assertion fired' if asserts else '', cls, kind, sp[0][2], at - sp[0][0], (e or '')[-300:]),
                              {'kind': 'property-on-implementation', 'config': name, 'class': cls, 'kind': kind,
                               'ops': lines[sp[0][0]:min(at + 1, sp[0][1])], 'stderr': (e or '')[-600:]})
            continue
        for (lo, hi, tag) in spans:
            for j in range(lo, hi):
                a, m = A[j], M[j]
                if not stats:
                    m = strip_stats(m)
                if a != m:
                    nbad += 1
                    if nbad <= 3:
                        res.violation('configuration %s differs from the model (and hence from the other configurations) on %s/%s, history %s, '
                                      'op %s: %s / model %s' % (name, cls, kind, tag, lines[j][:50], a[:150], m[:150]),
                                      {'kind': 'property-on-implementation', 'config': name, 'class': cls, 'kind': kind, 'ops': lines[lo:j + 1]})
                    break
            else:
                continue
            break
    olc_assert_exploration(res, tier)
    if not res.proof_ok and not res.violations:
        res.violation('proof obligation no longer checks: ' + ' | '.join(res.broken)[:500],
                      {'kind': 'proof', 'broken': res.broken, 'log': res.proof_log[-1500:]}, found_input=False)
    elif not res.proof_ok:
        res.coverage['broken_obligations'] = res.broken
    res.coverage.update({
        'programs': len(cfgs), 'evaluations': total, 'distinct_nontrivial': len(cfgs) * len(jobs),
        'disagreements_checked': total, 'disagreements_found': nbad,
        'rule': '16 builds {AVX2,SSE4.1} x {stats,no stats} x {assertions,NDEBUG} x {PAUSE,EMPTY} of harness/seq_diff.cpp; each runs the same '
                'C01/C02 histories (uint64 keys and byte-string keys of at most 8 bytes) on db, mutex_db, olc_db; every output line is '
                'compared with the extracted model (statistics stripped for the no-stats builds), so all configurations agree pairwise; '
                'assertion-enabled builds must exit 0',
        'ops_per_configuration': per_cfg, 'exhaustive': False,
    })
    res.coverage['samples'] = [{'config': c[0], 'flags': c[1]} for c in cfgs[:4]]
    return res.finish()
