#!/usr/bin/env python3
"""Regenerate coq/Gen/*.v from /repo's current headers (run on every check).
Usage: gen.py [enc|float|lock|qsbr|all]...   Exit 0 = all requested files generated.
On a translator failure the file is replaced by a stub that does not define
the functions, so the dependent bridge proofs fail (broken tie), and the
failure text is written to build/gen_errors.json."""
import sys, os, json
sys.path.insert(0, os.path.dirname(os.path.abspath(__file__)))
import cxx2v
from cxx2v import Unit, Fn, Unsupported, emit

VERIF = os.path.dirname(os.path.dirname(os.path.abspath(__file__)))
GEN = os.path.join(VERIF, 'coq', 'Gen')

TU_COMMON = '#include "global.hpp"\n#include "art_common.hpp"\n'


def gen_encode():
    u = Unit()
    u.load(TU_COMMON, 'key_encoder', ['-DNDEBUG'])
    u.load(TU_COMMON, 'key_decoder', ['-DNDEBUG'])
    out = ''
    for w in (8, 16, 32, 64):
        n = u.find('encode', '(std::int%d_t)' % w, 'key_encoder')
        f = Fn(u, n, 'enc_i%d' % w, mode='callarg:encode')
        out += f.translate()
        n = u.find('decode', '(std::int%d_t &)' % w, 'key_decoder')
        f = Fn(u, n, 'dec_i%d' % w, mode='var:v', inputs=['u'])
        f.input_calls = ('decode',)
        out += f.translate()
    # maxlen constant
    for vid, v in u.vars.items():
        if v.get('name') == 'maxlen':
            e, d = Fn(u, None, '').E(cxx2v.kids(v)[-1])
            out += 'Definition gen_maxlen : Z := %s.\n\n' % e
            break
    else:
        raise Unsupported('key_encoder::maxlen not found')
    return 'art_common.hpp key_encoder/key_decoder', out


TU_FLOAT = TU_COMMON + '''
template std::uint32_t unodb::detail::encode_floating_point<std::uint32_t,float>(float) noexcept;
template std::uint64_t unodb::detail::encode_floating_point<std::uint64_t,double>(double) noexcept;
template float unodb::detail::decode_floating_point<float,std::uint32_t>(std::uint32_t) noexcept;
template double unodb::detail::decode_floating_point<double,std::uint64_t>(std::uint64_t) noexcept;
'''


def gen_float():
    u = Unit()
    u.load(TU_FLOAT, 'encode_floating_point', ['-DNDEBUG'])
    u.load(TU_FLOAT, 'decode_floating_point', ['-DNDEBUG'])
    out = ''
    for nm, sig, coq in (('encode_floating_point', 'unsigned int (float)', 'encf32'),
                         ('encode_floating_point', 'unsigned long (double)', 'encf64'),
                         ('decode_floating_point', 'float (unsigned int)', 'decf32'),
                         ('decode_floating_point', 'double (unsigned long)', 'decf64')):
        n = u.find(nm, sig)
        out += Fn(u, n, coq).translate()
    return 'duckdb_encode_decode.hpp', out


TU_LOCK = '#include "global.hpp"\n#include "optimistic_lock.hpp"\n'


def gen_lock():
    u = Unit()
    u.load(TU_LOCK, 'optimistic_lock', ['-DNDEBUG', '-DUNODB_SPINLOCK_LOOP_VALUE=1'])
    out = ''
    for nm, coq in (('is_write_locked', 'lw_is_write_locked'), ('is_free', 'lw_is_free'), ('is_obsolete', 'lw_is_obsolete'),
                    ('set_locked_bit', 'lw_set_locked_bit')):
        n = u.find(nm, None, 'version_type')
        f = Fn(u, n, coq, this_fields={'version': 'version'})
        out += f.translate()
    n = u.find('write_unlock', None, 'atomic_version_type')
    f = Fn(u, n, 'lw_write_unlock_word', mode='callarg:store')
    f.input_calls = ('load_relaxed',)
    out += f.translate()
    for vid, v in u.vars.items():
        if v.get('name') == 'obsolete_lock_word':
            e, d = Fn(u, None, '').E(cxx2v.kids(v)[-1])
            out += 'Definition lw_obsolete_word : Z := %s.\n\n' % e
            break
    else:
        raise Unsupported('obsolete_lock_word not found')
    return 'optimistic_lock.hpp version_type / atomic_version_type', out


def gen_shape(which):
    import shape2v
    origin, body, imp = shape2v.gen_mutex() if which == 'mutex' else shape2v.gen_ptr()
    return origin, body, imp


TARGETS = {'enc': ('GenEncode.v', gen_encode), 'float': ('GenFloat.v', gen_float), 'lock': ('GenLockWord.v', gen_lock),
           'mutex': ('GenMutexMethods.v', lambda: gen_shape('mutex')), 'ptr': ('GenPtrMethods.v', lambda: gen_shape('ptr'))}


def main(argv):
    want = argv or ['all']
    if 'all' in want:
        want = list(TARGETS)
    os.makedirs(GEN, exist_ok=True)
    os.makedirs(os.path.join(VERIF, 'build'), exist_ok=True)
    errs = {}
    for t in want:
        fn, g = TARGETS[t]
        path = os.path.join(GEN, fn)
        try:
            r = g()
            if len(r) == 3:
                import shape2v
                shape2v.emit(path, r[0], r[1], r[2])
            else:
                emit(path, r[0], r[1])
        except Unsupported as e:
            errs[t] = str(e)
            emit(path, 'TRANSLATION FAILED', '(* translator failure: %s *)\n' % str(e).replace('*)', '* )'))
    json.dump(errs, open(os.path.join(VERIF, 'build', 'gen_errors_%s.json' % '_'.join(sorted(want))), 'w'))
    for t, e in errs.items():
        print('GEN-ERROR %s: %s' % (t, e))
    return 1 if errs else 0


if __name__ == '__main__':
    sys.exit(main(sys.argv[1:]))
