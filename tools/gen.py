#!/usr/bin/env python3
"""Regenerate coq/Gen/*.v from /repo's current headers (run on every check).
Usage: gen.py [enc|float|lock|prefix|qsbr|asserts|compare|sizes|mutex|ptr|fault|all]...   Exit 0 = all requested files generated.
On a translator failure the file is replaced by a stub that does not define
the functions, so the dependent bridge proofs fail (broken tie), and the
failure text is written to build/gen_errors.json."""
import sys, os, json, re
sys.path.insert(0, os.path.dirname(os.path.abspath(__file__)))
import cxx2v
from cxx2v import Unit, Fn, Unsupported, emit

VERIF = os.path.dirname(os.path.dirname(os.path.abspath(__file__)))
GEN = os.path.join(VERIF, 'coq', 'Gen')

TU_COMMON = '#include "global.hpp"\n#include "art_common.hpp"\n'


def gen_encode():
    u = Unit()
    u.load(TU_COMMON, 'key_encoder', ['-DNDEBUG'])
    u.load(TU_COMMON, 'key_decoder', ['-DNDEBUG'])
    out = ''
    for w in (8, 16, 32, 64):
        n = u.find('encode', '(std::int%d_t)' % w, 'key_encoder')
        f = Fn(u, n, 'enc_i%d' % w, mode='callarg:encode')
        out += f.translate()
        n = u.find('decode', '(std::int%d_t &)' % w, 'key_decoder')
        f = Fn(u, n, 'dec_i%d' % w, mode='var:v', inputs=['u'])
        f.input_calls = ('decode',)
        out += f.translate()
    # maxlen constant
    for vid, v in u.vars.items():
        if v.get('name') == 'maxlen':
            e, d = Fn(u, None, '').E(cxx2v.kids(v)[-1])
            out += 'Definition gen_maxlen : Z := %s.\n\n' % e
            break
    else:
        raise Unsupported('key_encoder::maxlen not found')
    return 'art_common.hpp key_encoder/key_decoder', out


TU_FLOAT = TU_COMMON + '''
template std::uint32_t unodb::detail::encode_floating_point<std::uint32_t,float>(float) noexcept;
template std::uint64_t unodb::detail::encode_floating_point<std::uint64_t,double>(double) noexcept;
template float unodb::detail::decode_floating_point<float,std::uint32_t>(std::uint32_t) noexcept;
template double unodb::detail::decode_floating_point<double,std::uint64_t>(std::uint64_t) noexcept;
'''


def gen_float():
    u = Unit()
    u.load(TU_FLOAT, 'encode_floating_point', ['-DNDEBUG'])
    u.load(TU_FLOAT, 'decode_floating_point', ['-DNDEBUG'])
    out = ''
    for nm, sig, coq in (('encode_floating_point', 'unsigned int (float)', 'encf32'),
                         ('encode_floating_point', 'unsigned long (double)', 'encf64'),
                         ('decode_floating_point', 'float (unsigned int)', 'decf32'),
                         ('decode_floating_point', 'double (unsigned long)', 'decf64')):
        n = u.find(nm, sig)
        out += Fn(u, n, coq).translate()
    return 'duckdb_encode_decode.hpp', out


TU_LOCK = '#include "global.hpp"\n#include "optimistic_lock.hpp"\n'


def gen_lock():
    u = Unit()
    u.load(TU_LOCK, 'optimistic_lock', ['-DNDEBUG', '-DUNODB_SPINLOCK_LOOP_VALUE=1'])
    out = ''
    for nm, coq in (('is_write_locked', 'lw_is_write_locked'), ('is_free', 'lw_is_free'), ('is_obsolete', 'lw_is_obsolete'),
                    ('set_locked_bit', 'lw_set_locked_bit')):
        n = u.find(nm, None, 'version_type')
        f = Fn(u, n, coq, this_fields={'version': 'version'})
        out += f.translate()
    n = u.find('write_unlock', None, 'atomic_version_type')
    f = Fn(u, n, 'lw_write_unlock_word', mode='callarg:store')
    f.input_calls = ('load_relaxed',)
    out += f.translate()
    for vid, v in u.vars.items():
        if v.get('name') == 'obsolete_lock_word':
            e, d = Fn(u, None, '').E(cxx2v.kids(v)[-1])
            out += 'Definition lw_obsolete_word : Z := %s.\n\n' % e
            break
    else:
        raise Unsupported('obsolete_lock_word not found')
    return 'optimistic_lock.hpp version_type / atomic_version_type', out


KP_SPEC = 'unodb::detail::key_prefix<unodb::detail::basic_art_key<std::uint64_t>, unodb::in_fake_critical_section>'
TU_PREFIX = '''#include <bit>
#include "global.hpp"
#include "art.hpp"
template union %s;
static_assert(sizeof(%s) == sizeof(std::uint64_t));
static_assert(sizeof(unodb::detail::key_prefix_snapshot) == sizeof(std::uint64_t));
static_assert(std::endian::native == std::endian::little);
''' % (KP_SPEC, KP_SPEC)


def union_word_views(tu, record, word):
    """Byte views of the members of the 8-byte union [record] through its u64 member [word]
    (little-endian target, checked by a static_assert in the TU)."""
    import re
    members, size = cxx2v.record_layout(tu, record)
    if size != 8 or members.get((word,), (None,))[0] != 0:
        raise Unsupported('%s is not an 8-byte union with %s at offset 0' % (record, word))
    tops = sorted((off, path) for path, (off, ty) in members.items() if len(path) == 2 and path[0] != word)
    views = {}
    for i, (off, path) in enumerate(tops):
        end = tops[i + 1][0] if i + 1 < len(tops) and tops[i + 1][1][0] == path[0] else size
        ty = members[path][1]
        m = re.search(r'std::array<.*, (\d+)>$', ty)
        if m:
            cnt = int(m.group(1))
            if (end - off) % cnt:
                raise Unsupported('array member %s of %s' % (path, record))
            views[path] = (word, off, (end - off) // cnt, cnt)
        else:
            views[path] = (word, off, end - off)
    return views


def gen_prefix():
    # no -DNDEBUG: the UNODB_DETAIL_ASSERTs become conjuncts of the <fn>_defined conditions
    u = Unit()
    u.load(TU_PREFIX, 'key_prefix')
    views = union_word_views(TU_PREFIX, 'union ' + KP_SPEC, 'u64')
    sviews = union_word_views(TU_PREFIX, 'union unodb::detail::key_prefix_snapshot', 'u64')
    ident = ('load', 'operator unsigned long', 'operator unsigned char')
    out = ''

    def fn(name, coq, sig=None, mode='return', calls=(), parent='key_prefix', rec='specialization', objs=(), drop=(),
           inputs=(), vw=views):
        nonlocal out
        f = Fn(u, u.find(name, sig, parent, rec), coq, mode=mode, this_fields={'u64': 'u64'})
        f.identity_methods = ident
        f.union_views = vw
        f.obj_params = {o: {'u64': o + '_u64'} for o in objs}
        f.drop_params = tuple(drop)
        f.input_exprs = tuple(inputs)
        f.fn_calls = {k: table[k] for k in calls}
        try:
            out += f.translate()
        except Unsupported as e:
            raise Unsupported('%s (%s::%s): %s' % (coq, parent, name, e))

    # callee name -> (coq name, add callee's side conditions, takes the receiver's u64)
    table = {'length_to_word': ('kp_length_to_word', True, False), 'shared_len': ('kp_shared_len', True, False),
             'length': ('kp_length', True, True)}
    fn('length_to_word', 'kp_length_to_word')
    fn('shared_len', 'kp_shared_len')
    fn('length', 'kp_length')
    table['get_shared_length'] = ('kp_get_shared_length', True, True)
    fn('get_shared_length', 'kp_get_shared_length', '(std::uint64_t)', calls=('shared_len', 'length'))
    fn('get_shared_length', 'kp_get_shared_length_key', '(unodb::detail::basic_art_key', calls=('get_shared_length',),
       drop=('shifted_key',), inputs=('get_u64',))
    fn('operator[]', 'kp_at', calls=('length',))
    fn('cut', 'kp_cut', mode='field:u64', calls=('length_to_word', 'length'))
    fn('prepend', 'kp_prepend', mode='field:u64', calls=('length_to_word', 'length'), objs=('prefix1',))
    fn('key_prefix', 'kp_init_len_src', '(unsigned int, const', mode='field:u64', calls=('length_to_word',),
       objs=('source_key_prefix',))
    fn('make_u64', 'kp_make_u64', calls=('length_to_word', 'shared_len'), drop=('k1', 'shifted_k2', 'depth'),
       inputs=('get_u64',))
    # the iterator's snapshot of the same word (plain members, no critical-section wrappers)
    table = {'shared_len': ('kps_shared_len', True, False), 'length': ('kps_length', True, True)}
    fn('shared_len', 'kps_shared_len', parent='key_prefix_snapshot', rec='record', vw=sviews)
    fn('length', 'kps_length', parent='key_prefix_snapshot', rec='record', vw=sviews)
    fn('get_shared_length', 'kps_get_shared_length', parent='key_prefix_snapshot', rec='record', vw=sviews,
       calls=('shared_len', 'length'))
    fn('operator[]', 'kps_at', parent='key_prefix_snapshot', rec='record', vw=sviews, calls=('length',))
    for cname, coq in (('key_prefix_capacity', 'kp_capacity'), ('key_bytes_mask', 'kp_key_bytes_mask')):
        vals = set()
        for vid, v in u.vars.items():
            if v.get('name') == cname and cxx2v.kids(v):
                try:
                    vals.add(Fn(u, None, '').E(cxx2v.kids(v)[-1])[0])
                except Unsupported:
                    pass  # the dependent initialiser inside the class template pattern
        if len(vals) != 1:
            raise Unsupported('constant %s: %s' % (cname, sorted(vals)))
        out += 'Definition %s : Z := %s.\n\n' % (coq, vals.pop())
    return 'art_internal_impl.hpp key_prefix / key_prefix_snapshot', out


TU_QSBR = '#include "global.hpp"\n#include "qsbr.hpp"\n'

# qsbr_state static functions, in dependency order: C++ name -> Coq name
QSBR_STATE_FNS = (
    ('do_get_epoch', 'qs_do_get_epoch'), ('do_get_thread_count', 'qs_do_get_thread_count'),
    ('do_get_threads_in_previous_epoch', 'qs_do_get_threads_in_previous_epoch'),
    ('get_epoch', 'qs_get_epoch'), ('get_thread_count', 'qs_get_thread_count'),
    ('get_threads_in_previous_epoch', 'qs_get_threads_in_previous_epoch'),
    ('single_thread_mode', 'qs_single_thread_mode'), ('make_from_epoch', 'qs_make_from_epoch'),
    ('inc_thread_count', 'qs_inc_thread_count'), ('dec_thread_count', 'qs_dec_thread_count'),
    ('inc_thread_count_and_threads_in_previous_epoch', 'qs_inc_thread_count_and_threads_in_previous_epoch'),
    ('dec_thread_count_and_threads_in_previous_epoch', 'qs_dec_thread_count_and_threads_in_previous_epoch'),
    ('inc_epoch_reset_previous', 'qs_inc_epoch_reset_previous'),
    ('inc_epoch_dec_thread_count_reset_previous', 'qs_inc_epoch_dec_thread_count_reset_previous'),
    ('dec_thread_count_threads_in_previous_epoch_maybe_advance', 'qs_dec_thread_count_threads_in_previous_epoch_maybe_advance'),
)
# constants of the layout, emitted so that the bridge can pin them
QSBR_CONSTS = (('qsbr_state', 'thread_count_mask'), ('qsbr_state', 'threads_in_previous_epoch_in_word_mask'),
               ('qsbr_state', 'thread_count_in_word_offset'), ('qsbr_state', 'thread_count_in_word_mask'),
               ('qsbr_state', 'epoch_in_word_offset'), ('qsbr_state', 'one_thread_in_count'),
               ('qsbr_state', 'one_thread_and_one_in_previous'), ('qsbr_epoch', 'max'), ('qsbr_epoch', 'max_count'),
               (None, 'max_qsbr_threads'))


def record_members(u, cls, kind):
    if cls not in u.records:
        raise Unsupported('class %s not found' % cls)
    return [c for c in u.records[cls].get('inner', []) if c.get('kind') == kind]


def check_value_wrapper(u, cls, field, ctor_sig):
    """[cls] is a wrapper of the single integer field [field]: no bases, no other
    fields, and the constructor [ctor_sig] stores its argument unchanged and has
    an empty body.  This is what justifies representing a [cls] value by the
    value of its field (constructor = identity)."""
    rec = u.records.get(cls)
    if rec is None:
        raise Unsupported('class %s not found' % cls)
    if rec.get('bases'):
        raise Unsupported('%s has base classes' % cls)
    fields = [c.get('name') for c in record_members(u, cls, 'FieldDecl')]
    if fields != [field]:
        raise Unsupported('%s fields are %s, expected [%s]' % (cls, fields, field))
    ctors = [c for c in record_members(u, cls, 'CXXConstructorDecl')
             if ctor_sig in c.get('type', {}).get('qualType', '') and not c.get('isImplicit')]
    if len(ctors) != 1:
        raise Unsupported('expected one constructor %s%s, found %d' % (cls, ctor_sig, len(ctors)))
    c = ctors[0]
    parms = [k for k in cxx2v.kids(c) if k['kind'] == 'ParmVarDecl']
    inits = [k for k in cxx2v.kids(c) if k['kind'] == 'CXXCtorInitializer']
    body = [k for k in cxx2v.kids(c) if k['kind'] == 'CompoundStmt']
    if len(parms) != 1 or len(inits) != 1 or len(body) != 1:
        raise Unsupported('%s constructor shape' % cls)
    if inits[0].get('anyInit', {}).get('name') != field:
        raise Unsupported('%s constructor does not initialise %s' % (cls, field))
    if cxx2v.kids(body[0]):
        raise Unsupported('%s constructor body is not empty' % cls)
    f = Fn(u, None, '')
    f.env[parms[0]['id']] = parms[0]['name']
    e, d = f.E(cxx2v.kids(inits[0])[0])
    if e != parms[0]['name'] or d is not None:
        raise Unsupported('%s constructor stores %s, not its argument' % (cls, e))


def gen_qsbr():
    u = Unit()
    # one dump: declaration ids must agree between qsbr_epoch, max_qsbr_threads and qsbr_state
    u.load(TU_QSBR, 'qsbr_', ['-DNDEBUG'])
    out = ''
    # ---- qsbr_epoch: a value object wrapping epoch_val ----
    check_value_wrapper(u, 'qsbr_epoch', 'epoch_val', '(unodb::qsbr_epoch::epoch_type)')
    n = u.find('get_val', None, 'qsbr_epoch')
    f = Fn(u, n, 'qe_get_val', this_fields={'epoch_val': 'epoch_val'})
    out += f.translate()
    if f.params or f.used_fields != ['epoch_val']:
        raise Unsupported('qsbr_epoch::get_val signature')
    n = u.find('advance', None, 'qsbr_epoch')
    f = Fn(u, n, 'qe_advance', this_fields={'epoch_val': 'epoch_val'})
    out += f.translate()
    if len(f.params) != 1 or f.used_fields != ['epoch_val']:
        raise Unsupported('qsbr_epoch::advance signature')
    parm = [k for k in cxx2v.kids(n) if k['kind'] == 'ParmVarDecl'][0]
    if not cxx2v.kids(parm):
        raise Unsupported('qsbr_epoch::advance has no default argument')
    dflt, dd = Fn(u, None, '').E(cxx2v.kids(parm)[-1])
    if dd is not None:
        raise Unsupported('default argument with side conditions')
    out += 'Definition qe_advance_default_by : Z := %s.\n\n' % dflt
    # ---- qsbr_state ----
    if record_members(u, 'qsbr_state', 'FieldDecl') or u.records['qsbr_state'].get('bases'):
        raise Unsupported('qsbr_state is expected to have static members only')
    # release build: the assertion statements are ((void)0) and assert_invariants must be empty
    n = u.find('assert_invariants', None, 'qsbr_state')
    body = [k for k in cxx2v.kids(n) if k['kind'] == 'CompoundStmt'][0]
    if cxx2v.kids(body):
        raise Unsupported('qsbr_state::assert_invariants has a body under NDEBUG')
    known = {cpp: (coq, 1) for cpp, coq in QSBR_STATE_FNS}
    known['dec_thread_count_threads_in_previous_epoch_maybe_advance'] = (
        'qs_dec_thread_count_threads_in_previous_epoch_maybe_advance', 2)
    done = {}
    for cpp, coq in QSBR_STATE_FNS:
        n = u.find(cpp, None, 'qsbr_state')
        if n.get('storageClass') != 'static':
            raise Unsupported('qsbr_state::%s is not static' % cpp)
        f = Fn(u, n, coq)
        f.known_calls = dict(done)          # only functions already defined above
        f.known_methods = {'get_val': ('qe_get_val', 0), 'advance': ('qe_advance', 1)}
        f.identity_methods = ()
        f.default_args = {('advance', 0): 'qe_advance_default_by'}
        f.call_defined = True
        f.skip_calls = ('assert_invariants',)
        out += f.translate()
        done[cpp] = known[cpp]
    consts = {}
    for vid, v in u.vars.items():
        consts.setdefault(v.get('name'), []).append(v)
    for cls, nm in QSBR_CONSTS:
        if cls is None:
            vs = [v for v in consts.get(nm, []) if cxx2v.kids(v)]
        else:
            vs = [v for v in record_members(u, cls, 'VarDecl') if v.get('name') == nm]
        if len(vs) != 1:
            raise Unsupported('constant %s: %d definitions' % (nm, len(vs)))
        e, d = Fn(u, None, '').E(cxx2v.kids(vs[0])[-1])
        if d is not None:
            raise Unsupported('constant %s with side conditions' % nm)
        out += 'Definition %s_%s : Z := %s.\n\n' % ('qe' if cls == 'qsbr_epoch' else 'qs', nm, e)
    return 'qsbr.hpp qsbr_epoch / qsbr_state', out


# ---- compare: detail::compare (both overloads) and basic_art_key<KeyType>::cmp / constructors for KeyType = key_view, u64 ----
TU_COMPARE = '#include <bit>\n#include "global.hpp"\n#include "art_internal.hpp"\n' \
    'static_assert(std::endian::native == std::endian::little);\n' \
    'static_assert(sizeof(unodb::key_view) == 16);\n' \
    'static_assert(sizeof(std::byte) == 1);\n'
AK = 'unodb::detail::basic_art_key<%s>'
TU_COMPARE_KEY = TU_COMPARE + ''.join(
    'template %s;\n' % d for d in ('int %(k)s::cmp(%(k)s) const noexcept', 'int %(k)s::cmp(unodb::key_view) const noexcept',
                                   '%(k)s::basic_art_key(%(t)s) noexcept'))


def gen_compare():
    from cxx2v_mem import MemFn
    out = 'From Unodb Require Import Base.MemPrims.\n\n'
    calls = {}

    def fn(u, name, coq, sig, parent, rec=None, mode='return', this=(), objs=(), types=(), result=None):
        nonlocal out
        f = MemFn(u, u.find(name, sig, parent, rec), coq, mode=mode, this_fields={m: m for m in this})
        f.obj_params = {o: {m: o + '_' + m for m in this} for o in objs}
        f.coq_types = dict(types)
        f.result_coq = result
        f.mem_calls = dict(calls)
        f.identity_methods = ()
        try:
            out += f.translate()
        except Unsupported as e:
            raise Unsupported('%s (%s): %s' % (coq, name, e))

    u = Unit()
    u.load(TU_COMPARE, 'detail::compare', ['-DNDEBUG'])
    fn(u, 'compare', 'ak_compare', '(const void *, const size_t, const void *, const size_t)', None)
    calls[('compare', '(const void *, const size_t, const void *, const size_t)')] = 'ak_compare'
    fn(u, 'compare', 'ak_compare_kv', '(const unodb::key_view, const unodb::key_view)', None)
    calls[('compare', '(const unodb::key_view, const unodb::key_view)')] = 'ak_compare_kv'
    # KeyType = key_view: the key is the span itself
    u = Unit()
    u.load(TU_COMPARE_KEY % {'k': AK % 'unodb::key_view', 't': 'unodb::key_view'}, 'basic_art_key', ['-DNDEBUG'])
    L = 'list Z'
    fn(u, 'basic_art_key', 'ak_kv_make', 'void (unodb::key_view)', 'basic_art_key', 'specialization', mode='field:key',
       this=('key',), types={'key': L}, result=L)
    fn(u, 'cmp', 'ak_kv_cmp_key', '(basic_art_key<', 'basic_art_key', 'specialization', this=('key',), objs=('key2',),
       types={'key': L, 'key2_key': L})
    fn(u, 'cmp', 'ak_kv_cmp_view', '(unodb::key_view)', 'basic_art_key', 'specialization', this=('key',), types={'key': L})
    # KeyType = std::uint64_t: the key is the byte-swapped word, compared through its object bytes
    u = Unit()
    u.load(TU_COMPARE_KEY % {'k': AK % 'std::uint64_t', 't': 'std::uint64_t'}, 'basic_art_key', ['-DNDEBUG'])
    fn(u, 'make_binary_comparable', 'ak_u64_make_binary_comparable', None, 'basic_art_key', 'specialization')
    calls[('make_binary_comparable', '')] = 'ak_u64_make_binary_comparable'
    fn(u, 'basic_art_key', 'ak_u64_make', 'void (unsigned long)', 'basic_art_key', 'specialization', mode='field:key',
       this=('key',))
    fn(u, 'cmp', 'ak_u64_cmp_key', '(basic_art_key<', 'basic_art_key', 'specialization', this=('key',), objs=('key2',))
    fn(u, 'cmp', 'ak_u64_cmp_view', '(unodb::key_view)', 'basic_art_key', 'specialization', this=('key',))
    return 'art_internal.hpp detail::compare / basic_art_key::cmp', out


# ---- sizes: the compile-time node-size constants, folded by clang ----
SIZE_CONFIGS = (('unodb::detail::inode_%s<std::uint64_t, unodb::value_view>', 'db_u64'),
                ('unodb::detail::inode_%s<unodb::key_view, unodb::value_view>', 'db_kv'),
                ('unodb::detail::olc_inode_%s<std::uint64_t, unodb::value_view>', 'olc_u64'),
                ('unodb::detail::olc_inode_%s<unodb::key_view, unodb::value_view>', 'olc_kv'))
SIZE_CONSTS = [('i%s_capacity' % c, c, 'capacity') for c in ('4', '16', '48', '256')] + \
              [('i%s_min_size' % c, c, 'min_size') for c in ('4', '16', '48', '256')] + \
              [('i%s_larger_capacity' % c, c, 'larger_derived_type::capacity') for c in ('4', '16', '48')] + \
              [('i%s_smaller_capacity' % c, c, 'smaller_derived_type::capacity') for c in ('16', '48', '256')] + \
              [('i48_empty_child', '48', 'empty_child')]


def gen_sizes():
    tu = '#include "global.hpp"\n#include "art.hpp"\n#include "olc_art.hpp"\nnamespace verif_gen_sizes {\n'
    for pat, tag in SIZE_CONFIGS:
        tu += 'enum %s : unsigned long {\n' % tag
        tu += ''.join('  %s_%s = %s::%s,\n' % (tag, nm, pat % c, member) for nm, c, member in SIZE_CONSTS)
        tu += '  %s_key_prefix_capacity = unodb::detail::key_prefix_capacity,\n};\n' % tag
    tu += '}\n'
    u = Unit()
    found = {}

    def walk(n):
        if n.get('kind') == 'EnumConstantDecl':
            ks = cxx2v.kids(n)
            if len(ks) != 1 or ks[0].get('kind') != 'ConstantExpr' or 'value' not in ks[0]:
                raise Unsupported('enumerator %s is not a folded constant' % n.get('name'))
            found[n['name']] = int(ks[0]['value'])
        for c in n.get('inner', []):
            if isinstance(c, dict):
                walk(c)
    u.walk = lambda n, parent, rec=None: walk(n)
    # -fno-access-control: inode_48's empty_child is a private member
    u.load(tu, 'verif_gen_sizes', ['-DNDEBUG', '-DUNODB_SPINLOCK_LOOP_VALUE=1', '-fno-access-control'])
    out = ''
    for nm in [c[0] for c in SIZE_CONSTS] + ['key_prefix_capacity']:
        vals = set()
        for pat, tag in SIZE_CONFIGS:
            if '%s_%s' % (tag, nm) not in found:
                raise Unsupported('constant %s of %s not found' % (nm, tag))
            vals.add(found['%s_%s' % (tag, nm)])
        if len(vals) != 1:
            raise Unsupported('constant %s differs between db / olc_db / key types: %s' % (nm, sorted(vals)))
        out += 'Definition gs_%s : Z := %d.\n\n' % (nm, vals.pop())
    return 'art_internal_impl.hpp basic_inode<...>::capacity / min_size, key_prefix_capacity, inode_48 empty_child', out


def gen_shape(which):
    import shape2v
    origin, body, imp = shape2v.gen_mutex() if which == 'mutex' else shape2v.gen_ptr()
    return origin, body, imp


ASSERT_HEADERS = ['art_internal.hpp', 'art_internal_impl.hpp', 'art.hpp']
_KW = {'if', 'for', 'while', 'switch', 'catch', 'return', 'sizeof', 'decltype', 'noexcept', 'alignas', 'alignof',
       'static_assert', 'requires', 'defined', 'throw', 'new', 'delete', 'typeid', 'assert', 'else', 'do'}


def _strip_comments(text):
    """comments and preprocessor lines -> spaces (string / char literals kept verbatim)"""
    out, i, n = [], 0, len(text)
    bol = True
    while i < n:
        c = text[i]
        if c == '/' and text[i:i + 2] == '//':
            while i < n and text[i] != '\n':
                i += 1
        elif c == '/' and text[i:i + 2] == '/*':
            j = text.find('*/', i + 2)
            j = n if j < 0 else j + 2
            out.append(' ')
            i = j
        elif c == "'" and i > 0 and text[i - 1].isalnum():
            out.append(c)   # digit separator
            i += 1
        elif c in '"\'':
            j = i + 1
            while j < n and text[j] != c:
                j += 2 if text[j] == '\\' else 1
            out.append(text[i:j + 1])
            i = j + 1
            bol = False
        elif c == '#' and bol:
            while i < n and text[i] != '\n':
                if text[i] == '\\' and text[i + 1:i + 2] == '\n':
                    i += 1
                i += 1
        else:
            out.append(c)
            if c == '\n':
                bol = True
            elif not c.isspace():
                bol = False
            i += 1
    return ''.join(out)


def _scope_name(header):
    """crude: (kind, name) of the block that the text before a '{' opens"""
    h = header.strip()
    m = None
    for m in re.finditer(r'\b(class|struct|union)\s+(?:\[\[[^\]]*\]\]\s*)?(?:alignas\s*\([^)]*\)\s*)?([A-Za-z_]\w*)', h):
        pass
    par = re.search(r'\(', h)
    if m and (not par or par.start() > m.start()) and not re.search(r'\btemplate\s*<[^>]*$', h[:m.start()]):
        return 'c', m.group(2)
    if re.match(r'^(inline\s+)?namespace\b', h) or re.match(r'^extern\b', h):
        return 'n', ''
    for f in re.finditer(r'(operator\s*(?:\[\]|\(\)|[^\s\w(]+)|[A-Za-z_~][\w~]*)\s*(?:<[^<>()]*>)?\s*\(', h):
        nm = re.sub(r'\s+', '', f.group(1))
        if nm in _KW or nm.startswith('UNODB_') or nm.startswith('__'):
            continue
        return 'f', nm
    return None, None


def scan_asserts(fname, text):
    """[(scope, expression)] of every UNODB_DETAIL_ASSERT(...) in source order"""
    t = _strip_comments(text)
    res, stack, closed = [], [], {}
    i, n, start = 0, len(t), 0
    tok = 'UNODB_DETAIL_ASSERT'
    while i < n:
        c = t[i]
        if c in '"\'' and not (c == "'" and t[i - 1].isalnum()):
            j = i + 1
            while j < n and t[j] != c:
                j += 2 if t[j] == '\\' else 1
            i = j + 1
            continue
        if c == '{':
            hdr = t[start:i]
            kind, nm = _scope_name(hdr)
            d = len(stack)
            if kind is None and (hdr.strip() == '' or hdr.strip().startswith(',')) and closed.get(d):
                kind, nm = closed[d]
            stack.append((kind, nm))
            start = i + 1
        elif c == '}':
            if stack:
                top = stack.pop()
                closed[len(stack)] = top if top[0] == 'f' else None
            start = i + 1
        elif c == ';':
            closed[len(stack)] = None
            start = i + 1
        elif t.startswith(tok, i) and not (t[i - 1].isalnum() or t[i - 1] == '_') and not (
                t[i + len(tok):i + len(tok) + 1].isalnum() or t[i + len(tok):i + len(tok) + 1] == '_'):
            j = i + len(tok)
            while j < n and t[j].isspace():
                j += 1
            if j < n and t[j] == '(':
                depth, k = 0, j
                while k < n:
                    if t[k] in '"\'' and not (t[k] == "'" and t[k - 1].isalnum()):
                        q = k + 1
                        while q < n and t[q] != t[k]:
                            q += 2 if t[q] == '\\' else 1
                        k = q
                    elif t[k] == '(':
                        depth += 1
                    elif t[k] == ')':
                        depth -= 1
                        if depth == 0:
                            break
                    k += 1
                if depth != 0:
                    raise Unsupported('unbalanced assertion in %s' % fname)
                expr = re.sub(r'\s+', ' ', t[j + 1:k]).strip()
                cls = [nm for kd, nm in stack if kd == 'c']
                fns = [nm for kd, nm in stack if kd == 'f']
                scope = '::'.join(([cls[-1]] if cls else []) + ([fns[0]] if fns else []))
                res.append(('%s:%s' % (fname, scope or '?'), expr))
                i = k + 1
                continue
        i += 1
    return res


def emit_plain(path, origin, body):
    import hashlib
    text = '(** GENERATED by tools/gen.py from %s -- do not edit, not committed.\n    Source hash: %s *)\n' % (
        origin, hashlib.sha256(body.encode()).hexdigest()[:16]) + body
    if not os.path.exists(path) or open(path).read() != text:
        open(path, 'w').write(text)


def coq_string(s):
    if any(ord(ch) < 32 or ord(ch) > 126 for ch in s):
        raise Unsupported('non-printable character in an assertion expression')
    return '"' + s.replace('"', '""') + '"'


def gen_asserts():
    """plain-text inventory of every UNODB_DETAIL_ASSERT of the sequential ART headers; compared with the hand-written
    classification in Art/ArtAsserts.v by Art/ArtAssertsBridge.v"""
    rows = []
    for h in ASSERT_HEADERS:
        src = open(os.path.join(cxx2v.REPO, h)).read()
        found = scan_asserts(h, src)
        raw = len(re.findall(r'(?<![\w])UNODB_DETAIL_ASSERT\s*\(', _strip_comments(src)))
        if raw != len(found) or not found:
            raise Unsupported('%s: %d assertion tokens but %d extracted' % (h, raw, len(found)))
        rows += found
    body = 'From Coq Require Import List String.\nImport ListNotations.\nLocal Open Scope string_scope.\n\n'
    body += '(* (header:scope, expression text) of each UNODB_DETAIL_ASSERT, in source order *)\n'
    body += 'Definition gen_asserts : list (string * string) :=\n  [ '
    body += ';\n    '.join('(%s, %s)' % (coq_string(a), coq_string(b)) for a, b in rows)
    body += ' ].\n\nDefinition gen_asserts_count : nat := %d.\n' % len(rows)
    return 'UNODB_DETAIL_ASSERT inventory of ' + ' '.join(ASSERT_HEADERS), body, None, None


def gen_fault():
    import fault2v
    origin, body, imp = fault2v.gen_fault()
    return origin, body, imp, fault2v.emit, 'own-emitter'


TARGETS = {'enc': ('GenEncode.v', gen_encode), 'float': ('GenFloat.v', gen_float), 'lock': ('GenLockWord.v', gen_lock),
           'prefix': ('GenKeyPrefix.v', gen_prefix),
           'qsbr': ('GenQsbrState.v', gen_qsbr),
           'asserts': ('GenAsserts.v', gen_asserts),
           'compare': ('GenCompare.v', gen_compare), 'sizes': ('GenSizes.v', gen_sizes),
           'mutex': ('GenMutexMethods.v', lambda: gen_shape('mutex')), 'ptr': ('GenPtrMethods.v', lambda: gen_shape('ptr')),
           'fault': ('GenFaultShape.v', gen_fault)}


def main(argv):
    want = argv or ['all']
    if 'all' in want:
        want = list(TARGETS)
    os.makedirs(GEN, exist_ok=True)
    os.makedirs(os.path.join(VERIF, 'build'), exist_ok=True)
    errs = {}
    for t in want:
        fn, g = TARGETS[t]
        path = os.path.join(GEN, fn)
        try:
            r = g()
            if len(r) == 5:
                r[3](path, r[0], r[1], r[2])
            elif len(r) == 4:
                emit_plain(path, r[0], r[1])
            elif len(r) == 3:
                import shape2v
                shape2v.emit(path, r[0], r[1], r[2])
            else:
                emit(path, r[0], r[1])
        except Unsupported as e:
            errs[t] = str(e)
            emit(path, 'TRANSLATION FAILED', '(* translator failure: %s *)\n' % str(e).replace('*)', '* )'))
    json.dump(errs, open(os.path.join(VERIF, 'build', 'gen_errors_%s.json' % '_'.join(sorted(want))), 'w'))
    for t, e in errs.items():
        print('GEN-ERROR %s: %s' % (t, e))
    return 1 if errs else 0


if __name__ == '__main__':
    sys.exit(main(sys.argv[1:]))
