"""Generation of ART operation histories aimed at the case splits of the
proofs (leaf split, prefix split at every offset, add, grow/shrink at every
class boundary in every position, collapse with prefix prepend, root leaf),
plus an independent Python oracle (ordered map + canonical radix tree)."""
from vlib import Rng

CAP = {4: 'I4', 16: 'I16', 48: 'I48', 256: 'I256'}


def u64(v):
    return '%016x' % (v & 0xFFFFFFFFFFFFFFFF)


def hexk(bs):
    return ''.join('%02x' % b for b in bs) or '-'


class Hist:
    def __init__(self, kind, tag):
        self.kind = kind
        self.tag = tag
        self.ops = ['N']
        self.keys = set()     # currently stored keys (hex strings)
        self.everkeys = []    # all keys ever used

    def ins(self, k, v):
        self.ops.append('I %s %s' % (k, v))
        self.keys.add(k)
        if k not in self.everkeys:
            self.everkeys.append(k)

    def rem(self, k):
        self.ops.append('R %s' % k)
        self.keys.discard(k)

    def get(self, k):
        self.ops.append('G %s' % k)

    def op(self, s):
        self.ops.append(s)
        if s == 'C':
            self.keys.clear()


def rnd_val(rng):
    r = rng.below(10)
    if r == 0:
        return '-'
    if r == 1:
        n = rng.choice([17, 64, 255, 300])
    else:
        n = 1 + rng.below(4)
    return ''.join('%02x' % rng.below(256) for _ in range(n))


def neighbours(k, kind, rng):
    """bounds / probe keys around a stored key: +-1, and for each depth a byte below/above"""
    b = bytes.fromhex(k)
    out = set()
    v = int.from_bytes(b, 'big')
    n = len(b)
    for d in (-1, 1):
        w = v + d
        if 0 <= w < (1 << (8 * n)):
            out.add(w.to_bytes(n, 'big').hex())
    for i in range(n):
        for nb in (0, b[i] - 1, b[i] + 1, 255):
            if 0 <= nb <= 255 and nb != b[i]:
                c = bytearray(b)
                c[i] = nb
                # everything after the changed byte: zero, or copy, or ff
                out.add(bytes(c).hex())
                c2 = bytearray(c)
                for j in range(i + 1, n):
                    c2[j] = 0
                out.add(bytes(c2).hex())
                c3 = bytearray(c)
                for j in range(i + 1, n):
                    c3[j] = 255
                out.add(bytes(c3).hex())
    return sorted(out)


def near_miss_gets(h, rng, count):
    """lookups (and a removal attempt) of keys that differ from a STORED key in one byte - including bytes that lie inside an
    inner node's key prefix or below the last dispatch byte, where only the prefix comparison / the final leaf-key comparison
    can tell the keys apart"""
    stored = sorted(h.keys)
    if not stored:
        return
    for _ in range(count):
        nb = neighbours(rng.choice(stored), h.kind, rng)
        if not nb:
            continue
        x = rng.choice(nb)
        h.get(x)
        if x not in h.keys and rng.chance(1, 4):
            h.rem(x)


def scans_for(h, rng, count, scan_ops=True):
    """append scan operations with interesting bounds"""
    if not scan_ops:
        return
    stored = sorted(h.keys)
    n = len(stored)
    pool = set()
    for k in (rng.choice(stored) for _ in range(min(n, 4))) if stored else []:
        pool.add(k)
        for x in neighbours(k, h.kind, rng):
            pool.add(x)
    klen = len(stored[0]) // 2 if stored else 8
    pool.add('00' * klen)
    pool.add('ff' * klen)
    pool = sorted(pool)
    for _ in range(count):
        r = rng.below(10)
        halt = '-' if rng.chance(2, 3) else str(rng.below(max(1, n + 1)))
        if r < 2:
            h.op('S %s %s' % (rng.choice('fr'), halt))
        elif r < 6:
            h.op('F %s %s %s' % (rng.choice(pool), rng.choice('fr'), halt))
        else:
            a = rng.choice(pool)
            b = rng.choice(pool)
            h.op('Q %s %s %s' % (a, b, halt))
    if h.kind == 'bytes' and stored:
        # the two bounds alias one caller buffer (the full key and a proper prefix of it / itself)
        a = rng.choice(pool)
        n = len(a) // 2
        # (only the far bound may be the shorter one: the near bound is used for the descent and must be a full key)
        h.op('QA %s %d -' % (a, rng.below(n) + 1))
        h.op('QB %s %d -' % (a, n))


def dense_history(rng, kind, scan_ops, nmax):
    """one node crossing every class boundary up and down, in a chosen insertion order"""
    h = Hist(kind, 'dense')
    pos = rng.below(8) if kind == 'u64' else rng.below(4)
    klen = 8 if kind == 'u64' else rng.choice([2, 4, 5, 8])
    pos = min(pos, klen - 1)
    base = [rng.below(256) for _ in range(klen)]
    n = rng.choice([5, 6, 17, 18, 49, 50, 60, 256]) if nmax >= 256 else rng.choice([5, 6, 17, 18, 20])
    n = min(n, nmax)
    bytes_ = list(range(256))
    order = rng.choice(['asc', 'desc', 'rand', 'mid'])
    start = rng.below(256 - n + 1)
    sel = bytes_[start:start + n] if rng.chance(1, 2) else sorted(_sample(rng, bytes_, n))
    if order == 'desc':
        sel = sel[::-1]
    elif order == 'rand':
        sel = _shuffle(rng, sel)
    elif order == 'mid':
        sel = sel[len(sel) // 2:] + sel[:len(sel) // 2]
    keys = []
    for b in sel:
        k = list(base)
        k[pos] = b
        keys.append(hexk(k))
    for i, k in enumerate(keys):
        h.ins(k, rnd_val(rng))
        if rng.chance(1, 6):
            h.ins(k, rnd_val(rng))  # duplicate
        if rng.chance(1, 4):
            h.get(rng.choice(keys))
        if rng.chance(1, 5):
            near_miss_gets(h, rng, 2)
        h.op('D')
    near_miss_gets(h, rng, 6)
    scans_for(h, rng, 6, scan_ops)
    rorder = rng.choice(['asc', 'desc', 'rand'])
    rk = sorted(h.keys)
    if rorder == 'desc':
        rk = rk[::-1]
    elif rorder == 'rand':
        rk = _shuffle(rng, rk)
    for i, k in enumerate(rk):
        if rng.chance(1, 8):
            for x in neighbours(k, kind, rng)[:2]:
                h.rem(x) if x not in h.keys else None
        h.rem(k)
        h.op('D')
        if rng.chance(1, 10):
            scans_for(h, rng, 2, scan_ops)
            h.op('E')
    h.op('E')
    return h


def _sample(rng, l, n):
    l = list(l)
    out = []
    for _ in range(n):
        out.append(l.pop(rng.below(len(l))))
    return out


def _shuffle(rng, l):
    return _sample(rng, l, len(l))


def structured_history(rng, kind, scan_ops, nops):
    """sparse keys with shared prefixes of every length; random op mix"""
    h = Hist(kind, 'mixed')
    klen = 8 if kind == 'u64' else rng.choice([3, 4, 6, 8])
    alph = [rng.below(256) for _ in range(2 + rng.below(3))]
    if rng.chance(1, 3):
        alph = [0, 1, 255]

    def rnd_key():
        if h.everkeys and rng.chance(2, 3):
            # mutate an existing key at one position (shares a prefix of that length)
            b = bytearray(bytes.fromhex(rng.choice(h.everkeys)))
            i = rng.below(klen)
            b[i] = rng.choice(alph) if rng.chance(2, 3) else rng.below(256)
            if rng.chance(1, 3):
                for j in range(i + 1, klen):
                    b[j] = rng.choice(alph)
            return bytes(b).hex()
        return hexk([rng.choice(alph) if rng.chance(3, 4) else rng.below(256) for _ in range(klen)])

    for i in range(nops):
        r = rng.below(100)
        if r < 45:
            h.ins(rnd_key(), rnd_val(rng))
        elif r < 50 and h.keys:
            h.ins(rng.choice(sorted(h.keys)), rnd_val(rng))
        elif r < 72 and h.keys:
            h.rem(rng.choice(sorted(h.keys)))
        elif r < 78:
            k = rnd_key()
            if k not in h.keys:
                h.rem(k)
        elif r < 85:
            h.get(rng.choice(h.everkeys) if h.everkeys and rng.chance(2, 3) else rnd_key())
        elif r < 88:
            near_miss_gets(h, rng, 2)
        elif r < 90:
            h.op('E')
        elif r < 91:
            h.op('C')
        else:
            scans_for(h, rng, 1, scan_ops)
        h.op('D')
    return h


def varlen_history(rng, scan_ops, nops):
    """byte-string keys of different lengths forming a prefix-free set:
    zero-terminated strings over a non-zero alphabet (what the encoder
    produces for text), total length <= 8 so that every set is compressible"""
    h = Hist('bytes', 'varlen')
    alph = [0x61, 0x62, 0x01, 0xff]

    def rnd_key():
        n = rng.below(7)
        return hexk([rng.choice(alph) for _ in range(n)] + [0])

    for i in range(nops):
        r = rng.below(100)
        if r < 50:
            h.ins(rnd_key(), rnd_val(rng))
        elif r < 75 and h.keys:
            h.rem(rng.choice(sorted(h.keys)))
        elif r < 80:
            k = rnd_key()
            if k not in h.keys:
                h.rem(k)
        elif r < 90:
            h.get(rnd_key())
        elif scan_ops:
            # bounds of the same shape keep the key set + bound prefix-free
            a, b = rnd_key(), rnd_key()
            halt = '-' if rng.chance(2, 3) else str(rng.below(5))
            c = rng.below(3)
            if c == 0:
                h.op('S %s %s' % (rng.choice('fr'), halt))
            elif c == 1:
                h.op('F %s %s %s' % (a, rng.choice('fr'), halt))
            else:
                h.op('Q %s %s %s' % (a, b, halt))
        h.op('D')
    return h


def corpus_histories(kind):
    """minimised past failures and the design-phase witnesses; replayed first"""
    out = []
    if kind == 'u64':
        h = Hist('u64', 'corpus-seek-falloff-fwd')
        for k in (0, 1, 256):
            h.ins(u64(k), '01')
        h.op('F %s f -' % u64(5))
        h.op('F %s r -' % u64(5))
        h.op('Q %s %s -' % (u64(5), u64(1000)))
        out.append(h)
        h = Hist('u64', 'corpus-seek-falloff-rev')
        for k in (0, 261, 262):
            h.ins(u64(k), '02')
        h.op('F %s r -' % u64(257))
        h.op('F %s f -' % u64(257))
        h.op('Q %s %s -' % (u64(257), u64(0)))
        out.append(h)
        h = Hist('u64', 'corpus-scan-remove')
        for k in (0x010100, 0x010101, 0x010200, 0x020000):
            h.ins(u64(k), '03')
        h.op('F %s f -' % u64(0x010100))
        h.rem(u64(0x010200))
        h.op('D')
        out.append(h)
    else:
        h = Hist('bytes', 'corpus-range-direction')
        for k in ('1020', '1120', '1220', '1320'):
            h.ins(k, '04')
        h.op('Q 1020 1320 -')
        h.op('Q 1320 1020 -')
        h.op('Q 1120 1120 -')
        out.append(h)
        # K1 (known finding): keys sharing more than 7 bytes below a branch point
        h = Hist('bytes', 'corpus-k1-long-shared-run')
        h.ins('61616161616161616158', '01')
        h.ins('61616161616161616159', '02')
        h.get('61616161616161616158')
        h.get('61616161616161616159')
        out.append(h)
    return out


def compressible(keys):
    """every compressed path of the radix tree of the key set has length <= 7"""
    ks = sorted(set(bytes.fromhex(k) for k in keys if k != '-'))

    def ok(ks, depth):
        if len(ks) <= 1:
            return True
        d = depth
        while len(set(k[d] if d < len(k) else None for k in ks)) == 1:
            d += 1
        if d - depth > 7:
            return False
        groups = {}
        for k in ks:
            groups.setdefault(k[d] if d < len(k) else None, []).append(k)
        return all(ok(g, d + 1) for g in groups.values())

    return ok(ks, 0)


def teardown_histories(rng, kind):
    """clear() / destruction of trees whose nodes are of every class, full, at their minimum, and with holes left
    by removals (C10: leaves and memory zero after clear, everything returned to the allocator at destruction)"""
    out = []
    for n in (2, 4, 5, 16, 17, 20, 48, 49, 60, 255, 256):
        for holes in (0, 1, 3):
            if holes >= n - 1:
                continue
            h = Hist(kind, 'teardown-%d-%d' % (n, holes))
            pre = rng.below(200)
            mk = (lambda i: u64((pre << 16) | i)) if kind == 'u64' else (lambda i: '%02x%02x%02x' % (pre, i, 7))
            for i in range(n):
                h.ins(mk(i), rnd_val(rng))
            # a second level under one child, so that inner nodes are torn down recursively
            if kind == 'u64' and n >= 5:
                h.ins(u64(((pre + 1) << 16) | 1), '0a')
                h.ins(u64(((pre + 1) << 16) | 2), '0b')
            for i in range(holes):
                h.rem(mk(i * 2))
            h.op('D')
            if rng.chance(1, 2):
                h.op('C')
                h.op('E')
                h.op('D')
                h.ins(mk(1), '05')
                h.op('D')
            out.append(h)
    return out


def histories(tier, seed, kind, scan_ops=True):
    rng = Rng(seed * 7919 + (1 if kind == 'u64' else 2))
    out = corpus_histories(kind)
    out += teardown_histories(rng, kind)
    thorough = tier == 'thorough'
    nd = 40 if thorough else 10
    ns = 120 if thorough else 24
    for i in range(nd):
        out.append(dense_history(rng, kind, scan_ops, 256 if (thorough or i < 2) else 60))
    for i in range(ns):
        out.append(structured_history(rng, kind, scan_ops, 400 if thorough and i % 4 == 0 else 120))
    if kind == 'bytes':
        for i in range(ns // 2):
            out.append(varlen_history(rng, scan_ops, 150))
    return out


# ------------------------------------------------------------------ oracle

def radix_stats(keys, sizes, vals, key_len_of):
    """canonical path-compressed radix tree of a key set: node counts per class, memory"""
    counts = {'I4': 0, 'I16': 0, 'I48': 0, 'I256': 0}

    def build(ks, depth):
        if len(ks) == 1:
            return
        # longest common prefix beyond depth
        d = depth
        while True:
            bs = set(k[d] if d < len(k) else None for k in ks)
            if len(bs) > 1:
                break
            d += 1
        groups = {}
        for k in ks:
            groups.setdefault(k[d], []).append(k)
        f = len(groups)
        cls = 'I4' if f <= 4 else 'I16' if f <= 16 else 'I48' if f <= 48 else 'I256'
        counts[cls] += 1
        for g in groups.values():
            build(g, d + 1)

    ks = [bytes.fromhex(k) if k != '-' else b'' for k in keys]
    if ks:
        build(ks, 0)
    mem = sum(sizes[c] * n for c, n in counts.items())
    for k in keys:
        mem += sizes['leaf'] + key_len_of(k) + (len(vals[k]) // 2 if vals[k] != '-' else 0)
    return counts, mem


def shape_of(keys, vals):
    """canonical dump string of the radix tree of a key set (what C10 says the shape must be)"""
    ks = sorted(bytes.fromhex(k) for k in keys)

    def build(ks, depth):
        if len(ks) == 1:
            k = ks[0].hex()
            return 'L%s=%s' % (k or '-', vals[k])
        d = depth
        while len(set(k[d] if d < len(k) else None for k in ks)) == 1:
            d += 1
        groups = {}
        for k in ks:
            groups.setdefault(k[d], []).append(k)
        f = len(groups)
        cls = 'I4' if f <= 4 else 'I16' if f <= 16 else 'I48' if f <= 48 else 'I256'
        pre = ks[0][depth:d].hex() or '-'
        return '%s[%s]{%s}' % (cls, pre, ','.join('%02x:%s' % (b, build(g, d + 1)) for b, g in sorted(groups.items())))

    return build(ks, 0) if ks else 'empty'


class Oracle:
    """ordered map semantics of every operation, for the failing-input search on the implementation"""

    def __init__(self, sizes):
        self.sizes = sizes
        self.reset()

    def reset(self):
        self.m = {}
        self.ids = {}
        self.next_id = 0
        self.prev_counters = None

    def expect(self, line):
        t = line.split(' ')
        op = t[0]
        if op == 'N':
            self.reset()
            return 'N'
        if op == 'I':
            if t[1] in self.m:
                return '0'
            self.m[t[1]] = t[2]
            self.ids[t[1]] = self.next_id
            self.next_id += 1
            return '1'
        if op == 'R':
            if t[1] in self.m:
                del self.m[t[1]]
                return '1'
            return '0'
        if op == 'G':
            if t[1] in self.m:
                return '%d:%s' % (self.ids[t[1]], self.m[t[1]])
            return '-'
        if op == 'E':
            return '1' if not self.m else '0'
        if op == 'C':
            self.m = {}
            return 'C'
        if op in ('QA', 'QB'):
            full = t[1]
            part = full[:2 * int(t[2])]
            t = ['Q', full, part, t[3]] if op == 'QA' else ['Q', part, full, t[3]]
            op = 'Q'
        if op in ('S', 'F', 'Q'):
            items = sorted((bytes.fromhex(k), k, v) for k, v in self.m.items())
            if op == 'S':
                fwd, halt = t[1] == 'f', t[2]
                sel = items if fwd else items[::-1]
            elif op == 'F':
                b = bytes.fromhex(t[1])
                fwd, halt = t[2] == 'f', t[3]
                sel = [x for x in items if x[0] >= b] if fwd else [x for x in items if x[0] <= b][::-1]
            else:
                a, b, halt = bytes.fromhex(t[1]), bytes.fromhex(t[2]), t[3]
                if a < b:
                    sel = [x for x in items if a <= x[0] < b]
                elif a > b:
                    sel = [x for x in items if b < x[0] <= a][::-1]
                else:
                    sel = []
            if halt != '-':
                sel = sel[:int(halt) + 1]
            return ','.join('%s:%s' % (x[1], x[2]) for x in sel) or 'none'
        return None

    def check_dump(self, out):
        """C10: shape/statistics are functions of the key set. returns list of problems"""
        probs = []
        parts = out.split(' ')
        shape = parts[0]
        want = shape_of(list(self.m.keys()), self.m)
        if shape != want:
            probs.append('shape differs from the canonical radix tree of the key set')
        kv = dict(p.split('=', 1) for p in parts[1:] if '=' in p)
        if 'VIEWBAD' in parts:
            probs.append('a held value view changed')
        for q in parts:
            if q.startswith('HEAPBAD'):
                probs.append('bytes held from the allocator differ from the reported memory use: ' + q)
        if 'L' in kv:
            counts, mem = radix_stats(list(self.m.keys()), self.sizes, self.m, lambda k: len(k) // 2)
            if int(kv['L']) != len(self.m):
                probs.append('leaf count %s != entries %d' % (kv['L'], len(self.m)))
            n = [int(x) for x in kv['N'].split(',')]
            if n != [counts['I4'], counts['I16'], counts['I48'], counts['I256']]:
                probs.append('inode counts %s != %s' % (n, counts))
            if int(kv['M']) != mem:
                probs.append('memory use %s != %d' % (kv['M'], mem))
            if 'A' in kv:
                # blocks held from the allocator: one per leaf, one per inner node of the canonical tree
                want_b = {}
                for c, n in counts.items():
                    if n:
                        want_b[self.sizes[c]] = want_b.get(self.sizes[c], 0) + n
                for k in self.m:
                    b = self.sizes['leaf'] + len(k) // 2 + (len(self.m[k]) // 2 if self.m[k] != '-' else 0)
                    want_b[b] = want_b.get(b, 0) + 1
                want_a = ','.join('%dx%d' % (b, want_b[b]) for b in sorted(want_b)) or '-'
                if kv['A'] != want_a:
                    probs.append('blocks held from the allocator %s != blocks of the canonical tree %s' % (kv['A'][:120], want_a[:120]))
            cur = [int(x) for x in (kv['G'] + ',' + kv['S']).split(',')]
            if self.prev_counters is not None and any(a < b for a, b in zip(cur, self.prev_counters)):
                probs.append('growing/shrinking counter decreased')
            self.prev_counters = cur
        return probs
