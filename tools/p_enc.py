"""C11, C12, C15: key encoder / decoder.
Proof (Coq) + translator bridges + correspondence (extracted model vs
implementation on the same scripts) + property checkers evaluated on the
implementation's own output (used to find a concrete failing input)."""
import os, struct, sys, json
from vlib import *

MAXLEN = 65532
ALPH = [0x00, 0x01, 0x61, 0xFF]


# ------------------------------------------------------------ case generation

def hx(v):
    return ('-%x' % -v) if v < 0 else ('%x' % v)


def int_values(nb, signed, rng, nrand, exhaustive16):
    w = 8 * nb
    lo, hi = (-(1 << (w - 1)), (1 << (w - 1)) - 1) if signed else (0, (1 << w) - 1)
    vals = set()
    if nb == 1 or (nb == 2 and exhaustive16):
        return list(range(lo, hi + 1))
    for k in range(w + 1):
        for d in (-2, -1, 0, 1, 2):
            for s in (1, -1):
                v = s * (1 << k) + d
                if lo <= v <= hi:
                    vals.add(v)
    for v in (lo, lo + 1, hi - 1, hi, 0, 1, -1):
        if lo <= v <= hi:
            vals.add(v)
    # byte-position patterns
    for i in range(nb):
        for b in (0x01, 0x7f, 0x80, 0xff):
            v = b << (8 * i)
            if signed and v > hi:
                v -= 1 << w
            if lo <= v <= hi:
                vals.add(v)
    for _ in range(nrand):
        v = rng.next() & ((1 << w) - 1)
        if signed and v > hi:
            v -= 1 << w
        vals.add(v)
    return sorted(vals)


def float_values(nb, rng, nrand):
    w = 8 * nb
    m = 23 if nb == 4 else 52
    e = w - 1 - m
    vals = set()
    mmax = (1 << m) - 1
    for s in (0, 1):
        for ex in range(1 << e):
            for mant in (0, 1, mmax - 1, mmax, 1 << (m - 1)):
                vals.add((s << (w - 1)) | (ex << m) | mant)
    for _ in range(nrand):
        vals.add(rng.next() & ((1 << w) - 1))
    return sorted(vals)


def all_texts(maxl):
    out = [[]]
    frontier = [[]]
    for _ in range(maxl):
        frontier = [t + [c] for t in frontier for c in ALPH]
        out += frontier
    return out


def text_tok(t):
    return 'T:' + ''.join('%02x' % b for b in t)


def gen_cases(tier, rng):
    """returns list of (group, line, meta) ; meta = list of component tuples ('U',n,v)..."""
    thorough = tier == 'thorough'
    cases = []
    nr = 30000 if thorough else 400

    def single(kind, nb, v):
        tok = '%s%d:%s' % (kind, nb, hx(v))
        cases.append(('%s%d' % (kind, nb), 'R ' + tok, [(kind, nb, v)]))

    for nb in (1, 2, 4, 8):
        for v in int_values(nb, False, rng, nr, thorough):
            single('U', nb, v)
        for v in int_values(nb, True, rng, nr, thorough):
            single('I', nb, v)
    for nb in (4, 8):
        for v in float_values(nb, rng, nr * 4):
            single('F', nb, v)
    # texts: exhaustive small alphabet (includes the malformed interior-zero ones), boundary lengths
    for t in all_texts(6 if thorough else 4):
        cases.append(('T', 'R ' + text_tok(t), [('T', 0, tuple(t))]))
    for n in range(MAXLEN - 3, MAXLEN + 4):
        for fill in (0x61, 0xff):
            for suf in ([], [0], [0, 0], [0x62], [0x62, 0], [0, 0x62]):
                t = [fill] * n + suf
                cases.append(('T', 'R T:%02x*%d:%s' % (fill, n, ''.join('%02x' % b for b in suf)), [('T', 0, tuple(t))]))
    for _ in range(nr // 4):
        n = rng.below(40)
        t = [1 + rng.below(255) for _ in range(n)] + [0] * rng.below(3)
        cases.append(('T', 'R ' + text_tok(t), [('T', 0, tuple(t))]))
    # tuples: random schemas, pairs sharing a prefix of equal components
    kinds = [('U', 1), ('U', 2), ('U', 4), ('U', 8), ('I', 1), ('I', 2), ('I', 4), ('I', 8), ('F', 4), ('F', 8), ('T', 0)]

    def rnd_comp(k, nb):
        if k == 'T':
            n = rng.below(5)
            return ('T', 0, tuple([rng.choice([0x61, 0x62, 0x01, 0xff]) for _ in range(n)] + [0] * rng.below(2)))
        w = 8 * nb
        v = rng.next() & ((1 << w) - 1)
        if rng.chance(1, 3):
            v = rng.choice([0, 1, (1 << w) - 1, 1 << (w - 1), (1 << (w - 1)) - 1])
        if k == 'F' and rng.chance(1, 4):
            m = 23 if nb == 4 else 52
            v = rng.choice([0, 1 << (w - 1), ((1 << (w - 1 - m)) - 1) << m, (1 << (w - 1)) | (((1 << (w - 1 - m)) - 1) << m),
                            (((1 << (w - 1 - m)) - 1) << m) | 1, (1 << w) - 1])
        if k == 'I' and v >= (1 << (w - 1)):
            v -= 1 << w
        return (k, nb, v)

    for si in range(nr // 2):
        schema = [rng.choice(kinds) for _ in range(1 + rng.below(4))]
        base = [rnd_comp(k, nb) for k, nb in schema]
        group = 'S%d' % si
        variants = [base]
        for _ in range(5):
            j = rng.below(len(schema))
            v = list(base)
            for i in range(j, len(schema)):
                v[i] = rnd_comp(*schema[i])
            variants.append(v)
        for v in variants:
            toks = []
            for (k, nb, val) in v:
                toks.append(text_tok(list(val)) if k == 'T' else '%s%d:%s' % (k, nb, hx(val)))
            cases.append((group, 'R ' + ' '.join(toks), v))
    # buffer scripts: no leading reset, crossing the internal buffer and several growth steps
    cases.append(('B', 'N', None))
    acc = []
    for i in range(6000 if thorough else 150):
        r = rng.below(20)
        if r == 0:
            cases.append(('B', 'R', []))
            acc = []
            continue
        if r == 1:
            cases.append(('B', 'N', None))
            acc = []
            continue
        if r < 5:
            n = rng.choice([100, 250, 255, 256, 257, 509, 1000, 5000, 40000])
            c = ('T', 0, tuple([0x61] * n))
            tok = 'T:61*%d' % n
        else:
            k, nb = rng.choice(kinds[:10])
            c = rnd_comp(k, nb)
            tok = '%s%d:%s' % (k, nb, hx(c[2]))
        acc = acc + [c]
        cases.append(('B', tok, list(acc)))
    return cases


# ------------------------------------------------------------ independent spec (Python) for the property checkers

def fkey(nb, bits):
    w = 8 * nb
    m = 23 if nb == 4 else 52
    mag = bits & ((1 << (w - 1)) - 1)
    inf = ((1 << (w - 1 - m)) - 1) << m
    if mag > inf:
        return (2, 0)
    if bits >> (w - 1):
        return (0, -mag)
    return (1, mag)


def tnorm(t):
    t = list(t[:MAXLEN])
    while t and t[-1] == 0:
        t.pop()
    return tuple(t)


def ckey(c):
    k, nb, v = c
    if k == 'F':
        return fkey(nb, v)
    if k == 'T':
        return tnorm(v)
    return v


def in_domain(c):
    """the property's domain: text free of interior zero bytes"""
    return c[0] != 'T' or 0 not in tnorm(c[2])


def canon_dec(c):
    k, nb, v = c
    if k == 'F':
        w = 8 * nb
        m = 23 if nb == 4 else 52
        if fkey(nb, v) == (2, 0):
            return (((1 << (w - 1 - m)) - 1) << m) | (1 << (m - 1))
    return v


def parse_out(line):
    parts = dict(p.split('=', 1) for p in line.split(' ') if '=' in p)
    return bytes.fromhex(parts.get('V', '')), int(parts.get('C', '0')), parts.get('D', '')


def property_checks(pid, cases, impl_lines):
    """Evaluate the property itself on the implementation's output. Returns list of (summary, replay)."""
    bad = []
    groups = {}
    for (g, line, meta), out in zip(cases, impl_lines):
        if meta is None or g == 'B':
            if pid == 'C12' and meta:
                enc, cap, dec = parse_out(out)
                if cap < len(enc):
                    bad.append(('capacity %d below size %d' % (cap, len(enc)), {'script_line': line}))
            continue
        if not all(in_domain(c) for c in meta):
            continue
        enc, cap, dec = parse_out(out)
        groups.setdefault(g, []).append((tuple(ckey(c) for c in meta), enc, line, meta, dec))
    for g, items in groups.items():
        if pid == 'C11':
            items.sort(key=lambda x: x[0])
            for a, b in zip(items, items[1:]):
                if a[0] == b[0]:
                    if a[1] != b[1]:
                        bad.append(('equal values encode differently', {'a': a[2], 'b': b[2], 'enc_a': a[1].hex(), 'enc_b': b[1].hex()}))
                elif not a[1] < b[1]:
                    bad.append(('order not preserved: value(a) < value(b) but enc(a) >= enc(b)',
                                {'a': a[2], 'b': b[2], 'enc_a': a[1].hex(), 'enc_b': b[1].hex()}))
                if len(bad) > 5:
                    return bad
        if pid == 'C15':
            items.sort(key=lambda x: x[1])
            for a, b in zip(items, items[1:]):
                if a[1] == b[1]:
                    if a[0] != b[0]:
                        bad.append(('distinct normalised components encode equal', {'a': a[2], 'b': b[2], 'enc': a[1].hex()}))
                elif b[1].startswith(a[1]):
                    bad.append(('one encoded key is a proper prefix of another', {'a': a[2], 'b': b[2], 'enc_a': a[1].hex(), 'enc_b': b[1].hex()}))
                if len(bad) > 5:
                    return bad
            # the other direction of "equal encodings iff equal normalised components"
            byval = sorted(items, key=lambda x: x[0])
            for a, b in zip(byval, byval[1:]):
                if a[0] == b[0] and a[1] != b[1]:
                    bad.append(('equal normalised components encode differently', {'a': a[2], 'b': b[2], 'enc_a': a[1].hex(), 'enc_b': b[1].hex()}))
                    if len(bad) > 5:
                        return bad
            for it in items:
                for c in it[3]:
                    if c[0] == 'T' and len(it[3]) == 1 and len(it[1]) > MAXLEN + 3:
                        bad.append(('text encoding longer than maxlen+3', {'a': it[2]}))
        if pid == 'C12':
            for it in items:
                meta = it[3]
                if all(c[0] != 'T' for c in meta):
                    want = ','.join(hx(canon_dec(c)) for c in meta)
                    if it[4] != want:
                        bad.append(('decode(encode(x)) != x', {'script_line': it[2], 'decoded': it[4], 'expected': want}))
                    if len(it[1]) != sum(c[1] for c in meta):
                        bad.append(('fixed-size component has wrong width', {'script_line': it[2], 'size': len(it[1])}))
                if len(bad) > 5:
                    return bad
    return bad


# ------------------------------------------------------------ the check

PROPS = {
    'C11': 'Properties/Properties_C11.v',
    'C12': 'Properties/Properties_C12.v',
    'C15': 'Properties/Properties_C15.v',
}


def run_pair(cases):
    text = '\n'.join(c[1] for c in cases) + '\n'
    rc1, impl, e1 = sh([os.path.join(BIN, 'enc_diff')], input=text, timeout=900)
    rc2, model, e2 = sh([os.path.join(OCAML, 'enc_run')], input=text, timeout=900)
    return rc1, impl.splitlines(), e1, rc2, model.splitlines(), e2


def check(pid, tier, replay=None):
    res = Result(pid, tier)
    res.level = 'proof'
    res.assumptions = [
        'IEEE-754 binary32/binary64 layout of float/double; std::isnan/isinf/x>0 as bit-pattern predicates',
        'memcpy/bswap by their byte-level meaning; little-endian host (static_assert in the source)',
        'clang-14 AST types and implicit casts equal those the compiler acts on (translator tools/cxx2v.py)',
        'unsigned encode/decode overloads, encode_text, buffer management: hand model tied by the correspondence run only',
    ]
    gen = ['enc', 'float'] if pid in ('C11', 'C12') else []
    proof_stage(res, gen, [PROPS[pid]] + (['Properties/Properties_C11b.v'] if pid == 'C11' else []), pid)
    res.coverage['trusted_base'] = TRUSTED_COMMON + [
        'translator tools/cxx2v.py + clang 14 JSON AST (signed encode/decode value expressions, float encode/decode)',
        'extraction: ExtrOcamlBasic only; OCaml 4.13.1; drivers ocaml/zutil.ml, ocaml/enc_run.ml',
        'correspondence harness harness/enc_diff.cpp; Python spec of value order in tools/p_enc.py (failing-input search only)',
    ]
    # build both sides
    with Lock():
        err = extract_and_build_ocaml(['enc_run'])
        b, berr = build_cxx('enc_diff', [os.path.join(VERIF, 'harness', 'enc_diff.cpp'), os.path.join(REPO, 'art_internal.cpp')],
                            ['-O1', '-DNDEBUG', '-DUNODB_DETAIL_WITH_STATS'])
    if err or berr:
        res.violation('cannot build the correspondence: ' + (err or berr)[-800:],
                      {'kind': 'build', 'error': err or berr}, found_input=False)
        return res.finish()
    rng = Rng(seed())
    if replay:
        rp = json.load(open(replay))
        cases = [('R', l, None) for l in rp.get('script', [])]
        rc1, impl, e1, rc2, model, e2 = run_pair(cases)
        for c, a, b in zip(cases, impl, model):
            print('%s\n  impl : %s\n  model: %s' % (c[1][:200], a[:300], b[:300]))
        return 0
    cases = gen_cases(tier, rng)
    rc1, impl, e1, rc2, model, e2 = run_pair(cases)
    found = []
    if rc1 != 0 or len(impl) != len(cases):
        res.violation('implementation harness crashed (rc=%d) after %d of %d lines: %s' % (rc1, len(impl), len(cases), e1[-300:]),
                      {'kind': 'crash', 'script': [c[1] for c in cases[max(0, len(impl) - 3):len(impl) + 1]]})
        return res.finish()
    if rc2 != 0 or len(model) != len(cases):
        res.violation('model driver failed (rc=%d): %s' % (rc2, e2[-300:]), {'kind': 'model-crash'}, found_input=False)
        return res.finish()
    # guard page (C15)
    if pid == 'C15':
        rc, o, e = sh([os.path.join(BIN, 'enc_diff'), '--guard'], timeout=60)
        res.coverage['guard_page'] = o.strip()
        if rc != 0 or 'GUARD size=%d' % (MAXLEN + 3) not in o:
            res.violation('encode_text read past maxlen bytes of its input or produced a wrong size (guard page test rc=%d out=%s)' % (rc, o.strip()),
                          {'kind': 'guard-page', 'cmd': 'build/bin/enc_diff --guard'})
    # property evaluated on the implementation's own output
    pbad = property_checks(pid, cases, impl)
    # correspondence
    relevant = {'C11': lambda f: 'V', 'C12': lambda f: 'VCD', 'C15': lambda f: 'V'}[pid]
    disagree = []
    for i, (c, a, b) in enumerate(zip(cases, impl, model)):
        if a != b:
            ea, ca, da = parse_out(a) if a != 'N' else (b'', 0, '')
            eb, cb, db = parse_out(b) if b != 'N' else (b'', 0, '')
            if pid in ('C11', 'C15') and ea == eb:
                continue  # capacity / decode differences belong to C12
            disagree.append((i, c, a, b))
    for summary, rp in pbad[:3]:
        rp = dict(rp)
        rp['kind'] = 'property-on-implementation'
        rp['script'] = [rp.get('a', rp.get('script_line', '')), rp.get('b', '')]
        res.violation(summary, rp, found_input=True)
    if disagree and not pbad:
        # history-dependent lines (buffer scripts) replay from the last fresh encoder
        i, c, a, b = disagree[0]
        start = i
        while start > 0 and cases[start][1] != 'N' and not cases[start][1].startswith('R'):
            start -= 1
        if c[0] == 'B':
            while start > 0 and cases[start][1] != 'N':
                start -= 1
        res.violation('model and implementation disagree on %d of %d scripts (first: %s): impl %s / model %s; the property evaluated on the implementation output did not fail'
                      % (len(disagree), len(cases), c[1][:80], a[:120], b[:120]),
                      {'kind': 'correspondence', 'script': [x[1] for x in cases[start:i + 1]], 'impl': a[:2000], 'model': b[:2000],
                       'broken': 'correspondence enc_diff vs extracted EncModel'}, found_input=False)
    if not res.proof_ok and not pbad and not disagree:
        res.violation('proof obligation no longer checks: ' + ' | '.join(res.broken)[:500],
                      {'kind': 'proof', 'broken': res.broken, 'log': res.proof_log[-1500:]}, found_input=False)
    elif not res.proof_ok:
        res.coverage['broken_obligations'] = res.broken
    # coverage numbers
    nontriv = set()
    hist = {}
    for (g, line, meta), out in zip(cases, impl):
        k = g if not g.startswith('S') else 'tuple'
        hist[k] = hist.get(k, 0) + 1
        if meta:
            nontriv.add(out.split(' ')[0])
    res.coverage.update({
        'evaluations': len(cases),
        'distinct_nontrivial': len(nontriv),
        'rule': 'scripts = single components (8-bit exhaustive, 16-bit exhaustive in thorough tier, power-of-two/byte-position boundaries, '
                'every float exponent x mantissa{0,1,max-1,max,half} x sign, random), all texts over {00,01,61,ff} up to length 4 (6 thorough), '
                'texts of length maxlen-3..maxlen+3 with padding variants, random mixed tuples in groups sharing a schema, persistent-encoder '
                'buffer scripts crossing 256 bytes and several growth steps; distinct = distinct encoded byte strings produced by the implementation',
        'input_distribution': hist,
        'disagreements_checked': len(cases),
        'disagreements_found': len(disagree),
        'property_failures_on_impl': len(pbad),
        'exhaustive': False,
    })
    res.coverage['samples'] = [{'script': c[1][:120], 'impl': a[:160]} for c, a in list(zip(cases, impl))[::max(1, len(cases) // 6)][:6]]
    return res.finish()
