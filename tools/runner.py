#!/usr/bin/env python3
"""Entry point: runner.py <property> [--tier quick|thorough] [--replay file]"""
import sys, os, argparse
sys.path.insert(0, os.path.dirname(os.path.abspath(__file__)))

MODULES = {
    'C11': 'p_enc', 'C12': 'p_enc', 'C15': 'p_enc',
    'C01': 'p_art', 'C02': 'p_art', 'C10': 'p_art',
    'C07': 'p_lock',
    'C05': 'p_qsbr', 'C06': 'p_qsbr',
    'C13': 'p_mutex', 'C17': 'p_ptr',
    'C08': 'p_fault',
    'C16': 'p_cfg',
    'C03': 'p_olc', 'C04': 'p_olc', 'C09': 'p_olc', 'C14': 'p_olc',
}


def main():
    ap = argparse.ArgumentParser()
    ap.add_argument('prop')
    ap.add_argument('--tier', default=os.environ.get('VERIF_TIER', 'quick'))
    ap.add_argument('--replay', default=None)
    a = ap.parse_args()
    if a.prop not in MODULES:
        print('unknown property ' + a.prop)
        return 2
    mod = __import__(MODULES[a.prop])
    return mod.check(a.prop, a.tier, a.replay)


if __name__ == '__main__':
    sys.exit(main())
