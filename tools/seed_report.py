#!/usr/bin/env python3
"""Summarise /verif/seeded/*/*/meta.json as a markdown table (seeded/README.md and stdout)."""
import os, json, glob
VERIF = os.path.dirname(os.path.dirname(os.path.abspath(__file__)))
rows = []
for mp in sorted(glob.glob(os.path.join(VERIF, 'seeded', '*', '*', 'meta.json'))):
    m = json.load(open(mp))
    d = os.path.relpath(os.path.dirname(mp), VERIF)
    vr = m.get('verif_result', {})
    caught = sorted(p for p, r in vr.items() if r.get('caught'))
    missed = sorted(p for p, r in vr.items() if not r.get('caught'))
    how = ''
    for p in caught:
        ls = [l.strip() for l in vr[p].get('lines', []) if not l.strip().startswith('VIOLATION')]
        nf = any('no-failing-input-found' in l for l in vr[p].get('lines', []))
        if ls:
            how = ls[0][:150] + (' [no-failing-input-found]' if nf and len(ls) == 1 else '')
            break
    rows.append((d, m.get('title', '')[:110], ','.join(caught) or '-', ','.join(missed) or '-', how, m.get('note', '')))
out = ['| change | what it does | caught by | run, not caught | first report |', '|---|---|---|---|---|']
for r in rows:
    out.append('| `%s` | %s | %s | %s | %s%s |' % (r[0], r[1].replace('|', '/'), r[2], r[3], r[4].replace('|', '/'), (' — ' + r[5]) if r[5] else ''))
text = '\n'.join(out) + '\n'
open(os.path.join(VERIF, 'seeded', 'README.md'), 'w').write(
    '# Seeded breaking changes\n\nProduced by sub-agents that saw only the property text and a scratch worktree of the library; '
    'each compiles and passes the repository\'s test suite. `tools/seedtest.py <dir>` applies one to /repo, runs the checks and undoes it.\n\n' + text)
print(text)
n = len(rows)
c = sum(1 for r in rows if r[2] != '-')
print('%d changes, %d caught' % (n, c))
