#!/bin/sh
# usage: coqdbg.sh File.v LINE  -- compiles the file up to LINE-1, then prints the goals
f=$1; n=$2
head -n $((n-1)) "$f" > /tmp/coqdbg_D.v
echo "Show. " >> /tmp/coqdbg_D.v
cd /verif/coq && timeout 300 coqc -Q . Unodb /tmp/coqdbg_D.v 2>&1 | tail -${3:-40}
