"""C01, C02, C10: the sequential ART.  Proof (Coq) + correspondence of the
extracted model with db / mutex_db / olc_db on the same histories (results,
scan output, canonical dump, statistics, held value views) + an independent
Python oracle evaluated on the implementation's output (failing-input search)."""
import os, json, hashlib
from vlib import *
import artgen

PROPS = {
    'C01': ['Properties/Properties_C01.v', 'Properties/Properties_C01b.v', 'Properties/Properties_C01g.v'],
    'C02': ['Properties/Properties_C02.v', 'Properties/Properties_C02b.v', 'Properties/Properties_C02g.v'],
    'C10': ['Properties/Properties_C10.v', 'Properties/Properties_C10b.v', 'Properties/Properties_C10g.v', 'Properties/Properties_C10h.v'],
}
# translator targets (tools/gen.py) whose output the property files above are bridged to
GEN_OF = {'C01': ['prefix'], 'C02': ['compare'], 'C10': ['sizes', 'prefix']}
OPS_OF = {'C01': 'NIRGEC', 'C02': 'SFQ', 'C10': 'D'}
CLASSES = ['db', 'mutex', 'olc']
KINDS = ['u64', 'bytes']
SEQ_FLAGS = ['-O1', '-DNDEBUG', '-DUNODB_DETAIL_WITH_STATS', '-DUNODB_SPINLOCK_LOOP_VALUE=1', '-DUNODB_DETAIL_VERIF_HOOKS']


def repo_srcs():
    return [os.path.join(REPO, f) for f in ('qsbr.cpp', 'qsbr_ptr.cpp', 'art_internal.cpp')]


def build_sides():
    with Lock():
        err = extract_and_build_ocaml(['art_run'])
        if err:
            return err
        b, berr = build_cxx('seq_diff', [os.path.join(VERIF, 'harness', 'seq_diff.cpp')] + repo_srcs(), SEQ_FLAGS)
        return berr


def sizes_of(cls, kind):
    rc, o, e = sh([os.path.join(BIN, 'seq_diff'), cls, kind], input='Z\n', timeout=60)
    t = o.split()
    if rc != 0 or len(t) < 6 or t[0] != 'Z':
        return None, None
    vals = [int(x) for x in t[1:6]]
    return o.strip(), {'leaf': vals[0], 'I4': vals[1], 'I16': vals[2], 'I48': vals[3], 'I256': vals[4]}


def run_impl(cls, kind, lines, timeout=900):
    rc, o, e = sh([os.path.join(BIN, 'seq_diff'), cls, kind], input='\n'.join(lines) + '\n', timeout=timeout)
    return rc, o.splitlines(), e


def run_model(zline, lines, timeout=900):
    # 'blocks': D lines also carry the live multiset of block sizes (A=) and the sizes obtained / returned since the last D (T=)
    rc, o, e = sh([os.path.join(OCAML, 'art_run'), 'blocks'], input=zline + '\n' + '\n'.join(lines) + '\n', timeout=timeout)
    return rc, o.splitlines(), e


def alloc_fields(out):
    """the A= (live block sizes) and T= (sizes obtained / returned since the last D) fields of a D line, or None"""
    f = [p for p in out.split(' ') if p.startswith('A=') or p.startswith('T=')]
    return ' '.join(f) if len(f) == 2 else None


ALLOC_CMP = [0]   # D lines on which the implementation's live blocks were compared with the model's prediction


def first_problem(pid, sizes, lines, impl, model):
    """returns (index, kind, detail) of the first line relevant to pid on which impl deviates
    from the oracle (kind 'property') or from the model (kind 'correspondence'), else None"""
    orc = artgen.Oracle(sizes)
    corr = None
    for i, line in enumerate(lines):
        op = line[0]
        want = orc.expect(line)
        a = impl[i] if i < len(impl) else '<missing>'
        m = model[i] if i < len(model) else '<missing>'
        rel = op in OPS_OF[pid]
        if op == 'N' and pid == 'C10' and 'LEAK' in a:
            return (i, 'property', 'memory still held from the allocator after the index was destroyed: ' + a)
        if op == 'D':
            probs = orc.check_dump(a) if a != '<missing>' else ['no output']
            if pid == 'C10' and probs:
                return (i, 'property', '; '.join(probs) + ' :: ' + a[:300])
            if pid == 'C10':
                # the blocks held from the allocator (and what was obtained / returned since the last dump) against the
                # model's blocks of the tree / op_allocs, op_frees (Art/ArtAlloc.v, theorems C10h_*)
                fa, fm = alloc_fields(a), alloc_fields(m)
                ALLOC_CMP[0] += 1
                if fa is None or fm is None or fa != fm:
                    return (i, 'property', 'blocks held from / obtained from / returned to the allocator differ from the model: '
                            'impl %s / model %s' % (fa, fm))
            if pid == 'C01' and 'VIEWBAD' in a:
                return (i, 'property', 'a value view obtained earlier changed')
        elif rel and want is not None:
            av = a.replace(' LOCKBAD', '')
            if av != want:
                return (i, 'property', 'implementation returned %s, an ordered map returns %s' % (a[:200], want[:200]))
        if rel and corr is None and a != m:
            corr = (i, 'correspondence', 'impl %s / model %s' % (a[:200], m[:200]))
    return corr


def shrink(pid, cls, kind, zline, sizes, lines, kindfail):
    """greedy delta debugging on the op list (keeps the leading N)"""
    def fails(ls):
        rc, impl, e = run_impl(cls, kind, ls, timeout=120)
        rc2, model, e2 = run_model(zline, ls, timeout=120)
        p = first_problem(pid, sizes, ls, impl, model)
        return p is not None and p[1] == kindfail
    cur = list(lines)
    chunk = max(1, len(cur) // 2)
    budget = 120
    while chunk >= 1 and budget > 0:
        i = 1
        changed = False
        while i < len(cur) and budget > 0:
            cand = cur[:i] + cur[i + chunk:]
            budget -= 1
            if len(cand) >= 2 and fails(cand):
                cur = cand
                changed = True
            else:
                i += chunk
        if not changed:
            chunk //= 2
    return cur


def check(pid, tier, replay=None):
    res = Result(pid, tier)
    res.assumptions = [
        'dump() is a faithful printer of the tree (canonicalised: addresses, lock versions and N48 slot numbers dropped)',
        'children of a node are modelled as the (key byte, child) list in array order; SIMD search variants by their list-level meaning',
        'allocator as a set of live blocks; memcpy/memcmp by their byte-level meaning',
        'byte-string key sets outside Compressible (shared run > 7 bytes below a branch point) are excluded: known finding K1',
    ]
    have_props = all(os.path.exists(os.path.join(COQ, f)) for f in PROPS[pid])
    if have_props:
        # C01: the key-prefix word arithmetic is regenerated from art_internal_impl.hpp and bridged to the model's list functions
        # C02: detail::compare / basic_art_key::cmp regenerated from art_internal.hpp and bridged to lex_compare
        # C10: the node-size constants folded by clang and compared with the model's cap / min_size / prefix_capacity
        proof_stage(res, GEN_OF[pid], PROPS[pid], pid)
    else:
        res.proof_ok = True
        res.broken = []
        res.proof_log = ''
    res.coverage['trusted_base'] = TRUSTED_COMMON + [
        'extraction: ExtrOcamlBasic only; OCaml 4.13.1; drivers ocaml/zutil.ml, ocaml/art_run.ml',
        'correspondence harness harness/seq_diff.cpp (dump parser, leaf-identity bookkeeping)',
        'Python oracle tools/artgen.py (ordered map, canonical radix tree) used only to search for failing inputs',
    ]
    err = build_sides()
    if err:
        res.violation('cannot build the correspondence: ' + err[-800:], {'kind': 'build', 'error': err}, found_input=False)
        return res.finish()
    if replay:
        rp = json.load(open(replay))
        cls, kind = rp['class'], rp['kind']
        zline, sizes = sizes_of(cls, kind)
        rc, impl, e = run_impl(cls, kind, rp['ops'])
        rc2, model, e2 = run_model(zline, rp['ops'])
        for l, a, m in zip(rp['ops'], impl, model):
            print('%s\n   impl : %s\n   model: %s' % (l, a[:300], m[:300]))
        print('first problem:', first_problem(pid, sizes, rp['ops'], impl, model))
        return 0
    total_ops = 0
    transitions = set()
    nontrivial = set()
    hist_count = 0
    dist = {}
    samples = []
    disagreements = 0
    for kind in KINDS:
        hs = artgen.histories(tier, seed(), kind, scan_ops=(pid == 'C02'))
        lines = []
        bounds = []
        for h in hs:
            ops = h.ops + ['N']   # destroy the index at the end of its history (C10: everything is returned to the allocator)
            bounds.append((len(lines), len(lines) + len(ops), h.tag))
            lines += ops
            dist[h.tag.split('-')[0]] = dist.get(h.tag.split('-')[0], 0) + 1
        for cls in CLASSES:
            zline, sizes = sizes_of(cls, kind)
            if zline is None:
                res.violation('harness cannot report node sizes for %s/%s' % (cls, kind), {'kind': 'build'}, found_input=False)
                continue
            rc, impl, e = run_impl(cls, kind, lines)
            rc2, model, e2 = run_model(zline, lines)
            total_ops += len(lines)
            if rc != 0 or len(impl) != len(lines):
                # find the history in which it stopped
                at = len(impl)
                hb = [b for b in bounds if b[0] <= at < b[1]] or [bounds[-1]]
                res.violation('implementation harness stopped (rc=%d) in history %s of %s/%s after %d ops: %s' %
                              (rc, hb[0][2], cls, kind, at - hb[0][0], (e or '')[-300:]),
                              {'kind': 'crash', 'class': cls, 'kind_': kind, 'ops': lines[hb[0][0]:min(at + 2, hb[0][1])]})
                continue
            if rc2 != 0 or len(model) != len(lines):
                res.violation('model driver failed on %s/%s: %s' % (cls, kind, (e2 or '')[-300:]), {'kind': 'model-crash'}, found_input=False)
                continue
            for (lo, hi, tag) in bounds:
                hist_count += 1
                p = first_problem(pid, sizes, lines[lo:hi], impl[lo:hi], model[lo:hi])
                # coverage: structural transitions seen in this history
                tr = set()
                prev = None
                for l, a in zip(lines[lo:hi], impl[lo:hi]):
                    if l == 'D' and ' G=' in a:
                        g = a[a.index(' G='):].split(' SP=')[0]
                        if prev is not None and g != prev:
                            tr.add((prev, g))
                        prev = g
                if len(tr) >= 3:
                    nontrivial.add(hashlib.sha256(('%s|%s' % (sorted(tr), impl[hi - 1].split(' ')[0])).encode()).hexdigest())
                transitions |= set(x[1] for x in tr)
                if p is None:
                    continue
                disagreements += 1
                if disagreements > 3:
                    continue
                i, pk, detail = p
                ops = lines[lo:lo + i + 1]
                small = shrink(pid, cls, kind, zline, sizes, ops, pk)
                sig = None
                stored = [l.split(' ')[1] for l in small if l.startswith('I ')]
                if kind == 'bytes' and not artgen.compressible(stored):
                    sig = 'K1:non-compressible-byte-keys'
                if pk == 'property':
                    res.violation('%s on %s/%s (history %s, %d ops after shrinking): %s' % (pid, cls, kind, tag, len(small), detail),
                                  {'kind': 'property-on-implementation', 'class': cls, 'kind': kind, 'ops': small, 'detail': detail},
                                  found_input=True, signature=sig)
                else:
                    # model and implementation differ but the oracle is satisfied on this history
                    res.violation('model and implementation disagree on %s/%s (history %s, %d ops after shrinking): %s; the ordered-map '
                                  'oracle evaluated on the implementation output did not fail' % (cls, kind, tag, len(small), detail),
                                  {'kind': 'correspondence', 'class': cls, 'kind': kind, 'ops': small, 'detail': detail,
                                   'broken': 'correspondence seq_diff vs extracted ArtModel/ArtIter'}, found_input=False)
            if len(samples) < 4:
                lo, hi, tag = bounds[min(len(bounds) - 1, 3 + len(samples))]
                samples.append({'class': cls, 'kind': kind, 'history': tag, 'ops': lines[lo:hi][:12],
                                'impl': [x[:140] for x in impl[lo:hi][:12]]})
    if pid == 'C10':
        import p_olc
        p_olc.c10_concurrent(res, tier)
    if not res.proof_ok and not res.violations:
        res.violation('proof obligation no longer checks: ' + ' | '.join(res.broken)[:500],
                      {'kind': 'proof', 'broken': res.broken, 'log': res.proof_log[-1500:]}, found_input=False)
    elif not res.proof_ok:
        res.coverage['broken_obligations'] = res.broken
    if not have_props:
        res.coverage.setdefault('obligations', 0)
    res.coverage.update({
        'evaluations': total_ops,
        'histories': hist_count,
        'distinct_nontrivial': len(nontrivial),
        'rule': 'histories: corpus (seek fall-off, range direction, scan+remove), dense single-node families crossing the 4/5, 16/17, 48/49 '
                'boundaries up and down in ascending/descending/random/rotated order at a random byte position, sparse keys mutated at every '
                'byte position (prefix split / collapse at every offset), zero-terminated variable-length byte keys; random mix of insert, '
                'duplicate insert, remove, remove-absent (incl. keys matching an inner path), get, empty, clear, scans with bounds = stored '
                'keys, their +-1 neighbours, keys leaving the tree at every depth below/above, 0, max, halting at every position; each history '
                'run on db, mutex_db, olc_db x uint64 and byte-string keys; non-trivial = history with >= 3 distinct growing/shrinking counter '
                'transitions; distinct = by transition set and final shape',
        'input_distribution': dist,
        'distinct_counter_states': len(transitions),
        'disagreements_checked': total_ops,
        'disagreements_found': disagreements,
        'alloc_comparisons': ALLOC_CMP[0],
        'exhaustive': False,
    })
    res.coverage['samples'] = samples
    return res.finish()
