#!/usr/bin/env python3
"""Confirm a seeded change independently of the agent that wrote it: in a scratch worktree of /repo (the path the agent
used, so that the demo build command of meta.json works verbatim) the patch must apply, the library and the whole test
suite must build, ctest and every test binary must pass, the demonstration must FAIL with the patch and PASS without it.
usage: seed_confirm.py <dir with patch.diff, meta.json, demo sources> <worktree path, e.g. /tmp/seed2_C10>
Writes the outcome into meta.json under "confirmed" and removes the worktree."""
import sys, os, json, subprocess, shutil, time, re


def sh(cmd, cwd=None, timeout=3000):
    p = subprocess.run(cmd, shell=True, cwd=cwd, capture_output=True, text=True, timeout=timeout)
    return p.returncode, (p.stdout + p.stderr)


def main():
    d, wt = os.path.abspath(sys.argv[1]), sys.argv[2]
    mp = os.path.join(d, 'meta.json')
    meta = json.load(open(mp))
    out = {'at': time.strftime('%Y-%m-%dT%H:%M:%S')}
    sh('git -C /repo worktree remove --force %s; git -C /repo worktree prune' % wt)
    rc, o = sh(os.path.join(os.path.dirname(os.path.abspath(__file__)), 'mkseedwt.sh') + ' %s' % wt)
    if rc != 0:
        print('worktree failed', o[-500:]); return 2
    try:
        rc, o = sh('git apply %s' % os.path.join(d, 'patch.diff'), cwd=wt)
        out['applies'] = rc == 0
        if rc != 0:
            out['error'] = o[-400:]
            return 1
        rc, o = sh('cmake --build %s/_build -j10' % wt)
        out['builds'] = rc == 0
        if rc != 0:
            out['error'] = o[-800:]
            return 1
        fails = []
        for rnd in range(2):
            rc, o = sh('ctest --test-dir %s/_build -j8 --timeout 900' % wt)
            if rc != 0:
                fails.append('ctest run %d: %s' % (rnd, o[-300:]))
            rc, o = sh('for t in %s/_build/test/test_*; do [ -x $t ] && [ -f $t ] && { $t >/dev/null 2>&1 || echo FAIL $t; }; done' % wt)
            if 'FAIL' in o:
                fails.append('direct run %d: %s' % (rnd, o[-300:]))
        out['suite_passes_with_patch'] = not fails
        out['suite_failures'] = fails
        build = meta.get('demo_build')
        if isinstance(build, list):
            build = ' && '.join(build)
        if build:   # agents append free-form notes and a run command to the build line
            build = re.split(r'\s\s+\(|\.\s+\'\./|;\s*\./demo', build)[0]
            build = re.sub(r'&&\s*\./(demo|a\.out).*$', '', build).strip()
        demo_dir = os.path.join(wt + '_confirm')
        shutil.rmtree(demo_dir, ignore_errors=True)
        shutil.copytree(d, demo_dir)
        # the agents' commands refer to their own output directory: run them from a copy of it
        agent_out = wt + '_out'
        def run_demo(tag):
            b = build
            if b:
                b = re.sub(re.escape(agent_out) + r'/\d+', demo_dir, b)
            rc, o = sh(b, cwd=demo_dir, timeout=1200) if b else (1, 'no demo_build in meta.json')
            if rc != 0:
                return None, 'demo build failed: ' + o[-600:]
            exe = None
            for cand in ('demo', 'a.out'):
                if os.path.exists(os.path.join(demo_dir, cand)):
                    exe = './' + cand
            if not exe:
                return None, 'no demo binary'
            rc, o = sh('timeout 600 ' + exe, cwd=demo_dir)
            return rc, o[-400:]
        rc1, o1 = run_demo('with')
        out['demo_with_patch'] = {'rc': rc1, 'tail': o1}
        sh('git checkout -- .', cwd=wt)
        for cand in ('demo', 'a.out'):
            try:
                os.remove(os.path.join(demo_dir, cand))
            except OSError:
                pass
        rc0, o0 = run_demo('without')
        out['demo_without_patch'] = {'rc': rc0, 'tail': o0}
        out['demo_discriminates'] = (rc1 not in (0, None)) and rc0 == 0
        shutil.rmtree(demo_dir, ignore_errors=True)
        return 0
    finally:
        meta['confirmed'] = out
        json.dump(meta, open(mp, 'w'), indent=1)
        sh('git -C /repo worktree remove --force %s; git -C /repo worktree prune' % wt)
        shutil.rmtree(wt + '_confirm', ignore_errors=True)
        print(d, json.dumps({k: v for k, v in out.items() if k not in ('demo_with_patch', 'demo_without_patch')}))


if __name__ == '__main__':
    sys.exit(main())
