#!/usr/bin/env python3
"""Regenerates MANIFEST.json from the table below (keeps it valid at all times)."""
import json, os, subprocess

VERIF = os.path.dirname(os.path.dirname(os.path.abspath(__file__)))
props = [json.loads(l) for l in open(os.path.join(VERIF, 'properties.jsonl'))]

ENC_NOTE = ('Trusted: Coq 8.16.1 kernel (vm_compute, no native_compute); no axioms of our own (Print Assumptions: closed under the '
            'global context) except that the C11b theorems stated over Flocq\'s b32_of_bits / b64_of_bits / B2R depend on the standard '
            'library\'s ClassicalDedekindReals.sig_not_dec, sig_forall_dec, FunctionalExtensionality.functional_extensionality_dep and '
            'Classical_Prop.classic (through Flocq 4.1.0 and Reals; their axiom-free cores C11b_core_* are closed); translator tools/cxx2v.py over clang-14 JSON AST; extraction with ExtrOcamlBasic only + OCaml drivers; '
            'harness/enc_diff.cpp; IEEE-754 layout and memcpy/bswap semantics modelled, not verified.')
ART_NOTE = ('Trusted: Coq 8.16.1 kernel, no axioms; hand-written model coq/Art/ArtModel.v + ArtIter.v tied to the code by running the '
            'extracted model against harness/seq_diff.cpp on db, mutex_db and olc_db for uint64 and byte-string keys (results, scan '
            'output, canonical dump, statistics, value views); dump() as a faithful printer; SIMD search variants by their list-level '
            'meaning; theorems cover fixed-length keys of 1..8 bytes (uint64 = 8); longer byte-string keys are covered by the '
            'correspondence only and the non-compressible ones are known finding K1.')
LOCK_NOTE = ('Trusted: Coq 8.16.1 kernel, no axioms; sequential consistency instead of the C++ memory model; usage discipline as '
             'enforced by the C++ types; hooks (UNODB_DETAIL_VERIF_HOOKS) placed at every lock-word / protected-field access; '
             'dsched deterministic scheduler; translator for the word functions.')

QSBR_NOTE = ('Trusted: Coq 8.16.1 kernel, no axioms; theorems are about the coarse model (every QSBR API call atomic) in coq/Qsbr/QsbrModel.v; a '
             'fine-grained model (coq/Qsbr/QsbrFine.v: one step per atomic access inside the calls, program counters, stale local copies) is '
             'extracted and every event of every explored execution must be accepted by it (trace validation); its safety, exactly-once and '
             'thread-count theorems (C05c_*) hold for ALL interleavings and any number of threads; frees are queued per step in the fine '
             'model (a superset of the real traces); statistics code, fences and weak-CAS spurious failures are not modelled; coarse model '
             'tied to the code by driving several qsbr_per_thread instances from one OS thread and comparing state word, epochs, request lists, '
             'orphan lists and the exact blocks freed after every call; interleavings of the atomic steps inside the calls are explored on the '
             'real code with real threads under the deterministic scheduler (all schedules up to 2-3 preemptions + random) with the property '
             'evaluated by a ghost in the harness - explored, not proved; sequential consistency; a thread counts as quiescent from the entry of '
             'quiescent()/qsbr_pause().')

claimed = {
    'C13': ('proof', 'Coq theorems over the method table regenerated from mutex_art.hpp on every run (tools/shape2v.py): every index operation '
            'takes the mutex, makes exactly one call into the wrapped index and releases on every path; in every interleaving the mutex '
            'admits the calls into the wrapped index are totally ordered and disjoint (C13_atomic), the mutex stays held while a handle of '
            'a successful get is outstanding and no thread enters the index before it is dropped (C13_handle_keeps_lock / C13_pinned); the '
            'history validator is proved sound. Tie: the regenerated table must satisfy well_bracketed (kernel-checked), and a real '
            'multi-thread stress of mutex_db (std::mutex, OS schedules) records histories that the verified validator must accept, '
            'including values re-read through held handles.', '5 C13',
            'Trusted: Coq 8.16.1 kernel, no axioms; std::mutex / unique_lock semantics (mutual exclusion, RAII release) assumed, not '
            'verified; tools/shape2v.py (clang JSON AST -> method shapes); the wrapped db is covered by C01; OS schedules in the stress are '
            'not controlled.', 'Coq proof over a method-shape model regenerated from the C++ AST + linearizability validation of recorded histories'),
    'C17': ('proof', 'Coq theorems over the wrapper method table regenerated from qsbr_ptr.hpp/qsbr_ptr.cpp (assertion-enabled shapes): every '
            'well-formed sequence of constructions, copies, moves, assignments, arithmetic, span operations and destructions computes '
            'exactly what raw pointers compute (C17_raw), the registry is exactly the multiset of non-null addresses of live wrappers '
            '(C17_registry), no operation gets stuck, and a quiescent state / pause / resume is accepted precisely when no non-null wrapper '
            'is alive (C17_verdict). Tie: the regenerated table must be balanced (kernel-checked) and the extracted model is run against '
            'the real wrappers (debug and NDEBUG builds, fork probes for the assertion verdicts) on generated operation sequences.', '5 C17',
            'Trusted: Coq 8.16.1 kernel, no axioms; tools/shape2v.py; harness/ptr_diff.cpp; assertion failure observed as abort of a forked '
            'child; unordered_multiset semantics modelled as a multiset.',
            'Coq proof over a model regenerated from the C++ AST + differential correspondence'),
    'C03': ('proof', 'PARTIAL proof, decided end to end by exploration. Proved in Coq (all traces, all lengths, any number of threads): the lock '
            'layer (C07) lifted to every node of a trace accepted node by node (validated sections are snapshots, stores only under the '
            'node\'s write guard or on a node its writer already marked obsolete); soundness of the linearizability validator (an '
            'accepted witness order is a sequential map execution consistent with real time); the READER THEOREM (Olc/ReadModel.v, '
            'C03_reader_linearizable / C03_hops_on_path): over any history of heaps obeying the lock discipline and the writers\' rely '
            'conditions (unlinked nodes are obsolete; path ++ prefix of an inner node is invariant), every node of a lock-coupled '
            'descent is on the key\'s search path with the content the reader saw throughout its section, and the result of try_get is '
            'the lookup result at one moment inside the call (the same lemma makes a writer\'s view of parent / node / child accurate '
            'when it commits); and the meaning of the read-protocol acceptor (C03_protocol_*: no unvalidated read, child locked before '
            'the parent is released, versions used only for their own node, no guard left), which is extracted and run on the events of '
            'every get / insert / remove of every sampled execution; and the WRITER THEOREMS (Olc/WriteModel.v, C03_insert_commit, C03_remove_commit, '
            'C03_generated_*): the seven atomic commit shapes of an ART writer (add / remove leaf, root cases, leaf split, node '
            'replacement for growth and shrink, prefix split, collapse with prefix prepend) preserve well-formedness, change the '
            'abstract map exactly like map insert / remove, bump the word of every node they change and obsolete every node they '
            'unlink, so every history generated by them satisfies the reader theorem\'s hypotheses and every valid reader run on it '
            'is linearizable; and the REFINEMENT (Olc/ArtRefine*.v, C03e_*): every successful insert / remove of the sequential model '
            'Art/ArtModel.v - the model the differential runs tie to the real index, tree shape included - is exactly one of these '
            'commit shapes on a heap that represents the tree (all nine structural cases), so the states a sequential run goes through '
            'form a generated history; and NON-ATOMIC WRITERS (Olc/FineWrite*.v, C03f_*): in an operational model where any number of '
            'writers lock nodes one CAS at a time, store field by field into nodes they hold or into private fresh nodes (also into '
            'nodes they made obsolete), pass a ghost commit point and unlock with a version bump or obsolete mark - the only '
            'assumption being two-phase locking: at its commit point a writer holds every published node the commit changes - every '
            'validated reader run is also a valid run of the view in which each commit is atomic, hence linearizable; failed upgrades '
            '(bare version bumps) are covered. NOT a Coq theorem: that the C++ code is an instance of this operational model, i.e. '
            'that the stores of try_insert / try_remove produce exactly the content of the commit shape the sequential step declares '
            '(tied by the store discipline and protocol checks on traces, the sequential correspondence, and the exploration), hence that every interleaving of try_get/try_insert/try_remove of the '
            'implementation yields a linearizable history. That is decided on the implementation: olc_db run by 2-3 QSBR '
            'threads under the deterministic scheduler, all schedules with at most one (quick) / two (thorough) preemptions per program plus '
            'random schedules, on initial trees forcing every structural change; each execution\'s history goes through the verified '
            'validator, each sampled event trace through the extracted acceptor. This exposed D3 (collapse prepends to the surviving '
            'sibling\'s prefix without its lock: lost read), fixed by 0f504ae. SNAPSHOT CHECK (added): on every explored execution of the C03 programs, at every moment at which no write guard is held by any thread the whole tree is dumped and must have exactly the shape the extracted sequential model builds from the same entries (C03s_snapshot_oracle: that shape is a function of the entries), and the entry set may change between consecutive snapshots only by in-flight operations that eventually succeed - the link "code = ArtModel step = commit shape" is thereby observed under concurrency, not only sequentially. Protocol rule R1 is now also demanded of scans (C03_protocol_scan_loads), and rule R6 - the rule stated in olc_art.hpp itself, "a check() is required before acting on [node] by taking the lock": after a load from a node neither held nor owned no other node is read-locked before that node validated (C03_protocol_pointer_validated) - of operations and scans.', '5 C03',
            'Trusted: Coq 8.16.1 kernel, no axioms; sequential consistency; hooks at every lock-word / protected-field access; dsched; the '
            'search for a linearization is untrusted, its witness is checked by extracted lin_ok; schedules beyond the bound and programs '
            'beyond the listed ones are not covered.',
            'Coq proofs of lock layer + per-node trace acceptor + verified linearizability validator; bounded-preemption schedule exploration of the real index'),
    'C04': ('proof', 'PARTIAL proof, decided end to end by exploration. Proved in Coq over the QSBR model (any history, any number of threads): '
            'a block retired while thread u is registered is not freed before u\'s next quiescent state or exit (C04_view_stable: this is '
            'what keeps a get/scan view readable), every retired block is pending or freed exactly once (C04_unlinked_freed_once), on top '
            'of C05/C06. C04b_*: the composition theorem in the heap-history framework - a thread followed through one non-quiescent period, every '
            'node access listed with the origin of its pointer and NO version check assumed (so unvalidated accesses, abandoned attempts, iterator stack '
            'entries and held views are covered): every touched node was in the tree at some moment of the period, hence (retire only what is unlinked, '
            'published nodes freed only through QSBR, the QSBR guarantee in the abstract form of C05c_fine_safe) no access hits freed memory, a '
            'reachable node is never freed, a touched node stays allocated until the thread quiesces; the writers\' side is proved for the commit shapes '
            '(C04b_generated_satisfy_discipline) and each hypothesis has a machine-checked witness that it is needed. NOT a Coq theorem: that the C++ '
            'accesses form such a trace over such a history (that the tree code retires exactly the nodes it unlinks and reads child pointers only out '
            'of nodes it reached). That is decided on the implementation for every explored schedule: any hooked access to a block after its free, '
            'frees of reachable nodes, every violation of the read protocol (unvalidated read, pointer followed before its source node was validated: rules R1 / R6 of the extracted acceptor, deterministic per operation), bytes behind every held value view re-read before the holder\'s quiescent state, and allocated == '
            'reachable after the drain.', '5 C04',
            'Trusted: as C03 and C05; leaf key/value bytes are plain memory (checked through the held-view re-read, not per access).',
            'Coq proofs over the QSBR model + schedule exploration of the real index with a freed-block / held-view oracle'),
    'C09': ('proof', 'PARTIAL proof, decided end to end by exploration. Proved in Coq: a scan that is a sequence of "least key >= bound at some '
            'moment" queries with non-decreasing moments (the re-seek design of the OLC iterator) over ANY history of maps delivers strictly '
            'increasing keys within the bound, each with a value held at the query moment, never a key absent throughout, and every key '
            'present throughout (all five statements of the property, for all histories and scan lengths); and C09_chain_is_scan / '
            'C09_chain_exhausted: in any sequence accepted by the verified linearizability validator the successor queries of one scan '
            'form exactly such an abstract scan over the maps the sequence goes through; and the ITERATOR THEOREMS (Olc/IterModel.v, C09c_*): '
            'over any history of heaps obeying the lock discipline and the writers\' rely conditions, a successful forward try_next '
            '(any stack depth), try_first and every ending of try_seek are INTERVAL successor queries (the delivered entry is present '
            'at some moment of the step, every key in between is absent at some moment of it), an iterator run is a chain of them, '
            'and order / bounds / values / completeness for stable keys follow; a step is provably NOT an atomic successor query '
            '(C09c_step_not_atomic), which corrected an earlier, too strong check; the REVERSE direction (C09d_*: try_prior, try_last, reverse '
            'try_seek are interval predecessor queries; scan_range\'s half-open interval) and a root that is a leaf or null, both '
            'directions, are proved as well. NOT a Coq theorem: that the C++ iterator\'s events '
            'are such a run under every interleaving. That is decided on the implementation: every scan (scan, scan_from, '
            'scan_range, both directions, halting visitors) of every explored execution is validated step by step as an interval '
            'successor query against some linearization of the racing inserts / removes (witness checked by the verified validator); '
            'order, interval, value provenance and exactly-once delivery of untouched keys are checked again directly; iterator steps '
            'must use saved versions only for their own node (extracted acceptor).', '5 C09',
            'Trusted: as C03; the per-execution scan checker is Python (tools/p_olc.py).',
            'Coq proof of the abstract re-seek scan + schedule exploration of the real iterator'),
    'C14': ('proof', 'PARTIAL proof, decided end to end by exploration. Proved in Coq: in every accepted trace at most one write guard per node, and a '
            'thread holding any write guard takes no waiting step; C14c_*: every node whose word is write-locked at the end of an accepted '
            'trace has exactly one holder, that thread is not in a waiting step, hence no accepted trace ends with every unfinished thread '
            'spinning on a still-locked node (no wait cycle, for any number of threads and nodes). C14d_*: progress accounting - every failed '
            'check / failed upgrade of a section is charged to a successful write acquisition of the SAME node after the section was opened '
            '(by another thread when the restarted thread made none), a waiting reader faces a lock with exactly one holder, and in any '
            'period without write acquisitions entered with no guard held every read-lock sees a non-locked word and every validation '
            'succeeds: an operation running alone neither waits nor restarts (needs no help from earlier threads). NOT a Coq theorem: '
            'termination of the restart loops under fair schedules. Decided on the implementation: the scheduler reports deadlock (all '
            'unfinished threads spinning) or an exceeded step budget for every explored schedule, and after every execution a '
            'single-threaded sweep (get of every key, insert+remove probes next to every key, full scan) must terminate; allocation-failure '
            'points on the OLC index are covered by C08.', '5 C14',
            'Trusted: as C03; fairness approximated by the scheduler\'s round-robin continuation after the preemption budget.',
            'Coq proof (no wait while holding, single holder) + deadlock / step-budget detection under a deterministic scheduler + post-execution sweep'),
    'C08': ('proof', 'Coq theorems over the allocate-then-commit fault model: an insert / remove failing at any of its allocation points '
            'returns the untouched index and the retry gives the normal result; an operation has at most two allocation points, none when '
            'it is a no-op. The model\'s number of allocation points per operation is compared with the implementation, on which the '
            'guarantee itself is enumerated exhaustively: every allocation point of every insert/remove of the C01 histories is failed '
            'once with the library\'s own injector (assertion-enabled build) on db, mutex_db, olc_db and both key kinds, comparing dump, '
            'statistics, scan and the live allocation set; plus over-long key/value probes and QSBR start / resume / request failures. '
            'C08b_* (added): the ORDER of allocation, statistics updates, ownership (unique_ptr guards and their deleters) and publication in '
            'db::insert_internal / remove_internal and everything they call is regenerated from the clang AST on every run as a tree of effect '
            'tokens; for every table accepted by the boolean fault_safe (kernel-checked on the regenerated table) a throw at ANY allocation point '
            'of ANY path unwinds to exactly the initial state (stores, statistics, blocks held, owners), nothing can throw after the first '
            'publication, no noexcept frame is crossed, and the allocation counts per path match the model.',
            '5 C08', 'Trusted: Coq 8.16.1 kernel, no axioms; the allocate-then-commit model assumes what C08b derives from the source for db and what the '
            'enumeration checks on the code for all three classes (all allocations of an operation precede its first change); tools/fault2v.py '
            'classifies calls by name; library injector semantics; OLC with a single registered thread; hooks for the live '
            'allocation set.', 'Coq proof over a fault model + exhaustive fault enumeration on the implementation + allocation-count correspondence'),
    'C16': ('proof', 'Coq theorems: the SIMD child search / insert position / free-slot variants (modelled at mask and lane-group level) equal '
            'the list-level functions of the model, and the model\'s results do not depend on the statistics component. Tie '
            '(translation validation across builds): harness/seq_diff.cpp is built in all 16 configurations {AVX2,SSE4.1} x {stats, no '
            'stats} x {assertions, NDEBUG} x {PAUSE, EMPTY}; each runs the same C01/C02 histories on the three index classes and both key '
            'kinds (including scans followed by removals on the OLC index) and is diffed line by line against the extracted model; '
            'assertion-enabled builds must exit 0. Memory use is compared with the node sizes of the respective build. C16b_*: every UNODB_DETAIL_ASSERT of art.hpp / art_internal.hpp / art_internal_impl.hpp is regenerated into an inventory on every run (115; kernel-checked multiset equality with the hand classification: 61 modelled as boolean checks on the model state, 54 listed as unmodelled with reasons) and along every history in the C01g domain no modelled assertion fails (C16b_asserts_silent), with machine-checked witnesses that outside the domain they do fire. Assertions under CONCURRENCY: harness/olc_sched.cpp is built with the assertions enabled and explores the C03/C09 programs under the deterministic scheduler (all single-preemption schedules + random); this found defect D6 (torn key-prefix read asserted on in try_get/try_insert/try_remove), fixed by /repo commit 52d8748.', '5 C16',
            'Trusted: Coq 8.16.1 kernel, no axioms; intrinsics by their lane-level meaning; g++ -O1; the assertion inventory is a text scan '
            '(tools/gen.py asserts) and the mapping assertion -> boolean check is hand-written; assertions on the concurrent paths are decided by '
            'exploration of the assertion build only; the read_lock_count theorem of DESIGN (C16_rlc) is not proved.',
            'Coq proof (variant equivalence, statistics are observers) + 16-configuration differential run against the extracted model'),
    'C05': ('proof', 'Coq theorem C05c_fine_safe: over EVERY interleaving of the atomic accesses inside register / resume, pause / exit, quiescent '
            'and retire calls by any number of threads (fine-grained model Qsbr/QsbrFine.v: loads, CASes with stale expected values, '
            'fetch_sub, orphan-list exchange / push / move / append, program counters per call), no block is freed while a thread that was '
            'registered and holding references at its request has yet to pass a quiescent state, pause or exit (invariant C05c_fine_invariant, '
            'preserved by every step); the implementation\'s traces under the deterministic scheduler are replayed event by event by the '
            'extracted model on every run, so the theorem covers them. Also: Coq theorem C05_safe_coarse: in every history of register/resume, pause/exit, quiescent and retire calls by any number of '
            'threads (calls atomic, distinct blocks), every block is freed only when no thread registered at its request is still to pass a '
            'quiescent state; C05_immediate: a request is executed at once only when at most one thread is registered. The model is validated '
            'call by call against the implementation; additionally every atomic step inside the calls is a scheduling point of a '
            'bounded-preemption + random exploration on the real code, which is how defect D5 (now fixed) is exposed. C05b: the 15 state-word '
            'functions of qsbr_state and qsbr_epoch::advance are regenerated from qsbr.hpp on every run and bridged to the (epoch, T, P) '
            'arithmetic of the model, including the exact word transitions of register / quiescent / unregister.', '5 C05', QSBR_NOTE,
            'Coq invariant proof over the coarse model + differential correspondence + deterministic schedule exploration of the implementation'),
    'C06': ('proof', 'Coq theorems over the fine-grained model, for every interleaving of the atomic steps: C05c_fine_exactly_once (pending ++ freed '
            'is a permutation of retired: nothing lost, nothing freed twice, whoever pauses or exits when) and C05c_fine_thread_count (the '
            'word\'s thread count equals the registered threads whenever no thread is inside register / unregister); the traces of the '
            'implementation are validated against that model on every run. Over the coarse model (calls atomic): pending + freed is a permutation of retired in every history (exactly once, whether the requester runs on, '
            'pauses or exits), the thread count in the state word equals the number of registered threads with P <= T, and after all but one '
            'thread have left two quiescent states of the remaining one leave nothing pending, and C06_three_rounds: whatever is pending '
            'in a reachable state is executed by the end of three consecutive rounds in which every registered thread quiesces or '
            'leaves (with machine-checked witnesses that two rounds are not enough and that registrations inside a round break it). '
            'The same bounds are checked on the implementation (drain phases, three-round oracle, exploration).', '5 C06', QSBR_NOTE,
            'Coq invariant proof over the coarse model + differential correspondence + deterministic schedule exploration'),
    'C01': ('proof', 'Coq theorems C01_refines_map / C01_invariant: every history of get/insert/remove/empty/clear over keys of one '
            'fixed length 1..8 returns exactly what an association-list map returns (including leaf identity), never goes out of '
            'bounds, and leaves a well-formed tree holding exactly the map\'s entries; machine-checked refutation for byte keys '
            'sharing more than 7 bytes (K1). C01g_*: the same refinement and invariant for byte-string keys of ARBITRARY, MIXED lengths, under two '
            'executable hypotheses evaluated along the history (prefix-freedom of the operation\'s key against the stored keys; the 7-byte '
            'prefix capacity is not exceeded at a leaf split or a collapse), of which fixed-length histories and all histories over keys of '
            'at most 8 bytes are proved instances, and both of which are proved necessary by witnesses. The model is tied to all three index classes and both key kinds by differential runs '
            'with full tree-shape comparison after every operation. C01b: the key-prefix word arithmetic (length, shared length, cut, prepend, '
            'construction, indexing; key_prefix and key_prefix_snapshot) is regenerated from art_internal_impl.hpp on every run, with the '
            'header\'s asserts as side conditions, and bridged by kernel-checked lemmas to the byte-list functions of the model.', '5 C01',
            ART_NOTE,
            'Coq refinement proof (model -> finite map) + differential correspondence of the extracted model with the implementation'),
    'C02': ('proof', 'Coq theorems: the leaf order of a well-formed tree is the byte-wise key order; scan, scan_from and scan_range '
            'return exactly the entries of the requested interval in order, truncated at the visitor\'s halting call, for every tree, '
            'bound and direction (C02g_*: also for mixed-length prefix-free byte keys, the near bound prefix-free w.r.t. the stored keys); the pinned tree\'s seek is refuted by a machine-checked witness ({0,1,256}, scan_from 5). Tied by '
            'differential runs on all classes / key kinds with bounds at every fall-off position. C02b_*: detail::compare (both overloads), both '
            'basic_art_key::cmp overloads and the key constructors for key_view and uint64 keys are regenerated from the clang AST on every run '
            '(byte-list memory model; the address of a span object is a separate parameter, so an address-dependent comparison cannot be bridged) and '
            'proved equal to the lexicographic order of the key bytes / the numeric order of uint64 keys.', '5 C02', ART_NOTE,
            'Coq proof of iterator/seek/scan against interval lists + differential correspondence'),
    'C10': ('proof', 'Coq theorems: two well-formed trees with the same entries have the same shape (history independence), each node is '
            'in the smallest class fitting its fan-out, the incrementally maintained leaf/inode counts and memory use equal the '
            'functions of the tree after every history, counters are monotone, clear zeroes them (C10g_*: canonical shape and counts also for mixed-length byte keys). Tied by comparing every statistics '
            'getter and the canonical dump after every operation. C10h_*: the allocator view - for every history the multiset of live block sizes is '
            'that of the tree, sums to the reported memory use, frees were live, clear and destruction return everything, failed operations are neutral; '
            'tied by comparing, on every dump, the live block sizes and the sizes obtained / returned since the previous dump (allocator hooks) with the '
            'extracted model. C10b_*: node capacities, minimum sizes, larger / smaller classes and the prefix capacity of the model equal the constants '
            'regenerated from the source AST.', '5 C10', ART_NOTE,
            'Coq proof (canonical shape uniqueness, statistics = tree functions) + differential correspondence'),
    'C07': ('proof', 'Coq theorems over every event sequence the lock acceptor accepts (any number of threads, any length): at most one '
            'write guard and exactly when the write bit is set; a section whose check sees its version again overlapped no write-locked '
            'period and all its loads are the values at opening; an upgrade succeeds only if no writer intervened; obsolete is final and '
            'rejects readers, checks and upgrades; no 64-bit wrap below 2^62 acquisitions. Word functions regenerated from '
            'optimistic_lock.hpp and bridged; the real lock is run under a deterministic scheduler and every trace is replayed by the '
            'extracted acceptor; a free-running probe keeps the write guard until a reader has gone through 10^8 iterations of the wait loop of try_read_lock (counted through the hook): the reader must still be waiting and must obtain a validating section after the unlock.', '5 C07', LOCK_NOTE,
            'Coq proof over an event acceptor + trace validation of the implementation under a deterministic scheduler'),
    'C11': ('proof', 'Coq theorems C11_uint/int/float/text/tuple over the encoder model for all values, widths and tuples; signed-integer '
            'and float value expressions are regenerated from the C++ AST on every run and bridged to the model by kernel-checked lemmas '
            '(8/16-bit exhaustively by vm_compute, 32/64-bit by lia); the remaining byte-moving code is tied by running the extracted '
            'model and the implementation on the same scripts. C11b links the bit-pattern order to IEEE-754 as formalised by Flocq: for non-NaN '
            'words Bcompare of the decoded binary32/binary64 values is Lt iff the encoder\'s order holds (except -0 < +0, which IEEE equates), '
            'NaN / infinity / finiteness coincide, and for finite values enc(x) < enc(y) iff B2R x < B2R y.', '5 C11', ENC_NOTE,
            'Coq proof over executable model; model regenerated from C++ AST (leaf expressions) + differential correspondence'),
    'C12': ('proof', 'Coq theorems: integer and float round trips for all values (NaN to canonical quiet NaN), fixed widths, decode of any '
            'fixed-size tuple, and the encoder object shows exactly the encodings since the last reset whatever its capacity history; '
            'decode value expressions regenerated from the C++ AST and bridged; buffer management tied by correspondence on '
            'persistent-encoder scripts.', '5 C12', ENC_NOTE,
            'Coq proof over executable model; model regenerated from C++ AST + differential correspondence'),
    'C15': ('proof', 'Coq theorems: equal encodings iff equal normalised components, no encoded tuple is a proper prefix of another of the '
            'same schema, text output bounded by maxlen+3 and dependent only on the first maxlen bytes; machine-checked witness that the '
            'no-interior-zero domain restriction is needed; tied by correspondence and a guard-page run on the implementation.', '5 C15',
            ENC_NOTE, 'Coq proof over executable model + differential correspondence + guard-page run'),
}

extra = os.path.join(VERIF, 'tools', 'manifest_extra.json')
if os.path.exists(extra):
    for k, v in json.load(open(extra)).items():
        claimed[k] = tuple(v)

checks = []
for pid in sorted(claimed):
    cat, text, ref, note, tech = claimed[pid]
    checks.append({
        'property_id': pid,
        'quick_cmd': './check %s --tier quick' % pid,
        'thorough_cmd': './check %s --tier thorough' % pid,
        'evidence_file': '/verif/evidence/%s.json' % pid,
        'replay_cmd_template': './check %s --replay {path}' % pid,
        'engine': 'coq-proof+correspondence',
        'level_claimed': {'category': cat, 'text': text, 'design_ref': 'DESIGN.md section ' + ref},
        'level_note': note,
        'technique': tech,
    })
na = [{'property_id': p['id'], 'reason': 'check not built yet (see DESIGN.md)'}
      for p in props if p['id'] not in claimed]
hooks = subprocess.run(['git', '-C', '/repo', 'log', '--format=%h %s'], capture_output=True, text=True).stdout.splitlines()
hook_commits = [l.split(' ')[0] for l in hooks if l.split(' ', 1)[1].startswith('verification hooks')]
m = {'version': 1, 'setup_cmd': './setup.sh',
     'hooks': {'guard': 'UNODB_DETAIL_VERIF_HOOKS',
               'enable': 'harnesses are compiled directly from /repo sources with -DUNODB_DETAIL_VERIF_HOOKS (g++ -std=c++20 -mavx2 '
                         '-I/repo ... /repo/qsbr.cpp /repo/qsbr_ptr.cpp /repo/art_internal.cpp); see tools/vlib.py build_cxx',
               'baseline_off_cmd': 'cmake --build /repo/_build && ctest --test-dir /repo/_build -j8 --timeout 900',
               'source_commits': hook_commits, 'add_only': True},
     'engines': [{'name': 'coq-proof+correspondence', 'path': '/verif/check', 'serves_properties': sorted(claimed),
                  'kind_free_text': 'Coq 8.16 proofs over executable Gallina models; models tied to /repo by a clang-AST translator '
                                    '(regenerated each run), by differential runs of the extracted model against harnesses compiled from '
                                    '/repo, and by trace validation under a deterministic scheduler (hooks)'}],
     'checks': checks, 'not_applicable': na,
     'notes': 'See DESIGN.md. Every check regenerates coq/Gen from /repo, re-checks the property theorems with coqc, rebuilds the harness '
              'from /repo and diffs / replays it against the extracted model. known_findings.json lists fixed and known findings.'}
json.dump(m, open(os.path.join(VERIF, 'MANIFEST.json'), 'w'), indent=1)
print('claimed', sorted(claimed), 'n/a', [x['property_id'] for x in na])
