#!/bin/sh
# usage: seed_import.sh <agent output dir with patch.diff, meta.json, demo> <property id>  -> copies to seeded/<id>/<next n>
src="$1"; id="$2"
n=1; while [ -e "/verif/seeded/$id/$n" ]; do n=$((n+1)); done
mkdir -p "/verif/seeded/$id/$n"
cp -r "$src"/. "/verif/seeded/$id/$n/"
rm -f "/verif/seeded/$id/$n"/demo "/verif/seeded/$id/$n"/*.o "/verif/seeded/$id/$n"/a.out
echo "seeded/$id/$n"
