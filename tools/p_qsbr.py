"""C05, C06: QSBR.  Coq theorems over the coarse model (every API call atomic)
+ correspondence: several qsbr_per_thread instances driven from one OS thread,
compared with the extracted model after every call (state word, per-thread
epochs and request lists, orphan lists, exact set of blocks freed by the call)
+ the property itself evaluated on the implementation's output by an
independent Python ghost (failing-input search)."""
import os, json, itertools
from vlib import *

HOOK_FLAGS = ['-O1', '-DNDEBUG', '-DUNODB_DETAIL_WITH_STATS', '-DUNODB_SPINLOCK_LOOP_VALUE=1', '-DUNODB_DETAIL_VERIF_HOOKS']
N = 4
PROPS = {'C05': ['Properties/Properties_C05.v', 'Properties/Properties_C05b.v', 'Properties/Properties_C05c.v'], 'C06': ['Properties/Properties_C06.v', 'Properties/Properties_C06b.v', 'Properties/Properties_C05c.v']}


def enabled_ops(reg, n):
    ops = []
    for i in range(n):
        if reg[i]:
            ops += ['U %d' % i, 'Q %d' % i, 'R %d' % i]
        else:
            ops.append('G %d' % i)
    return ops


def apply_reg(reg, op):
    k, i = op.split()
    i = int(i)
    if k == 'G':
        reg[i] = True
    elif k == 'U':
        reg[i] = False


def drain(reg, n):
    """all but one unregister, two quiescent states of the remaining one, then it leaves"""
    out = []
    live = [i for i in range(n) if reg[i]]
    if not live:
        return out
    keep = live[0]
    for i in live[1:]:
        out.append('U %d' % i)
    out += ['Q %d' % keep, 'Q %d' % keep, 'U %d' % keep]
    return out


def gen_histories(tier, rng):
    hs = []
    thorough = tier == 'thorough'
    # exhaustive: all enabled sequences up to a length over 2 and 3 instances
    def rec(reg, n, depth, acc):
        if depth == 0:
            hs.append(('exh%d' % n, list(acc)))
            return
        for op in enabled_ops(reg, n):
            r2 = list(reg)
            apply_reg(r2, op)
            acc.append(op)
            rec(r2, n, depth - 1, acc)
            acc.pop()
    rec([False] * N, 2, 7 if thorough else 6, [])
    rec([False] * N, 3, 6 if thorough else 5, [])
    # random long histories over 4 instances, biased to keep 2-3 threads registered
    for _ in range(20000 if thorough else 2500):
        reg = [False] * N
        h = []
        for _ in range(20 + rng.below(40)):
            ops = enabled_ops(reg, N)
            w = []
            nreg = sum(reg)
            for op in ops:
                k = op[0]
                w.append({'G': 6 if nreg < 3 else 2, 'U': 2 if nreg > 1 else 1, 'Q': 8, 'R': 7}[k])
            r = rng.below(sum(w))
            for op, ww in zip(ops, w):
                if r < ww:
                    break
                r -= ww
            h.append(op)
            apply_reg(reg, op)
        hs.append(('rand', h))
    return hs


def assemble(hs):
    """each history is followed by a drain and the reset marker Z"""
    lines = []
    spans = []
    for tag, h in hs:
        reg = [False] * N
        for op in h:
            apply_reg(reg, op)
        full = h + drain(reg, N) + ['Z 0']
        spans.append((len(lines), len(lines) + len(full), tag, len(h)))
        lines += full
    return lines, spans


class Ghost:
    """independent re-statement of C05/C06 evaluated on the implementation's output"""

    def __init__(self):
        self.reg = set()
        self.wait = {}
        self.retired = {}
        self.freed = {}
        self.next_id = None
        self.rounds = {}

    def step(self, op, out, idx):
        probs = []
        k, i = op.split()
        i = int(i)
        f = dict(p.split('=', 1) for p in out.split(' ') if '=' in p)
        ftxt = out.split(' F=', 1)[1] if ' F=' in out else ''
        freed = [int(x) for x in ftxt.split()]
        if k in ('Q', 'U'):
            for p in self.wait:
                self.wait[p].discard(i)
        if k == 'G':
            self.reg.add(i)
        if k == 'U':
            self.reg.discard(i)
        if k == 'R':
            # the block retired by this call is the largest id the implementation has mentioned so far + 1;
            # ids are assigned sequentially by both sides, so take it from a running counter
            pid = self.next_id
            self.next_id += 1
            self.retired[pid] = idx
            self.wait[pid] = set(self.reg) - {i}
            if pid in freed and len(self.reg) > 1:
                probs.append('request %d executed at once although %d threads are registered' % (pid, len(self.reg)))
        for p in freed:
            if p in self.freed:
                probs.append('block %d freed twice' % p)
            self.freed[p] = idx
            if self.wait.get(p):
                probs.append('block %d freed while thread(s) %s registered at the request have not quiesced since' % (p, sorted(self.wait[p])))
        # C06 three rounds: a round = every thread registered at its end has passed through quiescent() within it
        for p, st in list(self.rounds.items()):
            if p in self.freed:
                del self.rounds[p]
                continue
            if k == 'Q':
                st[1].add(i)
            if k == 'G':
                st[1].discard(i)  # a (re)registered thread has to pass through a quiescent state of its own within the round
            if self.reg and self.reg <= st[1]:
                st[0] += 1
                st[1] = set()
                if st[0] >= 3:
                    probs.append('block %d still pending at the end of the third quiescent round after its request' % p)
                    del self.rounds[p]
        if k == 'R' and pid not in self.freed:
            self.rounds[pid] = [0, set()]
        if int(f.get('T', -1)) != len(self.reg):
            probs.append('thread count %s reported, %d registered' % (f.get('T'), len(self.reg)))
        return probs


FINE_PROGRAMS = [
    'SRQQ|SQQ|SRE',
    'S+3Q+H|1S+4RE+|2S+5E|5SQ',      # last-of-epoch thread leaves while another registers (orphans aged early on the pinned tree)
    'SRQPQ|SQRQ|SQQ',
    'S+2RE+|1S+3E|3SQRQ|3SRQQ',
    'SRRE|SRQE|SQQ',
    'SRPRQ|SQPQ',
    'SQQE|SRE|SRQE',                  # sole thread leaving while others register, retire and leave
    'S+2QQ+H|1S+3RQE|3SE|3SQQ',
    'SQ+3RE|1SQ+3RE|2S+QQQ',          # two threads leave with pending requests while a third is inside one epoch change
    'SQ+3RP|1SQ+3RPQ|2S+QQQ',         # ... pause / resume instead of exit
    'S+3RQ+6Q+9E|1S+4RQ+7Q+9E|2S+5Q+8+QQQ',   # both leave with previous-interval requests inside the third thread's epoch change
]


def fine_programs(rng, n):
    out = list(FINE_PROGRAMS)
    for _ in range(n):
        nt = 2 + rng.below(3)
        ts = []
        for t in range(nt):
            ops = 'S'
            for _ in range(2 + rng.below(4)):
                ops += rng.choice(['Q', 'Q', 'R', 'R', 'P', 'E', 'S'])
            ts.append(ops)
        out.append('|'.join(ts))
    return out


def fine_stage(res, pid, tier):
    """real threads under the deterministic scheduler: every atomic step inside the QSBR calls is a scheduling point"""
    from concurrent.futures import ThreadPoolExecutor
    with Lock():
        b, berr = build_cxx('qsbr_sched', [os.path.join(VERIF, 'harness', 'qsbr_sched.cpp'), os.path.join(REPO, 'qsbr.cpp'),
                                           os.path.join(REPO, 'qsbr_ptr.cpp')], HOOK_FLAGS)
    if berr:
        res.violation('cannot build the fine-grained exploration: ' + berr[-800:], {'kind': 'build', 'error': berr}, found_input=False)
        return
    thorough = tier == 'thorough'
    rng = Rng(seed() + 77)
    progs = fine_programs(rng, 40 if thorough else 8)
    bound = 3 if thorough else 2
    maxe = 60000 if thorough else 3000
    nrand = 3000 if thorough else 200

    def run(arg):
        i, prog = arg
        return prog, sh([os.path.join(BIN, 'qsbr_sched'), '--prog', prog, '--bound', str(bound), '--max', str(maxe),
                         '--random', str(nrand), '--seed', str(seed() + i)], timeout=3000 if thorough else 420)

    with ThreadPoolExecutor(max_workers=8) as ex:
        outs = list(ex.map(run, list(enumerate(progs))))
    total = 0
    nprob = 0
    for prog, (rc, o, e) in outs:
        last = [l for l in o.splitlines() if l.startswith('S execs=')]
        if rc != 0 or not last:
            res.violation('qsbr_sched failed (rc=%d) on program %s: %s' % (rc, prog, (e or o)[-300:]), {'kind': 'crash', 'program': prog})
            continue
        ex_n = int(last[0].split('execs=')[1].split()[0])
        pr_n = int(last[0].split('problems=')[1])
        total += ex_n
        if pr_n:
            nprob += pr_n
            # first reported execution: schedule, trace, problems
            lines = o.splitlines()
            xs = [i for i, l in enumerate(lines) if l.startswith('X')]
            if xs:
                i0 = xs[0]
                i1 = lines.index('Y', i0)
                blk = lines[i0:i1]
                sched = blk[0][2:].replace(' ', ',')
                probs = [l[2:] for l in blk if l.startswith('P ')]
                wanted = ('freed while', 'executed at once') if pid == 'C05' else ('never', 'not freed', 'thread count', 'orphaned', 'twice', 'deadlock', 'budget')
                mine = [p_ for p_ in probs if any(w in p_ for w in wanted)] or probs
                if len([v for v in res.violations]) < 3:
                    res.violation('%s violated on the implementation under schedule exploration (program %s, %d of %d schedules): %s'
                                  % (pid, prog, pr_n, ex_n, mine[0]),
                                  {'kind': 'property-on-implementation', 'program': prog, 'schedule': sched,
                                   'trace': [l for l in blk if l.startswith('E ')], 'problems': probs,
                                   'replay_hint': 'build/bin/qsbr_sched --prog "%s" --replay %s' % (prog, sched)})
    # trace validation against the fine-grained Coq model (Qsbr/QsbrFine.v: one step per atomic access inside the calls):
    # every event of every explored execution must be the next step of the extracted acceptor, and the acceptor's own
    # ghost must never see a block freed with a non-empty waiting set
    rmax = 20000 if thorough else 700
    rrand = 2000 if thorough else 100

    def replay(arg):
        i, prog = arg
        cmd = '%s --prog %s --bound %d --max %d --random %d --seed %d --trace 1 | %s -q' % (
            os.path.join(BIN, 'qsbr_sched'), "'" + prog + "'", bound, rmax, rrand, seed() + i, os.path.join(OCAML, 'qsbr_fine_replay'))
        return prog, sh(cmd, timeout=3000 if thorough else 420)
    with ThreadPoolExecutor(max_workers=8) as ex:
        routs = list(ex.map(replay, list(enumerate(progs))))
    tr_n = ev_n = rej_n = bad_n = 0
    for prog, (rc, o, e) in routs:
        tl = [l for l in o.splitlines() if l.startswith('T traces=')]
        if rc != 0 or not tl:
            res.violation('trace validation against the fine-grained model failed to run (rc=%s) on program %s: %s' % (rc, prog, (e or o)[-300:]),
                          {'kind': 'crash', 'program': prog})
            continue
        f = dict(x.split('=') for x in tl[0].split()[1:])
        tr_n += int(f['traces']); ev_n += int(f['events']); rej_n += int(f['rejected']); bad_n += int(f.get('bad', 0))
        firsts = [l for l in o.splitlines() if l.startswith('REJECT') or l.startswith('BAD')][:3]
        if int(f['rejected']) and len(res.violations) < 4:
            res.violation('the fine-grained model (Qsbr/QsbrFine.v) rejects %s of %s traces of the implementation on program %s: %s'
                          % (f['rejected'], f['traces'], prog, '; '.join(firsts)[:300]),
                          {'kind': 'correspondence', 'program': prog, 'broken': 'qsbr_sched traces vs extracted QsbrFine.fstep', 'first': firsts},
                          found_input=False)
        if int(f.get('bad', 0)) and pid == 'C05' and len(res.violations) < 4:
            res.violation('C05 violated: in %s of %s accepted traces on program %s the model sees a block freed while a thread registered at '
                          'the request has not passed a quiescent state' % (f['bad'], f['traces'], prog),
                          {'kind': 'property-on-implementation', 'program': prog, 'first': firsts})
    res.coverage['fine_traces_validated'] = tr_n - rej_n
    res.coverage['fine_trace_events'] = ev_n
    res.coverage['fine_traces_rejected'] = rej_n
    if tr_n == 0:
        res.violation('no trace was validated against the fine-grained model', {'kind': 'correspondence', 'broken': 'qsbr_fine_replay'},
                      found_input=False)
    res.coverage['fine_executions'] = total
    res.coverage['fine_programs'] = len(progs)
    res.coverage['fine_preemption_bound'] = bound
    res.coverage['fine_problem_executions'] = nprob
    if total < len(progs):
        res.violation('fine-grained exploration is vacuous (%d executions)' % total, {'kind': 'correspondence',
                      'broken': 'qsbr_sched / hooks'}, found_input=False)


def check(pid, tier, replay=None):
    res = Result(pid, tier)
    res.assumptions = [
        'theorems: coarse granularity, every QSBR API call atomic; interleavings of the atomic steps inside the calls are explored on the implementation under the deterministic scheduler (bounded preemptions + random), not proved',
        'a thread counts as having passed its quiescent state / pause at the entry of quiescent() / qsbr_pause()',
        'allocator as a set of live blocks; the Boost statistics accumulators are not modelled',
    ]
    have_props = all(os.path.exists(os.path.join(COQ, f)) for f in PROPS[pid])
    if have_props:
        # the state-word functions of qsbr.hpp are regenerated and bridged to the model's (epoch, T, P) arithmetic
        proof_stage(res, ['qsbr'] if pid == 'C05' else [], PROPS[pid], pid)
    else:
        res.proof_ok, res.broken, res.proof_log = True, [], ''
    res.coverage['trusted_base'] = TRUSTED_COMMON + [
        'extraction: ExtrOcamlBasic only; OCaml 4.13.1; driver ocaml/qsbr_run.ml',
        'harness/qsbr_coarse.cpp (private members read through "#define private public"; frees observed through the mem_free hook)',
        'Python ghost in tools/p_qsbr.py used only to search for failing inputs',
    ]
    with Lock():
        err = extract_and_build_ocaml(['qsbr_run', 'qsbr_fine_replay'])
        b, berr = build_cxx('qsbr_coarse', [os.path.join(VERIF, 'harness', 'qsbr_coarse.cpp'), os.path.join(REPO, 'qsbr.cpp'),
                                            os.path.join(REPO, 'qsbr_ptr.cpp')], HOOK_FLAGS)
    if err or berr:
        res.violation('cannot build the correspondence: ' + (err or berr)[-800:], {'kind': 'build', 'error': err or berr}, found_input=False)
        return res.finish()
    if replay and 'program' in json.load(open(replay)):
        rp = json.load(open(replay))
        build_cxx('qsbr_sched', [os.path.join(VERIF, 'harness', 'qsbr_sched.cpp'), os.path.join(REPO, 'qsbr.cpp'),
                                 os.path.join(REPO, 'qsbr_ptr.cpp')], HOOK_FLAGS)
        rc, o, e = sh([os.path.join(BIN, 'qsbr_sched'), '--prog', rp['program'], '--replay', rp['schedule']], timeout=120)
        print(o)
        return 0
    if replay:
        rp = json.load(open(replay))
        text = '\n'.join(rp['ops']) + '\n'
        rc, a, e = sh([os.path.join(BIN, 'qsbr_coarse'), str(N)], input=text, timeout=120)
        rc, m, e = sh([os.path.join(OCAML, 'qsbr_run'), str(N)], input=text, timeout=120)
        for l, x, y in zip(rp['ops'], a.splitlines(), m.splitlines()):
            print('%s\n   impl : %s\n   model: %s' % (l, x, y))
        return 0
    rng = Rng(seed())
    hs = gen_histories(tier, rng)
    lines, spans = assemble(hs)
    text = '\n'.join(lines) + '\n'
    rc1, a, e1 = sh([os.path.join(BIN, 'qsbr_coarse'), str(N)], input=text, timeout=1800)
    rc2, m, e2 = sh([os.path.join(OCAML, 'qsbr_run'), str(N)], input=text, timeout=1800)
    impl, model = a.splitlines(), m.splitlines()
    if rc1 != 0 or len(impl) != len(lines):
        at = len(impl)
        sp = [s for s in spans if s[0] <= at < s[1]] or [spans[-1]]
        res.violation('implementation harness stopped (rc=%d) after %d ops: %s' % (rc1, at - sp[0][0], e1[-400:]),
                      {'kind': 'crash', 'ops': lines[sp[0][0]:min(at + 2, sp[0][1])]})
        return res.finish()
    if rc2 != 0 or len(model) != len(lines):
        res.violation('model driver failed: ' + e2[-300:], {'kind': 'model-crash'}, found_input=False)
        return res.finish()
    nprob = ncorr = 0
    distinct = set()
    freed_total = 0
    unsafe_model = 0
    dist = {}
    ghost = Ghost()
    ghost.next_id = 0
    for (lo, hi, tag, hl) in spans:
        dist[tag] = dist.get(tag, 0) + 1
        g = Ghost()
        g.next_id = ghost.next_id
        first_p = first_c = None
        for j in range(lo, hi):
            op = lines[j]
            if op.startswith('Z'):
                continue
            probs = g.step(op, impl[j], j - lo)
            if probs and first_p is None:
                first_p = (j, probs)
            if impl[j] != model[j].split(' UNSAFE=')[0] and first_c is None:
                first_c = j
            if ' UNSAFE=' in model[j]:
                unsafe_model += 1
        ghost.next_id = g.next_id
        # C06: after the drain nothing is pending and every retired block was freed exactly once
        leftover = [p for p in g.retired if p not in g.freed]
        if leftover and first_p is None:
            first_p = (hi - 2, ['blocks %s never freed after the drain phase' % leftover[:5]])
        last = impl[hi - 2]
        if ('OP= ' not in last + ' ' or 'OC= ' not in last + ' ') and first_p is None:
            pass
        freed_total += len(g.freed)
        if hl >= 6 and len(g.freed) >= 2:
            distinct.add(hash(tuple(impl[lo:hi])))
        if first_p is not None:
            nprob += 1
            if nprob <= 3:
                j, probs = first_p
                res.violation('%s violated on the implementation (history %s, %d calls): %s' % (pid, tag, j - lo + 1, probs[0]),
                              {'kind': 'property-on-implementation', 'ops': lines[lo:j + 1], 'impl': impl[lo:j + 1], 'problems': probs})
        elif first_c is not None:
            ncorr += 1
            if ncorr <= 3:
                j = first_c
                res.violation('model and implementation disagree (history %s, call %d: %s): impl %s / model %s; the property evaluated '
                              'on the implementation output did not fail' % (tag, j - lo + 1, lines[j], impl[j][:200], model[j][:200]),
                              {'kind': 'correspondence', 'ops': lines[lo:j + 1], 'impl': impl[j], 'model': model[j],
                               'broken': 'correspondence qsbr_coarse vs extracted QsbrModel'}, found_input=False)
    fine_stage(res, pid, tier)
    if unsafe_model:
        res.violation('the model itself freed a block with a non-empty waiting set (%d times)' % unsafe_model,
                      {'kind': 'model-property'}, found_input=False)
    if not res.proof_ok and not res.violations:
        res.violation('proof obligation no longer checks: ' + ' | '.join(res.broken)[:500],
                      {'kind': 'proof', 'broken': res.broken, 'log': res.proof_log[-1500:]}, found_input=False)
    elif not res.proof_ok:
        res.coverage['broken_obligations'] = res.broken
    res.coverage.update({
        'evaluations': len(lines),
        'histories': len(spans),
        'distinct_nontrivial': len(distinct),
        'rule': 'call histories over %d qsbr_per_thread instances driven from one OS thread: all API-respecting sequences up to length 6/5 '
                '(7/6 thorough) over 2/3 instances, random histories of 20-60 calls over 4 instances (register/resume, pause, quiescent, '
                'retire), each followed by a drain (all but one pause, two quiescent states, last one pauses); non-trivial = at least 6 calls '
                'and at least 2 blocks freed; distinct = distinct implementation output' % N,
        'input_distribution': dist,
        'blocks_freed': freed_total,
        'disagreements_checked': len(lines),
        'disagreements_found': ncorr,
        'property_failures_on_impl': nprob,
        'exhaustive': False,
    })
    k = spans[min(len(spans) - 1, len(spans) // 2)]
    res.coverage['samples'] = [{'history': lines[k[0]:k[1]], 'impl': impl[k[0]:k[1]][:8]}]
    return res.finish()
