"""C03, C04, C09, C14: the optimistic-lock-coupling index under concurrency.
Coq: the lock layer (C07), the per-node trace acceptor (Olc/OlcTrace.v), the
verified linearizability validator, the abstract scan theorem.  Tie and
decision on the code: the real olc_db run by 2-3 QSBR threads under the
deterministic scheduler; every explored execution is checked for
linearizability (verified validator), use of freed nodes, stores without the
node's write lock, leaks after the drain, stability of returned value bytes,
scan order / bounds / completeness, deadlock, livelock and locks left held;
sampled traces are replayed node by node through the extracted acceptor."""
import os, json
from vlib import *

HOOK_FLAGS = ['-O1', '-DNDEBUG', '-DUNODB_DETAIL_WITH_STATS', '-DUNODB_SPINLOCK_LOOP_VALUE=1', '-DUNODB_DETAIL_VERIF_HOOKS']
PROPS = {'C03': 'Properties/Properties_C03.v', 'C04': 'Properties/Properties_C04.v', 'C09': 'Properties/Properties_C09.v',
         'C14': 'Properties/Properties_C14.v'}

# (initial keys, thread programs): small trees chosen so that the operations perform each structural change
POINT_PROGRAMS = [
    ('1,2', 'G1;G3|I3|R2'),                                   # leaf split under a two-leaf root
    ('1', 'I2|G1;G2|R1'),                                     # root leaf -> N4, root leaf removal
    ('', 'I1|I1;G1|R1'),                                      # empty tree, racing inserts of one key
    ('10100,10101', 'I20000|G10100;G10101|G20000'),           # prefix split at the root
    ('10100,10101,10200,20000', 'G10101|R10200'),             # collapse with an inode sibling (prefix prepend)
    ('10100,10101,10200,20000', 'G10101;G10100|R10200;I10200|R10100'),
    ('10100,10200', 'R10200|G10100|I10300'),                  # collapse with a leaf sibling
    ('1,2,3,4', 'I5|G1;G5|R2'),                               # grow 4 -> 16
    ('1,2,3,4,5', 'R5|G1;G4|I6'),                             # shrink 16 -> 4
    ('1,2,3', 'I4;I5|R1;R2|G3;G5'),                           # grow and shrink racing
    ('1,2,3', 'R1|R1|I1'),                                    # racing removes and an insert of one key
    ('100,101,200,201', 'R100;R101|I102|G200;G101'),
]
SCAN_PROGRAMS = [
    ('1,2,3,10,11', 'Sf|I4;R2'),
    ('1,2,3,10,11', 'Sr|I4;R10|R3'),
    ('100,101,200,201,300', 'F101f|R200;I250'),
    ('100,101,200,201,300', 'F201r|R101;I150|I202'),
    ('100,101,200,201,300', 'Q100-300|R200;R201'),            # collapse of a node on the scanner's stack
    ('100,101,200,201,300', 'Q300-100|I102;I103|R300'),
    ('1,2,3,4', 'Sf;Sr|I5;R1'),                               # growth of the node being scanned
    ('10100,10101,10200,20000', 'Sf|R10200|I10300'),
]
GROW_PROGRAMS = [
    (','.join('%x' % i for i in range(1, 17)), 'I11|G1;G10|R5'),       # 16 -> 48
    (','.join('%x' % i for i in range(1, 18)), 'R11|G1;G10|I12'),      # 48 -> 16
]


def programs(pid, tier):
    progs = list(POINT_PROGRAMS)
    if pid in ('C09',):
        progs = list(SCAN_PROGRAMS) + POINT_PROGRAMS[:3]
    elif pid in ('C04', 'C14'):
        progs = POINT_PROGRAMS[:8] + SCAN_PROGRAMS[:4]
    if tier == 'thorough' or pid == 'C03':
        progs += GROW_PROGRAMS
    return progs


def scan_problems(block_lines):
    """C09: order, bounds, values, completeness for stable keys -- evaluated on one execution"""
    init = {}
    calls = []
    scans = []
    for l in block_lines:
        t = l.split(' ')
        if t[0] == 'J':
            init[int(t[1])] = int(t[2])
        elif t[0] == 'C':
            calls.append({'op': t[2], 'key': int(t[3]), 'val': int(t[4]), 'ok': t[5] == '1', 'inv': int(t[7]), 'ret': int(t[8])})
        elif t[0] == 'V':
            head, _, rest = l.partition(' :')
            h = head.split(' ')
            seen = [(int(x.split('=')[0]), int(x.split('=')[1])) for x in rest.split()]
            scans.append({'inv': int(h[2]), 'ret': int(h[3]), 'kind': h[4], 'a': int(h[5]), 'b': int(h[6]), 'fwd': h[7] == 'f', 'seen': seen})
    probs = []
    touched = set(c['key'] for c in calls if c['op'] in 'IR')
    ever = set(init) | set(c['key'] for c in calls if c['op'] == 'I')
    for s in scans:
        if s['kind'] == 'S':
            fwd, inside = s['fwd'], (lambda k: True)
        elif s['kind'] == 'F':
            fwd = s['fwd']
            inside = (lambda k, a=s['a'], f=fwd: k >= a if f else k <= a)
        else:
            a, b = s['a'], s['b']
            if a == b:
                fwd, inside = True, (lambda k: False)
            elif a < b:
                fwd, inside = True, (lambda k, a=a, b=b: a <= k < b)
            else:
                fwd, inside = False, (lambda k, a=a, b=b: b < k <= a)
        keys = [k for k, _ in s['seen']]
        for x, y in zip(keys, keys[1:]):
            if (fwd and not x < y) or (not fwd and not x > y):
                probs.append('scan delivered keys out of order: %x then %x' % (x, y))
                break
        for k, v in s['seen']:
            if not inside(k):
                probs.append('scan delivered key %x outside the requested interval' % k)
            if k not in ever:
                probs.append('scan delivered key %x which was never present' % k)
            else:
                ok_vals = set()
                if k in init:
                    ok_vals.add(init[k])
                for c in calls:
                    if c['op'] == 'I' and c['key'] == k and c['inv'] < s['ret']:
                        ok_vals.add(c['val'])
                if v not in ok_vals:
                    probs.append('scan delivered key %x with a value it never held' % k)
        for k in init:
            if k not in touched and inside(k) and keys.count(k) != 1:
                probs.append('key %x, present for the whole scan and inside the interval, was delivered %d times' % (k, keys.count(k)))
    return probs


def check(pid, tier, replay=None):
    res = Result(pid, tier)
    res.assumptions = [
        'sequential consistency: every atomic access of the lock words, protected fields and QSBR words is one indivisible step',
        'the end-to-end statement (every interleaving of the tree algorithms is linearizable / memory safe / deadlock free) is NOT a Coq '
        'theorem: it is decided on the implementation for the explored schedules (all schedules with at most one preemption per program, '
        'random schedules beyond); closed theorems: lock layer, per-node acceptor, verified validators, abstract scan theorem',
        'hook placement covers every in_critical_section / optimistic_lock / QSBR word access (leaf key/value bytes are plain memory)',
    ]
    have = os.path.exists(os.path.join(COQ, PROPS[pid]))
    if have:
        proof_stage(res, ['lock'], [PROPS[pid]], pid)
    else:
        res.proof_ok, res.broken, res.proof_log = True, [], ''
    res.coverage['trusted_base'] = TRUSTED_COMMON + [
        'hooks in /repo (UNODB_DETAIL_VERIF_HOOKS), harness/dsched.hpp, harness/olc_sched.cpp (ghost analyses of the event log)',
        'extraction: ExtrOcamlBasic only; ocaml/lin_run.ml (untrusted search + verified lin_ok), ocaml/olc_replay.ml (extracted per-node acceptor)',
        'Python scan checker in tools/p_olc.py',
    ]
    srcs = [os.path.join(VERIF, 'harness', 'olc_sched.cpp')] + [os.path.join(REPO, f) for f in ('qsbr.cpp', 'qsbr_ptr.cpp', 'art_internal.cpp')]
    with Lock():
        err = extract_and_build_ocaml(['lin_run', 'olc_replay'])
        b, berr = build_cxx('olc_sched', srcs, HOOK_FLAGS)
    if err or berr:
        res.violation('cannot build the exploration: ' + (err or berr)[-800:], {'kind': 'build'}, found_input=False)
        return res.finish()
    if replay:
        rp = json.load(open(replay))
        rc, o, e = sh([os.path.join(BIN, 'olc_sched'), '--init', rp['init'], '--prog', rp['program'], '--replay', rp['schedule'],
                       '--qs', rp.get('qs', 'every')], timeout=300)
        print('\n'.join(l for l in o.splitlines() if not l.startswith('E ')))
        rc, o2, e = sh([os.path.join(OCAML, 'lin_run')], input=o, timeout=120)
        print(o2)
        return 0
    thorough = tier == 'thorough'
    progs = programs(pid, tier)
    jobs = []
    for i, (init, prog) in enumerate(progs):
        for qs in (('every', 'end') if (thorough or i % 3 == 0) else ('every',)):
            jobs.append((i, init, prog, qs))
    maxe = 20000 if thorough else 1200
    nrand = 2000 if thorough else 120
    bound = 2 if thorough else 1
    sample = 2 if thorough else 4
    from concurrent.futures import ThreadPoolExecutor

    def run(job):
        i, init, prog, qs = job
        rc, o, e = sh([os.path.join(BIN, 'olc_sched'), '--init', init, '--prog', prog, '--bound', str(bound), '--max', str(maxe),
                       '--random', str(nrand), '--seed', str(seed() + i), '--qs', qs, '--sample', str(sample)], timeout=3400)
        if rc != 0:
            return job, rc, o, e, '', ''
        rc2, lin, e2 = sh([os.path.join(OCAML, 'lin_run')], input=o, timeout=1800)
        rc3, rep, e3 = sh([os.path.join(OCAML, 'olc_replay')], input=o, timeout=1800)
        return job, rc, o, e, lin, rep
    with ThreadPoolExecutor(max_workers=8) as ex:
        outs = list(ex.map(run, jobs))
    total = nbad = traces = rejected = events = 0
    distinct = set()
    samples = []
    mine = {'C03': ('C03:',), 'C04': ('C04:',), 'C09': (), 'C14': ('C14:',)}[pid]
    for (i, init, prog, qs), rc, o, e, lin, rep in outs:
        if rc != 0:
            # a crash / assertion / timeout of the exploration itself: every OLC property is affected
            res.violation('olc_sched failed (rc=%d) on init {%s} program %s (qs=%s): %s' % (rc, init, prog, qs, (e or o)[-300:]),
                          {'kind': 'crash', 'init': init, 'program': prog, 'qs': qs})
            continue
        blocks = o.split('\nY\n')
        verdicts = [l for l in lin.splitlines() if l == 'ok' or l.startswith('NONLIN') or l == 'TOOLONG']
        for l in rep.splitlines():
            if l.startswith('T traces='):
                traces += int(l.split('traces=')[1].split()[0])
                rejected += int(l.split('rejected=')[1].split()[0])
                events += int(l.split('events=')[1])
        rej_lines = [l for l in rep.splitlines() if l.startswith('REJECT')]
        if rej_lines and pid in ('C03', 'C14') and nbad < 3:
            which = [l for l in rej_lines if ('waits' in l) == (pid == 'C14')]
            if which:
                nbad += 1
                res.violation('the extracted acceptor rejects a trace of the implementation (%s) on init {%s} program %s' % (which[0], init, prog),
                              {'kind': 'correspondence', 'init': init, 'program': prog, 'qs': qs,
                               'broken': 'trace validation olc_sched vs OlcTrace/LockModel'}, found_input=False)
        for bi, blk in enumerate(blocks):
            lines = blk.splitlines()
            xs = [l for l in lines if l.startswith('X')]
            if not xs:
                continue
            total += 1
            sched = xs[0][2:].replace(' ', ',')
            body = [l for l in lines if l[:2] in ('C ', 'V ')]
            distinct.add(hash(tuple(body)))
            probs = [l[2:] for l in lines if l.startswith('P ') and l[2:].startswith(mine)] if mine else []
            if pid == 'C03' and bi < len(verdicts) and verdicts[bi].startswith('NONLIN'):
                probs.append('the recorded history is not linearizable (%s)' % verdicts[bi])
            if pid == 'C09':
                probs += scan_problems(lines)
            if probs:
                nbad += 1
                if nbad <= 3:
                    res.violation('%s violated on the implementation (init {%s}, program %s, qs=%s): %s' % (pid, init, prog, qs, probs[0]),
                                  {'kind': 'property-on-implementation', 'init': init, 'program': prog, 'qs': qs, 'schedule': sched,
                                   'history': body, 'problems': probs})
            if len(samples) < 2 and bi == 5:
                samples.append({'init': init, 'program': prog, 'schedule': sched[:200], 'history': body})
    if total < len(jobs) * 5 or (traces == 0):
        res.violation('the exploration is vacuous (%d executions, %d traces validated): hooks or scheduler do not work' % (total, traces),
                      {'kind': 'correspondence', 'broken': 'olc_sched / hooks'}, found_input=False)
    if not res.proof_ok and not res.violations:
        res.violation('proof obligation no longer checks: ' + ' | '.join(res.broken)[:500],
                      {'kind': 'proof', 'broken': res.broken, 'log': res.proof_log[-1500:]}, found_input=False)
    elif not res.proof_ok:
        res.coverage['broken_obligations'] = res.broken
    res.coverage.update({
        'evaluations': total, 'distinct_nontrivial': len(distinct), 'programs': len(jobs),
        'traces_validated_against_impl': traces - rejected, 'events_replayed': events, 'rejected_traces': rejected,
        'preemption_bound': bound, 'property_failures_on_impl': nbad,
        'rule': 'programs of 2-3 QSBR threads (get / insert / remove / scan / scan_from / scan_range) on small initial trees chosen so that '
                'the writers perform leaf split, prefix split, growth and shrink between node classes, collapse with inode and leaf sibling, '
                'root replacement and root removal; quiescent states after every operation or only at thread end; all schedules with at most '
                '%d preemption(s) (cap %d per program) plus %d random schedules; every %d-th execution\'s event trace is replayed node by '
                'node through the extracted acceptor; distinct = distinct call/scan histories' % (bound, maxe, nrand, sample),
        'exhaustive': False,
    })
    res.coverage['samples'] = samples
    return res.finish()
