"""C03, C04, C09, C14: the optimistic-lock-coupling index under concurrency.
Coq: the lock layer (C07), the per-node trace acceptor (Olc/OlcTrace.v), the
verified linearizability validator, the abstract scan theorem.  Tie and
decision on the code: the real olc_db run by 2-3 QSBR threads under the
deterministic scheduler; every explored execution is checked for
linearizability (verified validator), use of freed nodes, stores without the
node's write lock, leaks after the drain, stability of returned value bytes,
scan order / bounds / completeness, deadlock, livelock and locks left held;
sampled traces are replayed node by node through the extracted acceptor."""
import os, json
from vlib import *

HOOK_FLAGS = ['-O1', '-DNDEBUG', '-DUNODB_DETAIL_WITH_STATS', '-DUNODB_SPINLOCK_LOOP_VALUE=1', '-DUNODB_DETAIL_VERIF_HOOKS']
# C03 only: olc_sched dumps the whole tree whenever no thread holds a write guard (every such moment), see snapshot_check
SNAP_ARGS = {'C03': ['--snap', '2']}
PROPS = {'C03': 'Properties/Properties_C03.v', 'C04': 'Properties/Properties_C04.v', 'C09': 'Properties/Properties_C09.v',
         'C14': 'Properties/Properties_C14.v'}

# (initial keys, thread programs): small trees chosen so that the operations perform each structural change
POINT_PROGRAMS = [
    ('1,2', 'G1;G3|I3|R2'),                                   # leaf split under a two-leaf root
    ('1', 'I2|G1;G2|R1'),                                     # root leaf -> N4, root leaf removal
    ('', 'I1|I1;G1|R1'),                                      # empty tree, racing inserts of one key
    ('10100,10101', 'I20000|G10100;G10101|G20000'),           # prefix split at the root
    ('10100,10101,10200,20000', 'G10101|R10200'),             # collapse with an inode sibling (prefix prepend)
    ('10100,10101,10200,20000', 'G10101;G10100|R10200;I10200|R10100'),
    ('10100,10200', 'R10200|G10100|I10300'),                  # collapse with a leaf sibling
    ('1,2,3,4', 'I5|G1;G5|R2'),                               # grow 4 -> 16
    ('1,2,3,4,5', 'R5|G1;G4|I6'),                             # shrink 16 -> 4
    ('1,2,3', 'I4;I5|R1;R2|G3;G5'),                           # grow and shrink racing
    ('1,2,3', 'R1|R1|I1'),                                    # racing removes and an insert of one key
    ('100,101,200,201', 'R100;R101|I102|G200;G101'),
]
SCAN_PROGRAMS = [
    ('1,2,3,10,11', 'Sf|I4;R2'),
    ('1,2,3,10,11', 'Sr|I4;R10|R3'),
    ('100,101,200,201,300', 'F101f|R200;I250'),
    ('100,101,200,201,300', 'F201r|R101;I150|I202'),
    ('100,101,200,201,300', 'Q100-300|R200;R201'),            # collapse of a node on the scanner's stack
    ('100,101,200,201,300', 'Q300-100|I102;I103|R300'),
    ('1,2,3,4', 'Sf;Sr|I5;R1'),                               # growth of the node being scanned
    ('10100,10101,10200,20000', 'Sf|R10200|I10300'),
    ('100,101,102,200,201', 'Sf|R102'),                      # re-seek to a removed key that was the last of its node (fall-off)
    ('100,101,200,201,202', 'Sr|R200'),
    ('100,101,200,201,300', 'F105f;F1ffr|I106;R106'),        # bounds that leave the tree below the root
    ('110,111,250,251', 'Sf|I112;I220'),                     # a step that is NOT an atomic successor query (C09c_step_not_atomic): must pass
    ('110,111,250,251', 'Sr|I24f;I120'),
    ('1,2,3,10,11', 'Sf!2;Sr!3|I4;R2'),                      # visitor halts the scan
    ('100,101,200,201,300', 'F101f!2;Q300-100!1|R200;I250'),
]
GROW_PROGRAMS = [
    (','.join('%x' % i for i in range(1, 17)), 'I11|G1;G10|R5'),       # 16 -> 48
    (','.join('%x' % i for i in range(1, 18)), 'R11|G1;G10|I12'),      # 48 -> 16
    (','.join('%x' % i for i in range(1, 49)), 'I31|G1;G30|R5'),       # 48 -> 256
    (','.join('%x' % i for i in range(1, 50)), 'R31|G1;G30|I32'),      # 256 -> 48
]


def two_writer_programs(thorough):
    """writer A changes the inner node C (under root byte 01, own prefix byte 01) while writer B changes its parent P (the
    root) or splits C's prefix; a reader looks up a stable key of C and the key A inserts.  k = children of C, np = children
    of P: node full / at its minimum / in between, so that A and B perform add, grow, remove, collapse, prefix split"""
    out = []
    for k in (2, 3, 4):
        for np_ in (2, 4):
            ckeys = ['101%02x' % c for c in range(k)]
            pkeys = ['%x0000' % a for a in range(2, np_ + 1)]
            init = ','.join(ckeys + pkeys)
            a_ops = ['I101%02x' % k, 'R10100']
            b_ops = ['I70000', 'R20000', 'I10200']
            for ai, a in enumerate(a_ops):
                for bi, b in enumerate(b_ops):
                    if not thorough and (k + np_ + ai + bi) % 3 != 0:
                        continue
                    out.append((init, '%s|%s|G101%02x;G101%02x' % (a, b, k - 1, k)))
    return out


def programs(pid, tier):
    progs = list(POINT_PROGRAMS)
    if pid in ('C09',):
        progs = list(SCAN_PROGRAMS) + POINT_PROGRAMS[:3]
    elif pid in ('C04', 'C14'):
        progs = POINT_PROGRAMS[:8] + SCAN_PROGRAMS[:4]
    if tier == 'thorough' or pid in ('C03', 'C04'):
        progs += GROW_PROGRAMS
    if pid in ('C03', 'C14', 'C04'):
        progs += two_writer_programs(tier == 'thorough')
    return progs


def scan_problems(block_lines):
    """C09: order, bounds, values, completeness for stable keys -- evaluated on one execution"""
    init = {}
    calls = []
    scans = []
    for l in block_lines:
        t = l.split(' ')
        if t[0] == 'J':
            init[int(t[1])] = int(t[2])
        elif t[0] == 'C':
            calls.append({'op': t[2], 'key': int(t[3]), 'val': int(t[4]), 'ok': t[5] == '1', 'inv': int(t[7]), 'ret': int(t[8])})
        elif t[0] == 'V':
            head, _, rest = l.partition(' :')
            h = head.split(' ')
            seen = [(int(x.split('=')[0]), int(x.split('=')[1].split('@')[0])) for x in rest.split()]
            scans.append({'inv': int(h[2]), 'ret': int(h[3]), 'kind': h[4], 'a': int(h[5]), 'b': int(h[6]), 'fwd': h[7] == 'f',
                          'halted': h[8] == 'h', 'seen': seen})
    probs = []
    touched = set(c['key'] for c in calls if c['op'] in 'IR')
    ever = set(init) | set(c['key'] for c in calls if c['op'] == 'I')
    for s in scans:
        if s['kind'] == 'S':
            fwd, inside = s['fwd'], (lambda k: True)
        elif s['kind'] == 'F':
            fwd = s['fwd']
            inside = (lambda k, a=s['a'], f=fwd: k >= a if f else k <= a)
        else:
            a, b = s['a'], s['b']
            if a == b:
                fwd, inside = True, (lambda k: False)
            elif a < b:
                fwd, inside = True, (lambda k, a=a, b=b: a <= k < b)
            else:
                fwd, inside = False, (lambda k, a=a, b=b: b < k <= a)
        keys = [k for k, _ in s['seen']]
        for x, y in zip(keys, keys[1:]):
            if (fwd and not x < y) or (not fwd and not x > y):
                probs.append('scan delivered keys out of order: %x then %x' % (x, y))
                break
        for k, v in s['seen']:
            if not inside(k):
                probs.append('scan delivered key %x outside the requested interval' % k)
            if k not in ever:
                probs.append('scan delivered key %x which was never present' % k)
            else:
                ok_vals = set()
                if k in init:
                    ok_vals.add(init[k])
                for c in calls:
                    if c['op'] == 'I' and c['key'] == k and c['inv'] < s['ret']:
                        ok_vals.add(c['val'])
                if v not in ok_vals:
                    probs.append('scan delivered key %x with a value it never held' % k)
        for k in init:
            if s['halted']:
                # only up to the point where the visitor halted the scan
                last = keys[-1] if keys else None
                if last is None or (fwd and k > last) or (not fwd and k < last):
                    continue
            if k not in touched and inside(k) and keys.count(k) != 1:
                probs.append('key %x, present for the whole scan and inside the interval, was delivered %d times' % (k, keys.count(k)))
    return probs


_LEAF = None


def snapshot_check(out, art_run):
    """C03, writers vs the sequential model on concurrent executions.  olc_sched --snap prints the canonical dump of the whole
    tree ('SNAP <clock> <dump>') for the initial tree and for every moment of the execution at which no thread holds a write
    guard.  Per execution (block of `out`): (a) the entries (key -> value) of every snapshot; (b) its shape must be the shape
    the extracted sequential model (ocaml/art_run, the driver of p_art) builds for exactly those entries - by C10_canonical /
    C10g_canonical the shape of a well-formed tree is a function of its entries, so any insertion order serves; (c) from one
    snapshot to the next the entries change only by keys that an operation in flight between the two moments inserts /
    removes and that eventually returns true, every operation accounting for at most one change (an insert also for the
    value).  Returns {'snapshots', 'moments', 'shapes': set, 'incomplete', 'problems': {block index: [text]}}"""
    global _LEAF
    import re
    if _LEAF is None:
        _LEAF = re.compile(r'L([0-9a-f]+|-)=([0-9a-f]+|-)')
    blocks = out.split('\nY\n')
    per_block = []
    entries_of = {}     # canonical dump -> tuple of (key hex, value hex) in dump order, or None
    for blk in blocks:
        init, calls, snaps, stat = {}, [], [], None
        for l in blk.split('\n'):
            if l.startswith('SNAP '):
                t = l.split(' ', 2)
                snaps.append((int(t[1]), t[2] if len(t) > 2 else ''))
                if snaps[-1][1] not in entries_of:
                    c = snaps[-1][1]
                    entries_of[c] = None if (c.startswith('UNPARSABLE') or c == '') else tuple(_LEAF.findall(c))
            elif l.startswith('J '):
                t = l.split(' ')
                init[int(t[1])] = int(t[2])
            elif l.startswith('C '):
                t = l.split(' ')
                calls.append({'op': t[2], 'key': int(t[3]), 'val': int(t[4]), 'ok': t[5] == '1', 'inv': int(t[7]), 'ret': int(t[8]),
                              'used': False})
            elif l.startswith('SNAPSTAT '):
                stat = dict(x.split('=') for x in l.split(' ')[1:])
        per_block.append((init, calls, snaps, stat))
    # (b) the model's shape for every distinct entry set
    sets = sorted(set(tuple(sorted(e)) for e in entries_of.values() if e is not None))
    lines = []
    for es in sets:
        lines.append('N')
        lines += ['I %s %s' % kv for kv in es]
        lines.append('D')
    expected = {}
    model_err = None
    if sets:
        rc, mo, me = sh([art_run], input='\n'.join(lines) + '\n', timeout=600)
        mo = mo.splitlines()
        if rc != 0 or len(mo) != len(lines):
            model_err = 'the model driver failed on the snapshot entry sets (rc=%s, %d of %d lines): %s' % (rc, len(mo), len(lines), (me or '')[-200:])
        else:
            at = 0
            for es in sets:
                n = len(es) + 2
                seg = mo[at:at + n]
                at += n
                # every insert of the model must succeed (distinct keys inside the model's domain)
                expected[es] = seg[-1].split(' ')[0] if all(x.split(' ')[0] == '1' for x in seg[1:-1]) else None
    res = {'snapshots': 0, 'moments': 0, 'shapes': set(), 'incomplete': 0, 'problems': {}}
    for bi, (init, calls, snaps, stat) in enumerate(per_block):
        if stat is None:
            continue
        probs = []
        res['moments'] += int(stat.get('moments', 0))
        if stat.get('complete') != '1':
            res['incomplete'] += 1
        if model_err:
            probs.append(model_err)
        prev_t, prev = -1, dict(init)
        for n, (t, c) in enumerate(snaps):
            res['snapshots'] += 1
            res['shapes'].add(c)
            es = entries_of[c]
            if es is None:
                probs.append('the dump of the tree at clock %d cannot be parsed (%s)' % (t, c[:120]))
                break
            want = expected.get(tuple(sorted(es)))
            cur = {}
            for k, v in es:
                kk = int(k, 16) if k != '-' else -1
                if kk in cur:
                    probs.append('key %x is stored twice in the tree at clock %d' % (kk, t))
                cur[kk] = int.from_bytes(bytes.fromhex(v), 'little') if v != '-' else -1
            if not model_err and want != c:
                probs.append('the tree at clock %d (no write guard held) does not have the shape the sequential model gives for its %d '
                             'entries: implementation %s / model %s' % (t, len(es), c[:400], str(want)[:400]))
            # (c) changes since the previous writer-quiescent moment (the set-up tree first: it must be the J entries)
            gone = [k for k in prev if k not in cur or cur[k] != prev[k]]
            come = [k for k in cur if k not in prev or cur[k] != prev[k]]
            if n == 0 and (gone or come):
                probs.append('the initial snapshot does not contain exactly the initial entries (missing %s, unexpected %s)'
                             % (['%x' % k for k in gone], ['%x' % k for k in come]))
            elif n > 0:
                flying = [o for o in calls if o['ok'] and not o['used'] and o['inv'] < t and o['ret'] > prev_t]
                for k in gone:
                    cand = sorted((o for o in flying if o['op'] == 'R' and o['key'] == k and not o['used']), key=lambda o: o['ret'])
                    if cand:
                        cand[0]['used'] = True
                    else:
                        probs.append('key %x left the tree between clock %d and clock %d although no remove of it that returned true was in '
                                     'flight in that interval (or each such remove already accounts for another change)' % (k, prev_t, t))
                for k in come:
                    cand = [o for o in flying if o['op'] == 'I' and o['key'] == k and o['val'] == cur[k] and not o['used']]
                    if cand:
                        cand[0]['used'] = True
                    else:
                        probs.append('entry %x -> %x entered the tree between clock %d and clock %d although no insert of it that returned '
                                     'true was in flight in that interval (or it already accounts for another change)' % (k, cur[k], prev_t, t))
            prev_t, prev = t, cur
        if probs:
            res['problems'][bi] = probs
    return res


def c10_concurrent(res, tier):
    """C10 for the OLC index after concurrent phases (called by p_art): explore writer-heavy programs and collect
    the 'C10:' problems olc_sched reports once all threads have quiesced"""
    srcs = [os.path.join(VERIF, 'harness', 'olc_sched.cpp')] + [os.path.join(REPO, f) for f in ('qsbr.cpp', 'qsbr_ptr.cpp', 'art_internal.cpp')]
    with Lock():
        b, berr = build_cxx('olc_sched', srcs, HOOK_FLAGS)
    if berr:
        res.violation('cannot build the exploration: ' + berr[-600:], {'kind': 'build'}, found_input=False)
        return
    thorough = tier == 'thorough'
    progs = [POINT_PROGRAMS[0], POINT_PROGRAMS[3], POINT_PROGRAMS[5], POINT_PROGRAMS[7], POINT_PROGRAMS[8], POINT_PROGRAMS[9]] + GROW_PROGRAMS + [
        ('1,2,3,4', 'I5|I6|I7'),                                                     # racing inserts into a full node: one growth
        (','.join('%x' % i for i in range(1, 17)), 'I11|I12|I13'),
        ('1,2,3,4,5', 'R1|R2|R3'),                                                   # racing removes at the minimum size: one shrink
    ]
    from concurrent.futures import ThreadPoolExecutor

    def run(job):
        i, (init, prog) = job
        big = init.count(',') >= 30
        mx = 6000 if thorough else 800
        rnd = 1000 if thorough else 100
        return job, sh([os.path.join(BIN, 'olc_sched'), '--init', init, '--prog', prog, '--bound', '2' if thorough else '1', '--max',
                        str(mx // 8 if big else mx), '--random', str(rnd // 6 if big else rnd), '--seed', str(seed() + i), '--qs', 'every',
                        '--sample', '0'], timeout=3000 if thorough else 600)
    with ThreadPoolExecutor(max_workers=8) as ex:
        outs = list(ex.map(run, list(enumerate(progs))))
    execs = nbad = 0
    for (i, (init, prog)), (rc, o, e) in outs:
        if rc != 0:
            res.violation('olc_sched failed (rc=%d) on init {%s} program %s: %s' % (rc, init, prog, (e or o)[-300:]),
                          {'kind': 'crash', 'init': init, 'program': prog})
            continue
        for blk in o.split('\nY\n'):
            lines = blk.splitlines()
            xs = [l for l in lines if l.startswith('X')]
            if not xs:
                continue
            execs += 1
            probs = [l[2:] for l in lines if l.startswith('P C10:')]
            if probs:
                nbad += 1
                if nbad <= 3:
                    res.violation('C10 violated on the OLC index after a concurrent phase (init {%s}, program %s): %s' % (init, prog, probs[0]),
                                  {'kind': 'property-on-implementation', 'init': init, 'program': prog, 'qs': 'every',
                                   'schedule': xs[0][2:].replace(' ', ','), 'problems': probs})
    res.coverage['olc_concurrent_executions_checked'] = execs
    if execs < len(progs) * 5:
        res.violation('the concurrent C10 exploration is vacuous (%d executions)' % execs, {'kind': 'correspondence', 'broken': 'olc_sched'},
                      found_input=False)


def check(pid, tier, replay=None):
    res = Result(pid, tier)
    res.assumptions = [
        'sequential consistency: every atomic access of the lock words, protected fields and QSBR words is one indivisible step',
        'the end-to-end statement (every interleaving of the tree algorithms is linearizable / memory safe / deadlock free) is NOT a Coq '
        'theorem: it is decided on the implementation for the explored schedules (all schedules with at most one preemption per program, '
        'random schedules beyond); closed theorems: lock layer, per-node acceptor, verified validators, abstract scan theorem',
        'hook placement covers every in_critical_section / optimistic_lock / QSBR word access (leaf key/value bytes are plain memory)',
    ]
    have = os.path.exists(os.path.join(COQ, PROPS[pid]))
    if have:
        extra = {'C09': ['Properties/Properties_C09b.v', 'Properties/Properties_C09c.v', 'Properties/Properties_C09d.v'], 'C03': ['Properties/Properties_C03b.v', 'Properties/Properties_C03c.v', 'Properties/Properties_C03d.v', 'Properties/Properties_C03e.v', 'Properties/Properties_C03f.v', 'Properties/Properties_C03s.v'],
                 'C14': ['Properties/Properties_C14c.v', 'Properties/Properties_C14d.v'], 'C04': ['Properties/Properties_C04b.v']}
        proof_stage(res, ['lock'], [PROPS[pid]] + extra.get(pid, []), pid)
    else:
        res.proof_ok, res.broken, res.proof_log = True, [], ''
    res.coverage['trusted_base'] = TRUSTED_COMMON + [
        'hooks in /repo (UNODB_DETAIL_VERIF_HOOKS), harness/dsched.hpp, harness/olc_sched.cpp (ghost analyses of the event log)',
        'extraction: ExtrOcamlBasic only; ocaml/lin_run.ml (untrusted search + verified lin_ok), ocaml/olc_replay.ml (extracted per-node acceptor)',
        'Python scan checker and snapshot checker (entries, in-flight accounting) in tools/p_olc.py; harness/canon_dump.hpp',
    ]
    srcs = [os.path.join(VERIF, 'harness', 'olc_sched.cpp')] + [os.path.join(REPO, f) for f in ('qsbr.cpp', 'qsbr_ptr.cpp', 'art_internal.cpp')]
    with Lock():
        err = extract_and_build_ocaml(['lin_run', 'olc_replay'] + (['art_run'] if pid == 'C03' else []))
        b, berr = build_cxx('olc_sched', srcs, HOOK_FLAGS)
    if err or berr:
        res.violation('cannot build the exploration: ' + (err or berr)[-800:], {'kind': 'build'}, found_input=False)
        return res.finish()
    if replay:
        rp = json.load(open(replay))
        rc, o, e = sh([os.path.join(BIN, 'olc_sched'), '--init', rp['init'], '--prog', rp['program'], '--replay', rp['schedule'],
                       '--qs', rp.get('qs', 'every')] + SNAP_ARGS.get(pid, []), timeout=300)
        print('\n'.join(l for l in o.splitlines() if not l.startswith('E ')))
        if pid in SNAP_ARGS:
            for ps in snapshot_check(o, os.path.join(OCAML, 'art_run'))['problems'].values():
                print('\n'.join('SNAPSHOT ' + p for p in ps))
        o = '\n'.join(l for l in o.split('\n') if not l.startswith('SNAP'))
        rc, o2, e = sh([os.path.join(OCAML, 'lin_run')], input=o, timeout=120)
        print(o2)
        return 0
    thorough = tier == 'thorough'
    progs = programs(pid, tier)
    jobs = []
    for i, (init, prog) in enumerate(progs):
        for qs in (('every', 'end') if (thorough or i % 3 == 0) else ('every',)):
            jobs.append((i, init, prog, qs))
    maxe = 6000 if thorough else 1200
    nrand = 1000 if thorough else 120
    bound = 2 if thorough else 1
    sample = 2 if thorough else 4
    from concurrent.futures import ThreadPoolExecutor
    snapres = {}

    def run(job):
        i, init, prog, qs = job
        # big initial trees (node classes 48 / 256): every execution is long, so fewer of them and sparser trace sampling
        big = init.count(',') >= 30
        rc, o, e = sh([os.path.join(BIN, 'olc_sched'), '--init', init, '--prog', prog, '--bound', str(bound),
                       '--max', str(maxe // 8 if big else maxe), '--random', str(nrand // 6 if big else nrand), '--seed', str(seed() + i),
                       '--qs', qs, '--sample', str(sample * 16 if big else sample)] + SNAP_ARGS.get(pid, []),
                      timeout=3400 if thorough else 900)
        if rc != 0:
            return job, rc, o, e, '', ''
        if pid in SNAP_ARGS:
            # writer-quiescent snapshots against the sequential model; the SNAP lines are not for the two validators
            snapres[job] = snapshot_check(o, os.path.join(OCAML, 'art_run'))
            o = '\n'.join(l for l in o.split('\n') if not l.startswith('SNAP'))
        rc2, lin, e2 = sh([os.path.join(OCAML, 'lin_run')], input=o, timeout=1800)
        rc3, rep, e3 = sh([os.path.join(OCAML, 'olc_replay')], input=o, timeout=1800)
        # the event lines have been consumed by the two validators; keep only the history / problem lines
        o = '\n'.join(l for l in o.split('\n') if not l.startswith('E '))
        return job, rc, o, e, lin, rep
    with ThreadPoolExecutor(max_workers=8) as ex:
        outs = list(ex.map(run, jobs))
    total = nbad = traces = rejected = events = nscan_checked = proto_ops = proto_bad = 0
    scan_chain_bad = []
    natomic = {}
    distinct = set()
    samples = []
    nproto = 0
    nsnap = nmoments = snap_incomplete = 0
    snap_shapes = set()
    mine = {'C03': ('C03:',), 'C04': ('C04:',), 'C09': (), 'C14': ('C14:',)}[pid]
    for (i, init, prog, qs), rc, o, e, lin, rep in outs:
        if rc != 0:
            # a crash / assertion / timeout of the exploration itself: every OLC property is affected
            res.violation('olc_sched failed (rc=%d) on init {%s} program %s (qs=%s): %s' % (rc, init, prog, qs, (e or o)[-300:]),
                          {'kind': 'crash', 'init': init, 'program': prog, 'qs': qs})
            continue
        blocks = o.split('\nY\n')
        sn = snapres.get((i, init, prog, qs))
        if sn:
            nsnap += sn['snapshots']
            nmoments += sn['moments']
            snap_shapes |= sn['shapes']
            snap_incomplete += sn['incomplete']
        verdicts = [l for l in lin.splitlines() if l == 'ok' or l.startswith('NONLIN') or l == 'TOOLONG']
        # per execution: 'SCAN ...' follows the point verdict when the execution contains scans
        scan_verdicts = {}
        vi = -1
        for l in lin.splitlines():
            if l == 'ok' or l.startswith('NONLIN') or l == 'TOOLONG':
                vi += 1
            elif l.startswith('SCAN '):
                scan_verdicts[vi] = l[5:]
            elif l.startswith('ATOMIC '):
                natomic[l[7:]] = natomic.get(l[7:], 0) + 1
        for l in rep.splitlines():
            if l.startswith('T traces='):
                traces += int(l.split('traces=')[1].split()[0])
                rejected += int(l.split('rejected=')[1].split()[0])
                events += int(l.split('events=')[1].split()[0])
                if 'protocol_ops=' in l:
                    proto_ops += int(l.split('protocol_ops=')[1].split()[0])
                    proto_bad += int(l.split('protocol_bad=')[1].split()[0])
        proto_all = [l for l in rep.splitlines() if l.startswith('PROTO')]
        is_scan_line = lambda l: (l.split(' op ')[1][:1] not in 'GIR') if ' op ' in l else False
        # C04: an unvalidated read or a pointer followed before its source node was validated is exactly how freed memory gets touched
        proto_lines = [l for l in proto_all if is_scan_line(l) == (pid == 'C09')] if pid in ('C03', 'C09') else (proto_all if pid == 'C04' else [])
        if proto_lines and nproto < 2:
            nproto += 1
            res.violation('an operation of the implementation does not follow the optimistic read protocol the C03 / C04b / C09 theorems assume (%s) on init '
                          '{%s} program %s; no non-linearizable history was needed to see it' % (proto_lines[0][6:], init, prog),
                          {'kind': 'correspondence', 'init': init, 'program': prog, 'qs': qs,
                           'broken': 'Olc/Protocol.op_ok on the trace of the operation (hypotheses of C03_reader_linearizable)',
                           'lines': proto_lines[:5]}, found_input=False)
        rej_lines = [l for l in rep.splitlines() if l.startswith('REJECT')]
        if rej_lines and pid in ('C03', 'C14') and nbad < 3:
            which = [l for l in rej_lines if ('waits' in l) == (pid == 'C14')]
            if which:
                nbad += 1
                res.violation('the extracted acceptor rejects a trace of the implementation (%s) on init {%s} program %s' % (which[0], init, prog),
                              {'kind': 'correspondence', 'init': init, 'program': prog, 'qs': qs,
                               'broken': 'trace validation olc_sched vs OlcTrace/LockModel'}, found_input=False)
        for bi, blk in enumerate(blocks):
            lines = blk.splitlines()
            xs = [l for l in lines if l.startswith('X')]
            if not xs:
                continue
            total += 1
            sched = xs[0][2:].replace(' ', ',')
            body = [l for l in lines if l[:2] in ('C ', 'V ')]
            distinct.add(hash(tuple(body)))
            probs = [l[2:] for l in lines if l.startswith('P ') and l[2:].startswith(mine)] if mine else []
            if pid == 'C03' and bi < len(verdicts) and verdicts[bi].startswith('NONLIN'):
                probs.append('the recorded history is not linearizable (%s)' % verdicts[bi])
            if sn and bi in sn['problems']:
                probs += ['writers vs sequential model: ' + x for x in sn['problems'][bi]]
            if pid == 'C09':
                probs += scan_problems(lines)
                sv = scan_verdicts.get(bi)
                if sv is not None:
                    nscan_checked += 1
                    if sv.startswith('NONLIN'):
                        scan_chain_bad.append((init, prog, qs, sched, body))
            if probs:
                nbad += 1
                if nbad <= 3:
                    res.violation('%s violated on the implementation (init {%s}, program %s, qs=%s): %s' % (pid, init, prog, qs, probs[0]),
                                  {'kind': 'property-on-implementation', 'init': init, 'program': prog, 'qs': qs, 'schedule': sched,
                                   'history': body, 'problems': probs})
            if len(samples) < 2 and bi == 5:
                samples.append({'init': init, 'program': prog, 'schedule': sched[:200], 'history': body})
    if pid == 'C14':
        # allocation-failure points on the OLC index: an operation that throws must leave no lock behind, so its
        # retry (same path) and the following operations terminate
        import p_fault
        fsrcs = [os.path.join(VERIF, 'harness', 'fault_enum.cpp')] + [os.path.join(REPO, f) for f in ('qsbr.cpp', 'qsbr_ptr.cpp', 'art_internal.cpp', 'test_heap.cpp')]
        with Lock():
            fb, ferr = build_cxx('fault_enum', fsrcs, p_fault.DBG_HOOKS)
        nfault = 0
        if ferr:
            res.violation('cannot build the fault enumeration: ' + ferr[-500:], {'kind': 'build'}, found_input=False)
        else:
            for kind in ('u64', 'bytes'):
                hs = p_fault.histories(tier, kind)[:(40 if thorough else 8)]
                for tag, ops in hs:
                    rc, a, e = sh([os.path.join(BIN, 'fault_enum'), 'olc', kind], input='\n'.join(ops) + '\n', timeout=120)
                    nfault += sum(int(l.split(' a=')[1].split()[0]) for l in a.splitlines() if ' a=' in l)
                    if rc != 0 or len(a.splitlines()) != len(ops):
                        res.violation('C14 violated on the implementation: after an allocation failure on olc_db/%s (history %s) the run did not '
                                      'complete (rc=%s, %d of %d operations): a lock was left held or an assertion failed: %s'
                                      % (kind, tag, rc, len(a.splitlines()), len(ops), (e or '')[-200:]),
                                      {'kind': 'property-on-implementation', 'class': 'olc', 'kind_': kind, 'ops': ops[:len(a.splitlines()) + 1]})
                        break
        res.coverage['olc_fault_points_followed_by_retry'] = nfault
    if pid == 'C09' and scan_chain_bad and not res.violations:
        # the tie between the abstract scan theorem and the iterator is broken (a scan that is not a chain of atomic
        # successor queries) although none of the property's clauses was seen to fail on the explored executions
        init, prog, qs, sched, body = scan_chain_bad[0]
        res.violation('a scan of the implementation is not a chain of interval successor queries (Olc/IterModel.wquery: the guarantee proved for '
                      'the iterator and the hypothesis of the C09c theorems) in %d executions, first on init {%s} program %s'
                      % (len(scan_chain_bad), init, prog),
                      {'kind': 'correspondence', 'init': init, 'program': prog, 'qs': qs, 'schedule': sched, 'history': body,
                       'broken': 'scan_fwd correspondence (lin_run SCAN verdict)'}, found_input=False)
    if pid == 'C09' and nscan_checked == 0:
        res.violation('no scan was validated against the successor-query chain', {'kind': 'correspondence', 'broken': 'lin_run SCAN'},
                      found_input=False)
    if pid in SNAP_ARGS:
        res.coverage.update({'snapshots_checked': nsnap, 'distinct_snapshot_shapes': len(snap_shapes),
                             'writer_quiescent_moments': nmoments, 'executions_with_snapshots_cut_short': snap_incomplete})
        if nsnap < 2 * total or len(snap_shapes) < len(jobs) // 2:
            res.violation('the snapshot check is vacuous (%d snapshots, %d shapes over %d executions): olc_sched --snap does not work'
                          % (nsnap, len(snap_shapes), total), {'kind': 'correspondence', 'broken': 'olc_sched --snap / hooks'}, found_input=False)
    if total < len(jobs) * 5 or (traces == 0):
        res.violation('the exploration is vacuous (%d executions, %d traces validated): hooks or scheduler do not work' % (total, traces),
                      {'kind': 'correspondence', 'broken': 'olc_sched / hooks'}, found_input=False)
    if not res.proof_ok and not res.violations:
        res.violation('proof obligation no longer checks: ' + ' | '.join(res.broken)[:500],
                      {'kind': 'proof', 'broken': res.broken, 'log': res.proof_log[-1500:]}, found_input=False)
    elif not res.proof_ok:
        res.coverage['broken_obligations'] = res.broken
    res.coverage.update({
        'evaluations': total, 'distinct_nontrivial': len(distinct), 'programs': len(jobs),
        'traces_validated_against_impl': traces - rejected, 'events_replayed': events, 'rejected_traces': rejected,
        'operations_checked_by_protocol_acceptor': proto_ops, 'operations_rejected_by_protocol_acceptor': proto_bad,
        'preemption_bound': bound, 'property_failures_on_impl': nbad, 'scans_validated_as_query_chains': nscan_checked,
        'scans_not_query_chains': len(scan_chain_bad),
        'scans_that_are_even_atomic_chains': natomic.get('yes', 0), 'scans_valid_but_not_atomic': natomic.get('no', 0),
        'rule': 'programs of 2-3 QSBR threads (get / insert / remove / scan / scan_from / scan_range) on small initial trees chosen so that '
                'the writers perform leaf split, prefix split, growth and shrink between node classes, collapse with inode and leaf sibling, '
                'root replacement and root removal; quiescent states after every operation or only at thread end; all schedules with at most '
                '%d preemption(s) (cap %d per program) plus %d random schedules; every %d-th execution\'s event trace is replayed node by '
                'node through the extracted acceptor; distinct = distinct call/scan histories' % (bound, maxe, nrand, sample),
        'exhaustive': False,
    })
    res.coverage['samples'] = samples
    return res.finish()
