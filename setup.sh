#!/bin/sh
# One-time build after a fresh restore (offline): generated files from /repo's
# current headers, the whole Coq development (full .vo), extraction, OCaml drivers.
cd "$(dirname "$0")" || exit 2
mkdir -p build/bin build/ocaml evidence/replays coq/Gen
python3 tools/gen.py all || echo "setup: translator reported errors (checks will report them)"
cd coq || exit 2
coq_makefile -f _CoqProject -o Makefile || exit 1
timeout 3000 make -k -j16 > ../build/setup_coq.log 2>&1
rc=$?
tail -5 ../build/setup_coq.log
cd ..
python3 - <<'PY'
import sys
sys.path.insert(0, 'tools')
import vlib
err = vlib.extract_and_build_ocaml(['enc_run'])
print('ocaml:', err or 'ok')
PY
exit 0
