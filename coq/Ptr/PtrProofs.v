(** Proofs for M-PTR (C17): any balanced method table makes the wrappers act
    as raw pointers, and keeps the registry equal (as a multiset) to the
    non-null addresses of the live wrappers. *)
From Coq Require Import List String ZArith Bool Lia Permutation.
From Unodb Require Import Ptr.PtrShape Ptr.PtrModel.
Import ListNotations.
Local Open Scope string_scope.
Local Open Scope list_scope.
Local Open Scope Z_scope.

(** * Bodies forced by [balanced] *)

Lemma find_pm_In : forall tbl n b, find_pm tbl n = Some b -> In (n, b) tbl.
Proof.
  induction tbl as [|[m c] tbl IH]; intros n b H; cbn [find_pm] in H.
  - discriminate H.
  - destruct (String.eqb m n) eqn:E.
    + apply String.eqb_eq in E. injection H as H. subst. left. reflexivity.
    + right. apply IH. exact H.
Qed.

Lemma balanced_required : forall tbl n, balanced tbl = true -> In n required ->
  exists b, find_pm tbl n = Some b /\ method_balanced tbl (n, b) = true.
Proof.
  intros tbl n Hb Hin. unfold balanced in Hb. apply andb_true_iff in Hb. destruct Hb as [Hall Hreq].
  rewrite forallb_forall in Hall. rewrite forallb_forall in Hreq.
  specialize (Hreq n Hin). destruct (find_pm tbl n) as [b|] eqn:E; [|discriminate Hreq].
  exists b. split; [reflexivity|]. apply Hall. apply find_pm_In. exact E.
Qed.

Ltac inv_mb H :=
  repeat match type of H with
         | context [match ?x with _ => _ end] => is_var x; destruct x; cbn in H; try discriminate H
         end.

Ltac req_in := unfold required; cbn [In]; tauto.

Ltac body_of tbl Hb n :=
  let b := fresh "b" in let Hf := fresh "Hf" in let Hm := fresh "Hm" in
  destruct (balanced_required tbl n Hb ltac:(req_in)) as [b [Hf Hm]];
  rewrite Hf; f_equal; cbn in Hm; inv_mb Hm; try reflexivity.

Lemma body_ctor_ptr : forall tbl, balanced tbl = true -> find_pm tbl "ctor_ptr" = Some [PInit PArg; PReg].
Proof. intros tbl Hb. body_of tbl Hb "ctor_ptr". Qed.
Lemma body_ctor_copy : forall tbl, balanced tbl = true -> find_pm tbl "ctor_copy" = Some [PInit POther; PReg].
Proof. intros tbl Hb. body_of tbl Hb "ctor_copy". Qed.
Lemma body_ctor_move : forall tbl, balanced tbl = true -> find_pm tbl "ctor_move" = Some [PInit PExchangeOther].
Proof. intros tbl Hb. body_of tbl Hb "ctor_move". Qed.
Lemma body_dtor : forall tbl, balanced tbl = true -> find_pm tbl "dtor" = Some [PUnreg].
Proof. intros tbl Hb. body_of tbl Hb "dtor". Qed.
Lemma body_assign_copy : forall tbl, balanced tbl = true ->
  find_pm tbl "assign_copy" = Some [PSelfGuard; PUnreg; PSet POther; PReg; PRetSelf].
Proof. intros tbl Hb. body_of tbl Hb "assign_copy". Qed.
Lemma body_assign_move : forall tbl, balanced tbl = true ->
  find_pm tbl "assign_move" = Some [PUnreg; PSet PExchangeOther; PRetSelf].
Proof. intros tbl Hb. body_of tbl Hb "assign_move". Qed.
Lemma body_pre_inc : forall tbl, balanced tbl = true -> find_pm tbl "pre_inc" = Some [PUnreg; PSet PInc; PReg; PRetSelf].
Proof. intros tbl Hb. body_of tbl Hb "pre_inc". Qed.
Lemma body_pre_dec : forall tbl, balanced tbl = true -> find_pm tbl "pre_dec" = Some [PUnreg; PSet PDec; PReg; PRetSelf].
Proof. intros tbl Hb. body_of tbl Hb "pre_dec". Qed.
Lemma body_add_assign : forall tbl, balanced tbl = true -> find_pm tbl "add_assign" = Some [PUnreg; PSet PAddN; PReg; PRetSelf].
Proof. intros tbl Hb. body_of tbl Hb "add_assign". Qed.
Lemma body_sub_assign : forall tbl, balanced tbl = true -> find_pm tbl "sub_assign" = Some [PUnreg; PSet PSubN; PReg; PRetSelf].
Proof. intros tbl Hb. body_of tbl Hb "sub_assign". Qed.

Ltac body_of_m tbl Hb n :=
  let b := fresh "b" in let Hf := fresh "Hf" in let Hm := fresh "Hm" in
  destruct (balanced_required tbl n Hb ltac:(req_in)) as [b [Hf Hm]];
  rewrite Hf; f_equal; cbn in Hm; inv_mb Hm;
  rewrite ?orb_false_r, ?andb_true_l in Hm; cbn [orb andb] in Hm;
  apply String.eqb_eq in Hm; subst; reflexivity.

Lemma body_post_inc : forall tbl, balanced tbl = true ->
  find_pm tbl "post_inc" = Some [PCopyToResult; PCallSelf "pre_inc"; PRetResult].
Proof. intros tbl Hb. body_of_m tbl Hb "post_inc". Qed.
Lemma body_post_dec : forall tbl, balanced tbl = true ->
  find_pm tbl "post_dec" = Some [PCopyToResult; PCallSelf "pre_dec"; PRetResult].
Proof. intros tbl Hb. body_of_m tbl Hb "post_dec". Qed.
Lemma body_add : forall tbl, balanced tbl = true ->
  find_pm tbl "add" = Some [PCopyToResult; PCallResult "add_assign"; PRetResult].
Proof. intros tbl Hb. body_of_m tbl Hb "add". Qed.
Lemma body_sub : forall tbl, balanced tbl = true ->
  find_pm tbl "sub" = Some [PCopyToResult; PCallResult "sub_assign"; PRetResult].
Proof. intros tbl Hb. body_of_m tbl Hb "sub". Qed.

(** * List algebra *)

Lemma lookup_update_eq : forall l d x v, lookup d l = Some v -> lookup d (update d x l) = Some x.
Proof.
  induction l as [|[j w] l IH]; intros d x v H; cbn [lookup update] in *.
  - discriminate H.
  - destruct (Nat.eqb d j) eqn:E; cbn [lookup]; rewrite E.
    + reflexivity.
    + eapply IH. exact H.
Qed.

Lemma lookup_update_neq : forall l i j x, i <> j -> lookup i (update j x l) = lookup i l.
Proof.
  induction l as [|[k w] l IH]; intros i j x Hne; cbn [lookup update].
  - reflexivity.
  - destruct (Nat.eqb j k) eqn:E; cbn [lookup].
    + apply Nat.eqb_eq in E. subst k. apply Nat.eqb_neq in Hne. rewrite Hne. reflexivity.
    + destruct (Nat.eqb i k); [reflexivity|]. apply IH. exact Hne.
Qed.

Lemma remove_obj_update : forall l d x, remove_obj d (update d x l) = remove_obj d l.
Proof.
  induction l as [|[k w] l IH]; intros d x; cbn [remove_obj update].
  - reflexivity.
  - destruct (Nat.eqb d k) eqn:E; cbn [remove_obj]; rewrite E.
    + reflexivity.
    + rewrite IH. reflexivity.
Qed.

Definition consnz (v : Z) (r : list Z) : list Z := if v =? 0 then r else v :: r.
Definition unreg (v : Z) (r : list Z) : list Z := if v =? 0 then r else remove_one v r.
Definition lnn (l : list (oid * Z)) : list Z := filter (fun v => negb (v =? 0)) (map snd l).

Lemma lnn_cons : forall d v l, lnn ((d, v) :: l) = consnz v (lnn l).
Proof. intros d v l. unfold lnn, consnz. cbn [map snd filter]. destruct (v =? 0); reflexivity. Qed.

Lemma consnz_perm : forall v a b, Permutation a b -> Permutation (consnz v a) (consnz v b).
Proof. intros v a b H. unfold consnz. destruct (v =? 0); [exact H|]. apply perm_skip. exact H. Qed.

Lemma consnz_inv : forall v a b, Permutation (consnz v a) (consnz v b) -> Permutation a b.
Proof. intros v a b H. unfold consnz in H. destruct (v =? 0); [exact H|]. eapply Permutation_cons_inv. exact H. Qed.

Lemma consnz_swap : forall a b r, Permutation (consnz a (consnz b r)) (consnz b (consnz a r)).
Proof. intros a b r. unfold consnz. destruct (a =? 0); destruct (b =? 0); try reflexivity. apply perm_swap. Qed.

Lemma consnz_zero : forall r, consnz 0 r = r.
Proof. reflexivity. Qed.

Lemma lnn_split : forall l d v, lookup d l = Some v -> Permutation (lnn l) (consnz v (lnn (remove_obj d l))).
Proof.
  induction l as [|[j w] l IH]; intros d v H; cbn [lookup remove_obj] in *.
  - discriminate H.
  - destruct (Nat.eqb d j).
    + injection H as H. subst w. rewrite lnn_cons. reflexivity.
    + rewrite !lnn_cons. eapply perm_trans; [apply consnz_perm; apply IH; exact H|]. apply consnz_swap.
Qed.

Lemma lnn_update : forall l d x v, lookup d l = Some v ->
  Permutation (lnn (update d x l)) (consnz x (lnn (remove_obj d l))).
Proof.
  intros l d x v H. rewrite <- (remove_obj_update l d x). apply lnn_split. eapply lookup_update_eq. exact H.
Qed.

Lemma remove_one_in : forall v r, In v r -> Permutation r (v :: remove_one v r).
Proof.
  intros v r. induction r as [|a r IH]; intros Hin; cbn [remove_one].
  - destruct Hin.
  - destruct (v =? a) eqn:E.
    + apply Z.eqb_eq in E. subst a. reflexivity.
    + destruct Hin as [Ha|Hin].
      * subst a. rewrite Z.eqb_refl in E. discriminate E.
      * eapply perm_trans; [apply perm_skip; apply IH; exact Hin|]. apply perm_swap.
Qed.

Lemma unreg_perm : forall v r r', Permutation r (consnz v r') -> Permutation (unreg v r) r'.
Proof.
  intros v r r' H. unfold unreg, consnz in *. destruct (v =? 0); [exact H|].
  assert (Hin : In v r). { eapply Permutation_in; [apply Permutation_sym; exact H|]. left. reflexivity. }
  eapply Permutation_cons_inv. eapply perm_trans; [apply Permutation_sym; apply remove_one_in; exact Hin|]. exact H.
Qed.

Lemma unreg_consnz : forall v r, unreg v (consnz v r) = r.
Proof.
  intros v r. unfold unreg, consnz. destruct (v =? 0) eqn:E; [reflexivity|].
  cbn [remove_one]. rewrite Z.eqb_refl. reflexivity.
Qed.

(** * The closed form of one API step *)

Definition getv (i : oid) (l : list (oid * Z)) : Z := match lookup i l with Some x => x | None => 0 end.

Definition spec_step (s : pstate) (o : pop) : pstate :=
  let g i := getv i (vals s) in
  let mut d x := {| vals := update d x (vals s); reg := consnz x (unreg (g d) (reg s)) |} in
  match o with
  | OpCtorPtr d p => {| vals := (d, p) :: vals s; reg := consnz p (reg s) |}
  | OpCtorDefault d => {| vals := (d, 0) :: vals s; reg := reg s |}
  | OpCtorCopy d src => {| vals := (d, g src) :: vals s; reg := consnz (g src) (reg s) |}
  | OpCtorMove d src => {| vals := update src 0 ((d, g src) :: vals s); reg := reg s |}
  | OpAssignCopy d src => mut d (g src)
  | OpAssignMove d src => {| vals := update src 0 (update d (g src) (vals s)); reg := unreg (g d) (reg s) |}
  | OpPreInc d => mut d (g d + 1)
  | OpPreDec d => mut d (g d - 1)
  | OpPostInc d r => {| vals := update d (g d + 1) ((r, g d) :: vals s);
                        reg := consnz (g d + 1) (unreg (g d) (consnz (g d) (reg s))) |}
  | OpPostDec d r => {| vals := update d (g d - 1) ((r, g d) :: vals s);
                        reg := consnz (g d - 1) (unreg (g d) (consnz (g d) (reg s))) |}
  | OpAddAssign d n => mut d (g d + n)
  | OpSubAssign d n => mut d (g d - n)
  | OpAdd d r n => {| vals := (r, g d + n) :: vals s; reg := consnz (g d + n) (reg s) |}
  | OpSub d r n => {| vals := (r, g d - n) :: vals s; reg := consnz (g d - n) (reg s) |}
  | OpDtor d => {| vals := remove_obj d (vals s); reg := unreg (g d) (reg s) |}
  end.

Lemma spec_step_raw : forall s o, vals (spec_step s o) = raw_step (vals s) o.
Proof. intros s o. destruct o; reflexivity. Qed.

Lemma live_lookup : forall i s, live i s = true -> exists v, lookup i (vals s) = Some v.
Proof.
  intros i s H. unfold live, fresh in H. destruct (lookup i (vals s)) as [v|].
  - exists v. reflexivity.
  - discriminate H.
Qed.

Lemma fresh_lookup : forall i s, fresh i s = true -> lookup i (vals s) = None.
Proof. intros i s H. unfold fresh in H. destruct (lookup i (vals s)); [discriminate H|reflexivity]. Qed.

Lemma live_fresh_neq : forall i j s, live i s = true -> fresh j s = true -> i <> j.
Proof.
  intros i j s Hl Hf E. subst j. unfold live in Hl. rewrite Hf in Hl. discriminate Hl.
Qed.

Ltac go :=
  repeat first
    [ progress cbn [run vals reg eval lookup update]
    | rewrite Nat.eqb_refl
    | match goal with H : lookup _ _ = _ |- _ => rewrite H end
    | match goal with H : Nat.eqb _ _ = false |- _ => rewrite H end
    | match goal with H : lookup ?d ?l = Some _ |- context [lookup ?d (update ?d ?x ?l)] =>
        rewrite (lookup_update_eq l d x _ H) end
    | rewrite lookup_update_neq by assumption ].

Ltac fin := unfold spec_step, getv; go; try reflexivity.

Lemma negb_eqb_facts : forall d s : nat, negb (Nat.eqb d s) = true ->
  Nat.eqb d s = false /\ Nat.eqb s d = false /\ d <> s /\ s <> d.
Proof.
  intros d s H. apply negb_true_iff in H. pose proof H as H'. apply Nat.eqb_neq in H'.
  repeat split; try assumption.
  - apply Nat.eqb_neq. intro E. apply H'. symmetry. exact E.
  - intro E. apply H'. symmetry. exact E.
Qed.

Ltac prep :=
  repeat match goal with
         | H : _ && _ = true |- _ => apply andb_true_iff in H; destruct H
         | H : negb (Nat.eqb _ _) = true |- _ => apply negb_eqb_facts in H; destruct H as (?N1 & ?N2 & ?N3 & ?N4)
         | H : live ?i _ = true |- _ =>
             let v := fresh "v" in let Hl := fresh "Hl" in
             destruct (live_lookup _ _ H) as [v Hl]; cbn [vals] in Hl;
             repeat match goal with
                    | F : fresh ?j _ = true |- _ =>
                        lazymatch goal with
                        | _ : Nat.eqb i j = false |- _ => fail
                        | _ => let N := fresh "N" in
                               pose proof (live_fresh_neq _ _ _ H F) as N;
                               let N1 := fresh "N1" in let N2 := fresh "N2" in
                               assert (N1 : Nat.eqb i j = false) by (apply Nat.eqb_neq; exact N);
                               let N3 := fresh "N3" in
                               assert (N2 : Nat.eqb j i = false) by (apply Nat.eqb_neq; intro; apply N; symmetry; assumption);
                               assert (N3 : j <> i) by (intro; apply N; symmetry; assumption)
                        end
                    end;
             clear H
         end;
  repeat match goal with
         | H : fresh ?i _ = true |- _ => apply fresh_lookup in H; cbn [vals] in H
         end.

Lemma run_ctor_copy_body : forall tbl f r d arg vs rg dv,
  lookup r vs = None -> lookup d vs = Some dv ->
  run tbl (S (S (S f))) [PInit POther; PReg] r (Some d) arg r {| vals := vs; reg := rg |} =
  Some {| vals := (r, dv) :: vs; reg := consnz dv rg |}.
Proof. intros tbl f r d arg vs rg dv Hr Hd. go. reflexivity. Qed.

Lemma run_mut : forall tbl f e d arg res vs rg dv, lookup d vs = Some dv ->
  run tbl (S (S (S (S f)))) [PUnreg; PSet e; PReg; PRetSelf] d None arg res {| vals := vs; reg := rg |} =
  Some {| vals := update d (eval e dv 0 arg) vs; reg := consnz (eval e dv 0 arg) (unreg dv rg) |}.
Proof. intros tbl f e d arg res vs rg dv Hd. destruct e; go; reflexivity. Qed.

Lemma run_copy_to_result : forall tbl f cb b' self other arg res s s1,
  find_pm tbl "ctor_copy" = Some cb -> run tbl f cb res (Some self) 0 res s = Some s1 ->
  run tbl (S f) (PCopyToResult :: b') self other arg res s = run tbl f b' self other arg res s1.
Proof. intros tbl f cb b' self other arg res s s1 Hf Hr. cbn [run]. rewrite Hf, Hr. reflexivity. Qed.

Lemma run_call_self : forall tbl f m mb b' self other arg res s s1,
  find_pm tbl m = Some mb -> run tbl f mb self None arg res s = Some s1 ->
  run tbl (S f) (PCallSelf m :: b') self other arg res s = run tbl f b' self other arg res s1.
Proof. intros tbl f m mb b' self other arg res s s1 Hf Hr. cbn [run]. rewrite Hf, Hr. reflexivity. Qed.

Lemma run_call_result : forall tbl f m mb b' self other arg res s s1,
  find_pm tbl m = Some mb -> run tbl f mb res None arg res s = Some s1 ->
  run tbl (S f) (PCallResult m :: b') self other arg res s = run tbl f b' self other arg res s1.
Proof. intros tbl f m mb b' self other arg res s s1 Hf Hr. cbn [run]. rewrite Hf, Hr. reflexivity. Qed.

Ltac nested Hb bodyC :=
  erewrite run_copy_to_result;
    [| apply body_ctor_copy; exact Hb | apply run_ctor_copy_body; eassumption ];
  first [ erewrite run_call_self; [| apply bodyC; exact Hb | apply run_mut; go; reflexivity ]
        | erewrite run_call_result; [| apply bodyC; exact Hb | apply run_mut; go; reflexivity ] ];
  cbn [run eval]; unfold spec_step, getv; go.

Lemma pstep_spec : forall tbl s o, balanced tbl = true -> pop_ok s o = true ->
  pstep tbl s o = Some (spec_step s o).
Proof.
  intros tbl [vs rg] o Hb Hok.
  destruct o as [d p|d|d src|d src|d src|d src|d|d|d r|d r|d n|d n|d r n|d r n|d];
    cbn [pop_ok] in Hok; unfold pstep, call.
  - rewrite (body_ctor_ptr tbl Hb). prep. go. fin.
  - reflexivity.
  - rewrite (body_ctor_copy tbl Hb). prep. go. fin.
  - rewrite (body_ctor_move tbl Hb). prep. go. fin.
  - rewrite (body_assign_copy tbl Hb). prep. go. fin.
  - rewrite (body_assign_move tbl Hb). prep. go. fin.
  - rewrite (body_pre_inc tbl Hb). prep. go. fin.
  - rewrite (body_pre_dec tbl Hb). prep. go. fin.
  - rewrite (body_post_inc tbl Hb). prep. nested Hb body_pre_inc. reflexivity.
  - rewrite (body_post_dec tbl Hb). prep. nested Hb body_pre_dec. reflexivity.
  - rewrite (body_add_assign tbl Hb). prep. go. fin.
  - rewrite (body_sub_assign tbl Hb). prep. go. fin.
  - rewrite (body_add tbl Hb). prep. nested Hb body_add_assign. rewrite unreg_consnz. reflexivity.
  - rewrite (body_sub tbl Hb). prep. nested Hb body_sub_assign. rewrite unreg_consnz. reflexivity.
  - rewrite (body_dtor tbl Hb). prep. go. fin.
Qed.

(** * The registry invariant *)

Definition Inv (s : pstate) : Prop := Permutation (reg s) (lnn (vals s)).

Lemma inv_mut : forall vs rg d dv x, lookup d vs = Some dv -> Permutation rg (lnn vs) ->
  Permutation (consnz x (unreg dv rg)) (lnn (update d x vs)).
Proof.
  intros vs rg d dv x Hd HI.
  eapply perm_trans; [|apply Permutation_sym; eapply lnn_update; exact Hd].
  apply consnz_perm. apply unreg_perm.
  eapply perm_trans; [exact HI|]. apply lnn_split. exact Hd.
Qed.

Lemma inv_drop : forall vs rg d dv, lookup d vs = Some dv -> Permutation rg (lnn vs) ->
  Permutation (unreg dv rg) (lnn (remove_obj d vs)).
Proof.
  intros vs rg d dv Hd HI. apply unreg_perm.
  eapply perm_trans; [exact HI|]. apply lnn_split. exact Hd.
Qed.

Lemma inv_null : forall vs src sv, lookup src vs = Some sv ->
  Permutation (consnz sv (lnn (update src 0 vs))) (lnn vs).
Proof.
  intros vs src sv Hs. apply Permutation_sym.
  eapply perm_trans; [apply lnn_split; exact Hs|]. apply consnz_perm.
  apply Permutation_sym. eapply perm_trans; [eapply lnn_update; exact Hs|]. rewrite consnz_zero. reflexivity.
Qed.

Lemma spec_step_inv : forall s o, pop_ok s o = true -> Inv s -> Inv (spec_step s o).
Proof.
  intros [vs rg] o Hok HI. unfold Inv in *. cbn [vals reg] in HI.
  destruct o as [d p|d|d src|d src|d src|d src|d|d|d r|d r|d n|d n|d r n|d r n|d];
    cbn [pop_ok] in Hok; prep; unfold spec_step, getv; cbn [vals reg];
    repeat match goal with H : lookup _ _ = _ |- _ => rewrite H end.
  - rewrite lnn_cons. apply consnz_perm. exact HI.
  - rewrite lnn_cons. exact HI.
  - rewrite lnn_cons. apply consnz_perm. exact HI.
  - cbn [update]. rewrite N1. rewrite lnn_cons.
    eapply perm_trans; [exact HI|]. apply Permutation_sym. apply inv_null. assumption.
  - eapply inv_mut; eassumption.
  - (* assign_move *)
    match goal with Hd : lookup d vs = Some ?dv, Hs : lookup src vs = Some ?sv |- _ =>
      assert (Hs1 : lookup src (update d sv vs) = Some sv) by (rewrite lookup_update_neq by assumption; exact Hs);
      pose proof (inv_mut vs rg d dv sv Hd HI) as Hm;
      pose proof (inv_null _ _ _ Hs1) as Hn;
      pose proof (inv_drop vs rg d dv Hd HI) as Hdr;
      pose proof (lnn_update vs d sv dv Hd) as Hu
    end.
    eapply perm_trans; [exact Hdr|].
    eapply consnz_inv. eapply perm_trans; [apply Permutation_sym; exact Hu|]. apply Permutation_sym. exact Hn.
  - eapply inv_mut; eassumption.
  - eapply inv_mut; eassumption.
  - eapply inv_mut; [cbn [lookup]; rewrite N1; eassumption|]. rewrite lnn_cons. apply consnz_perm. exact HI.
  - eapply inv_mut; [cbn [lookup]; rewrite N1; eassumption|]. rewrite lnn_cons. apply consnz_perm. exact HI.
  - eapply inv_mut; eassumption.
  - eapply inv_mut; eassumption.
  - rewrite lnn_cons. apply consnz_perm. exact HI.
  - rewrite lnn_cons. apply consnz_perm. exact HI.
  - eapply inv_drop; eassumption.
Qed.

(** * Runs *)

Lemma prun_gen : forall tbl, balanced tbl = true -> forall ops s s', Inv s -> prun tbl s ops = Some s' ->
  Inv s' /\ vals s' = fold_left raw_step ops (vals s).
Proof.
  intros tbl Hb ops. induction ops as [|o ops IH]; intros s s' HI Hrun; cbn [prun fold_left] in *.
  - injection Hrun as Hrun. subst s'. split; [exact HI|reflexivity].
  - destruct (pop_ok s o) eqn:Hok; [|discriminate Hrun].
    rewrite (pstep_spec tbl s o Hb Hok) in Hrun.
    destruct (IH _ _ (spec_step_inv s o Hok HI) Hrun) as [HI' Hv].
    split; [exact HI'|]. rewrite Hv. rewrite spec_step_raw. reflexivity.
Qed.

Lemma inv_pinit : Inv pinit.
Proof. unfold Inv, pinit, lnn. cbn. apply perm_nil. Qed.

Theorem prun_raw : forall tbl ops, balanced tbl = true ->
  forall s, prun tbl pinit ops = Some s ->
  forall i, lookup i (vals s) = lookup i (fold_left raw_step ops []).
Proof.
  intros tbl ops Hb s Hrun i.
  destruct (prun_gen tbl Hb ops pinit s inv_pinit Hrun) as [_ Hv]. rewrite Hv. reflexivity.
Qed.

Theorem prun_registry : forall tbl ops s, balanced tbl = true ->
  prun tbl pinit ops = Some s -> Permutation (reg s) (live_nonnull s).
Proof.
  intros tbl ops s Hb Hrun.
  destruct (prun_gen tbl Hb ops pinit s inv_pinit Hrun) as [HI _]. exact HI.
Qed.

Theorem pstep_total : forall tbl ops s o, balanced tbl = true ->
  prun tbl pinit ops = Some s -> pop_ok s o = true -> exists s', pstep tbl s o = Some s'.
Proof.
  intros tbl ops s o Hb _ Hok. exists (spec_step s o). apply pstep_spec; assumption.
Qed.

Theorem verdict_exact : forall tbl ops s, balanced tbl = true ->
  prun tbl pinit ops = Some s -> (quiescent_allowed s = true <-> live_nonnull s = []).
Proof.
  intros tbl ops s Hb Hrun. pose proof (prun_registry tbl ops s Hb Hrun) as HP.
  unfold quiescent_allowed. split; intros H.
  - destruct (reg s) as [|a r]; [|discriminate H]. apply Permutation_nil. exact HP.
  - rewrite H in HP. apply Permutation_sym in HP. apply Permutation_nil in HP. rewrite HP. reflexivity.
Qed.
