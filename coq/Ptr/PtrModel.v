(** M-PTR: wrappers as (object id -> wrapped address, 0 = null) plus the
    per-thread registry of active pointers (a multiset of addresses), and an
    interpreter of the generated method table.  Definitions only. *)
From Coq Require Import List String ZArith Bool.
From Unodb Require Import Ptr.PtrShape.
Import ListNotations.
Local Open Scope string_scope.
Local Open Scope list_scope.
Local Open Scope Z_scope.

Definition oid := nat.

Record pstate := {
  vals : list (oid * Z);   (* live wrapper objects and their addresses *)
  reg : list Z             (* registry multiset (active_ptrs) *)
}.

Fixpoint lookup (i : oid) (l : list (oid * Z)) : option Z :=
  match l with [] => None | (j, v) :: l' => if Nat.eqb i j then Some v else lookup i l' end.
Fixpoint update (i : oid) (v : Z) (l : list (oid * Z)) : list (oid * Z) :=
  match l with [] => [] | (j, w) :: l' => if Nat.eqb i j then (j, v) :: l' else (j, w) :: update i v l' end.
Fixpoint remove_obj (i : oid) (l : list (oid * Z)) : list (oid * Z) :=
  match l with [] => [] | (j, w) :: l' => if Nat.eqb i j then l' else (j, w) :: remove_obj i l' end.
Fixpoint remove_one (x : Z) (l : list Z) : list Z :=
  match l with [] => [] | y :: l' => if x =? y then l' else y :: remove_one x l' end.

(** the API-level operations on wrappers *)
Inductive pop :=
| OpCtorPtr (d : oid) (p : Z) | OpCtorDefault (d : oid) | OpCtorCopy (d s : oid) | OpCtorMove (d s : oid)
| OpAssignCopy (d s : oid) | OpAssignMove (d s : oid)
| OpPreInc (d : oid) | OpPreDec (d : oid) | OpPostInc (d r : oid) | OpPostDec (d r : oid)
| OpAddAssign (d : oid) (n : Z) | OpSubAssign (d : oid) (n : Z) | OpAdd (d r : oid) (n : Z) | OpSub (d r : oid) (n : Z)
| OpDtor (d : oid).

(** element size 1 (std::byte): pointer arithmetic is integer arithmetic *)
Definition eval (e : pexpr) (self other : Z) (arg : Z) : Z :=
  match e with
  | PArg => arg | POther => other | PSelf => self | PExchangeOther => other
  | PInc => self + 1 | PDec => self - 1 | PAddN => self + arg | PSubN => self - arg
  end.

(** run a method body on object [self] (with [other] and [arg] where they apply).
    [res]: the id the temporary "result" object gets.  Returns None when the
    body leaves the statement language or an object is missing. *)
Fixpoint run (tbl : list (string * list pstmt)) (fuel : nat) (b : list pstmt)
         (self : oid) (other : option oid) (arg : Z) (res : oid) (s : pstate) : option pstate :=
  match fuel with
  | O => None
  | S fuel' =>
      match b with
      | [] => Some s
      | st :: b' =>
          match st with
          | PInit e | PSet e =>
              let sv := match lookup self (vals s) with Some v => v | None => 0 end in
              let ov := match other with Some o => match lookup o (vals s) with Some v => v | None => 0 end | None => 0 end in
              let v' := eval e sv ov arg in
              let vs := match st, lookup self (vals s) with
                        | PInit _, None => (self, v') :: vals s
                        | _, _ => update self v' (vals s)
                        end in
              let vs := match e, other with PExchangeOther, Some o => update o 0 vs | _, _ => vs end in
              run tbl fuel' b' self other arg res {| vals := vs; reg := reg s |}
          | PReg =>
              match lookup self (vals s) with
              | Some v => run tbl fuel' b' self other arg res {| vals := vals s; reg := if v =? 0 then reg s else v :: reg s |}
              | None => None
              end
          | PUnreg =>
              match lookup self (vals s) with
              | Some v => run tbl fuel' b' self other arg res {| vals := vals s; reg := if v =? 0 then reg s else remove_one v (reg s) |}
              | None => None
              end
          | PSelfGuard => match other with Some o => if Nat.eqb o self then Some s else run tbl fuel' b' self other arg res s | None => None end
          | PRetSelf | PRetResult | PRetPtr | PRetDeref | PRetIndex | PRetBin _ | PRetOtherPlusN => Some s
          | PCopyToResult =>
              match find_pm tbl "ctor_copy" with
              | Some cb => match run tbl fuel' cb res (Some self) 0 res s with
                           | Some s' => run tbl fuel' b' self other arg res s'
                           | None => None
                           end
              | None => None
              end
          | PCallSelf m =>
              match find_pm tbl m with
              | Some mb => match run tbl fuel' mb self None arg res s with
                           | Some s' => run tbl fuel' b' self other arg res s'
                           | None => None
                           end
              | None => None
              end
          | PCallResult m =>
              match find_pm tbl m with
              | Some mb => match run tbl fuel' mb res None arg res s with
                           | Some s' => run tbl fuel' b' self other arg res s'
                           | None => None
                           end
              | None => None
              end
          | POtherStmt _ => None
          end
      end
  end.

Definition call (tbl : list (string * list pstmt)) (name : string) (self : oid) (other : option oid) (arg : Z) (res : oid)
           (s : pstate) : option pstate :=
  match find_pm tbl name with
  | Some b => run tbl 12 b self other arg res s
  | None => None
  end.

(** an API operation through the generated table *)
Definition pstep (tbl : list (string * list pstmt)) (s : pstate) (o : pop) : option pstate :=
  match o with
  | OpCtorPtr d p => call tbl "ctor_ptr" d None p d s
  | OpCtorDefault d => Some {| vals := (d, 0) :: vals s; reg := reg s |}
  | OpCtorCopy d src => call tbl "ctor_copy" d (Some src) 0 d s
  | OpCtorMove d src => call tbl "ctor_move" d (Some src) 0 d s
  | OpAssignCopy d src => call tbl "assign_copy" d (Some src) 0 d s
  | OpAssignMove d src => call tbl "assign_move" d (Some src) 0 d s
  | OpPreInc d => call tbl "pre_inc" d None 0 d s
  | OpPreDec d => call tbl "pre_dec" d None 0 d s
  | OpPostInc d r => call tbl "post_inc" d None 0 r s
  | OpPostDec d r => call tbl "post_dec" d None 0 r s
  | OpAddAssign d n => call tbl "add_assign" d None n d s
  | OpSubAssign d n => call tbl "sub_assign" d None n d s
  | OpAdd d r n => call tbl "add" d None n r s
  | OpSub d r n => call tbl "sub" d None n r s
  | OpDtor d =>
      match call tbl "dtor" d None 0 d s with
      | Some s' => Some {| vals := remove_obj d (vals s'); reg := reg s' |}
      | None => None
      end
  end.

(** the reference semantics: raw pointers, no registry *)
Definition raw_step (v : list (oid * Z)) (o : pop) : list (oid * Z) :=
  let g i := match lookup i v with Some x => x | None => 0 end in
  match o with
  | OpCtorPtr d p => (d, p) :: v
  | OpCtorDefault d => (d, 0) :: v
  | OpCtorCopy d s => (d, g s) :: v
  | OpCtorMove d s => update s 0 ((d, g s) :: v)
  | OpAssignCopy d s => update d (g s) v
  | OpAssignMove d s => update s 0 (update d (g s) v)
  | OpPreInc d => update d (g d + 1) v
  | OpPreDec d => update d (g d - 1) v
  | OpPostInc d r => update d (g d + 1) ((r, g d) :: v)
  | OpPostDec d r => update d (g d - 1) ((r, g d) :: v)
  | OpAddAssign d n => update d (g d + n) v
  | OpSubAssign d n => update d (g d - n) v
  | OpAdd d r n => (r, g d + n) :: v
  | OpSub d r n => (r, g d - n) :: v
  | OpDtor d => remove_obj d v
  end.

(** well-formedness of an operation in a state: fresh ids for created
    objects, existing ids for used ones, distinct source and destination *)
Definition fresh (i : oid) (s : pstate) : bool := match lookup i (vals s) with None => true | Some _ => false end.
Definition live (i : oid) (s : pstate) : bool := negb (fresh i s).
Definition pop_ok (s : pstate) (o : pop) : bool :=
  match o with
  | OpCtorPtr d _ | OpCtorDefault d => fresh d s
  | OpCtorCopy d src | OpCtorMove d src => fresh d s && live src s
  | OpAssignCopy d src | OpAssignMove d src => live d s && live src s && negb (Nat.eqb d src)
  | OpPreInc d | OpPreDec d | OpAddAssign d _ | OpSubAssign d _ | OpDtor d => live d s
  | OpPostInc d r | OpPostDec d r | OpAdd d r _ | OpSub d r _ => live d s && fresh r s
  end.

Fixpoint prun (tbl : list (string * list pstmt)) (s : pstate) (ops : list pop) : option pstate :=
  match ops with
  | [] => Some s
  | o :: ops' => if pop_ok s o then match pstep tbl s o with Some s' => prun tbl s' ops' | None => None end else None
  end.

Definition pinit : pstate := {| vals := []; reg := [] |}.

(** the non-null addresses of the live wrappers *)
Definition live_nonnull (s : pstate) : list Z := filter (fun v => negb (v =? 0)) (map snd (vals s)).

(** quiescent()/qsbr_pause()/qsbr_resume() assert active_ptrs.empty() *)
Definition quiescent_allowed (s : pstate) : bool := match reg s with [] => true | _ => false end.
