(** The statement language into which tools/shape2v.py abstracts the methods
    of unodb::qsbr_ptr (qsbr_ptr.hpp, assertion-enabled build), and the
    boolean shape predicates.  Definitions only. *)
From Coq Require Import List String Bool.
Import ListNotations.
Local Open Scope string_scope.
Local Open Scope list_scope.

(** new value of the wrapped pointer *)
Inductive pexpr :=
| PArg             (* the raw pointer argument *)
| POther           (* other.ptr *)
| PSelf
| PExchangeOther   (* std::exchange(other.ptr, nullptr) *)
| PInc | PDec | PAddN | PSubN.

Inductive pstmt :=
| PInit (e : pexpr)          (* member initialiser ptr{e} *)
| PSet (e : pexpr)           (* ptr = e / ++ptr / ptr += n ... *)
| PReg                       (* register_active_ptr(ptr) *)
| PUnreg                     (* unregister_active_ptr(ptr) *)
| PSelfGuard                 (* if (this == &other) return; *)
| PRetSelf                   (* return the object itself *)
| PCopyToResult              (* auto result = copy of this object *)
| PCallSelf (m : string)     (* pre-increment / pre-decrement of this object *)
| PCallResult (m : string)   (* result += n; *)
| PRetResult                 (* return result; *)
| PRetPtr | PRetDeref | PRetIndex | PRetBin (op : string) | PRetOtherPlusN
| POtherStmt (d : string).

Definition pexpr_eqb (a b : pexpr) : bool :=
  match a, b with
  | PArg, PArg | POther, POther | PSelf, PSelf | PExchangeOther, PExchangeOther
  | PInc, PInc | PDec, PDec | PAddN, PAddN | PSubN, PSubN => true
  | _, _ => false
  end.

Fixpoint find_pm (tbl : list (string * list pstmt)) (f : string) : option (list pstmt) :=
  match tbl with
  | [] => None
  | (n, b) :: tbl' => if String.eqb n f then Some b else find_pm tbl' f
  end.

(** in-place mutators: drop the old registration, change the address, take the new one *)
Definition shape_mutator (b : list pstmt) : option pexpr :=
  match b with
  | [PUnreg; PSet e; PReg; PRetSelf] =>
      match e with PInc | PDec | PAddN | PSubN => Some e | _ => None end
  | _ => None
  end.

Definition method_balanced (tbl : list (string * list pstmt)) (nb : string * list pstmt) : bool :=
  let '(n, b) := nb in
  match b with
  | [PInit PArg; PReg] => String.eqb n "ctor_ptr"
  | [PInit POther; PReg] => String.eqb n "ctor_copy"
  | [PInit PExchangeOther] => String.eqb n "ctor_move"
  | [PUnreg] => String.eqb n "dtor"
  | [PSelfGuard; PUnreg; PSet POther; PReg; PRetSelf] => String.eqb n "assign_copy"
  | [PUnreg; PSet PExchangeOther; PRetSelf] => String.eqb n "assign_move"
  | [PUnreg; PSet e; PReg; PRetSelf] =>
      (String.eqb n "pre_inc" && pexpr_eqb e PInc) || (String.eqb n "pre_dec" && pexpr_eqb e PDec) ||
      (String.eqb n "add_assign" && pexpr_eqb e PAddN) || (String.eqb n "sub_assign" && pexpr_eqb e PSubN)
  | [PCopyToResult; PCallSelf m; PRetResult] =>
      (String.eqb n "post_inc" && String.eqb m "pre_inc") || (String.eqb n "post_dec" && String.eqb m "pre_dec")
  | [PCopyToResult; PCallResult m; PRetResult] =>
      (String.eqb n "add" && String.eqb m "add_assign") || (String.eqb n "sub" && String.eqb m "sub_assign")
  | [PRetPtr] => String.eqb n "get" || String.eqb n "arrow"
  | [PRetDeref] => String.eqb n "deref"
  | [PRetIndex] => String.eqb n "index"
  | [PRetBin op] =>
      (String.eqb n "diff" && String.eqb op "-") || (String.eqb n "eq" && String.eqb op "==") ||
      (String.eqb n "le" && String.eqb op "<=") || (String.eqb n "ge" && String.eqb op ">=") ||
      (String.eqb n "lt" && String.eqb op "<") || (String.eqb n "gt" && String.eqb op ">")
  | _ => false
  end.

Definition required : list string :=
  ["ctor_ptr"; "ctor_copy"; "ctor_move"; "dtor"; "assign_copy"; "assign_move"; "pre_inc"; "post_inc"; "pre_dec"; "post_dec";
   "add_assign"; "add"; "sub_assign"; "sub"; "diff"; "eq"; "le"; "ge"; "lt"; "gt"; "get"; "deref"; "index"].

Definition balanced (tbl : list (string * list pstmt)) : bool :=
  forallb (method_balanced tbl) tbl &&
  forallb (fun n => match find_pm tbl n with Some _ => true | None => false end) required.
