(** C14 (progress accounting, one lock): in the optimistic-lock acceptor a
    thread is sent back (failed check / failed upgrade) or made to wait
    (read-lock on a write-locked word) only because of a write acquisition of
    the same lock: every failed validation of a section is charged to a
    successful upgrade that happened after the section was opened, and a
    waiting reader always faces a word that has a holder.  Conversely, while
    nobody acquires the lock the word is constant: every section opened in
    such a period validates, every upgrade of such a section succeeds, and no
    read-lock has to wait.  Proofs over Lock/LockModel.v. *)
From Coq Require Import List ZArith Lia Bool.
From Unodb Require Import Lock.LockModel Lock.LockProofs.
Import ListNotations.
Local Open Scope Z_scope.

Local Arguments Z.modulo : simpl never.
Local Arguments Z.div : simpl never.
Local Arguments Z.add : simpl never.

Definition is_upgrade_ok (e : event) : bool :=
  match e with EUpgrade _ _ true => true | _ => false end.

(** no successful write acquisition in m *)
Definition quiet (m : list event) : bool := forallb (fun e => negb (is_upgrade_ok e)) m.

Lemma lstep_quiet s e s' :
  LInv s -> guards s = [] -> is_upgrade_ok e = false -> lstep s e = Some s' ->
  lw s' = lw s /\ guards s' = [].
Proof.
  intros I G Q S. destruct (lstep_unguarded _ _ _ S G) as [->|[(t & v & -> & _)|O]]; [auto|discriminate|].
  (* word obsolete: final *)
  destruct (lstep_mono _ _ _ I S) as (A & _). destruct (A O) as (W & G'). rewrite W, G', O. auto.
Qed.

(** while nobody acquires the lock the word does not move and stays unguarded *)
Lemma quiet_constant m : forall s s',
  LInv s -> guards s = [] -> quiet m = true -> lrun s m = Some s' ->
  Forall (fun x => lw x = lw s /\ guards x = []) (lstates s m).
Proof.
  induction m as [|e m IH]; intros s s' I G Q R; cbn [lstates].
  - constructor; auto.
  - cbn [lrun] in R. destruct (lstep s e) as [s1|] eqn:S; [|discriminate].
    cbn [quiet forallb] in Q. apply andb_true_iff in Q as [Qe Q]. apply negb_true_iff in Qe.
    destruct (lstep_quiet _ _ _ I G Qe S) as (W & G1).
    constructor; [auto|].
    pose proof (IH s1 s' (lstep_inv _ _ _ I S) G1 Q R) as F.
    rewrite W in F. exact F.
Qed.

Lemma lstates_last s m s' : lrun s m = Some s' -> In s' (lstates s m).
Proof.
  revert s; induction m as [|e m IH]; intros s R; cbn in *.
  - injection R as <-. now left.
  - destruct (lstep s e) as [s1|]; [|discriminate]. right. now apply IH.
Qed.

Lemma quiet_end s m s' :
  LInv s -> guards s = [] -> quiet m = true -> lrun s m = Some s' -> lw s' = lw s /\ guards s' = [].
Proof.
  intros I G Q R. pose proof (quiet_constant m s s' I G Q R) as F.
  rewrite Forall_forall in F. apply F. now apply lstates_last.
Qed.

(** a section opened at a free word whose word has moved: somebody acquired
    the lock in between *)
Lemma moved_means_upgrade s0 m s2 :
  LInv s0 -> w_is_free (lw s0) = true -> lrun s0 m = Some s2 -> lw s2 <> lw s0 ->
  exists t' v', In (EUpgrade t' v' true) m.
Proof.
  intros I F R N. destruct (quiet m) eqn:Q.
  - exfalso. apply N. exact (proj1 (quiet_end _ _ _ I (free_inv _ I F) Q R)).
  - unfold quiet in Q. apply not_true_iff_false in Q. rewrite forallb_forall in Q.
    assert (E : exists e, In e m /\ is_upgrade_ok e = true).
    { clear -Q. induction m as [|e m IH].
      - exfalso. apply Q. intros x [].
      - destruct (is_upgrade_ok e) eqn:U; [exists e; split; [now left|exact U]|].
        destruct IH as (x & Hx & Ux).
        + intros H. apply Q. intros y [<-|Hy]; [now rewrite U|now apply H].
        + exists x. split; [now right|exact Ux]. }
    destruct E as (e & He & U). destruct e as [| | |t' v' [|]| | | |]; try discriminate. eauto.
Qed.

(** ** Every failed validation is charged to a write acquisition *)
Theorem failed_check_charged_gen sI p t v s0 m obs s2 :
  LInv sI -> lrun sI (p ++ [ERLock t v]) = Some s0 -> w_is_free v = true ->
  lrun s0 (m ++ [ECheck t v obs]) = Some s2 -> obs <> v ->
  exists t' v', In (EUpgrade t' v' true) m.
Proof.
  intros II P F R N. rewrite lrun_app in P. destruct (lrun sI p) as [sp|] eqn:Rp; [|discriminate].
  cbn [lrun lstep] in P. destruct (v =? lw sp) eqn:E; [|discriminate]. injection P as <-.
  apply Z.eqb_eq in E. pose proof (lrun_inv _ _ _ II Rp) as I.
  rewrite lrun_app in R. destruct (lrun sp m) as [s1|] eqn:Rm; [|discriminate].
  cbn [lrun lstep] in R. destruct (obs =? lw s1) eqn:E1; [|discriminate]. apply Z.eqb_eq in E1.
  apply (moved_means_upgrade sp m s1 I); [now rewrite <- E|exact Rm|congruence].
Qed.

Theorem failed_upgrade_charged_gen sI p t v s0 m s2 :
  LInv sI -> lrun sI (p ++ [ERLock t v]) = Some s0 -> w_is_free v = true ->
  lrun s0 (m ++ [EUpgrade t v false]) = Some s2 ->
  exists t' v', In (EUpgrade t' v' true) m.
Proof.
  intros II P F R. rewrite lrun_app in P. destruct (lrun sI p) as [sp|] eqn:Rp; [|discriminate].
  cbn [lrun lstep] in P. destruct (v =? lw sp) eqn:E; [|discriminate]. injection P as <-.
  apply Z.eqb_eq in E. pose proof (lrun_inv _ _ _ II Rp) as I.
  rewrite lrun_app in R. destruct (lrun sp m) as [s1|] eqn:Rm; [|discriminate].
  cbn [lrun lstep] in R. rewrite F in R. cbn [negb] in R.
  destruct (v =? lw s1) eqn:E1; cbn [Bool.eqb] in R; [discriminate|]. apply Z.eqb_neq in E1.
  apply (moved_means_upgrade sp m s1 I); [now rewrite <- E|exact Rm|congruence].
Qed.

Theorem failed_check_charged n p t v s0 m obs s2 :
  lrun (linit n) (p ++ [ERLock t v]) = Some s0 -> w_is_free v = true ->
  lrun s0 (m ++ [ECheck t v obs]) = Some s2 -> obs <> v ->
  exists t' v', In (EUpgrade t' v' true) m.
Proof. apply failed_check_charged_gen, linit_inv. Qed.

Theorem failed_upgrade_charged n p t v s0 m s2 :
  lrun (linit n) (p ++ [ERLock t v]) = Some s0 -> w_is_free v = true ->
  lrun s0 (m ++ [EUpgrade t v false]) = Some s2 ->
  exists t' v', In (EUpgrade t' v' true) m.
Proof. apply failed_upgrade_charged_gen, linit_inv. Qed.

(** a read-lock that has to wait faces a held lock: there is exactly one
    holder (the thread the reader waits for) *)
Theorem wait_has_holder n p s t obs :
  lrun (linit n) p = Some s -> lstep s (ERLock t obs) = Some s -> w_is_write_locked obs = true ->
  exists u, guards s = [u].
Proof.
  intros R S W. cbn [lstep] in S. destruct (obs =? lw s) eqn:E; [|discriminate]. apply Z.eqb_eq in E. subst obs.
  destruct (exclusive n p s R) as (L & (_ & B)). specialize (B W).
  destruct (guards s) as [|u [|u' g]]; [contradiction|eauto|cbn in L; lia].
Qed.

(** ** Nobody acquires the lock => nobody is sent back and nobody waits *)
(** m: a period without write acquisition, entered with no guard held.  Every
    read-lock in it observes the same non-locked word, every check of a
    section opened in it (or still valid at its start) succeeds, and an
    upgrade attempt would succeed (it is the only thing that ends the period) *)
Theorem quiet_period s m s' :
  LInv s -> guards s = [] -> quiet m = true -> lrun s m = Some s' ->
  (forall a t obs b, m = a ++ ERLock t obs :: b -> obs = lw s /\ w_is_write_locked obs = false) /\
  (forall a t v obs b, m = a ++ ECheck t v obs :: b -> obs = lw s) /\
  (forall a t v b, m = a ++ EUpgrade t v false :: b -> v <> lw s).
Proof.
  intros I G Q R.
  assert (K : forall a e b, m = a ++ e :: b -> exists sa, lrun s a = Some sa /\ lw sa = lw s /\ guards sa = [] /\
              exists sb, lstep sa e = Some sb).
  { intros a e b ->. rewrite lrun_app in R. destruct (lrun s a) as [sa|] eqn:Ra; [|discriminate].
    exists sa. split; [reflexivity|].
    assert (Qa : quiet a = true).
    { unfold quiet in *. rewrite forallb_app in Q. now apply andb_true_iff in Q as [Qa _]. }
    destruct (quiet_end _ _ _ I G Qa Ra) as (W & Ga). split; [exact W|split; [exact Ga|]].
    cbn [lrun] in R. destruct (lstep sa e) as [sb|]; [eauto|discriminate]. }
  split; [|split].
  - intros a t obs b E. destruct (K _ _ _ E) as (sa & Ra & W & Ga & sb & S).
    cbn [lstep] in S. destruct (obs =? lw sa) eqn:E1; [|discriminate]. apply Z.eqb_eq in E1.
    split; [congruence|]. subst obs.
    pose proof (lrun_inv _ _ _ I Ra) as Ia.
    destruct (w_is_write_locked (lw sa)) eqn:WL; [|reflexivity]. exfalso.
    destruct Ia as (_ & [(_ & [M|M])|(u & Gu & _)]).
    + unfold w_is_write_locked in WL. apply Z.eqb_eq in WL. lia.
    + unfold w_is_write_locked in WL. rewrite M in WL. cbn in WL. discriminate.
    + rewrite Gu in Ga. discriminate.
  - intros a t v obs b E. destruct (K _ _ _ E) as (sa & _ & W & _ & sb & S).
    cbn [lstep] in S. destruct (obs =? lw sa) eqn:E1; [|discriminate]. apply Z.eqb_eq in E1. congruence.
  - intros a t v b E. destruct (K _ _ _ E) as (sa & _ & W & _ & sb & S).
    cbn [lstep] in S. destruct (w_is_free v); cbn [negb] in S; [|discriminate].
    destruct (v =? lw sa) eqn:E1; cbn [Bool.eqb] in S; [discriminate|]. apply Z.eqb_neq in E1. congruence.
Qed.
