(** Bridges from the generated lock-word functions (coq/Gen/GenLockWord.v,
    regenerated from optimistic_lock.hpp on every run) to the model's word
    algebra. *)
From Coq Require Import ZArith Lia Bool.
From Unodb Require Import Base.BitsAux Lock.LockModel Gen.GenLockWord.
Local Open Scope Z_scope.

Ltac Zify.zify_post_hook ::= Z.div_mod_to_equations.

Definition word64 (v : Z) : Prop := 0 <= v < 2 ^ 64.

Theorem bridge_is_free v : word64 v -> lw_is_free v = w_is_free v.
Proof. intros _. unfold lw_is_free, w_is_free. now rewrite land_3. Qed.

Theorem bridge_is_write_locked v : word64 v -> lw_is_write_locked v = w_is_write_locked v.
Proof.
  intros [H _]. unfold lw_is_write_locked, w_is_write_locked. rewrite land_2 by exact H.
  assert (B : 0 <= (v / 2) mod 2 < 2) by (apply Z.mod_pos_bound; lia).
  destruct ((v / 2) mod 2 =? 1) eqn:E; destruct (2 * ((v / 2) mod 2) =? 0) eqn:E2; cbn; lia.
Qed.

Theorem bridge_is_obsolete v : lw_is_obsolete v = w_is_obsolete v.
Proof. reflexivity. Qed.

Theorem bridge_set_locked_bit v : word64 v -> v + 2 < 2 ^ 64 -> lw_set_locked_bit v = w_set_locked v.
Proof.
  unfold word64, lw_set_locked_bit, w_set_locked. change (2 ^ 64) with 18446744073709551616.
  intros H1 H2. apply Z.mod_small. lia.
Qed.

Theorem bridge_write_unlock v : word64 v -> v + 2 < 2 ^ 64 -> lw_write_unlock_word v = v + 2.
Proof.
  unfold word64, lw_write_unlock_word. change (2 ^ 64) with 18446744073709551616.
  intros H1 H2. cbv zeta. apply Z.mod_small. lia.
Qed.

Theorem bridge_obsolete_word : lw_obsolete_word = w_obsolete.
Proof. reflexivity. Qed.
