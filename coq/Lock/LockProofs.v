(** C07: proofs about the optimistic-lock acceptor. *)
From Coq Require Import List ZArith Lia Bool.
From Unodb Require Import Lock.LockModel.
Import ListNotations.
Local Open Scope Z_scope.

Ltac Zify.zify_post_hook ::= Z.div_mod_to_equations.
Local Arguments Nat.ltb : simpl never.
Local Arguments Nat.leb : simpl never.
Local Arguments Z.modulo : simpl never.
Local Arguments Z.div : simpl never.
Local Arguments Z.mul : simpl never.
Local Arguments Z.add : simpl never.

Definition LInv (s : lstate) : Prop :=
  0 <= lw s /\
  ((guards s = [] /\ (lw s mod 4 = 0 \/ lw s = 1)) \/ (exists t, guards s = [t] /\ lw s mod 4 = 2)).

Lemma linit_inv n : LInv (linit n).
Proof. unfold LInv, linit; cbn. split; [lia|left; split; [reflexivity|left; reflexivity]]. Qed.

Lemma holds_inv s t : LInv s -> holds s t = true -> guards s = [t] /\ lw s mod 4 = 2.
Proof.
  intros (_ & [(G & _)|(t' & G & M)]) H; unfold holds in H; rewrite G in H; cbn in H; [discriminate|].
  rewrite orb_false_r in H. apply Nat.eqb_eq in H. subst. auto.
Qed.

Lemma free_inv s : LInv s -> w_is_free (lw s) = true -> guards s = [].
Proof.
  unfold w_is_free. intros (_ & [(G & _)|(t' & G & M)]) H; [exact G|].
  apply Z.eqb_eq in H. lia.
Qed.

Lemma remove_tid_single t : remove_tid t [t] = [].
Proof. cbn. now rewrite Nat.eqb_refl. Qed.

Lemma lstep_inv s e s' : LInv s -> lstep s e = Some s' -> LInv s'.
Proof.
  intros I H. destruct e as [t obs|t|t v obs|t v ok|t neww|t|t i x|t i x]; cbn in H.
  - destruct (obs =? lw s); inversion H; subst; exact I.
  - inversion H; subst; exact I.
  - destruct (obs =? lw s); inversion H; subst; exact I.
  - destruct (w_is_free v) eqn:F; cbn in H; [|discriminate].
    destruct (v =? lw s) eqn:E; destruct ok; cbn in H; try discriminate; inversion H; subst; try exact I.
    apply Z.eqb_eq in E. subst v. pose proof (free_inv s I F) as G.
    unfold LInv; cbn. unfold w_set_locked, w_is_free in *. apply Z.eqb_eq in F. destruct I as (P & _).
    split; [lia|]. right. exists t. rewrite G. split; [reflexivity|lia].
  - destruct (holds s t) eqn:Hh; cbn in H; [|discriminate].
    destruct (neww =? lw s + 2) eqn:E; [|discriminate]. inversion H; subst; clear H.
    apply Z.eqb_eq in E. destruct (holds_inv s t I Hh) as (G & M). destruct I as (P & _).
    unfold LInv; cbn. rewrite G, remove_tid_single. split; [lia|]. left. split; [reflexivity|]. left. lia.
  - destruct (holds s t) eqn:Hh; [|discriminate]. inversion H; subst; clear H.
    destruct (holds_inv s t I Hh) as (G & M).
    unfold LInv, w_obsolete; cbn. rewrite G, remove_tid_single. split; [lia|]. left. auto.
  - destruct ((holds s t || w_is_obsolete (lw s)) && (i <? length (lmem s))%nat); inversion H; subst. exact I.
  - destruct (nth_error (lmem s) i); [|discriminate]. destruct (x =? z); inversion H; subst; exact I.
Qed.

Lemma lrun_inv s tr s' : LInv s -> lrun s tr = Some s' -> LInv s'.
Proof.
  revert s; induction tr as [|e tr IH]; intros s I H; cbn in H.
  - inversion H; subst; exact I.
  - destruct (lstep s e) as [s1|] eqn:E; [|discriminate].
    apply (IH s1); [eapply lstep_inv; eauto|exact H].
Qed.

(** ** Writers are exclusive *)
Theorem exclusive n tr s : lrun (linit n) tr = Some s ->
  (length (guards s) <= 1)%nat /\ (guards s <> [] <-> w_is_write_locked (lw s) = true).
Proof.
  intros H. pose proof (lrun_inv _ _ _ (linit_inv n) H) as (P & [(G & M)|(t & G & M)]); rewrite G; cbn.
  - split; [lia|]. unfold w_is_write_locked. split; [congruence|]. intros E. apply Z.eqb_eq in E. lia.
  - split; [lia|]. unfold w_is_write_locked. split; [intros _; apply Z.eqb_eq; lia|discriminate].
Qed.

(** ** The word only moves forward, and obsolete is final *)
Lemma lstep_mono s e s' : LInv s -> lstep s e = Some s' ->
  (lw s = 1 -> lw s' = 1 /\ guards s' = guards s) /\ (lw s <> 1 -> lw s' = 1 \/ lw s <= lw s').
Proof.
  intros I H. destruct e as [t obs|t|t v obs|t v ok|t neww|t|t i x|t i x]; cbn in H.
  - destruct (obs =? lw s); inversion H; subst; split; auto; right; lia.
  - inversion H; subst; split; auto; right; lia.
  - destruct (obs =? lw s); inversion H; subst; split; auto; right; lia.
  - destruct (w_is_free v) eqn:F; cbn in H; [|discriminate].
    destruct (v =? lw s) eqn:E; destruct ok; cbn in H; try discriminate; inversion H; subst;
      try (split; [auto|right; lia]).
    apply Z.eqb_eq in E. subst v. unfold w_is_free in F. apply Z.eqb_eq in F. cbn. unfold w_set_locked.
    split; [intros W; rewrite W in F; cbn in F; discriminate|right; lia].
  - destruct (holds s t) eqn:Hh; cbn in H; [|discriminate].
    destruct (neww =? lw s + 2) eqn:E; [|discriminate]. inversion H; subst; clear H.
    apply Z.eqb_eq in E. destruct (holds_inv s t I Hh) as (G & M). cbn.
    split; [intros W; rewrite W in M; cbn in M; discriminate|right; lia].
  - destruct (holds s t) eqn:Hh; [|discriminate]. inversion H; subst; clear H.
    destruct (holds_inv s t I Hh) as (G & M). cbn.
    split; [intros W; rewrite W in M; cbn in M; discriminate|left; reflexivity].
  - destruct ((holds s t || w_is_obsolete (lw s)) && (i <? length (lmem s))%nat); inversion H; subst; clear H. cbn.
    split; [auto|right; lia].
  - destruct (nth_error (lmem s) i); [|discriminate]. destruct (x =? z); inversion H; subst; split; auto; right; lia.
Qed.

Lemma lrun_mono s tr s' : LInv s -> lrun s tr = Some s' ->
  (lw s = 1 -> lw s' = 1 /\ guards s' = guards s) /\ (lw s <> 1 -> lw s' = 1 \/ lw s <= lw s').
Proof.
  revert s; induction tr as [|e tr IH]; intros s I H; cbn in H.
  - inversion H; subst. split; auto. right; lia.
  - destruct (lstep s e) as [s1|] eqn:E; [|discriminate].
    pose proof (lstep_inv _ _ _ I E) as I1.
    destruct (lstep_mono _ _ _ I E) as (A1 & A2). destruct (IH _ I1 H) as (B1 & B2).
    split.
    + intros W. destruct (A1 W) as (W1 & G1). destruct (B1 W1) as (W2 & G2). split; [exact W2|congruence].
    + intros W. destruct (A2 W) as [O|Le].
      * left. exact (proj1 (B1 O)).
      * destruct (Z.eq_dec (lw s1) 1) as [O|N]; [left; exact (proj1 (B1 O))|].
        destruct (B2 N); [now left|right; lia].
Qed.

(** ** Validated read sections are snapshots *)
Lemma lstep_unguarded s e s' : lstep s e = Some s' -> guards s = [] ->
  s' = s \/ (exists t v, e = EUpgrade t v true /\ lw s' = lw s + 2) \/ lw s = 1.
Proof.
  intros S G0. destruct e as [t obs|t|t v' obs|t v' ok|t neww|t|t i x|t i x]; cbn [lstep] in S.
  - destruct (obs =? lw s); inversion S; auto.
  - inversion S; auto.
  - destruct (obs =? lw s); inversion S; auto.
  - destruct (w_is_free v') eqn:F'; cbn [negb] in S; [|discriminate].
    destruct (v' =? lw s) eqn:E'; destruct ok; cbn [Bool.eqb] in S; try discriminate.
    + right. left. exists t, v'. split; [reflexivity|]. inversion S; subst. cbn. apply Z.eqb_eq in E'. unfold w_set_locked. lia.
    + inversion S; auto.
  - unfold holds in S. rewrite G0 in S. cbn in S. discriminate.
  - unfold holds in S. rewrite G0 in S. cbn in S. discriminate.
  - unfold holds in S. rewrite G0 in S. cbn [existsb orb] in S.
    destruct (w_is_obsolete (lw s)) eqn:O; cbn [andb] in S; [|discriminate].
    right. right. unfold w_is_obsolete in O. now apply Z.eqb_eq in O.
  - destruct (nth_error (lmem s) i); [|discriminate]. destruct (x =? z); inversion S; auto.
Qed.

Lemma snapshot_gen s0 m s2 v :
  LInv s0 -> lw s0 = v -> w_is_free v = true -> lrun s0 m = Some s2 -> lw s2 = v ->
  Forall (fun s => lw s = v /\ lmem s = lmem s0 /\ guards s = []) (lstates s0 m).
Proof.
  revert s0; induction m as [|e m IH]; intros s0 I W F H E; cbn [lstates].
  - constructor; [|constructor]. repeat split; auto. apply free_inv; [exact I|now rewrite W].
  - cbn [lrun] in H. destruct (lstep s0 e) as [s1|] eqn:S; [|discriminate].
    pose proof (free_inv s0 I ltac:(now rewrite W)) as G0.
    constructor; [repeat split; auto|].
    destruct (lstep_unguarded _ _ _ S G0) as [Same|[(t & v' & _ & Up)|Ob]].
    + subst s1. apply IH; auto.
    + exfalso. pose proof (lstep_inv _ _ _ I S) as I1.
      destruct (lrun_mono _ _ _ I1 H) as (_ & B).
      unfold w_is_free in F. apply Z.eqb_eq in F.
      assert (N1 : lw s1 <> 1) by (intros C; lia).
      destruct (B N1) as [O|Le]; lia.
    + exfalso. rewrite Ob in W. subst v. cbn in F. discriminate.
Qed.

Theorem snapshot n p s0 m s2 v :
  lrun (linit n) p = Some s0 -> lw s0 = v -> w_is_free v = true -> lrun s0 m = Some s2 -> lw s2 = v ->
  Forall (fun s => lw s = v /\ lmem s = lmem s0 /\ guards s = []) (lstates s0 m).
Proof. intros H. eapply snapshot_gen. eapply lrun_inv; [apply linit_inv|exact H]. Qed.

Lemma lrun_app s a b : lrun s (a ++ b) = match lrun s a with Some s' => lrun s' b | None => None end.
Proof.
  revert s; induction a as [|e a IH]; intros s; cbn; [reflexivity|].
  destruct (lstep s e); auto.
Qed.

Lemma lstates_app_in s a s1 : lrun s a = Some s1 -> forall b, In s1 (lstates s (a ++ b)).
Proof.
  revert s; induction a as [|e a IH]; intros s H b; cbn in H.
  - inversion H; subst. destruct b; cbn; auto.
  - destruct (lstep s e) as [s'|] eqn:E; [|discriminate]. cbn [app lstates]. rewrite E. right. now apply IH.
Qed.

(** every protected load inside a validated section returns the value the
    word had when the section was opened *)
Theorem snapshot_loads n p s0 m1 t i x m2 s2 v :
  lrun (linit n) p = Some s0 -> lw s0 = v -> w_is_free v = true ->
  lrun s0 (m1 ++ ELoad t i x :: m2) = Some s2 -> lw s2 = v ->
  nth_error (lmem s0) i = Some x.
Proof.
  intros Hp W F H E.
  pose proof (snapshot n p s0 _ s2 v Hp W F H E) as A.
  rewrite lrun_app in H. destruct (lrun s0 m1) as [s1|] eqn:R1; [|discriminate].
  pose proof (lstates_app_in s0 m1 s1 R1 (ELoad t i x :: m2)) as In1.
  rewrite Forall_forall in A. destruct (A _ In1) as (_ & M & _).
  cbn in H. destruct (nth_error (lmem s1) i) as [y|] eqn:N; [|discriminate].
  destruct (x =? y) eqn:Q; [|discriminate]. apply Z.eqb_eq in Q. subst y. now rewrite <- M.
Qed.

(** no write guard is acquired or released, and nothing is stored, while a
    section that later validates is open *)
Lemma upgrades_zero s0 m : Forall (fun s => guards s = []) (lstates s0 m) ->
  forall s2, lrun s0 m = Some s2 -> upgrades m = O.
Proof.
  revert s0; induction m as [|e m IH]; intros s0 A s2 H; [reflexivity|].
  cbn in H. destruct (lstep s0 e) as [s1|] eqn:S; [|discriminate].
  cbn [lstates] in A. rewrite S in A. inversion A as [|? ? G0 A']; subst.
  assert (G1 : guards s1 = []).
  { destruct m; cbn [lstates] in A'; inversion A'; auto. }
  destruct e as [t obs|t|t v' obs|t v' ok|t neww|t|t i x|t i x]; cbn [upgrades]; try (eapply IH; eauto).
  destruct ok; [|eapply IH; eauto].
  exfalso. cbn in S. destruct (w_is_free v'); cbn in S; [|discriminate].
  destruct (v' =? lw s0); cbn in S; [|discriminate]. inversion S; subst. cbn in G1. discriminate.
Qed.

(** ** An upgrade succeeds only if no writer acquired the lock since the section was opened *)
Theorem upgrade_exclusive n p s0 m s1 t v s2 :
  lrun (linit n) p = Some s0 -> lw s0 = v -> w_is_free v = true ->
  lrun s0 m = Some s1 -> lstep s1 (EUpgrade t v true) = Some s2 ->
  upgrades m = O /\ lmem s1 = lmem s0.
Proof.
  intros Hp W F H U.
  assert (E : lw s1 = v).
  { cbn in U. rewrite F in U. cbn in U. destruct (v =? lw s1) eqn:Q; cbn in U; [|discriminate].
    apply Z.eqb_eq in Q. auto. }
  pose proof (snapshot n p s0 m s1 v Hp W F H E) as A. split.
  - eapply upgrades_zero; [|exact H]. eapply Forall_impl; [|exact A]. cbn. tauto.
  - pose proof (lstates_app_in s0 m s1 H []) as I1. rewrite app_nil_r in I1.
    rewrite Forall_forall in A. now destruct (A _ I1) as (_ & M & _).
Qed.

(** ** Obsolete is final *)
Theorem obsolete_final n p s0 m s1 :
  lrun (linit n) p = Some s0 -> lw s0 = 1 -> lrun s0 m = Some s1 -> lw s1 = 1 /\ guards s1 = [].
Proof.
  intros Hp W H. pose proof (lrun_inv _ _ _ (linit_inv n) Hp) as I.
  destruct (proj1 (lrun_mono _ _ _ I H) W) as (W1 & G1). split; [exact W1|]. rewrite G1.
  destruct I as (_ & [(G & _)|(t & G & M)]); [exact G|]. rewrite W in M. cbn in M. discriminate.
Qed.

(** after obsoletion no section can be opened, every open section fails its
    next check and no upgrade succeeds *)
Theorem obsolete_rejects n p s0 e s1 :
  lrun (linit n) p = Some s0 -> lw s0 = 1 -> lstep s0 e = Some s1 ->
  match e with
  | ERLock _ obs => rlock_opens obs = false /\ rlock_fails obs = true
  | ECheck _ v obs => w_is_free v = true -> check_ok v obs = false
  | EUpgrade _ _ ok => ok = false
  | EWUnlock _ _ | EWObsolete _ => False
  | EStore _ _ _ | ELoad _ _ _ | ESpin _ => True
  end.
Proof.
  intros Hp W S. pose proof (lrun_inv _ _ _ (linit_inv n) Hp) as I.
  assert (G : guards s0 = []).
  { destruct I as (_ & [(G & _)|(t & G & M)]); [exact G|]. rewrite W in M. cbn in M. discriminate. }
  destruct e as [t obs|t|t v obs|t v ok|t neww|t|t i x|t i x]; cbn in S; auto.
  - destruct (obs =? lw s0) eqn:Q; [|discriminate]. apply Z.eqb_eq in Q. rewrite W in Q. subst obs. split; reflexivity.
  - destruct (obs =? lw s0) eqn:Q; [|discriminate]. apply Z.eqb_eq in Q. rewrite W in Q. subst obs.
    intros F. unfold check_ok. unfold w_is_free in F. apply Z.eqb_eq in F. apply Z.eqb_neq. intros ->. cbn in F. discriminate.
  - destruct (w_is_free v) eqn:F; cbn in S; [|discriminate].
    destruct ok; [|reflexivity]. exfalso. destruct (v =? lw s0) eqn:Q; cbn in S; [|discriminate].
    apply Z.eqb_eq in Q. rewrite W in Q. subst v. cbn in F. discriminate.
  - unfold holds in S. rewrite G in S. cbn in S. discriminate.
  - unfold holds in S. rewrite G in S. cbn in S. discriminate.
Qed.

(** ** The word stays below 4 * (number of successful upgrades) + 2, so with
    fewer than 2^62 write acquisitions the 64-bit word of the implementation
    never wraps and coincides with the model's integer *)
Lemma lrun_bound s tr s' : LInv s -> lrun s tr = Some s' ->
  lw s' <= Z.max (lw s) 1 + 4 * Z.of_nat (upgrades tr) + (if guards s then 0 else 2) - (if guards s' then 0 else 2) + 0
  \/ lw s' = 1.
Proof.
  revert s; induction tr as [|e tr IH]; intros s I H; cbn in H.
  - inversion H; subst. left. cbn. destruct (guards s'); lia.
  - destruct (lstep s e) as [s1|] eqn:S; [|discriminate].
    pose proof (lstep_inv _ _ _ I S) as I1. specialize (IH _ I1 H).
    destruct IH as [IH|IH]; [|now right]. left.
    destruct e as [t obs|t|t v obs|t v ok|t neww|t|t i x|t i x]; cbn in S; cbn [upgrades].
    + destruct (obs =? lw s); inversion S; subst; lia.
    + inversion S; subst; lia.
    + destruct (obs =? lw s); inversion S; subst; lia.
    + destruct (w_is_free v) eqn:F; cbn in S; [|discriminate].
      destruct (v =? lw s) eqn:E; destruct ok; cbn in S; try discriminate; inversion S; subst; try lia.
      apply Z.eqb_eq in E. subst v. pose proof (free_inv s I F) as G. rewrite G in *. cbn in IH. unfold w_set_locked in IH.
      destruct I as (P & _). lia.
    + destruct (holds s t) eqn:Hh; cbn in S; [|discriminate].
      destruct (neww =? lw s + 2) eqn:E; [|discriminate]. inversion S; subst; clear S.
      apply Z.eqb_eq in E. destruct (holds_inv s t I Hh) as (G & M). rewrite G in *. cbn in IH.
      rewrite Nat.eqb_refl in IH. cbn in IH. destruct I as (P & _). lia.
    + destruct (holds s t) eqn:Hh; [|discriminate]. inversion S; subst; clear S.
      destruct (holds_inv s t I Hh) as (G & M). rewrite G in *. cbn in IH. rewrite Nat.eqb_refl in IH. cbn in IH.
      unfold w_obsolete in IH. destruct I as (P & _). lia.
    + destruct ((holds s t || w_is_obsolete (lw s)) && (i <? length (lmem s))%nat); inversion S; subst. cbn in IH. lia.
    + destruct (nth_error (lmem s) i); [|discriminate]. destruct (x =? z); inversion S; subst; lia.
Qed.

Theorem no_wrap n tr s : lrun (linit n) tr = Some s -> Z.of_nat (upgrades tr) < 2 ^ 62 -> 0 <= lw s < 2 ^ 64.
Proof.
  intros H B. pose proof (lrun_inv _ _ _ (linit_inv n) H) as I.
  destruct (lrun_bound _ _ _ (linit_inv n) H) as [Le|O].
  - cbn in Le. destruct I as (P & _). split; [exact P|].
    assert (E : 2 ^ 64 = 4 * 2 ^ 62) by reflexivity. rewrite E. destruct (guards s); lia.
  - rewrite O. split; [lia|reflexivity].
Qed.
