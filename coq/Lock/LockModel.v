(** M-LOCK: the optimistic lock (optimistic_lock.hpp) as an acceptor of the
    events the implementation performs on one lock word and the words it
    protects.  Sequentially consistent; every atomic access is one event.
    Definitions only. *)
From Coq Require Import List ZArith Bool.
Import ListNotations.
Local Open Scope Z_scope.

Definition tid := nat.

(** lock word algebra (version_type): bit 0 obsolete, bit 1 write-locked *)
Definition w_is_free (v : Z) : bool := v mod 4 =? 0.
Definition w_is_write_locked (v : Z) : bool := (v / 2) mod 2 =? 1.
Definition w_is_obsolete (v : Z) : bool := v =? 1.
Definition w_set_locked (v : Z) : Z := v + 2.
Definition w_obsolete : Z := 1.

Inductive event :=
| ERLock (t : tid) (obs : Z)            (* try_read_lock: acquire load observed obs *)
| ESpin (t : tid)                       (* spin_wait_loop_body inside try_read_lock *)
| ECheck (t : tid) (v obs : Z)          (* check / try_read_unlock of a section opened at v: relaxed load observed obs *)
| EUpgrade (t : tid) (v : Z) (ok : bool) (* try_upgrade_to_write_lock: CAS v -> v+2 *)
| EWUnlock (t : tid) (neww : Z)         (* write_unlock: store of old+2 *)
| EWObsolete (t : tid)                  (* write_unlock_and_obsolete: store of 1 *)
| EStore (t : tid) (i : nat) (x : Z)    (* in_critical_section::store *)
| ELoad (t : tid) (i : nat) (x : Z).    (* in_critical_section::load observed x *)

Record lstate := {
  lw : Z;                 (* the lock word *)
  lmem : list Z;          (* protected words *)
  guards : list tid       (* ghost: threads whose write guard is active *)
}.

Definition linit (nwords : nat) : lstate := {| lw := 0; lmem := repeat 0 nwords; guards := [] |}.

Fixpoint set_nth (i : nat) (x : Z) (l : list Z) : list Z :=
  match i, l with
  | _, [] => []
  | O, _ :: l' => x :: l'
  | S i', y :: l' => y :: set_nth i' x l'
  end.

Fixpoint remove_tid (t : tid) (l : list tid) : list tid :=
  match l with
  | [] => []
  | x :: l' => if Nat.eqb x t then l' else x :: remove_tid t l'
  end.

Definition holds (s : lstate) (t : tid) : bool := existsb (Nat.eqb t) (guards s).

(** The acceptor.  [None]: the event is not something the model allows at
    this point (wrong observed value, or a use outside the usage discipline:
    unlocking / storing without holding the guard, upgrading a non-free
    version). *)
Definition lstep (s : lstate) (e : event) : option lstate :=
  match e with
  | ERLock t obs => if obs =? lw s then Some s else None
  | ESpin t => Some s   (* a local step: the word it reacted to was read by the preceding ERLock *)
  | ECheck t v obs => if obs =? lw s then Some s else None
  | EUpgrade t v ok =>
      if negb (w_is_free v) then None
      else if Bool.eqb ok (v =? lw s) then
        if ok then Some {| lw := w_set_locked v; lmem := lmem s; guards := t :: guards s |}
        else Some s
      else None
  | EWUnlock t neww =>
      if holds s t && (neww =? lw s + 2)
      then Some {| lw := neww; lmem := lmem s; guards := remove_tid t (guards s) |}
      else None
  | EWObsolete t =>
      if holds s t
      then Some {| lw := w_obsolete; lmem := lmem s; guards := remove_tid t (guards s) |}
      else None
  | EStore t i x =>
      (* under the write guard; or on a node already marked obsolete (dead: its fields are
         invisible to every reader, see obsolete_rejects) -- the implementation finishes
         unlinking a replaced node after write_unlock_and_obsolete *)
      if (holds s t || w_is_obsolete (lw s)) && (i <? length (lmem s))%nat
      then Some {| lw := lw s; lmem := set_nth i x (lmem s); guards := guards s |}
      else None
  | ELoad t i x =>
      match nth_error (lmem s) i with
      | Some y => if x =? y then Some s else None
      | None => None
      end
  end.

Fixpoint lrun (s : lstate) (tr : list event) : option lstate :=
  match tr with
  | [] => Some s
  | e :: tr' => match lstep s e with Some s' => lrun s' tr' | None => None end
  end.

(** index of the first rejected event, for diagnostics *)
Fixpoint lrun_diag (s : lstate) (tr : list event) (i : nat) : lstate * option nat :=
  match tr with
  | [] => (s, None)
  | e :: tr' => match lstep s e with Some s' => lrun_diag s' tr' (S i) | None => (s, Some i) end
  end.

(** all states visited, including the first and the last *)
Fixpoint lstates (s : lstate) (tr : list event) : list lstate :=
  s :: match tr with
       | [] => []
       | e :: tr' => match lstep s e with Some s' => lstates s' tr' | None => [] end
       end.

(** the outcome the implementation computes from what it observed *)
Definition rlock_opens (obs : Z) : bool := w_is_free obs.      (* a section is opened *)
Definition rlock_fails (obs : Z) : bool := w_is_obsolete obs.  (* must_restart *)
Definition check_ok (v obs : Z) : bool := v =? obs.

(** number of successful upgrades in a trace *)
Fixpoint upgrades (tr : list event) : nat :=
  match tr with
  | [] => O
  | EUpgrade _ _ true :: tr' => S (upgrades tr')
  | _ :: tr' => upgrades tr'
  end.
