(** C16: the internal assertions (UNODB_DETAIL_ASSERT) on the sequential
    get / insert / remove paths of art.hpp / art_internal_impl.hpp /
    art_internal.hpp, carried as boolean checks on the state of Art/ArtModel.v
    at the point where the C++ evaluates them, and an instrumented twin of
    [get_go] / [insert_go] / [remove_go] that returns the names of the checks
    that FAIL while the model executes an operation.  Definitions only.

    Every assertion of the three headers is classified: [modelled_asserts]
    (header:scope, expression, name of the boolean check below) or
    [unmodelled_asserts] (header:scope, expression, reason).  The union is
    compared with the inventory regenerated from the source on every run
    (Gen/GenAsserts.v) in Art/ArtAssertsBridge.v. *)
From Coq Require Import String List ZArith Bool.
From Unodb Require Import Base.Lex Art.ArtModel Art.ArtIter Art.ArtSpec.
Import ListNotations.
Open Scope string_scope.
Open Scope list_scope.
Open Scope nat_scope.

(** a failed check contributes its name *)
Definition chk (name : string) (b : bool) : list string := if b then [] else [name].

(** std::is_sorted (non-strict) and "std::adjacent_find finds nothing" over the used key bytes *)
Fixpoint sortedb (l : list Z) : bool :=
  match l with
  | x :: ((y :: _) as l') => Z.leb x y && sortedb l'
  | _ => true
  end.
Fixpoint no_adjacent_eqb (l : list Z) : bool :=
  match l with
  | x :: ((y :: _) as l') => negb (Z.eqb x y) && no_adjacent_eqb l'
  | _ => true
  end.
Definition keys_of (ch : list (Z * node)) : list Z := map fst ch.

(** * the boolean checks (one per distinct assertion shape) *)

(* key_prefix *)
Definition a_kp_length (p : list Z) : bool := length p <=? prefix_capacity.       (* length(): result <= capacity *)
Definition a_kp_clamp (clamp : nat) : bool := clamp <? 8.                          (* shared_len: clamp_byte_pos < 8 *)
Definition a_kp_len_to_word (len : nat) : bool := len <=? prefix_capacity.         (* length_to_word: length <= capacity *)
Definition a_kp_index (i : nat) (p : list Z) : bool := i <? length p.              (* operator[]: i < length() *)
Definition a_kp_ctor_len (len : nat) : bool := len <=? prefix_capacity.            (* key_prefix(len, source) *)
Definition a_kp_cut_pos (cut : nat) : bool := 0 <? cut.
Definition a_kp_cut_le (cut : nat) (p : list Z) : bool := cut <=? length p.
Definition a_kp_cut_result (cut : nat) (p : list Z) : bool := length (skipn cut p) <=? prefix_capacity.
Definition a_kp_prepend_fits (p1 p3 : list Z) : bool := length p3 + length p1 <? prefix_capacity.
Definition a_kp_prepend_result (p1 : list Z) (b : Z) (p3 : list Z) : bool :=
  length (p1 ++ b :: p3) <=? prefix_capacity.

(* art key *)
Definition a_key_shift_view (num : nat) (rem : list Z) : bool := num <=? length rem.  (* key_view: num_bytes <= size *)
Definition a_key_shift_word (num : nat) : bool := num <=? 8.                           (* u64: num_bytes <= sizeof *)
Definition a_key_index_word (i : nat) : bool := i <? 8.                                (* u64 operator[] *)

(* descent *)
Definition a_is_inode (n : node) : bool := match n with Inode _ _ _ => true | Leaf _ _ _ => false end.
Definition a_shared_is_length (sl : nat) (p : list Z) : bool := sl =? length p.

(* nodes *)
Definition a_two_distinct (b1 b2 : Z) : bool := negb (Z.eqb b1 b2).                 (* add_two_to_empty: key1 != key2 *)
Definition a_count_is (ch : list (Z * node)) (n : nat) : bool := length ch =? n.
Definition a_keys_sorted (ch : list (Z * node)) : bool := sortedb (keys_of ch).
Definition a_keys_no_dup (ch : list (Z * node)) : bool := no_adjacent_eqb (keys_of ch).
Definition a_count_lt_cap (c : cls) (ch : list (Z * node)) : bool := length ch <? cap c.
Definition a_count_ge_min (c : cls) (ch : list (Z * node)) : bool := min_size c <=? length ch.
Definition a_child_index_lt (i : nat) (ch : list (Z * node)) : bool := i <? length ch.
Definition a_key_byte_absent (ch : list (Z * node)) (b : Z) : bool :=
  match find_child ch b 0 with None => true | Some _ => false end.
Definition a_mask4 (mask_count : nat) (ch : list (Z * node)) : bool := length ch =? mask_count.
Definition a_pos16_lt (pos : nat) (ch : list (Z * node)) : bool := pos <? length ch.
Definition a_pos16_ne (pos : nat) (ch : list (Z * node)) (b : Z) : bool :=
  match nth_error (keys_of ch) pos with Some x => negb (Z.eqb x b) | None => false end.
Definition a_pos16_result (pos : nat) (ch : list (Z * node)) (b : Z) : bool :=
  (pos =? length ch) || (a_pos16_lt pos ch && a_pos16_ne pos ch b).
Definition a_llc_index (i : nat) : bool := i <=? 1.                                 (* child_to_delete == 0 || == 1 *)
Definition a_scan48_finds16 (ch' : list (Z * node)) : bool := cap C16 <=? length ch'. (* i < 255 in the 48 -> 16 scan *)

(** * per-place bundles *)

(** every visit of an inner node: key_prefix.length(), get_shared_length -> shared_len(.., length()) *)
Definition visit_asserts (n : node) (p : list Z) : list string :=
  chk "a_is_inode" (a_is_inode n) ++
  chk "a_kp_length" (a_kp_length p) ++
  chk "a_kp_clamp" (a_kp_clamp (length p)).

(** prefix fully shared: the assertion after the split test, shift_right(prefix length) *)
Definition descend_asserts (sl : nat) (p rem : list Z) : list string :=
  chk "a_shared_is_length" (a_shared_is_length sl p) ++
  chk "a_key_shift_view" (a_key_shift_view (length p) rem) ++
  chk "a_key_shift_word" (a_key_shift_word (length p)) ++
  chk "a_key_index_word" (a_key_index_word 0).

(** a child was chosen: shift_right(1) *)
Definition step_asserts (rem' : list Z) : list string :=
  chk "a_key_shift_view" (a_key_shift_view 1 rem') ++
  chk "a_key_shift_word" (a_key_shift_word 1).

(** inode_4::add_two_to_empty on a fresh N4 (also the constructors' is_min_size) *)
Definition two_asserts (b1 b2 : Z) : list string :=
  let ch := two_children b1 (Leaf 0 [] []) b2 (Leaf 0 [] []) in
  chk "a_two_distinct" (a_two_distinct b1 b2) ++
  chk "a_count_is" (a_count_is ch (min_size C4)) ++
  chk "a_keys_sorted" (a_keys_sorted ch).

(** inode_4::create(db, existing_key, remaining_key, depth, leaf, new_leaf) *)
Definition leaf_split_asserts (lk k : list Z) (depth : nat) : list string :=
  let rem := skipn depth k in
  let k1rem := skipn depth lk in
  let n' := common_pad prefix_capacity k1rem rem in
  match nth_error lk (n' + depth), nth_error rem n' with
  | Some b1, Some b2 =>
      chk "a_kp_clamp" (a_kp_clamp prefix_capacity) ++       (* make_u64: shared_len(.., key_prefix_capacity) *)
      chk "a_kp_len_to_word" (a_kp_len_to_word n') ++
      chk "a_kp_length" (a_kp_length (firstn n' (pad8 k1rem))) ++  (* init: get_key_prefix().length() *)
      chk "a_key_index_word" (a_key_index_word n') ++        (* shifted_k2[k2_next_byte_depth] *)
      two_asserts b1 b2
  | _, _ => []       (* the model run reports Oob: undefined behaviour, not an assertion *)
  end.

(** inode_4::create(db, node, shared_prefix_len, depth, leaf): prefix split *)
Definition prefix_split_asserts (p : list Z) (sl : nat) (k : list Z) (depth : nat) : list string :=
  match nth_error p sl, nth_error k (depth + sl) with
  | Some sb, Some nb =>
      chk "a_kp_ctor_len" (a_kp_ctor_len sl) ++
      chk "a_kp_len_to_word" (a_kp_len_to_word sl) ++
      chk "a_kp_index" (a_kp_index sl p) ++                   (* init: shared_prefix_len < length; operator[] *)
      chk "a_kp_cut_pos" (a_kp_cut_pos (S sl)) ++
      chk "a_kp_cut_le" (a_kp_cut_le (S sl) p) ++
      chk "a_kp_len_to_word" (a_kp_len_to_word (length p - S sl)) ++
      chk "a_kp_cut_result" (a_kp_cut_result (S sl) p) ++
      two_asserts sb nb
  | _, _ => []
  end.

Definition dummy_leaf : node := Leaf 0 [] [].

(** add_to_nonfull of the four classes *)
Definition add_nonfull_asserts (c : cls) (ch : list (Z * node)) (b : Z) : list string :=
  let pos := insert_pos c ch b in
  let ch' := insert_at pos (b, dummy_leaf) ch in
  chk "a_count_lt_cap" (a_count_lt_cap c ch) ++
  match c with
  | C4 =>
      chk "a_keys_sorted" (a_keys_sorted ch) ++
      chk "a_mask4" (a_mask4 (length ch) ch) ++                 (* get_insert_pos: mask == (1 << count) - 1 *)
      chk "a_keys_sorted" (a_keys_sorted ch')
  | C16 =>
      chk "a_keys_sorted" (a_keys_sorted ch) ++
      chk "a_keys_no_dup" (a_keys_no_dup ch) ++
      chk "a_pos16_result" (a_pos16_result pos ch b) ++
      (if pos =? length ch then [] else
         chk "a_pos16_lt" (a_pos16_lt pos ch) ++ chk "a_pos16_ne" (a_pos16_ne pos ch b)) ++
      chk "a_keys_sorted" (a_keys_sorted ch')
  | C48 =>
      chk "a_count_ge_min" (a_count_ge_min c ch) ++
      chk "a_key_byte_absent" (a_key_byte_absent ch b)
  | C256 =>
      chk "a_key_byte_absent" (a_key_byte_absent ch b)
  end.

(** the growing constructors: basic_inode(const SmallerDerived&) + init *)
Definition grow_asserts (c : cls) (ch : list (Z * node)) (b : Z) : list string :=
  let pos := insert_pos c ch b in
  let ch' := insert_at pos (b, dummy_leaf) ch in
  chk "a_count_is" (a_count_is ch' (min_size (larger c))) ++    (* is_min_size() of the new node *)
  match c with
  | C4 => chk "a_mask4" (a_mask4 4 ch)                            (* get_insert_pos(key_byte, 0xFU): source is full *)
  | _ => chk "a_key_byte_absent" (a_key_byte_absent ch b)         (* child_indexes[b] == empty / children[b] == nullptr *)
  end.

Definition add_asserts (c : cls) (ch : list (Z * node)) (b : Z) : list string :=
  if cls_eqb c C256 then add_nonfull_asserts c ch b
  else if Nat.eqb (length ch) (cap c) then grow_asserts c ch b
  else add_nonfull_asserts c ch b.

(** remove(child_index) above the minimum size *)
Definition remove_leaf_asserts (c : cls) (ch : list (Z * node)) (i : nat) : list string :=
  match c with
  | C4 | C16 =>
      chk "a_child_index_lt" (a_child_index_lt i ch) ++
      chk "a_keys_sorted" (a_keys_sorted ch) ++
      chk "a_keys_sorted" (a_keys_sorted (remove_nth i ch))
  | C48 => chk "a_child_index_lt" (a_child_index_lt i ch)        (* direct_remove_child_pointer: index entry used *)
  | C256 => []
  end.

(** the shrinking constructors: basic_inode(const LargerDerived&) + init *)
Definition shrink_asserts (c : cls) (ch : list (Z * node)) (i : nat) : list string :=
  let ch' := remove_nth i ch in
  chk "a_count_is" (a_count_is ch' (cap (smaller c))) ++         (* is_full_for_add() / children_count == capacity *)
  match c with
  | C16 => chk "a_keys_sorted" (a_keys_sorted ch')
  | C48 =>
      chk "a_child_index_lt" (a_child_index_lt i ch) ++           (* remove_child_pointer *)
      chk "a_scan48_finds16" (a_scan48_finds16 ch') ++
      chk "a_keys_sorted" (a_keys_sorted ch')
  | _ => []
  end.

(** inode_4::leave_last_child and key_prefix::prepend on a surviving inner node *)
Definition collapse_asserts (p : list Z) (ch : list (Z * node)) (i : nat) : list string :=
  chk "a_count_is" (a_count_is ch (min_size C4)) ++
  chk "a_llc_index" (a_llc_index i) ++
  match nth_error ch (if Nat.eqb i 0 then 1 else 0) with
  | Some (sb, Inode _ p3 _) =>
      chk "a_kp_length" (a_kp_length p3) ++ chk "a_kp_length" (a_kp_length p) ++
      chk "a_kp_prepend_fits" (a_kp_prepend_fits p p3) ++
      chk "a_kp_len_to_word" (a_kp_len_to_word (length p3 + length p + 1)) ++
      chk "a_kp_prepend_result" (a_kp_prepend_result p sb p3)
  | _ => []
  end.

(** * the instrumented twins *)

Fixpoint get_asserts (fuel : nat) (n : node) (k : list Z) (depth : nat) : list string :=
  match fuel with
  | O => []
  | S f =>
      match n with
      | Leaf _ _ _ => []
      | Inode c p ch =>
          let rem := skipn depth k in
          let sl := shared_len p rem in
          visit_asserts n p ++
          if sl <? length p then [] else
          chk "a_key_shift_view" (a_key_shift_view (length p) rem) ++
          chk "a_key_shift_word" (a_key_shift_word (length p)) ++
          chk "a_key_index_word" (a_key_index_word 0) ++
          let d := depth + length p in
          match nth_error k d with
          | None => []
          | Some b =>
              match find_child ch b O with
              | None => []
              | Some (_, c') => step_asserts (skipn d k) ++ get_asserts f c' k (S d)
              end
          end
      end
  end.

Fixpoint insert_asserts (fuel : nat) (n : node) (k : list Z) (depth : nat) : list string :=
  match fuel with
  | O => []
  | S f =>
      match n with
      | Leaf _ lk _ =>
          match lex_compare k lk with
          | Eq => []
          | _ => leaf_split_asserts lk k depth
          end
      | Inode c p ch =>
          let rem := skipn depth k in
          let sl := shared_len p rem in
          visit_asserts n p ++
          if sl <? length p then prefix_split_asserts p sl k depth else
          descend_asserts sl p rem ++
          let d := depth + length p in
          match nth_error k d with
          | None => []
          | Some b =>
              match find_child ch b O with
              | Some (_, c') => step_asserts (skipn d k) ++ insert_asserts f c' k (S d)
              | None => add_asserts c ch b
              end
          end
      end
  end.

Fixpoint remove_asserts (fuel : nat) (n : node) (k : list Z) (depth : nat) : list string :=
  match fuel with
  | O => []
  | S f =>
      match n with
      | Leaf _ _ _ => []
      | Inode c p ch =>
          let rem := skipn depth k in
          let sl := shared_len p rem in
          visit_asserts n p ++
          if sl <? length p then [] else
          descend_asserts sl p rem ++
          let d := depth + length p in
          match nth_error k d with
          | None => []
          | Some b =>
              match find_child ch b O with
              | None => []
              | Some (i, Leaf _ lk _) =>
                  match lex_compare k lk with
                  | Eq =>
                      if Nat.eqb (length ch) (min_size c) then
                        match c with
                        | C4 => collapse_asserts p ch i
                        | _ => shrink_asserts c ch i
                        end
                      else remove_leaf_asserts c ch i
                  | _ => []
                  end
              | Some (_, c') => step_asserts (skipn d k) ++ remove_asserts f c' k (S d)
              end
          end
      end
  end.

(** the names of the checks that fail while the model executes [o] on [d] *)
Definition assert_log (d : db) (o : op) : list string :=
  match o, root d with
  | OGet k, Some n => get_asserts (fuel_for k) n k O
  | OInsert k _, Some n => insert_asserts (fuel_for k) n k O
  | ORemove k, Some (Inode c p ch) => remove_asserts (fuel_for k) (Inode c p ch) k O
  | _, _ => []
  end.

Fixpoint run_logs (sz : sizes) (d : db) (ops : list op) : list (list string) :=
  match ops with
  | [] => []
  | o :: ops' => assert_log d o :: run_logs sz (fst (step sz d o)) ops'
  end.

(** * classification of the source's assertions *)

Definition sorted_n (n : string) : string :=
  ("std::is_sorted(keys.byte_array.cbegin(), keys.byte_array.cbegin() + " ++ n ++ ")")%string.
Definition sorted_cc : string :=
  "std::is_sorted( keys.byte_array.cbegin(), keys.byte_array.cbegin() + children_count_)".

(** ((header:scope, expression), name of the boolean check) *)
Definition modelled_asserts : list ((string * string) * string) :=
  [ (("art_internal.hpp:basic_art_key::operator[]", "index < sizeof(KeyType)"), "a_key_index_word");
    (("art_internal.hpp:basic_art_key::shift_right", "num_bytes <= key.size_bytes()"), "a_key_shift_view");
    (("art_internal.hpp:basic_art_key::shift_right", "num_bytes <= sizeof(KeyType)"), "a_key_shift_word");
    (("art_internal_impl.hpp:key_prefix::key_prefix", "key_prefix_len <= key_prefix_capacity"), "a_kp_ctor_len");
    (("art_internal_impl.hpp:key_prefix::length", "result <= key_prefix_capacity"), "a_kp_length");
    (("art_internal_impl.hpp:key_prefix::cut", "cut_len > 0"), "a_kp_cut_pos");
    (("art_internal_impl.hpp:key_prefix::cut", "cut_len <= length()"), "a_kp_cut_le");
    (("art_internal_impl.hpp:key_prefix::cut", "f.key_prefix_length.load() <= key_prefix_capacity"), "a_kp_cut_result");
    (("art_internal_impl.hpp:key_prefix::prepend", "length() + prefix1.length() < key_prefix_capacity"), "a_kp_prepend_fits");
    (("art_internal_impl.hpp:key_prefix::prepend", "f.key_prefix_length.load() <= key_prefix_capacity"), "a_kp_prepend_result");
    (("art_internal_impl.hpp:key_prefix::operator[]", "i < length()"), "a_kp_index");
    (("art_internal_impl.hpp:key_prefix::length_to_word", "length <= key_prefix_capacity"), "a_kp_len_to_word");
    (("art_internal_impl.hpp:key_prefix::shared_len", "clamp_byte_pos < 8"), "a_kp_clamp");
    (("art_internal_impl.hpp:basic_inode_impl::find_child", "type != node_type::LEAF"), "a_is_inode");
    (("art_internal_impl.hpp:basic_inode::basic_inode", "is_min_size()"), "a_count_is");
    (("art_internal_impl.hpp:basic_inode::basic_inode", "is_min_size()"), "a_count_is");
    (("art_internal_impl.hpp:basic_inode::basic_inode", "is_min_size()"), "a_count_is");
    (("art_internal_impl.hpp:basic_inode::basic_inode", "is_full_for_add()"), "a_count_is");
    (("art_internal_impl.hpp:basic_inode_4::init", "shared_prefix_len < source_key_prefix.length()"), "a_kp_index");
    (("art_internal_impl.hpp:basic_inode_4::init", "this->children_count == basic_inode_4::capacity"), "a_count_is");
    (("art_internal_impl.hpp:basic_inode_4::init", sorted_n "basic_inode_4::capacity"), "a_keys_sorted");
    (("art_internal_impl.hpp:basic_inode_4::add_to_nonfull", "children_count_ < parent_class::capacity"), "a_count_lt_cap");
    (("art_internal_impl.hpp:basic_inode_4::add_to_nonfull", sorted_cc), "a_keys_sorted");
    (("art_internal_impl.hpp:basic_inode_4::add_to_nonfull", sorted_cc), "a_keys_sorted");
    (("art_internal_impl.hpp:basic_inode_4::remove", "child_index < children_count_"), "a_child_index_lt");
    (("art_internal_impl.hpp:basic_inode_4::remove", sorted_cc), "a_keys_sorted");
    (("art_internal_impl.hpp:basic_inode_4::remove", sorted_cc), "a_keys_sorted");
    (("art_internal_impl.hpp:basic_inode_4::leave_last_child", "this->is_min_size()"), "a_count_is");
    (("art_internal_impl.hpp:basic_inode_4::leave_last_child", "child_to_delete == 0 || child_to_delete == 1"), "a_llc_index");
    (("art_internal_impl.hpp:basic_inode_4::add_two_to_empty", "key1 != key2"), "a_two_distinct");
    (("art_internal_impl.hpp:basic_inode_4::add_two_to_empty", "this->children_count == 2"), "a_count_is");
    (("art_internal_impl.hpp:basic_inode_4::add_two_to_empty", sorted_n "this->children_count"), "a_keys_sorted");
    (("art_internal_impl.hpp:basic_inode_4::get_insert_pos", "node_key_mask == (1U << this->children_count.load()) - 1"), "a_mask4");
    (("art_internal_impl.hpp:basic_inode_16::init", "i < 255"), "a_scan48_finds16");
    (("art_internal_impl.hpp:basic_inode_16::init", "this->children_count == basic_inode_16::capacity"), "a_count_is");
    (("art_internal_impl.hpp:basic_inode_16::init", sorted_n "basic_inode_16::capacity"), "a_keys_sorted");
    (("art_internal_impl.hpp:basic_inode_16::add_to_nonfull", "children_count_ < parent_class::capacity"), "a_count_lt_cap");
    (("art_internal_impl.hpp:basic_inode_16::add_to_nonfull", sorted_cc), "a_keys_sorted");
    (("art_internal_impl.hpp:basic_inode_16::add_to_nonfull", "insert_pos_index < children_count_"), "a_pos16_lt");
    (("art_internal_impl.hpp:basic_inode_16::add_to_nonfull", "keys.byte_array[insert_pos_index] != key_byte"), "a_pos16_ne");
    (("art_internal_impl.hpp:basic_inode_16::add_to_nonfull", sorted_cc), "a_keys_sorted");
    (("art_internal_impl.hpp:basic_inode_16::remove", "child_index < children_count_"), "a_child_index_lt");
    (("art_internal_impl.hpp:basic_inode_16::remove", sorted_cc), "a_keys_sorted");
    (("art_internal_impl.hpp:basic_inode_16::remove", sorted_cc), "a_keys_sorted");
    (("art_internal_impl.hpp:basic_inode_16::get_sorted_key_array_insert_position", "children_count_ < basic_inode_16::capacity"), "a_count_lt_cap");
    (("art_internal_impl.hpp:basic_inode_16::get_sorted_key_array_insert_position", sorted_cc), "a_keys_sorted");
    (("art_internal_impl.hpp:basic_inode_16::get_sorted_key_array_insert_position", "std::adjacent_find(keys.byte_array.cbegin(), keys.byte_array.cbegin() + children_count_) >= keys.byte_array.cbegin() + children_count_"), "a_keys_no_dup");
    (("art_internal_impl.hpp:basic_inode_16::get_sorted_key_array_insert_position", "result == children_count_ || (result < children_count_ && keys.byte_array[result] != key_byte)"), "a_pos16_result");
    (("art_internal_impl.hpp:basic_inode_48::init", "child_indexes[key_byte] == empty_child"), "a_key_byte_absent");
    (("art_internal_impl.hpp:basic_inode_48::add_to_nonfull", "children_count_ >= parent_class::min_size"), "a_count_ge_min");
    (("art_internal_impl.hpp:basic_inode_48::add_to_nonfull", "children_count_ < parent_class::capacity"), "a_count_lt_cap");
    (("art_internal_impl.hpp:basic_inode_48::add_to_nonfull", "child_indexes[key_byte] == empty_child"), "a_key_byte_absent");
    (("art_internal_impl.hpp:basic_inode_48::direct_remove_child_pointer", "children_i != empty_child"), "a_child_index_lt");
    (("art_internal_impl.hpp:basic_inode_256::init", "children[key_byte] == nullptr"), "a_key_byte_absent");
    (("art_internal_impl.hpp:basic_inode_256::add_to_nonfull", "children_count_ < parent_class::capacity"), "a_count_lt_cap");
    (("art_internal_impl.hpp:basic_inode_256::add_to_nonfull", "children[key_byte] == nullptr"), "a_key_byte_absent");
    (("art.hpp:get_internal", "node_type != node_type::LEAF"), "a_is_inode");
    (("art.hpp:insert_internal", "node_type != node_type::LEAF"), "a_is_inode");
    (("art.hpp:insert_internal", "shared_prefix_len == key_prefix_length"), "a_shared_is_length");
    (("art.hpp:remove_internal", "node_type != node_type::LEAF"), "a_is_inode");
    (("art.hpp:remove_internal", "shared_prefix_len == key_prefix_length"), "a_shared_is_length") ].

Definition R_tauto := "argument is the caller's own load of the same field: a tautology single-threaded, meaningful under OLC only".
Definition R_slot := "N48 slot array is not part of ArtModel (children are kept as the ordered list); the slot search is covered by C16_free_slot".
Definition R_stats := "not yet modelled: statistics bookkeeping (UNODB_DETAIL_WITH_STATS); the counters are tied to the tree by C10g_counts and the differential runs".
Definition R_iter := "not yet modelled: iterator stack / scan path (first, last, next, prior, seek, get_key, get_val)".
Definition R_debug := "debug bookkeeping outside the four operations (dump, subtree deletion in clear / destructor)".
Definition R_size := "size limit is enforced by make_db_leaf_ptr (throws std::length_error) before the constructor runs; the model has no size limit (C08 fault_enum covers the throw)".
Definition R_ptr := "pointer tagging / null slot: no addresses in ArtModel".
Definition R_snap := "key_prefix_snapshot and key_buffer are used by the iterator only".

(** ((header:scope, expression), reason) *)
Definition unmodelled_asserts : list ((string * string) * string) :=
  [ (("art_internal.hpp:basic_node_ptr::tag_ptr", "(result & ptr_bit_mask) == uintptr"), R_ptr);
    (("art_internal.hpp:key_buffer::pop", "off >= n"), R_snap);
    (("art_internal_impl.hpp:basic_leaf::basic_leaf", "k.size() <= max_key_size"), R_size);
    (("art_internal_impl.hpp:basic_leaf::basic_leaf", "v.size() <= max_value_size"), R_size);
    (("art_internal_impl.hpp:key_prefix_snapshot::operator[]", "i < length()"), R_snap);
    (("art_internal_impl.hpp:key_prefix_snapshot::shared_len", "clamp_byte_pos < 8"), R_snap);
    (("art_internal_impl.hpp:basic_inode_impl::get_child", "type != node_type::LEAF"), R_iter);
    (("art_internal_impl.hpp:basic_inode_impl::begin", "type != node_type::LEAF"), R_iter);
    (("art_internal_impl.hpp:basic_inode_impl::last", "type != node_type::LEAF"), R_iter);
    (("art_internal_impl.hpp:basic_inode_impl::next", "type != node_type::LEAF"), R_iter);
    (("art_internal_impl.hpp:basic_inode_impl::prior", "type != node_type::LEAF"), R_iter);
    (("art_internal_impl.hpp:basic_inode_impl::lte_key_byte", "type != node_type::LEAF"), R_iter);
    (("art_internal_impl.hpp:basic_inode_impl::gte_key_byte", "type != node_type::LEAF"), R_iter);
    (("art_internal_impl.hpp:basic_inode_4::add_to_nonfull", "children_count_ == this->children_count"), R_tauto);
    (("art_internal_impl.hpp:basic_inode_16::init", "source_child_ptr != nullptr"), R_slot);
    (("art_internal_impl.hpp:basic_inode_16::add_to_nonfull", "children_count_ == this->children_count"), R_tauto);
    (("art_internal_impl.hpp:basic_inode_48::add_to_nonfull", "this->children_count == children_count_"), R_tauto);
    (("art_internal_impl.hpp:basic_inode_48::add_to_nonfull", "i < 255"), R_slot);
    (("art_internal_impl.hpp:basic_inode_48::add_to_nonfull", "children.pointer_array[i] == nullptr"), R_slot);
    (("art_internal_impl.hpp:basic_inode_48::add_to_nonfull", "children.pointer_array[j] != nullptr"), R_slot);
    (("art_internal_impl.hpp:basic_inode_48::delete_subtree", "actual_children_count <= children_count_"), R_debug);
    (("art_internal_impl.hpp:basic_inode_48::delete_subtree", "actual_children_count == children_count_"), R_debug);
    (("art_internal_impl.hpp:basic_inode_48::dump", "children.pointer_array[child_indexes[i]] != nullptr"), R_debug);
    (("art_internal_impl.hpp:basic_inode_48::dump", "actual_children_count <= children_count_"), R_debug);
    (("art_internal_impl.hpp:basic_inode_48::dump", "actual_children_count == children_count_"), R_debug);
    (("art_internal_impl.hpp:basic_inode_256::add_to_nonfull", "this->children_count == children_count_"), R_tauto);
    (("art_internal_impl.hpp:basic_inode_256", "actual_children_count <= children_count_ || children_count_ == 0"), R_debug);
    (("art_internal_impl.hpp:basic_inode_256", "actual_children_count == children_count_"), R_debug);
    (("art.hpp:iterator::cmp", "!stack_.empty()"), R_iter);
    (("art.hpp:iterator::cmp", "node.type() == node_type::LEAF"), R_iter);
    (("art.hpp:iterator::push", "node.type() != node_type::LEAF"), R_iter);
    (("art.hpp:iterator::pop", "!empty()"), R_iter);
    (("art.hpp:iterator::top", "!stack_.empty()"), R_iter);
    (("art.hpp:db::increase_memory_use", "delta > 0"), R_stats);
    (("art.hpp:db::increase_memory_use", "std::numeric_limits<decltype(current_memory_use)>::max() - delta >= current_memory_use"), R_stats);
    (("art.hpp:db::decrease_memory_use", "delta > 0"), R_stats);
    (("art.hpp:db::decrease_memory_use", "delta <= current_memory_use"), R_stats);
    (("art.hpp:db::decrement_leaf_count", "node_counts[as_i<node_type::LEAF>] > 0"), R_stats);
    (("art.hpp:insert_internal", "growing_inode_counts[internal_as_i<node_type::I4>] > key_prefix_splits"), R_stats);
    (("art.hpp:next", "node != nullptr"), R_iter);
    (("art.hpp:prior", "node != nullptr"), R_iter);
    (("art.hpp:prior", "nxt.has_value()"), R_iter);
    (("art.hpp:left_most_traversal", "node != nullptr"), R_iter);
    (("art.hpp:right_most_traversal", "node != nullptr"), R_iter);
    (("art.hpp:seek", "node_type != node_type::LEAF"), R_iter);
    (("art.hpp:seek", "cmp_ != 0"), R_iter);
    (("art.hpp:get_key", "valid()"), R_iter);
    (("art.hpp:get_key", "node.type() == node_type::LEAF"), R_iter);
    (("art.hpp:get_val", "valid()"), R_iter);
    (("art.hpp:get_val", "node.type() == node_type::LEAF"), R_iter);
    (("art.hpp:delete_root_subtree", "node_counts[as_i<node_type::LEAF>] == 0"), R_stats);
    (("art.hpp:decrement_inode_count", "node_counts[as_i<INode::type>] > 0"), R_stats);
    (("art.hpp:account_growing_inode", "growing_inode_counts[internal_as_i<NodeType>] >= node_counts[as_i<NodeType>]"), R_stats);
    (("art.hpp:account_shrinking_inode", "shrinking_inode_counts[internal_as_i<NodeType>] <= growing_inode_counts[internal_as_i<NodeType>]"), R_stats) ].

(** the names a log can contain *)
Definition check_names : list string :=
  [ "a_kp_length"; "a_kp_clamp"; "a_kp_len_to_word"; "a_kp_index"; "a_kp_ctor_len"; "a_kp_cut_pos"; "a_kp_cut_le";
    "a_kp_cut_result"; "a_kp_prepend_fits"; "a_kp_prepend_result"; "a_key_shift_view"; "a_key_shift_word";
    "a_key_index_word"; "a_is_inode"; "a_shared_is_length"; "a_two_distinct"; "a_count_is"; "a_keys_sorted";
    "a_keys_no_dup"; "a_count_lt_cap"; "a_count_ge_min"; "a_child_index_lt"; "a_key_byte_absent"; "a_mask4";
    "a_pos16_lt"; "a_pos16_ne"; "a_pos16_result"; "a_llc_index"; "a_scan48_finds16" ].

(** multiset comparison of the classification with the regenerated inventory *)
Definition pair_eqb (a b : string * string) : bool := String.eqb (fst a) (fst b) && String.eqb (snd a) (snd b).
Definition count_pair (x : string * string) (l : list (string * string)) : nat :=
  length (filter (pair_eqb x) l).
Definition same_asserts (a b : list (string * string)) : bool :=
  Nat.eqb (length a) (length b) &&
  forallb (fun x => Nat.eqb (count_pair x a) (count_pair x b)) (a ++ b).
Definition classified_asserts : list (string * string) :=
  map fst modelled_asserts ++ map fst unmodelled_asserts.
(** every modelled assertion names an existing check *)
Definition checks_named : bool :=
  forallb (fun m : (string * string) * string => existsb (String.eqb (snd m)) check_names) modelled_asserts.
