(** Byte-string keys of variable length, prefix-free: the generalised structural
    invariant and the two executable hypotheses under which the ART model
    refines the map specification (definitions only).

    1. prefix-freedom ([op_pf]): the key of the operation, together with the
       keys stored in the specification state, is prefix-free (the library's
       documented contract for byte-string keys).
    2. capacity ([op_fits]): the step does not need a key prefix longer than
       the 7 bytes an inner node can hold (known limitation K1).  It is an
       instrumented twin of [insert_go] / [remove_go]: it walks the same path
       and returns the guard of the one place where the capacity is hit:
       - leaf split (inode_4::create from two leaves): the dispatch bytes found
         after [common_pad prefix_capacity] differ (the two keys share at most
         7 bytes below the current depth);
       - collapse (leave_last_child / key_prefix::prepend): parent prefix
         length + 1 + child prefix length <= 7.
       Everything else (including paths on which the run itself reports
       [Err]) is [true]: the guard speaks about the capacity only. *)
From Coq Require Import List ZArith Bool Sorted.
From Unodb Require Import Base.Lex Art.ArtModel Art.ArtIter Art.ArtSpec Art.ArtInv.
Import ListNotations.
Local Open Scope Z_scope.

(** * hypothesis 1: prefix-freedom *)

Definition is_byteb (b : Z) : bool := (0 <=? b) && (b <? 256).
Definition bytesb (k : list Z) : bool := forallb is_byteb k.

(** two keys are compatible: equal, or neither is a prefix of the other *)
Definition pfree2 (a b : list Z) : bool :=
  lex_eqb a b || negb (is_prefix a b || is_prefix b a).

Definition pfreeb (k : list Z) (l : list entry) : bool :=
  forallb (fun e : entry => pfree2 k (fst e)) l.

(** over the specification state and the operation *)
Definition op_pf (s : sstate) (o : op) : bool :=
  match op_key o with
  | Some k => bytesb k && pfreeb k (fst s)
  | None => true
  end.

(** Prop versions (used by the invariant and the proofs) *)
Definition is_pre (a b : list Z) : Prop := firstn (length a) b = a.
Definition pf2 (a b : list Z) : Prop := is_pre a b \/ is_pre b a -> a = b.
Definition pfk (k : list Z) (l : list entry) : Prop := Forall (fun e : entry => pf2 k (fst e)) l.

(** * hypothesis 2: the 7-byte prefix capacity is not hit *)

Fixpoint insert_fits (fuel : nat) (n : node) (k : list Z) (depth : nat) : bool :=
  match fuel with
  | O => true
  | S f =>
      match n with
      | Leaf _ lk _ =>
          match lex_compare k lk with
          | Eq => true
          | _ =>
              let rem := skipn depth k in
              let k1rem := skipn depth lk in
              let n' := common_pad prefix_capacity k1rem rem in
              match nth_error lk (n' + depth), nth_error rem n' with
              | Some b1, Some b2 => negb (b1 =? b2)
              | _, _ => true
              end
          end
      | Inode c p ch =>
          let rem := skipn depth k in
          if (shared_len p rem <? length p)%nat then true else
          let d := (depth + length p)%nat in
          match nth_error k d with
          | None => true
          | Some b =>
              match find_child ch b O with
              | Some (_, c') => insert_fits f c' k (S d)
              | None => true
              end
          end
      end
  end.

Fixpoint remove_fits (fuel : nat) (n : node) (k : list Z) (depth : nat) : bool :=
  match fuel with
  | O => true
  | S f =>
      match n with
      | Leaf _ _ _ => true
      | Inode c p ch =>
          let rem := skipn depth k in
          if (shared_len p rem <? length p)%nat then true else
          let d := (depth + length p)%nat in
          match nth_error k d with
          | None => true
          | Some b =>
              match find_child ch b O with
              | None => true
              | Some (i, Leaf _ lk _) =>
                  match lex_compare k lk with
                  | Eq =>
                      if Nat.eqb (length ch) (min_size c) then
                        match c with
                        | C4 =>
                            match nth_error ch (if Nat.eqb i 0 then 1 else 0)%nat with
                            | Some (_, Inode _ p3 _) =>
                                (length p + 1 + length p3 <=? prefix_capacity)%nat
                            | _ => true
                            end
                        | _ => true
                        end
                      else true
                  | _ => true
                  end
              | Some (_, c') => remove_fits f c' k (S d)
              end
          end
      end
  end.

(** evaluated on the model state before the step *)
Definition op_fits (d : db) (o : op) : bool :=
  match o with
  | OInsert k _ =>
      match root d with Some n => insert_fits (fuel_for k) n k O | None => true end
  | ORemove k =>
      match root d with Some n => remove_fits (fuel_for k) n k O | None => true end
  | _ => true
  end.

(** both hypotheses at every step of a history, computed along the model run
    and the specification run *)
Fixpoint hist_ok (sz : sizes) (d : db) (s : sstate) (ops : list op) : bool :=
  match ops with
  | [] => true
  | o :: ops' =>
      op_pf s o && op_fits d o &&
      hist_ok sz (fst (step sz d o)) (fst (spec_step s o)) ops'
  end.

(** * the generalised invariant *)

(** [WFg n pi]: subtree [n] reached after consuming the key bytes [pi]:
    - every leaf below holds a byte-string key extending the path to it;
    - an inner node's prefix holds at most 7 bytes, its child bytes are
      strictly increasing bytes, and its class is the one its fan-out requires.
    Since every inner node has at least two children and every leaf extends
    its path, path + prefix of an inner node is strictly shorter than every
    key below it, and any two different keys in the tree differ at a position
    inside both: the stored key set is prefix-free by construction
    ([WFg_shorter], [WFg_pairwise] in ArtGenLemmas). *)
Fixpoint WFg (n : node) (pi : list Z) : Prop :=
  match n with
  | Leaf _ k _ => Forall is_byte_z k /\ firstn (length pi) k = pi
  | Inode c p ch =>
      (length p <= prefix_capacity)%nat /\ Forall is_byte_z p /\
      keys_sorted ch /\ (min_size c <= length ch <= cap c)%nat /\
      (fix wfl (l : list (Z * node)) : Prop :=
         match l with
         | [] => True
         | (b, c') :: l' => is_byte_z b /\ WFg c' (pi ++ p ++ [b]) /\ wfl l'
         end) ch
  end.

Definition db_WFg (d : db) : Prop :=
  match root d with None => True | Some n => WFg n [] end.

(** the specification state reached by a history *)
Fixpoint spec_state (s : sstate) (ops : list op) : sstate :=
  match ops with
  | [] => s
  | o :: ops' => spec_state (fst (spec_step s o)) ops'
  end.

(** hypothesis 1 alone, along the specification run *)
Fixpoint hist_pf (s : sstate) (ops : list op) : bool :=
  match ops with
  | [] => true
  | o :: ops' => op_pf s o && hist_pf (fst (spec_step s o)) ops'
  end.
