(** C16: the hand-written classification of the assertions (Art/ArtAsserts.v)
    and the inventory regenerated from /repo's headers on every run
    (Gen/GenAsserts.v) contain the same (header:scope, expression) pairs with
    the same multiplicities.  Adding, deleting, moving or editing an
    UNODB_DETAIL_ASSERT in art.hpp / art_internal.hpp / art_internal_impl.hpp
    breaks this obligation until the classification is revisited. *)
From Coq Require Import String List Bool Arith.
From Unodb Require Import Gen.GenAsserts Art.ArtAsserts.
Import ListNotations.

Lemma asserts_inventory_matches : same_asserts gen_asserts classified_asserts = true.
Proof. vm_compute. reflexivity. Qed.

Lemma asserts_inventory_count :
  length gen_asserts = gen_asserts_count /\
  length modelled_asserts + length unmodelled_asserts = gen_asserts_count.
Proof. vm_compute. split; reflexivity. Qed.

Lemma asserts_checks_named : checks_named = true.
Proof. vm_compute. reflexivity. Qed.

(** [same_asserts] is sound: equal counts of every pair *)
Lemma same_asserts_sound a b : same_asserts a b = true ->
  length a = length b /\ forall x, In x a \/ In x b -> count_pair x a = count_pair x b.
Proof.
  unfold same_asserts. intros H. apply andb_true_iff in H. destruct H as [H1 H2].
  split; [now apply Nat.eqb_eq|]. intros x Hx. rewrite forallb_forall in H2.
  apply Nat.eqb_eq, H2, in_or_app. exact Hx.
Qed.
