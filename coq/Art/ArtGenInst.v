(** The fixed-length domain of C01 (keys of one length L in 1..8) satisfies
    both hypotheses of the variable-length theorems: keys of equal length are
    prefix-free, and under [WF L] neither the leaf split nor the collapse can
    need more than 7 prefix bytes. *)
From Coq Require Import List ZArith Bool Lia Sorted Permutation.
From Unodb Require Import Base.Lex Art.ArtModel Art.ArtIter Art.ArtSpec Art.ArtInv Art.ArtLemmas
  Art.ArtProofs Art.ArtGenInv Art.ArtGenLemmas Art.ArtGenProofs Art.ArtGenRun.
Import ListNotations.

Lemma descend_ext L k c p ch pi b : key_ok L k -> WF L (Inode c p ch) pi -> ext pi k ->
  (shared_len p (skipn (length pi) k) <? length p) = false ->
  nth_error k (length pi + length p) = Some b -> ext (pi ++ p ++ [b]) k.
Proof.
  intros [HkL _] HWF Hext Hsl Hb. apply WF_inode in HWF. destruct HWF as (Hlen & _).
  apply Nat.ltb_ge in Hsl. assert (Hle := shared_len_le p (skipn (length pi) k)).
  assert (Hrem : length p <= length (skipn (length pi) k)) by (rewrite skipn_length; lia).
  assert (Hep : ext p (skipn (length pi) k)) by (apply shared_len_full; [exact Hrem|lia]).
  apply (ext_skipn pi p k Hext) in Hep.
  rewrite app_assoc. apply ext_snoc; [exact Hep|]. now rewrite app_length.
Qed.

Lemma insert_fits_WF L k : 1 <= L <= 8 -> key_ok L k -> forall fuel n pi,
  WF L n pi -> ext pi k -> insert_fits fuel n k (length pi) = true.
Proof.
  intros HL Hk. induction fuel as [|f IH]; intros n pi HWF Hext; [reflexivity|].
  destruct n as [lid lk lv|c p ch].
  - apply WF_leaf in HWF. destruct HWF as [Hlk Hextl].
    cbn [insert_fits].
    destruct (list_Z_eq_dec k lk) as [->|Hne]; [now rewrite lex_compare_refl|].
    assert (Hg : (let rem := skipn (length pi) k in
                  let k1rem := skipn (length pi) lk in
                  let n' := common_pad prefix_capacity k1rem rem in
                  match nth_error lk (n' + length pi), nth_error rem n' with
                  | Some b1, Some b2 => negb (Z.eqb b1 b2)
                  | _, _ => true
                  end) = true).
    { cbv zeta. destruct Hlk as [HlkL _]. destruct Hk as [HkL _].
      assert (Hpik := ext_length _ _ Hext). assert (Hpilk := ext_length _ _ Hextl).
      set (rem := skipn (length pi) k). set (k1rem := skipn (length pi) lk).
      assert (Hrne : k1rem <> rem).
      { intros HE. apply Hne. apply (skipn_eq_ext pi); [exact Hext|exact Hextl|]. now symmetry. }
      assert (Hl1 : length k1rem = L - length pi) by (unfold k1rem; rewrite skipn_length; lia).
      assert (Hl2 : length rem = L - length pi) by (unfold rem; rewrite skipn_length; lia).
      destruct (common_pad_split prefix_capacity k1rem rem (L - length pi) Hl1 Hl2 ltac:(unfold prefix_capacity; lia) Hrne)
        as (Hn' & Hfst & x & y & Hx & Hy & Hxy).
      set (n' := common_pad prefix_capacity k1rem rem) in *.
      rewrite Hy. unfold k1rem in Hx. rewrite nth_error_skipn' in Hx.
      rewrite (Nat.add_comm n' (length pi)), Hx.
      apply negb_true_iff. now apply Z.eqb_neq. }
    destruct (lex_compare k lk); [reflexivity|exact Hg|exact Hg].
  - cbn [insert_fits].
    destruct (shared_len p (skipn (length pi) k) <? length p) eqn:Hsl; [reflexivity|].
    destruct (nth_error k (length pi + length p)) as [b|] eqn:Hb; [|reflexivity].
    destruct (find_child ch b 0) as [[i c']|] eqn:Hfc; [|reflexivity].
    apply find_child_some in Hfc. destruct Hfc as (l1 & l2 & -> & _).
    destruct (child_of_WF _ _ _ _ _ _ _ _ HWF) as [_ Hc'].
    assert (Hext' := descend_ext L k _ _ _ _ b Hk HWF Hext Hsl Hb).
    replace (S (length pi + length p)) with (length (pi ++ p ++ [b])) by (rewrite !app_length; cbn; lia).
    now apply IH.
Qed.

Lemma remove_fits_WF L k : 1 <= L <= 8 -> key_ok L k -> forall fuel n pi,
  WF L n pi -> ext pi k -> remove_fits fuel n k (length pi) = true.
Proof.
  intros HL Hk. induction fuel as [|f IH]; intros n pi HWF Hext; [reflexivity|].
  destruct n as [lid lk lv|c p ch]; [reflexivity|].
  cbn [remove_fits].
  destruct (shared_len p (skipn (length pi) k) <? length p) eqn:Hsl; [reflexivity|].
  destruct (nth_error k (length pi + length p)) as [b|] eqn:Hb; [|reflexivity].
  destruct (find_child ch b 0) as [[i c']|] eqn:Hfc; [|reflexivity].
  destruct c' as [lid lk lv|c3 p3 ch3].
  - destruct (lex_compare k lk); try reflexivity.
    destruct (Nat.eqb (length ch) (min_size c)); [|reflexivity].
    destruct c; try reflexivity.
    destruct (nth_error ch (if Nat.eqb i 0 then 1 else 0)) as [[sb s]|] eqn:Hn; [|reflexivity].
    destruct s as [|c3 p3 ch3]; [reflexivity|].
    apply Nat.leb_le. apply nth_error_In in Hn.
    apply WF_inode in HWF. destruct HWF as (_ & _ & _ & _ & _ & Hch).
    unfold WFch in Hch. rewrite Forall_forall in Hch. destruct (Hch _ Hn) as [_ Hs]. cbn [fst snd] in Hs.
    apply WF_inode in Hs. destruct Hs as (Hlen & _). rewrite !app_length in Hlen. cbn [length] in Hlen.
    unfold prefix_capacity. lia.
  - apply find_child_some in Hfc. destruct Hfc as (l1 & l2 & -> & _).
    destruct (child_of_WF _ _ _ _ _ _ _ _ HWF) as [_ Hc'].
    assert (Hext' := descend_ext L k _ _ _ _ b Hk HWF Hext Hsl Hb).
    replace (S (length pi + length p)) with (length (pi ++ p ++ [b])) by (rewrite !app_length; cbn; lia).
    now apply IH.
Qed.

Lemma op_pf_fixed L s o : Forall (fun e : entry => key_ok L (fst e)) (fst s) -> op_ok L o -> op_pf s o = true.
Proof.
  intros Hkeys Hop. unfold op_pf, op_ok in *. destruct (op_key o) as [k|]; [|reflexivity].
  destruct Hop as [HkL HkB]. apply andb_true_iff. split; [now apply bytesb_iff|].
  apply pfreeb_iff. unfold pfk. eapply Forall_impl; [|exact Hkeys]. cbn beta.
  intros e [HeL _]. apply pf2_same_length. congruence.
Qed.

Lemma op_fits_fixed L d o : 1 <= L <= 8 -> db_WF L d -> op_ok L o -> op_fits d o = true.
Proof.
  intros HL HWF Hop. unfold op_fits, db_WF, op_ok in *.
  destruct o as [k|k v|k| |]; cbn [op_key] in Hop; try reflexivity.
  - destruct (root d) as [n|]; [|reflexivity].
    exact (insert_fits_WF L k HL Hop (fuel_for k) n [] HWF (ext_nil k)).
  - destruct (root d) as [n|]; [|reflexivity].
    exact (remove_fits_WF L k HL Hop (fuel_for k) n [] HWF (ext_nil k)).
Qed.

Lemma hist_ok_fixed L sz : 1 <= L <= 8 -> forall ops d s, Inv L d s -> Forall (op_ok L) ops ->
  hist_ok sz d s ops = true.
Proof.
  intros HL. induction ops as [|o ops IH]; intros d s HInv Hops; [reflexivity|].
  apply Forall_cons_iff in Hops. destruct Hops as [Ho Hops].
  cbn [hist_ok]. destruct (step_correct L sz d s o HL HInv Ho) as [_ HInv'].
  destruct HInv as (HWF & _ & Hkeys & _).
  rewrite (op_pf_fixed L s o Hkeys Ho), (op_fits_fixed L d o HL HWF Ho). cbn [andb].
  now apply IH.
Qed.

Theorem fixed_length_hist_ok : forall L sz ops, (1 <= L <= 8)%nat -> Forall (op_ok L) ops ->
  hist_ok sz db0 ([], 0%Z) ops = true.
Proof. intros L sz ops HL Hops. exact (hist_ok_fixed L sz HL ops db0 _ (Inv_init L) Hops). Qed.

(** so the fixed-length refinement theorem is a corollary of the general one *)
Theorem fixed_length_corollary : forall L sz ops, (1 <= L <= 8)%nat -> Forall (op_ok L) ops ->
  run sz db0 ops = spec_run ([], 0%Z) ops.
Proof.
  intros L sz ops HL Hops. apply run_refines_spec_g. now apply (fixed_length_hist_ok L).
Qed.

(** and the fixed-length invariant implies the general one *)
Theorem db_WF_WFg : forall L d, db_WF L d -> db_WFg d.
Proof.
  intros L d. unfold db_WF, db_WFg. destruct (root d); [apply WF_WFg|trivial].
Qed.

(** * the capacity guard of the collapse is needed for the invariant

    The model keeps a key prefix as a byte list of any length, so
    [prepend_prefix] itself never loses bytes; the C++ [key_prefix::prepend]
    asserts [length() + prefix1.length() < key_prefix_capacity] (and in a
    release build shifts the bytes out of the 64-bit word).  Without the
    collapse guard the model leaves the representable states: the prefix of
    the surviving node exceeds the 7 bytes a [key_prefix] holds. *)
Lemma db_WFg_root_prefix d c p ch : db_WFg d -> root d = Some (Inode c p ch) ->
  length p <= prefix_capacity.
Proof.
  unfold db_WFg. intros H E. rewrite E in H. apply WFg_inode in H. tauto.
Qed.

Theorem collapse_overflow_refuted : exists sz ops,
  hist_pf ([], 0%Z) ops = true /\ hist_ok sz db0 ([], 0%Z) (removelast ops) = true /\
  op_fits (run_state sz db0 (removelast ops)) (last ops OEmpty) = false /\
  ~ db_WFg (run_state sz db0 ops).
Proof.
  exists {| sz_leaf := 11; sz4 := 48; sz16 := 160; sz48 := 672; sz256 := 2064 |}%Z.
  exists [OInsert [1;2;9] [1]; OInsert [1;2;3;4;5;6;7;8;9;1] [2]; OInsert [1;2;3;4;5;6;7;8;9;2] [3];
          OGet [1;2;3;4;5;6;7;8;9;1]; ORemove [1;2;9]]%Z.
  split; [vm_compute; reflexivity|]. split; [vm_compute; reflexivity|]. split; [vm_compute; reflexivity|].
  intros H.
  assert (E : exists c p ch, root (run_state {| sz_leaf := 11; sz4 := 48; sz16 := 160; sz48 := 672; sz256 := 2064 |}%Z db0
          [OInsert [1;2;9] [1]; OInsert [1;2;3;4;5;6;7;8;9;1] [2]; OInsert [1;2;3;4;5;6;7;8;9;2] [3];
           OGet [1;2;3;4;5;6;7;8;9;1]; ORemove [1;2;9]]%Z) = Some (Inode c p ch) /\ length p = 9).
  { vm_compute. eexists _, _, _. split; reflexivity. }
  destruct E as (c & p & ch & E & HL).
  assert (H7 := db_WFg_root_prefix _ _ _ _ H E). unfold prefix_capacity in H7. lia.
Qed.
