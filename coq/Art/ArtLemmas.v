(** Auxiliary lemmas for the ART model proofs: lists, association lists,
    key prefixes, the padded comparison, child-array operations, and the
    structural consequences of [WF]. *)
From Coq Require Import List ZArith Bool Lia Sorted Permutation.
From Unodb Require Import Base.Lex Art.ArtModel Art.ArtIter Art.ArtSpec Art.ArtInv.
Import ListNotations.

(** * lex_eqb *)

Lemma lex_eqb_eq a b : lex_eqb a b = true <-> a = b.
Proof.
  unfold lex_eqb. rewrite <- lex_compare_eq.
  destruct (lex_compare a b); split; congruence.
Qed.

Lemma lex_eqb_refl a : lex_eqb a a = true.
Proof. now apply lex_eqb_eq. Qed.

Lemma lex_eqb_neq a b : a <> b -> lex_eqb a b = false.
Proof.
  intros H. destruct (lex_eqb a b) eqn:E; [|reflexivity].
  apply lex_eqb_eq in E. contradiction.
Qed.

Lemma lex_eqb_false a b : lex_eqb a b = false -> a <> b.
Proof. intros E ->. rewrite lex_eqb_refl in E. discriminate. Qed.

Lemma list_Z_eq_dec (a b : list Z) : {a = b} + {a <> b}.
Proof. apply list_eq_dec, Z.eq_dec. Qed.

(** * assoc *)

Lemma assoc_app k l1 l2 :
  assoc k (l1 ++ l2) = match assoc k l1 with Some x => Some x | None => assoc k l2 end.
Proof.
  induction l1 as [|[k' x] l1 IH]; cbn [assoc app]; [reflexivity|].
  destruct (lex_eqb k k'); [reflexivity|exact IH].
Qed.

Lemma assoc_none k l : assoc k l = None <-> ~ In k (map fst l).
Proof.
  induction l as [|[k' x] l IH]; cbn [assoc map In fst].
  - split; [intros _ []|reflexivity].
  - destruct (lex_eqb k k') eqn:E.
    + apply lex_eqb_eq in E. subst k'. split; [discriminate|]. intros H. exfalso. apply H. now left.
    + apply lex_eqb_false in E. rewrite IH. split.
      * intros H [H1|H1]; [congruence|contradiction].
      * intros H H1. apply H. now right.
Qed.

Lemma assoc_some_in k x l : assoc k l = Some x -> In (k, x) l.
Proof.
  induction l as [|[k' y] l IH]; cbn [assoc In]; [discriminate|].
  destruct (lex_eqb k k') eqn:E.
  - apply lex_eqb_eq in E. subst k'. intros H. injection H as ->. now left.
  - intros H. right. now apply IH.
Qed.

Lemma in_assoc k x l : NoDup (map fst l) -> In (k, x) l -> assoc k l = Some x.
Proof.
  induction l as [|[k' y] l IH]; cbn [assoc In map fst]; [intros _ []|].
  intros ND [H|H].
  - injection H as -> ->. now rewrite lex_eqb_refl.
  - apply NoDup_cons_iff in ND. destruct ND as [Hn ND].
    destruct (lex_eqb k k') eqn:E.
    + apply lex_eqb_eq in E. subst k'. exfalso. apply Hn.
      change k with (fst (k, x)). now apply in_map.
    + now apply IH.
Qed.

Lemma assoc_perm k l l' : NoDup (map fst l) -> Permutation l l' -> assoc k l = assoc k l'.
Proof.
  intros ND HP.
  assert (ND' : NoDup (map fst l')).
  { eapply Permutation_NoDup; [|exact ND]. now apply Permutation_map. }
  destruct (assoc k l) as [x|] eqn:E.
  - symmetry. apply in_assoc; [exact ND'|].
    eapply Permutation_in; [exact HP|]. now apply assoc_some_in.
  - symmetry. apply assoc_none. apply assoc_none in E. intros H. apply E.
    eapply Permutation_in; [|exact H]. apply Permutation_map. now apply Permutation_sym.
Qed.

Lemma assoc_cons k k' x l :
  assoc k ((k', x) :: l) = if lex_eqb k k' then Some x else assoc k l.
Proof. reflexivity. Qed.

Lemma assoc_sremove k k' l :
  assoc k' (sremove k l) = if lex_eqb k' k then None else assoc k' l.
Proof.
  induction l as [|[k2 x] l IH]; cbn [sremove assoc].
  - now destruct (lex_eqb k' k).
  - destruct (lex_eqb k k2) eqn:E.
    + apply lex_eqb_eq in E. subst k2. rewrite IH. now destruct (lex_eqb k' k).
    + cbn [assoc]. rewrite IH. destruct (lex_eqb k' k) eqn:E2; [|reflexivity].
      apply lex_eqb_eq in E2. subst k'. now rewrite E.
Qed.

Lemma sremove_keys P k l :
  Forall (fun e : entry => P (fst e)) l -> Forall (fun e : entry => P (fst e)) (sremove k l).
Proof.
  induction 1 as [|[k2 x] l H1 H2 IH]; cbn [sremove]; [constructor|].
  destruct (lex_eqb k k2); [exact IH|now constructor].
Qed.

(** * NoDup of an append *)

Lemma NoDup_app_intro {A} (l1 l2 : list A) :
  NoDup l1 -> NoDup l2 -> (forall x, In x l1 -> ~ In x l2) -> NoDup (l1 ++ l2).
Proof.
  induction l1 as [|a l1 IH]; cbn [app]; intros H1 H2 H; [exact H2|].
  apply NoDup_cons_iff in H1. destruct H1 as [Ha H1].
  constructor.
  - rewrite in_app_iff. intros [H3|H3]; [contradiction|]. apply (H a); [now left|exact H3].
  - apply IH; [exact H1|exact H2|]. intros x Hx. apply H. now right.
Qed.

(** * prefixes *)

Definition ext (pi k : list Z) : Prop := firstn (length pi) k = pi.

Lemma ext_iff pi k : ext pi k <-> exists s, k = pi ++ s.
Proof.
  unfold ext. split.
  - intros H. exists (skipn (length pi) k). rewrite <- H at 1. symmetry. apply firstn_skipn.
  - intros [s ->]. rewrite firstn_app, Nat.sub_diag, firstn_all. cbn [firstn]. apply app_nil_r.
Qed.

Lemma ext_nil k : ext [] k.
Proof. reflexivity. Qed.

Lemma ext_length pi k : ext pi k -> length pi <= length k.
Proof. intros [s ->]%ext_iff. rewrite app_length. lia. Qed.

Lemma ext_app_l a b k : ext (a ++ b) k -> ext a k.
Proof.
  intros [s ->]%ext_iff. apply ext_iff. exists (b ++ s). now rewrite app_assoc.
Qed.

Lemma ext_skipn pi p k : ext pi k -> (ext p (skipn (length pi) k) <-> ext (pi ++ p) k).
Proof.
  intros [s ->]%ext_iff.
  rewrite skipn_app, Nat.sub_diag, skipn_all. cbn [skipn app].
  rewrite !ext_iff. split; intros [t H]; exists t.
  - rewrite H. now rewrite app_assoc.
  - rewrite <- app_assoc in H. now apply app_inv_head in H.
Qed.

Lemma ext_snoc_inv a b k : ext (a ++ [b]) k -> ext a k /\ nth_error k (length a) = Some b.
Proof.
  intros H. split; [now apply ext_app_l in H|].
  apply ext_iff in H. destruct H as [s ->].
  rewrite <- app_assoc. rewrite nth_error_app2 by lia. now rewrite Nat.sub_diag.
Qed.

Lemma ext_snoc a b k : ext a k -> nth_error k (length a) = Some b -> ext (a ++ [b]) k.
Proof.
  intros [s ->]%ext_iff H.
  rewrite nth_error_app2 in H by lia. rewrite Nat.sub_diag in H.
  destruct s as [|x s]; cbn in H; [discriminate|]. injection H as ->.
  apply ext_iff. exists s. now rewrite <- app_assoc.
Qed.

Lemma ext_same_length a k : ext a k -> length a = length k -> k = a.
Proof.
  intros [s ->]%ext_iff H. rewrite app_length in H.
  destruct s; [now rewrite app_nil_r|cbn in H; lia].
Qed.

Lemma nth_error_skipn' {A} (l : list A) d n : nth_error (skipn d l) n = nth_error l (d + n).
Proof.
  revert l; induction d as [|d IH]; intros l; [reflexivity|].
  destruct l as [|x l]; [now destruct n|]. cbn [skipn Nat.add nth_error]. apply IH.
Qed.

Lemma nth_error_decomp {A} (l : list A) n x :
  nth_error l n = Some x -> l = firstn n l ++ x :: skipn (S n) l.
Proof.
  revert l; induction n as [|n IH]; intros [|y l] H; try discriminate.
  - cbn in H. injection H as ->. reflexivity.
  - cbn [nth_error] in H. cbn [firstn skipn app]. f_equal. now apply IH.
Qed.

Lemma app_eq_len {A} (a a' b b' : list A) :
  length a = length a' -> a ++ b = a' ++ b' -> a = a' /\ b = b'.
Proof.
  revert a'; induction a as [|x a IH]; intros [|y a'] HL H; try discriminate.
  - now split.
  - cbn in *. injection H as -> H. injection HL as HL. destruct (IH _ HL H) as [-> ->]. now split.
Qed.

(** * the padded comparison *)

Lemma common_pad_le n : forall a b, common_pad n a b <= n.
Proof.
  induction n as [|n IH]; intros a b; cbn [common_pad]; [lia|].
  destruct (Z.eqb _ _); [|lia]. specialize (IH (tl a) (tl b)). lia.
Qed.

Lemma common_pad_spec n : forall a b, n <= length a -> n <= length b ->
  firstn (common_pad n a b) a = firstn (common_pad n a b) b /\
  (common_pad n a b < n ->
   exists x y, nth_error a (common_pad n a b) = Some x /\
               nth_error b (common_pad n a b) = Some y /\ x <> y).
Proof.
  induction n as [|n IH]; intros a b Ha Hb; cbn [common_pad].
  - split; [reflexivity|lia].
  - destruct a as [|x a]; [cbn in Ha; lia|]. destruct b as [|y b]; [cbn in Hb; lia|].
    cbn [hd tl length] in *. destruct (Z.eqb_spec x y) as [->|Hne].
    + destruct (IH a b ltac:(lia) ltac:(lia)) as [H1 H2]. split.
      * cbn [firstn]. now f_equal.
      * intros H. destruct (H2 ltac:(lia)) as (x' & y' & ? & ? & ?).
        exists x', y'. cbn [nth_error]. now repeat split.
    + split; [reflexivity|]. intros _. exists x, y. cbn. now repeat split.
Qed.

Lemma common_pad_full n : forall a b, n <= length a -> n <= length b ->
  firstn n a = firstn n b -> common_pad n a b = n.
Proof.
  induction n as [|n IH]; intros a b Ha Hb H; cbn [common_pad]; [reflexivity|].
  destruct a as [|x a]; [cbn in Ha; lia|]. destruct b as [|y b]; [cbn in Hb; lia|].
  cbn [hd tl length firstn] in *. injection H as -> H. rewrite Z.eqb_refl. f_equal.
  apply IH; [lia|lia|exact H].
Qed.

Lemma shared_len_le p rem : shared_len p rem <= length p.
Proof. apply common_pad_le. Qed.

Lemma shared_len_full p rem : length p <= length rem ->
  (shared_len p rem = length p <-> ext p rem).
Proof.
  intros HL. unfold shared_len, ext. split.
  - intros H. destruct (common_pad_spec (length p) p rem (le_n _) HL) as [H1 _].
    rewrite H in H1. rewrite firstn_all in H1. now symmetry.
  - intros H. apply common_pad_full; [lia|exact HL|]. now rewrite firstn_all.
Qed.

Lemma shared_len_lt p rem : length p <= length rem -> shared_len p rem < length p ->
  firstn (shared_len p rem) p = firstn (shared_len p rem) rem /\
  exists x y, nth_error p (shared_len p rem) = Some x /\
              nth_error rem (shared_len p rem) = Some y /\ x <> y.
Proof.
  intros HL Hlt. unfold shared_len in *.
  destruct (common_pad_spec (length p) p rem (le_n _) HL) as [H1 H2]. split; [exact H1|now apply H2].
Qed.

(** two different strings of the same length m <= n+1: the comparison stops
    strictly inside, at a differing byte (no zero padding is ever looked at) *)
Lemma common_pad_split n : forall a b m, length a = m -> length b = m -> m <= S n -> a <> b ->
  common_pad n a b < m /\
  firstn (common_pad n a b) a = firstn (common_pad n a b) b /\
  exists x y, nth_error a (common_pad n a b) = Some x /\
              nth_error b (common_pad n a b) = Some y /\ x <> y.
Proof.
  induction n as [|n IH]; intros a b m Ha Hb Hm Hne; cbn [common_pad].
  - destruct a as [|x a]; destruct b as [|y b]; cbn [length] in *; try (exfalso; lia).
    + now contradiction Hne.
    + assert (a = []) as -> by (destruct a; [reflexivity|cbn in Ha; lia]).
      assert (b = []) as -> by (destruct b; [reflexivity|cbn in Hb; lia]).
      split; [lia|]. split; [reflexivity|]. exists x, y. cbn. repeat split. congruence.
  - destruct a as [|x a]; destruct b as [|y b]; cbn [length] in *; try (exfalso; lia).
    + now contradiction Hne.
    + cbn [hd tl]. destruct (Z.eqb_spec x y) as [->|Hxy].
      * assert (Hab : a <> b) by congruence.
        destruct (IH a b (length a) eq_refl ltac:(lia) ltac:(lia) Hab) as (H1 & H2 & x' & y' & H3 & H4 & H5).
        split; [lia|]. split; [cbn [firstn]; now f_equal|].
        exists x', y'. cbn [nth_error]. now repeat split.
      * split; [lia|]. split; [reflexivity|]. exists x, y. cbn. now repeat split.
Qed.

Lemma firstn_pad8 n l : n <= length l -> firstn n (pad8 l) = firstn n l.
Proof.
  intros H. unfold pad8. rewrite firstn_app.
  replace (n - length l) with 0 by lia. cbn [firstn]. apply app_nil_r.
Qed.

(** * sorted key bytes *)

Lemma ssorted_nodup l : StronglySorted Z.lt l -> NoDup l.
Proof.
  induction 1 as [|a l H IH HF]; constructor; [|exact IH].
  intros HI. rewrite Forall_forall in HF. specialize (HF a HI). lia.
Qed.

Lemma ssorted_remove_mid l1 : forall (x : Z) l2,
  StronglySorted Z.lt (l1 ++ x :: l2) -> StronglySorted Z.lt (l1 ++ l2).
Proof.
  induction l1 as [|a l1 IH]; intros x l2 H; cbn [app] in *.
  - now apply StronglySorted_inv in H.
  - apply StronglySorted_inv in H. destruct H as [H1 H2]. constructor.
    + eapply IH; exact H1.
    + apply Forall_app in H2. destruct H2 as [H2 H3]. apply Forall_app. split; [exact H2|].
      now apply Forall_cons_iff in H3.
Qed.

Lemma ssorted_length_bound l : forall lo hi,
  StronglySorted Z.lt l -> Forall (fun x => lo <= x < hi)%Z l -> (Z.of_nat (length l) <= Z.max 0 (hi - lo))%Z.
Proof.
  induction l as [|a l IH]; intros lo hi HS HF; cbn [length]; [lia|].
  apply StronglySorted_inv in HS. destruct HS as [HS Ha].
  apply Forall_cons_iff in HF. destruct HF as [Hlo HF].
  assert (HF' : Forall (fun x => a + 1 <= x < hi)%Z l).
  { rewrite Forall_forall in *. intros x Hx. specialize (Ha x Hx). specialize (HF x Hx). lia. }
  specialize (IH (a + 1)%Z hi HS HF'). lia.
Qed.

Lemma keys_sorted_length ch : keys_sorted ch -> Forall (fun bc : Z * node => is_byte_z (fst bc)) ch ->
  length ch <= 256.
Proof.
  intros HS HF. unfold keys_sorted in HS.
  assert (H := ssorted_length_bound (map fst ch) 0 256 HS).
  rewrite map_length in H. apply Nat2Z.inj_le.
  etransitivity; [apply H|]; [|lia].
  apply Forall_map. exact HF.
Qed.

(** * child-array operations *)

Lemma find_child_some ch : forall b j i c', find_child ch b j = Some (i, c') ->
  exists l1 l2, ch = l1 ++ (b, c') :: l2 /\ i = j + length l1.
Proof.
  induction ch as [|[x c] ch IH]; intros b j i c' H; cbn [find_child] in H; [discriminate|].
  destruct (Z.eqb_spec x b) as [->|Hne].
  - injection H as <- <-. exists [], ch. cbn. split; [reflexivity|lia].
  - destruct (IH _ _ _ _ H) as (l1 & l2 & -> & ->). exists ((x, c) :: l1), l2. cbn. split; [reflexivity|lia].
Qed.

Lemma find_child_none ch : forall b j, find_child ch b j = None -> ~ In b (map fst ch).
Proof.
  induction ch as [|[x c] ch IH]; intros b j H; cbn [find_child map fst In] in *; [tauto|].
  destruct (Z.eqb_spec x b) as [->|Hne]; [discriminate|].
  intros [H1|H1]; [contradiction|]. exact (IH _ _ H H1).
Qed.

Lemma replace_nth_mid {A} (l1 : list A) x y l2 :
  replace_nth (length l1) y (l1 ++ x :: l2) = l1 ++ y :: l2.
Proof. induction l1 as [|a l1 IH]; cbn; [reflexivity|now f_equal]. Qed.

Lemma remove_nth_mid {A} (l1 : list A) x l2 :
  remove_nth (length l1) (l1 ++ x :: l2) = l1 ++ l2.
Proof. induction l1 as [|a l1 IH]; cbn; [reflexivity|now f_equal]. Qed.

Lemma insert_at_perm {A} i (x : A) : forall l, Permutation (insert_at i x l) (x :: l).
Proof.
  induction i as [|i IH]; intros l; cbn [insert_at]; [reflexivity|].
  destruct l as [|y l]; [reflexivity|].
  etransitivity; [apply perm_skip, IH|apply perm_swap].
Qed.

Lemma insert_at_length {A} i (x : A) l : length (insert_at i x l) = S (length l).
Proof. apply (Permutation_length (insert_at_perm i x l)). Qed.

Lemma insert_at_Forall {A} (P : A -> Prop) i x l :
  P x -> Forall P l -> Forall P (insert_at i x l).
Proof.
  intros Hx Hl. rewrite Forall_forall in *. intros y Hy.
  apply (Permutation_in _ (insert_at_perm i x l)) in Hy. destruct Hy as [<-|Hy]; auto.
Qed.

Lemma count_le_zero ch b : Forall (fun y => b < y)%Z (map fst ch) -> count_le ch b = 0.
Proof.
  induction ch as [|[x c] ch IH]; cbn [map fst count_le]; [reflexivity|].
  intros H. apply Forall_cons_iff in H. destruct H as [H1 H2].
  destruct (Z.leb_spec x b); [lia|]. now apply IH.
Qed.

Lemma first_ge_sorted ch b n : keys_sorted ch -> ~ In b (map fst ch) ->
  keys_sorted (insert_at (first_ge ch b) (b, n) ch).
Proof.
  unfold keys_sorted. induction ch as [|[x c] ch IH]; cbn [map fst first_ge insert_at In]; intros HS Hn.
  - repeat constructor.
  - apply StronglySorted_inv in HS. destruct HS as [HS Hx].
    destruct (Z.leb_spec b x) as [Hle|Hlt]; cbn [insert_at map fst].
    + assert (b < x)%Z by (assert (x <> b) by tauto; lia).
      constructor; [constructor; assumption|].
      constructor; [assumption|]. rewrite Forall_forall in *. intros y Hy. specialize (Hx y Hy). lia.
    + constructor; [apply IH; tauto|].
      apply Forall_map. apply insert_at_Forall; [cbn; lia|]. now apply Forall_map.
Qed.

Lemma count_le_first_ge ch b : keys_sorted ch -> ~ In b (map fst ch) -> count_le ch b = first_ge ch b.
Proof.
  unfold keys_sorted. induction ch as [|[x c] ch IH]; cbn [map fst first_ge count_le In]; intros HS Hn; [reflexivity|].
  apply StronglySorted_inv in HS. destruct HS as [HS Hx].
  assert (x <> b) by tauto.
  destruct (Z.leb_spec x b); destruct (Z.leb_spec b x); try lia.
  - f_equal. apply IH; tauto.
  - apply count_le_zero. rewrite Forall_forall in *. intros y Hy. specialize (Hx y Hy). lia.
Qed.

Lemma insert_pos_sorted c ch b n : keys_sorted ch -> ~ In b (map fst ch) ->
  keys_sorted (insert_at (insert_pos c ch b) (b, n) ch).
Proof.
  intros HS Hn. unfold insert_pos.
  destruct c; try now apply first_ge_sorted.
  rewrite count_le_first_ge by assumption. now apply first_ge_sorted.
Qed.

Lemma two_children_perm b1 c1 b2 c2 : Permutation (two_children b1 c1 b2 c2) [(b1, c1); (b2, c2)].
Proof. unfold two_children. destruct (Z.ltb b1 b2); [reflexivity|apply perm_swap]. Qed.

Lemma two_children_sorted b1 c1 b2 c2 : b1 <> b2 -> keys_sorted (two_children b1 c1 b2 c2).
Proof.
  intros H. unfold two_children, keys_sorted. destruct (Z.ltb_spec b1 b2); cbn [map fst].
  - repeat constructor. assumption.
  - repeat constructor. lia.
Qed.

Lemma two_children_length b1 c1 b2 c2 : length (two_children b1 c1 b2 c2) = 2.
Proof. unfold two_children. now destruct (Z.ltb b1 b2). Qed.

Lemma two_children_Forall (P : Z * node -> Prop) b1 c1 b2 c2 :
  P (b1, c1) -> P (b2, c2) -> Forall P (two_children b1 c1 b2 c2).
Proof. intros. unfold two_children. destruct (Z.ltb b1 b2); repeat constructor; assumption. Qed.

(** * induction on nodes *)

Fixpoint node_ind2 (P : node -> Prop)
  (HL : forall id k v, P (Leaf id k v))
  (HI : forall c p ch, Forall (fun bc => P (snd bc)) ch -> P (Inode c p ch))
  (n : node) : P n :=
  match n with
  | Leaf id k v => HL id k v
  | Inode c p ch =>
      HI c p ch
        ((fix go (l : list (Z * node)) : Forall (fun bc => P (snd bc)) l :=
            match l with
            | [] => Forall_nil _
            | (b, c') :: l' => Forall_cons (b, c') (node_ind2 P HL HI c') (go l')
            end) ch)
  end.

Definition cleaves (ch : list (Z * node)) : list entry := flat_map (fun bc => leaves (snd bc)) ch.

Lemma leaves_inode c p ch : leaves (Inode c p ch) = cleaves ch.
Proof.
  unfold cleaves. cbn [leaves].
  induction ch as [|[b c'] ch IH]; cbn [flat_map snd]; [reflexivity|]. now f_equal.
Qed.

Definition WFch (L : nat) (pi p : list Z) (ch : list (Z * node)) : Prop :=
  Forall (fun bc => is_byte_z (fst bc) /\ WF L (snd bc) (pi ++ p ++ [fst bc])) ch.

Lemma WF_inode L c p ch pi :
  WF L (Inode c p ch) pi <->
  length pi + length p < L /\ length p <= prefix_capacity /\ Forall is_byte_z p /\
  keys_sorted ch /\ (min_size c <= length ch <= cap c) /\ WFch L pi p ch.
Proof.
  cbn [WF].
  assert (H : (fix wfl (l : list (Z * node)) : Prop :=
         match l with
         | [] => True
         | (b, c') :: l' => is_byte_z b /\ WF L c' (pi ++ p ++ [b]) /\ wfl l'
         end) ch <-> WFch L pi p ch).
  { unfold WFch. induction ch as [|[b c'] ch IH].
    - split; [constructor|trivial].
    - rewrite Forall_cons_iff. cbn [fst snd]. rewrite <- IH. tauto. }
  rewrite H. tauto.
Qed.

Lemma WF_leaf L id k v pi : WF L (Leaf id k v) pi <-> key_ok L k /\ ext pi k.
Proof. reflexivity. Qed.

Global Opaque WF.

(** * structural consequences of WF *)

Lemma WF_leaves L n : forall pi, WF L n pi ->
  Forall (fun e : entry => key_ok L (fst e) /\ ext pi (fst e)) (leaves n).
Proof.
  induction n as [id k v|c p ch IH] using node_ind2; intros pi H.
  - apply WF_leaf in H. cbn [leaves]. constructor; [exact H|constructor].
  - apply WF_inode in H. destruct H as (_ & _ & _ & _ & _ & H).
    rewrite leaves_inode. unfold cleaves. apply Forall_flat_map.
    unfold WFch in H. rewrite Forall_forall in *. intros [b c'] Hin.
    specialize (IH _ Hin). specialize (H _ Hin). cbn [fst snd] in *. destruct H as [_ H].
    specialize (IH _ H). rewrite Forall_forall in *. intros e He. destruct (IH e He) as [H1 H2].
    split; [exact H1|]. now apply ext_app_l in H2.
Qed.

Definition byte_tag (d : nat) (bc : Z * node) : Prop :=
  forall e, In e (leaves (snd bc)) -> nth_error (fst e) d = Some (fst bc).

Lemma WFch_tags L pi p ch : WFch L pi p ch -> Forall (byte_tag (length pi + length p)) ch.
Proof.
  unfold WFch. rewrite !Forall_forall. intros H [b c'] Hin e He. cbn [fst snd] in *.
  destruct (H _ Hin) as [_ H1]. cbn [fst snd] in H1.
  apply WF_leaves in H1. rewrite Forall_forall in H1. destruct (H1 e He) as [_ H2].
  rewrite app_assoc in H2. apply ext_snoc_inv in H2. rewrite app_length in H2. tauto.
Qed.

Lemma WFch_ext L pi p ch e : WFch L pi p ch -> In e (cleaves ch) -> key_ok L (fst e) /\ ext (pi ++ p) (fst e).
Proof.
  unfold WFch, cleaves. rewrite Forall_forall. intros H He.
  apply in_flat_map in He. destruct He as ([b c'] & Hin & He). cbn [snd] in He.
  destruct (H _ Hin) as [_ H1]. cbn [fst snd] in H1.
  apply WF_leaves in H1. rewrite Forall_forall in H1. destruct (H1 e He) as [H2 H3].
  split; [exact H2|]. rewrite app_assoc in H3. now apply ext_app_l in H3.
Qed.

Lemma tags_notin d k b ch : Forall (byte_tag d) ch -> nth_error k d = Some b ->
  ~ In b (map fst ch) -> assoc k (cleaves ch) = None.
Proof.
  intros HT Hk Hn. apply assoc_none. intros HI. apply in_map_iff in HI.
  destruct HI as (e & <- & He). unfold cleaves in He. apply in_flat_map in He.
  destruct He as (bc & Hin & He). rewrite Forall_forall in HT. specialize (HT _ Hin e He).
  rewrite Hk in HT. injection HT as ->. apply Hn. now apply in_map.
Qed.

Lemma assoc_children d k b ch : Forall (byte_tag d) ch -> nth_error k d = Some b ->
  NoDup (map fst ch) -> forall j,
  assoc k (cleaves ch) = match find_child ch b j with Some (_, c') => assoc k (leaves c') | None => None end.
Proof.
  intros HT Hk. induction ch as [|[x c] ch IH]; intros ND j; [reflexivity|].
  apply Forall_cons_iff in HT. destruct HT as [Hx HT].
  cbn [map fst] in ND. apply NoDup_cons_iff in ND. destruct ND as [Hn ND].
  unfold cleaves. cbn [flat_map snd find_child]. fold (cleaves ch). rewrite assoc_app.
  destruct (Z.eqb_spec x b) as [->|Hne].
  - destruct (assoc k (leaves c)); [reflexivity|]. eapply tags_notin; eassumption.
  - replace (assoc k (leaves c)) with (@None (Z * list Z)); [now apply IH|].
    symmetry. apply assoc_none. intros HI. apply in_map_iff in HI. destruct HI as (e & <- & He).
    specialize (Hx e He). cbn [fst snd] in Hx. congruence.
Qed.

Lemma tags_nodup d ch : Forall (byte_tag d) ch -> NoDup (map fst ch) ->
  Forall (fun bc => NoDup (map fst (leaves (snd bc)))) ch -> NoDup (map fst (cleaves ch)).
Proof.
  induction ch as [|[x c] ch IH]; intros HT ND HN; [constructor|].
  apply Forall_cons_iff in HT. destruct HT as [Hx HT].
  apply Forall_cons_iff in HN. destruct HN as [Hc HN].
  cbn [map fst] in ND. apply NoDup_cons_iff in ND. destruct ND as [Hn ND].
  unfold cleaves. cbn [flat_map snd]. fold (cleaves ch). rewrite map_app.
  apply NoDup_app_intro; [exact Hc|now apply IH|].
  intros k Hk1 Hk2. apply in_map_iff in Hk1. destruct Hk1 as (e & <- & He).
  specialize (Hx e He). cbn [fst snd] in Hx.
  assert (HA := tags_notin d (fst e) x ch HT Hx Hn). apply assoc_none in HA. contradiction.
Qed.

Lemma WF_nodup L n : forall pi, WF L n pi -> NoDup (map fst (leaves n)).
Proof.
  induction n as [id k v|c p ch IH] using node_ind2; intros pi H.
  - cbn. repeat constructor. intros [].
  - apply WF_inode in H. destruct H as (_ & _ & _ & HS & _ & H).
    rewrite leaves_inode. eapply tags_nodup.
    + eapply WFch_tags; exact H.
    + apply ssorted_nodup. exact HS.
    + unfold WFch in H. rewrite Forall_forall in *. intros bc Hin. destruct (H _ Hin) as [_ H1].
      eapply IH; eassumption.
Qed.

Lemma WF_nonempty L n : forall pi, WF L n pi -> leaves n <> [].
Proof.
  induction n as [id k v|c p ch IH] using node_ind2; intros pi H.
  - discriminate.
  - apply WF_inode in H. destruct H as (_ & _ & _ & _ & Hsz & H).
    rewrite leaves_inode. destruct ch as [|[b c'] ch]; [cbn in Hsz; destruct c; cbn in Hsz; lia|].
    apply Forall_cons_iff in IH. destruct IH as [IH _].
    apply Forall_cons_iff in H. destruct H as [[_ H] _]. cbn [fst snd] in *.
    unfold cleaves. cbn [flat_map snd]. intros HE. apply app_eq_nil in HE. destruct HE as [HE _].
    exact (IH _ H HE).
Qed.
