(** Prefix-free keys of variable length: the index object and operation
    histories.  Under [hist_ok] (prefix-freedom + capacity guard at every
    step) the model run equals the specification run and keeps [WFg]. *)
From Coq Require Import List ZArith Bool Lia Sorted Permutation.
From Unodb Require Import Base.Lex Art.ArtModel Art.ArtIter Art.ArtSpec Art.ArtInv Art.ArtLemmas
  Art.ArtProofs Art.ArtGenInv Art.ArtGenLemmas Art.ArtGenProofs.
Import ListNotations.

Lemma fuel_ok_g k : length k - length (@nil Z) < fuel_for k.
Proof. unfold fuel_for. cbn [length]. lia. Qed.

Lemma db_get_correct_g d k : db_WFg d -> pfk k (db_leaves d) -> db_get d k = Ok (assoc k (db_leaves d)).
Proof.
  unfold db_WFg, db_get, db_leaves. intros HWF Hpf. destruct (root d) as [n|]; [|reflexivity].
  exact (get_go_correct_g k (fuel_for k) n [] HWF (ext_nil k) Hpf (fuel_ok_g k)).
Qed.

Lemma db_leaves_nodup_g d : db_WFg d -> keys_nodup (db_leaves d).
Proof.
  unfold db_WFg, db_leaves, keys_nodup. destruct (root d) as [n|]; [apply WFg_nodup|constructor].
Qed.

Lemma db_leaves_pairwise_g d e1 e2 : db_WFg d -> In e1 (db_leaves d) -> In e2 (db_leaves d) ->
  pf2 (fst e1) (fst e2).
Proof.
  unfold db_WFg, db_leaves. destruct (root d) as [n|]; [apply WFg_pairwise|intros _ []].
Qed.

(** the model state holds exactly the specification's entries *)
Definition Invg (d : db) (s : sstate) : Prop :=
  db_WFg d /\ next_id d = snd s /\ forall k, assoc k (fst s) = assoc k (db_leaves d).

Lemma assoc_in_keys k (l : list entry) : In k (map fst l) -> exists x, assoc k l = Some x.
Proof.
  intros H. destruct (assoc k l) as [x|] eqn:E; [now exists x|].
  apply assoc_none in E. contradiction.
Qed.

Lemma pfk_transfer k (l l' : list entry) :
  (forall k', assoc k' l = assoc k' l') -> pfk k l -> pfk k l'.
Proof.
  intros Hag Hpf. unfold pfk in *. rewrite Forall_forall in *. intros e He.
  destruct (assoc_in_keys (fst e) l') as [x Hx]; [now apply in_map|].
  rewrite <- Hag in Hx. apply assoc_some_in in Hx. exact (Hpf _ Hx).
Qed.

Lemma Invg_empty d l nid : Invg d (l, nid) ->
  match l with [] => true | _ => false end = db_empty d.
Proof.
  intros (HWF & _ & Hagree). cbn [fst snd] in *.
  unfold db_empty, db_WFg, db_leaves in *. destruct (root d) as [n|].
  - destruct l as [|[k x] l]; [|reflexivity]. exfalso.
    assert (Hne := WFg_nonempty _ _ HWF). destruct (leaves n) as [|[k x] ls] eqn:E; [congruence|].
    specialize (Hagree k). cbn [assoc] in Hagree. rewrite lex_eqb_refl in Hagree. discriminate.
  - destruct l as [|[k x] l]; [reflexivity|]. exfalso.
    specialize (Hagree k). cbn [assoc] in Hagree. rewrite lex_eqb_refl in Hagree. discriminate.
Qed.

Lemma step_correct_g sz d s o : Invg d s -> op_pf s o = true -> op_fits d o = true ->
  snd (step sz d o) = snd (spec_step s o) /\ Invg (fst (step sz d o)) (fst (spec_step s o)).
Proof.
  intros HInv Hop Hfits. destruct s as [l nid].
  assert (HInv' := HInv). destruct HInv' as (HWF & Hnid & Hagree). cbn [fst snd] in *.
  assert (Hk : forall k, op_key o = Some k -> Forall is_byte_z k /\ pfk k (db_leaves d)).
  { intros k Ek. unfold op_pf in Hop. rewrite Ek in Hop. cbn [fst] in Hop.
    apply andb_true_iff in Hop. destruct Hop as [H1 H2]. split; [now apply bytesb_iff|].
    apply pfreeb_iff in H2. exact (pfk_transfer k _ _ Hagree H2). }
  destruct o as [k|k v|k| |]; cbn [op_key] in Hk.
  - (* get *)
    destruct (Hk k eq_refl) as [HkB Hpf].
    cbn [step spec_step fst snd]. rewrite (db_get_correct_g d k HWF Hpf), (Hagree k). split; [reflexivity|exact HInv].
  - (* insert *)
    destruct (Hk k eq_refl) as [HkB Hpf].
    cbn [step spec_step]. rewrite (Hagree k). unfold db_insert, db_leaves, db_WFg, op_fits in *.
    destruct (root d) as [n|] eqn:Hroot.
    + assert (Hins := insert_go_correct_g k v (next_id d) HkB (fuel_for k) n [] HWF (ext_nil k) Hpf (fuel_ok_g k) Hfits).
      cbn [length] in Hins.
      destruct (assoc k (leaves n)) as [x|] eqn:Hass.
      * rewrite Hins. cbn [bind fst snd]. split; [reflexivity|]. exact HInv.
      * destruct Hins as (n' & e & Hins & HWF' & HP). rewrite Hins. cbn [bind fst snd]. split; [reflexivity|].
        unfold Invg, db_WFg, db_leaves. cbn [root next_id fst snd]. split; [exact HWF'|]. split; [lia|].
        intros k'. rewrite (assoc_perm k' _ _ (WFg_nodup _ _ HWF') HP). cbn [assoc].
        rewrite Hnid. now rewrite (Hagree k').
    + cbn [assoc fst snd]. split; [reflexivity|].
      unfold Invg, db_WFg, db_leaves. cbn [root next_id fst snd]. split.
      { apply WFg_leaf. split; [exact HkB|apply ext_nil]. }
      split; [lia|].
      intros k'. cbn [leaves assoc]. rewrite Hnid. now rewrite (Hagree k').
  - (* remove *)
    destruct (Hk k eq_refl) as [HkB Hpf].
    cbn [step spec_step]. rewrite (Hagree k). unfold db_remove, db_leaves, db_WFg, op_fits in *.
    destruct (root d) as [n|] eqn:Hroot.
    + destruct n as [lid lk lv|c p ch].
      * cbn [leaves assoc]. unfold lex_eqb. destruct (lex_compare k lk) eqn:Hcmp;
          try (cbn [fst snd]; split; [reflexivity|exact HInv]).
        apply lex_compare_eq in Hcmp. subst lk. cbn [fst snd]. split; [reflexivity|].
        unfold Invg, db_WFg, db_leaves. cbn [root next_id fst snd]. split; [exact I|]. split; [exact Hnid|].
        intros k'. rewrite assoc_sremove, (Hagree k'). cbn [leaves assoc].
        now destruct (lex_eqb k' k).
      * assert (Hget := get_go_correct_g k (fuel_for k) _ [] HWF (ext_nil k) Hpf (fuel_ok_g k)).
        cbn [length] in Hget. rewrite Hget. cbn [bind].
        assert (Hrm := remove_go_correct_g k (fuel_for k) c p ch [] HWF (ext_nil k) Hpf (fuel_ok_g k) Hfits).
        cbn [length] in Hrm.
        destruct (assoc k (leaves (Inode c p ch))) as [[xid xv]|] eqn:Hass.
        -- destruct Hrm as (n' & e & Hrm & HWF' & HP). rewrite Hrm. cbn [bind fst snd]. split; [reflexivity|].
           unfold Invg, db_WFg, db_leaves. cbn [root next_id fst snd]. split; [exact HWF'|]. split; [exact Hnid|].
           intros k'. rewrite assoc_sremove, (Hagree k').
           assert (HND := WFg_nodup _ _ HWF).
           rewrite (assoc_perm k' _ _ HND HP). cbn [assoc].
           destruct (lex_eqb k' k) eqn:Heq; [|reflexivity].
           apply lex_eqb_eq in Heq. subst k'. symmetry. apply assoc_none.
           assert (HND' : NoDup (map fst ((k, (xid, xv)) :: leaves n'))).
           { eapply Permutation_NoDup; [|exact HND]. now apply Permutation_map. }
           cbn [map fst] in HND'. now apply NoDup_cons_iff in HND'.
        -- rewrite Hrm. cbn [bind fst snd]. split; [reflexivity|exact HInv].
    + cbn [assoc fst snd]. split; [reflexivity|exact HInv].
  - (* empty *)
    cbn [step spec_step fst snd]. split; [|exact HInv]. f_equal. symmetry. exact (Invg_empty d l nid HInv).
  - (* clear *)
    cbn [step spec_step fst snd]. split; [reflexivity|].
    unfold Invg, db_clear, db_WFg, db_leaves. cbn [root next_id fst snd].
    split; [exact I|]. split; [exact Hnid|]. reflexivity.
Qed.

Lemma Invg_init : Invg db0 ([], 0%Z).
Proof.
  unfold Invg, db0, db_WFg, db_leaves. cbn [root next_id fst snd].
  split; [exact I|]. split; reflexivity.
Qed.

Lemma run_correct_g sz : forall ops d s, Invg d s -> hist_ok sz d s ops = true ->
  run sz d ops = spec_run s ops /\ Invg (run_state sz d ops) (spec_state s ops).
Proof.
  induction ops as [|o ops IH]; intros d s HInv Hops.
  - split; [reflexivity|exact HInv].
  - cbn [hist_ok] in Hops. apply andb_true_iff in Hops. destruct Hops as [Ho Hops].
    apply andb_true_iff in Ho. destruct Ho as [Hpf Hfits].
    destruct (step_correct_g sz d s o HInv Hpf Hfits) as [Hout HInv'].
    cbn [run spec_run run_state spec_state].
    destruct (step sz d o) as [d' r]. destruct (spec_step s o) as [s' r']. cbn [fst snd] in *. subst r'.
    destruct (IH d' s' HInv' Hops) as [H1 H2]. split; [now f_equal|exact H2].
Qed.

(** * the theorems *)

Theorem run_refines_spec_g : forall sz ops, hist_ok sz db0 ([], 0%Z) ops = true ->
  run sz db0 ops = spec_run ([], 0%Z) ops.
Proof.
  intros sz ops Hops. exact (proj1 (run_correct_g sz ops db0 _ Invg_init Hops)).
Qed.

Theorem run_state_invariant_g : forall sz ops, hist_ok sz db0 ([], 0%Z) ops = true ->
  let d := run_state sz db0 ops in
  db_WFg d /\ keys_nodup (db_leaves d) /\
  (forall e1 e2, In e1 (db_leaves d) -> In e2 (db_leaves d) -> pf2 (fst e1) (fst e2)) /\
  (forall k, assoc k (fst (spec_state ([], 0%Z) ops)) = assoc k (db_leaves d)) /\
  (forall k, pfk k (db_leaves d) -> db_get d k = Ok (assoc k (db_leaves d))).
Proof.
  intros sz ops Hops d.
  destruct (proj2 (run_correct_g sz ops db0 _ Invg_init Hops)) as (HWF & _ & Hag).
  fold d in HWF, Hag. split; [exact HWF|]. split; [now apply db_leaves_nodup_g|].
  split; [intros e1 e2; now apply db_leaves_pairwise_g|]. split; [exact Hag|].
  intros k Hk. now apply db_get_correct_g.
Qed.

(** every inner node of a [WFg] tree: path + prefix is a proper prefix of,
    hence strictly shorter than, every key below it *)
Theorem WFg_inner_shorter : forall c p ch pi e, WFg (Inode c p ch) pi -> In e (leaves (Inode c p ch)) ->
  firstn (length (pi ++ p)) (fst e) = pi ++ p /\ length pi + length p < length (fst e).
Proof. exact WFg_shorter. Qed.
