(** Proofs about the ART model: get / insert / remove below the root keep the
    structural invariant and act on the leaf list as on a finite map; lifted
    to the index object and to operation histories. *)
From Coq Require Import List ZArith Bool Lia Sorted Permutation.
From Unodb Require Import Base.Lex Art.ArtModel Art.ArtIter Art.ArtSpec Art.ArtInv Art.ArtLemmas.
Import ListNotations.

Lemma Forall_firstn' {A} (P : A -> Prop) n : forall l, Forall P l -> Forall P (firstn n l).
Proof.
  induction n as [|n IH]; intros l H; [constructor|].
  destruct H as [|x l Hx H]; cbn [firstn]; constructor; auto.
Qed.

Lemma Forall_skipn' {A} (P : A -> Prop) n : forall l, Forall P l -> Forall P (skipn n l).
Proof.
  induction n as [|n IH]; intros l H; [exact H|].
  destruct H as [|x l Hx H]; cbn [skipn]; [constructor|auto].
Qed.

Lemma Forall_nth_error {A} (P : A -> Prop) l n x : Forall P l -> nth_error l n = Some x -> P x.
Proof. intros H Hn. rewrite Forall_forall in H. apply H. eapply nth_error_In; eassumption. Qed.

Lemma cleaves_perm ch ch' : Permutation ch ch' -> Permutation (cleaves ch) (cleaves ch').
Proof. intros H. unfold cleaves. now apply Permutation_flat_map. Qed.

Lemma cleaves_mid l1 x l2 : cleaves (l1 ++ x :: l2) = cleaves l1 ++ leaves (snd x) ++ cleaves l2.
Proof. unfold cleaves. rewrite flat_map_app. reflexivity. Qed.

Lemma cleaves_app l1 l2 : cleaves (l1 ++ l2) = cleaves l1 ++ cleaves l2.
Proof. unfold cleaves. apply flat_map_app. Qed.

Lemma cleaves_mid_perm l1 l2 b c' c'' e :
  Permutation (leaves c'') (e :: leaves c') ->
  Permutation (cleaves (l1 ++ (b, c'') :: l2)) (e :: cleaves (l1 ++ (b, c') :: l2)).
Proof.
  intros H. rewrite !cleaves_mid. cbn [snd].
  etransitivity; [apply Permutation_app_head, Permutation_app_tail, H|].
  cbn [app]. symmetry. apply Permutation_middle.
Qed.

(** * common prelude of the three descents at an inner node *)

Lemma inode_prelude L k c p ch pi : key_ok L k -> WF L (Inode c p ch) pi -> ext pi k ->
  (length k <? length pi) = false /\
  length p <= length (skipn (length pi) k) /\
  ((shared_len p (skipn (length pi) k) < length p /\
    assoc k (leaves (Inode c p ch)) = None)
   \/
   (shared_len p (skipn (length pi) k) = length p /\
    exists b, nth_error k (length pi + length p) = Some b /\ is_byte_z b /\
              ext (pi ++ p ++ [b]) k /\
              assoc k (leaves (Inode c p ch)) =
              match find_child ch b 0 with Some (_, c') => assoc k (leaves c') | None => None end)).
Proof.
  intros [HkL HkB] HWF Hext.
  apply WF_inode in HWF. destruct HWF as (Hlen & Hp7 & HpB & HS & Hsz & Hch).
  assert (Hpik := ext_length _ _ Hext).
  split; [apply Nat.ltb_ge; exact Hpik|].
  assert (Hrem : length p <= length (skipn (length pi) k)) by (rewrite skipn_length; lia).
  split; [exact Hrem|].
  destruct (Nat.eq_dec (shared_len p (skipn (length pi) k)) (length p)) as [Heq|Hne].
  - right. split; [exact Heq|].
    apply shared_len_full in Heq; [|exact Hrem]. apply (ext_skipn pi p k Hext) in Heq.
    destruct (nth_error k (length pi + length p)) as [b|] eqn:Hb.
    2:{ apply nth_error_None in Hb. lia. }
    exists b. split; [reflexivity|].
    split; [exact (Forall_nth_error is_byte_z k _ b HkB Hb)|].
    split.
    + rewrite app_assoc. apply ext_snoc; [exact Heq|]. now rewrite app_length.
    + rewrite leaves_inode. eapply assoc_children.
      * eapply WFch_tags; exact Hch.
      * exact Hb.
      * apply ssorted_nodup. exact HS.
  - left. assert (Hle := shared_len_le p (skipn (length pi) k)). split; [lia|].
    apply assoc_none. intros HI. apply in_map_iff in HI. destruct HI as (e & <- & He).
    rewrite leaves_inode in He. destruct (WFch_ext _ _ _ _ _ Hch He) as [_ H2].
    apply (ext_skipn pi p _ Hext) in H2. apply shared_len_full in H2; [|exact Hrem]. contradiction.
Qed.

(** * get *)

Lemma get_go_correct L k : key_ok L k -> forall fuel n pi,
  WF L n pi -> ext pi k -> L - length pi < fuel ->
  get_go fuel n k (length pi) = Ok (assoc k (leaves n)).
Proof.
  intros Hk. induction fuel as [|f IH]; intros n pi HWF Hext Hfuel; [lia|].
  destruct n as [id lk v|c p ch].
  - cbn [get_go leaves assoc]. unfold lex_eqb. now destruct (lex_compare k lk).
  - destruct (inode_prelude L k c p ch pi Hk HWF Hext) as (Hlt & Hrem & [(Hsl & Hass)|(Hsl & b & Hb & Hbyte & Hext' & Hass)]).
    + rewrite Hass. cbn [get_go]. rewrite Hlt. apply Nat.ltb_lt in Hsl. now rewrite Hsl.
    + rewrite Hass. cbn [get_go]. rewrite Hlt.
      assert (Hsl' : (shared_len p (skipn (length pi) k) <? length p) = false) by (apply Nat.ltb_ge; lia).
      rewrite Hsl'. unfold byte_at. rewrite Hb. cbn [bind].
      destruct (find_child ch b 0) as [[i c']|] eqn:Hfc; [|reflexivity].
      apply find_child_some in Hfc. destruct Hfc as (l1 & l2 & -> & _).
      apply WF_inode in HWF. destruct HWF as (Hlen & _ & _ & _ & _ & Hch).
      unfold WFch in Hch. apply Forall_app in Hch. destruct Hch as [_ Hch].
      apply Forall_cons_iff in Hch. destruct Hch as [[_ Hc'] _]. cbn [fst snd] in Hc'.
      replace (S (length pi + length p)) with (length (pi ++ p ++ [b])) by (rewrite !app_length; cbn; lia).
      apply IH; [exact Hc'|exact Hext'|]. rewrite !app_length. cbn. lia.
Qed.

(** * insert: the structural cases *)

Lemma child_of_WF L c p l1 b c' l2 pi :
  WF L (Inode c p (l1 ++ (b, c') :: l2)) pi -> is_byte_z b /\ WF L c' (pi ++ p ++ [b]).
Proof.
  intros HWF. apply WF_inode in HWF. destruct HWF as (_ & _ & _ & _ & _ & Hch).
  unfold WFch in Hch. apply Forall_app in Hch. destruct Hch as [_ Hch].
  apply Forall_cons_iff in Hch. destruct Hch as [Hc' _]. exact Hc'.
Qed.

Lemma replace_child_WF L c p l1 b c' c'' l2 pi :
  WF L (Inode c p (l1 ++ (b, c') :: l2)) pi -> WF L c'' (pi ++ p ++ [b]) ->
  WF L (Inode c p (l1 ++ (b, c'') :: l2)) pi.
Proof.
  intros HWF Hc''. apply WF_inode in HWF. destruct HWF as (H1 & H2 & H3 & HS & Hsz & Hch).
  apply WF_inode. repeat split; try assumption.
  - unfold keys_sorted in *. rewrite map_app in *. exact HS.
  - rewrite app_length in *. cbn [length] in *. lia.
  - rewrite app_length in *. cbn [length] in *. lia.
  - unfold WFch in *. apply Forall_app in Hch. destruct Hch as [Ha Hb]. apply Forall_app. split; [exact Ha|].
    apply Forall_cons_iff in Hb. destruct Hb as [[Hb1 _] Hb2]. constructor; [|exact Hb2].
    cbn [fst snd] in *. split; assumption.
Qed.

Lemma remove_child_WF L c c2 p l1 x l2 pi :
  WF L (Inode c p (l1 ++ x :: l2)) pi -> min_size c2 <= length (l1 ++ l2) <= cap c2 ->
  WF L (Inode c2 p (l1 ++ l2)) pi.
Proof.
  intros HWF Hsz2. apply WF_inode in HWF. destruct HWF as (H1 & H2 & H3 & HS & Hsz & Hch).
  apply WF_inode. repeat split; try assumption; try lia.
  - unfold keys_sorted in *. rewrite map_app in *. cbn [map] in HS. eapply ssorted_remove_mid; exact HS.
  - unfold WFch in *. apply Forall_app in Hch. destruct Hch as [Ha Hb]. apply Forall_app. split; [exact Ha|].
    now apply Forall_cons_iff in Hb.
Qed.

Lemma add_child_WF L c c2 p ch pi b id k v :
  WF L (Inode c p ch) pi -> ~ In b (map fst ch) -> is_byte_z b -> key_ok L k ->
  ext (pi ++ p ++ [b]) k -> min_size c2 <= S (length ch) <= cap c2 ->
  WF L (Inode c2 p (insert_at (insert_pos c ch b) (b, Leaf id k v) ch)) pi.
Proof.
  intros HWF Hn Hb Hk Hext Hsz2. apply WF_inode in HWF. destruct HWF as (H1 & H2 & H3 & HS & Hsz & Hch).
  apply WF_inode. rewrite insert_at_length. repeat split; try assumption; try lia.
  - now apply insert_pos_sorted.
  - unfold WFch in *. apply insert_at_Forall; [|exact Hch]. cbn [fst snd].
    split; [exact Hb|]. apply WF_leaf. split; assumption.
Qed.

Lemma full_256 L c p ch pi b :
  WF L (Inode c p ch) pi -> ~ In b (map fst ch) -> is_byte_z b -> S (length ch) <= 256.
Proof.
  intros HWF Hn Hb. apply WF_inode in HWF. destruct HWF as (_ & _ & _ & HS & _ & Hch).
  rewrite <- (insert_at_length (first_ge ch b) (b, Leaf 0%Z [] []) ch).
  apply keys_sorted_length.
  - now apply first_ge_sorted.
  - apply insert_at_Forall; [exact Hb|]. unfold WFch in Hch. eapply Forall_impl; [|exact Hch].
    cbn beta. tauto.
Qed.

Lemma firstn_skipn_eq {A} d (a b : list A) : firstn d a = firstn d b -> skipn d a = skipn d b -> a = b.
Proof. intros H1 H2. rewrite <- (firstn_skipn d a), <- (firstn_skipn d b). now rewrite H1, H2. Qed.

Lemma leaf_split_ok L pi lid lk lv id k v :
  1 <= L <= 8 -> key_ok L lk -> ext pi lk -> key_ok L k -> ext pi k -> k <> lk ->
  exists n',
    (if (length k <? length pi) then Err Oob else
     if (length lk <? length pi) then Err Oob else
     let rem := skipn (length pi) k in
     let k1rem := skipn (length pi) lk in
     let n' := common_pad prefix_capacity k1rem rem in
     let pre := firstn n' (pad8 k1rem) in
     b1 <- byte_at lk (n' + length pi) ;;
     b2 <- byte_at rem n' ;;
     Ok (Some (Inode C4 pre (two_children b1 (Leaf lid lk lv) b2 (Leaf id k v)), ELeafSplit)))
    = Ok (Some (n', ELeafSplit)) /\
    WF L n' pi /\ Permutation (leaves n') ((k, (id, v)) :: leaves (Leaf lid lk lv)).
Proof.
  intros HL Hlk Hextl Hk Hext Hne.
  assert (Hlk' := Hlk). assert (Hk' := Hk). destruct Hlk' as [HlkL HlkB]. destruct Hk' as [HkL HkB].
  assert (Hpik := ext_length _ _ Hext). assert (Hpilk := ext_length _ _ Hextl).
  assert (E1 : (length k <? length pi) = false) by (apply Nat.ltb_ge; lia).
  assert (E2 : (length lk <? length pi) = false) by (apply Nat.ltb_ge; lia).
  rewrite E1, E2. cbv zeta.
  set (rem := skipn (length pi) k). set (k1rem := skipn (length pi) lk).
  assert (Hrne : k1rem <> rem).
  { intros HE. apply Hne. apply (firstn_skipn_eq (length pi)); [|now symmetry].
    unfold ext in *. congruence. }
  assert (Hl1 : length k1rem = L - length pi) by (unfold k1rem; rewrite skipn_length; lia).
  assert (Hl2 : length rem = L - length pi) by (unfold rem; rewrite skipn_length; lia).
  destruct (common_pad_split prefix_capacity k1rem rem (L - length pi) Hl1 Hl2 ltac:(unfold prefix_capacity; lia) Hrne)
    as (Hn' & Hfst & x & y & Hx & Hy & Hxy).
  assert (Hn7 := common_pad_le prefix_capacity k1rem rem).
  set (n' := common_pad prefix_capacity k1rem rem) in *.
  assert (Hx' : nth_error lk (length pi + n') = Some x) by (rewrite <- nth_error_skipn'; exact Hx).
  assert (Hy' : nth_error k (length pi + n') = Some y) by (rewrite <- nth_error_skipn'; exact Hy).
  unfold byte_at. rewrite (Nat.add_comm n' (length pi)), Hx', Hy. cbn [bind].
  rewrite firstn_pad8 by lia.
  assert (Hprel : length (firstn n' k1rem) = n') by (apply firstn_length_le; lia).
  eexists. split; [reflexivity|]. split.
  - apply WF_inode. rewrite two_children_length, Hprel. repeat split.
    + lia.
    + exact Hn7.
    + apply Forall_firstn'. apply Forall_skipn'. exact HlkB.
    + now apply two_children_sorted.
    + cbn; lia.
    + cbn; lia.
    + unfold WFch. apply two_children_Forall; cbn [fst snd].
      * split; [exact (Forall_nth_error is_byte_z lk _ x HlkB Hx')|].
        apply WF_leaf. split; [exact Hlk|]. rewrite app_assoc. apply ext_snoc.
        -- apply (ext_skipn pi _ lk Hextl). unfold ext. rewrite Hprel. reflexivity.
        -- rewrite app_length, Hprel. exact Hx'.
      * split; [exact (Forall_nth_error is_byte_z k _ y HkB Hy')|].
        apply WF_leaf. split; [exact Hk|]. rewrite app_assoc. apply ext_snoc.
        -- apply (ext_skipn pi _ k Hext). unfold ext. rewrite Hprel. symmetry. exact Hfst.
        -- rewrite app_length, Hprel. exact Hy'.
  - rewrite leaves_inode. etransitivity; [apply cleaves_perm, two_children_perm|].
    cbn. apply perm_swap.
Qed.

Lemma prefix_split_ok L pi c p ch id k v :
  WF L (Inode c p ch) pi -> key_ok L k -> ext pi k ->
  shared_len p (skipn (length pi) k) < length p ->
  exists sb nb, nth_error p (shared_len p (skipn (length pi) k)) = Some sb /\
    nth_error k (length pi + shared_len p (skipn (length pi) k)) = Some nb /\
    WF L (Inode C4 (firstn (shared_len p (skipn (length pi) k)) p)
            (two_children sb (Inode c (skipn (S (shared_len p (skipn (length pi) k))) p) ch) nb (Leaf id k v))) pi /\
    Permutation
      (leaves (Inode C4 (firstn (shared_len p (skipn (length pi) k)) p)
            (two_children sb (Inode c (skipn (S (shared_len p (skipn (length pi) k))) p) ch) nb (Leaf id k v))))
      ((k, (id, v)) :: leaves (Inode c p ch)).
Proof.
  intros HWF Hk Hext Hsl. assert (Hk' := Hk). destruct Hk' as [HkL HkB].
  apply WF_inode in HWF. destruct HWF as (Hlen & Hp7 & HpB & HS & Hsz & Hch).
  assert (Hpik := ext_length _ _ Hext).
  assert (Hrem : length p <= length (skipn (length pi) k)) by (rewrite skipn_length; lia).
  destruct (shared_len_lt p _ Hrem Hsl) as (Hfst & sb & nb & Hsb & Hnb & Hne).
  set (sl := shared_len p (skipn (length pi) k)) in *.
  rewrite nth_error_skipn' in Hnb.
  exists sb, nb. split; [exact Hsb|]. split; [exact Hnb|].
  assert (Hprel : length (firstn sl p) = sl) by (apply firstn_length_le; lia).
  assert (Hp : p = firstn sl p ++ sb :: skipn (S sl) p) by (now apply nth_error_decomp).
  split.
  - apply WF_inode. rewrite two_children_length, Hprel. repeat split.
    + lia.
    + lia.
    + now apply Forall_firstn'.
    + now apply two_children_sorted.
    + cbn; lia.
    + cbn; lia.
    + unfold WFch. apply two_children_Forall; cbn [fst snd].
      * split; [exact (Forall_nth_error is_byte_z p _ sb HpB Hsb)|].
        apply WF_inode. rewrite !app_length, Hprel, skipn_length. cbn [length]. repeat split; try assumption; try lia.
        -- now apply Forall_skipn'.
        -- unfold WFch in *. eapply Forall_impl; [|exact Hch]. cbn beta. intros [b c'] [Hb Hc']. cbn [fst snd] in *.
           split; [exact Hb|].
           replace ((pi ++ firstn sl p ++ [sb]) ++ skipn (S sl) p ++ [b]) with (pi ++ p ++ [b]); [exact Hc'|].
           rewrite Hp at 1. rewrite <- !app_assoc. reflexivity.
      * split; [exact (Forall_nth_error is_byte_z k _ nb HkB Hnb)|].
        apply WF_leaf. split; [exact Hk|]. rewrite app_assoc. apply ext_snoc.
        -- apply (ext_skipn pi _ k Hext). unfold ext. rewrite Hprel. symmetry. exact Hfst.
        -- rewrite app_length, Hprel. exact Hnb.
  - rewrite !leaves_inode. etransitivity; [apply cleaves_perm, two_children_perm|].
    unfold cleaves at 1. cbn [flat_map snd]. rewrite leaves_inode. cbn [leaves]. rewrite app_nil_r.
    symmetry. apply Permutation_cons_append.
Qed.

(** * insert *)

Lemma insert_go_correct L k v id : 1 <= L <= 8 -> key_ok L k -> forall fuel n pi,
  WF L n pi -> ext pi k -> L - length pi < fuel ->
  match assoc k (leaves n) with
  | Some _ => insert_go fuel n k v id (length pi) = Ok None
  | None => exists n' e, insert_go fuel n k v id (length pi) = Ok (Some (n', e)) /\ WF L n' pi /\
                         Permutation (leaves n') ((k, (id, v)) :: leaves n)
  end.
Proof.
  intros HL Hk. induction fuel as [|f IH]; intros n pi HWF Hext Hfuel; [lia|].
  destruct n as [lid lk lv|c p ch].
  - apply WF_leaf in HWF. destruct HWF as [Hlk Hextl].
    destruct (list_Z_eq_dec k lk) as [->|Hne].
    + cbn [leaves assoc insert_go]. rewrite lex_eqb_refl, lex_compare_refl. reflexivity.
    + assert (Hcmp : lex_compare k lk <> Eq) by (now rewrite lex_compare_eq).
      destruct (leaf_split_ok L pi lid lk lv id k v HL Hlk Hextl Hk Hext Hne) as (n' & H1 & H2 & H3).
      cbn [leaves assoc] in *. rewrite (lex_eqb_neq _ _ Hne).
      exists n', ELeafSplit. split; [|split; assumption].
      cbn [insert_go]. destruct (lex_compare k lk); [congruence|exact H1|exact H1].
  - destruct (inode_prelude L k c p ch pi Hk HWF Hext) as (Hlt & Hrem & [(Hsl & Hass)|(Hsl & b & Hb & Hbyte & Hext' & Hass)]).
    + rewrite Hass.
      destruct (prefix_split_ok L pi c p ch id k v HWF Hk Hext Hsl) as (sb & nb & Hsb & Hnb & HWF' & HP).
      eexists _, _. split; [|split; [exact HWF'|exact HP]].
      cbn [insert_go]. rewrite Hlt. apply Nat.ltb_lt in Hsl. rewrite Hsl.
      unfold byte_at. rewrite Hsb, Hnb. reflexivity.
    + rewrite Hass. cbn [insert_go]. rewrite Hlt.
      assert (Hsl' : (shared_len p (skipn (length pi) k) <? length p) = false) by (apply Nat.ltb_ge; lia).
      rewrite Hsl'. unfold byte_at. rewrite Hb. cbn [bind].
      destruct (find_child ch b 0) as [[i c']|] eqn:Hfc.
      * apply find_child_some in Hfc. destruct Hfc as (l1 & l2 & -> & ->). cbn [Nat.add].
        destruct (child_of_WF _ _ _ _ _ _ _ _ HWF) as [_ Hc'].
        assert (Hlen : length pi + length p < L) by (apply WF_inode in HWF; tauto).
        replace (S (length pi + length p)) with (length (pi ++ p ++ [b])) by (rewrite !app_length; cbn; lia).
        specialize (IH c' (pi ++ p ++ [b]) Hc' Hext' ltac:(rewrite !app_length; cbn; lia)).
        destruct (assoc k (leaves c')) as [x|].
        -- rewrite IH. reflexivity.
        -- destruct IH as (c'' & e & Hins & HWF'' & HP). rewrite Hins. cbn [bind].
           eexists _, _. split; [reflexivity|]. rewrite replace_nth_mid. split.
           ++ eapply replace_child_WF; eassumption.
           ++ rewrite !leaves_inode. now apply cleaves_mid_perm.
      * apply find_child_none in Hfc.
        assert (Hperm : forall c2, Permutation (leaves (Inode c2 p (insert_at (insert_pos c ch b) (b, Leaf id k v) ch)))
                                      ((k, (id, v)) :: leaves (Inode c p ch))).
        { intros c2. rewrite !leaves_inode. etransitivity; [apply cleaves_perm, insert_at_perm|]. reflexivity. }
        assert (Hsz : min_size c <= length ch <= cap c) by (apply WF_inode in HWF; tauto).
        destruct (cls_eqb c C256) eqn:Hc256.
        -- eexists _, _. split; [reflexivity|]. split; [|apply Hperm].
           eapply add_child_WF; try eassumption.
           assert (H256 := full_256 _ _ _ _ _ _ HWF Hfc Hbyte).
           destruct c; try discriminate. cbn in *. lia.
        -- destruct (Nat.eqb_spec (length ch) (cap c)) as [Hfull|Hnfull].
           ++ eexists _, _. split; [reflexivity|]. split; [|apply Hperm].
              eapply add_child_WF; try eassumption.
              destruct c; try discriminate; cbn in *; lia.
           ++ eexists _, _. split; [reflexivity|]. split; [|apply Hperm].
              eapply add_child_WF; try eassumption. lia.
Qed.

(** * remove *)

Lemma prepend_leaves p sb s : leaves (prepend_prefix p sb s) = leaves s.
Proof. destruct s; [reflexivity|]. cbn [prepend_prefix]. now rewrite !leaves_inode. Qed.

Lemma prepend_WF L pi p sb s : L <= 8 -> is_byte_z sb -> Forall is_byte_z p ->
  WF L s (pi ++ p ++ [sb]) -> WF L (prepend_prefix p sb s) pi.
Proof.
  intros HL Hsb Hp HWF. destruct s as [id k v|c p3 ch]; cbn [prepend_prefix].
  - apply WF_leaf in HWF. apply WF_leaf. destruct HWF as [H1 H2]. split; [exact H1|].
    now apply ext_app_l in H2.
  - apply WF_inode in HWF. destruct HWF as (H1 & H2 & H3 & HS & Hsz & Hch).
    rewrite !app_length in H1. cbn [length] in H1.
    apply WF_inode. rewrite app_length. cbn [length]. unfold prefix_capacity in *.
    repeat split; try assumption; try lia.
    + apply Forall_app. split; [exact Hp|]. constructor; assumption.
    + unfold WFch in *. eapply Forall_impl; [|exact Hch]. cbn beta. intros [b c'] [Hb Hc']. cbn [fst snd] in *.
      split; [exact Hb|].
      replace (pi ++ (p ++ sb :: p3) ++ [b]) with ((pi ++ p ++ [sb]) ++ p3 ++ [b]); [exact Hc'|].
      rewrite <- !app_assoc. reflexivity.
Qed.

Lemma remove_go_correct L k : 1 <= L <= 8 -> key_ok L k -> forall fuel c p ch pi,
  WF L (Inode c p ch) pi -> ext pi k -> L - length pi < fuel ->
  match assoc k (leaves (Inode c p ch)) with
  | None => remove_go fuel (Inode c p ch) k (length pi) = Ok RmNotFound
  | Some x => exists n' e, remove_go fuel (Inode c p ch) k (length pi) = Ok (RmReplaced n' e) /\
                           WF L n' pi /\ Permutation (leaves (Inode c p ch)) ((k, x) :: leaves n')
  end.
Proof.
  intros HL Hk. induction fuel as [|f IH]; intros c p ch pi HWF Hext Hfuel; [lia|].
  destruct (inode_prelude L k c p ch pi Hk HWF Hext) as (Hlt & Hrem & [(Hsl & Hass)|(Hsl & b & Hb & Hbyte & Hext' & Hass)]).
  - rewrite Hass. cbn [remove_go]. rewrite Hlt. apply Nat.ltb_lt in Hsl. now rewrite Hsl.
  - rewrite Hass. cbn [remove_go]. rewrite Hlt.
    assert (Hsl' : (shared_len p (skipn (length pi) k) <? length p) = false) by (apply Nat.ltb_ge; lia).
    rewrite Hsl'. unfold byte_at. rewrite Hb. cbn [bind].
    destruct (find_child ch b 0) as [[i c']|] eqn:Hfc; [|reflexivity].
    apply find_child_some in Hfc. destruct Hfc as (l1 & l2 & -> & ->). cbn [Nat.add].
    destruct (child_of_WF _ _ _ _ _ _ _ _ HWF) as [_ Hc'].
    assert (HWFi := HWF). apply WF_inode in HWFi. destruct HWFi as (Hlen & Hp7 & HpB & HS & Hsz & Hch).
    destruct c' as [lid lk lv|c3 p3 ch3].
    + change (assoc k (leaves (Leaf lid lk lv))) with (if lex_eqb k lk then Some (lid, lv) else @None (Z * list Z)).
      unfold lex_eqb. destruct (lex_compare k lk) eqn:Hcmp; try reflexivity.
      apply lex_compare_eq in Hcmp. subst lk.
      assert (HP : forall c2, Permutation (cleaves (l1 ++ (b, Leaf lid k lv) :: l2))
                                ((k, (lid, lv)) :: leaves (Inode c2 p (l1 ++ l2)))).
      { intros c2. rewrite leaves_inode, cleaves_mid, cleaves_app. cbn [snd leaves app].
        symmetry. apply Permutation_middle. }
      rewrite app_length in Hsz. cbn [length] in Hsz.
      destruct (Nat.eqb_spec (length (l1 ++ (b, Leaf lid k lv) :: l2)) (min_size c)) as [Hmin|Hnmin].
      * rewrite app_length in Hmin. cbn [length] in Hmin.
        destruct c.
        -- (* collapse *)
           cbn [min_size] in Hmin.
           destruct l1 as [|[sb s] l1].
           ++ destruct l2 as [|[sb s] l2]; [cbn in Hmin; lia|].
              destruct l2; [|cbn in Hmin; lia].
              cbn [length Nat.eqb app nth_error].
              eexists _, _. split; [reflexivity|].
              unfold WFch in Hch. apply Forall_cons_iff in Hch. destruct Hch as [_ Hch].
              apply Forall_cons_iff in Hch. destruct Hch as [[Hsb Hs] _]. cbn [fst snd] in *.
              split; [apply prepend_WF; try assumption; lia|].
              rewrite leaves_inode, prepend_leaves. unfold cleaves. cbn. now rewrite app_nil_r.
           ++ destruct l1; [|cbn in Hmin; lia]. destruct l2; [|cbn in Hmin; lia].
              cbn [length Nat.eqb app nth_error].
              eexists _, _. split; [reflexivity|].
              unfold WFch in Hch. apply Forall_cons_iff in Hch. destruct Hch as [[Hsb Hs] _]. cbn [fst snd] in *.
              split; [apply prepend_WF; try assumption; lia|].
              rewrite leaves_inode, prepend_leaves. unfold cleaves. cbn.
              symmetry. apply Permutation_cons_append.
        -- eexists _, _. split; [reflexivity|]. rewrite remove_nth_mid. split; [|rewrite leaves_inode; apply HP].
           eapply remove_child_WF; [exact HWF|]. rewrite app_length. cbn in *. lia.
        -- eexists _, _. split; [reflexivity|]. rewrite remove_nth_mid. split; [|rewrite leaves_inode; apply HP].
           eapply remove_child_WF; [exact HWF|]. rewrite app_length. cbn in *. lia.
        -- eexists _, _. split; [reflexivity|]. rewrite remove_nth_mid. split; [|rewrite leaves_inode; apply HP].
           eapply remove_child_WF; [exact HWF|]. rewrite app_length. cbn in *. lia.
      * rewrite app_length in Hnmin. cbn [length] in Hnmin.
        eexists _, _. split; [reflexivity|]. rewrite remove_nth_mid. split; [|rewrite leaves_inode; apply HP].
        eapply remove_child_WF; [exact HWF|]. rewrite app_length. lia.
    + replace (S (length pi + length p)) with (length (pi ++ p ++ [b])) by (rewrite !app_length; cbn; lia).
      specialize (IH c3 p3 ch3 (pi ++ p ++ [b]) Hc' Hext' ltac:(rewrite !app_length; cbn; lia)).
      destruct (assoc k (leaves (Inode c3 p3 ch3))) as [x|].
      * destruct IH as (c'' & e & Hrm & HWF'' & HP). rewrite Hrm. cbn [bind].
        eexists _, _. split; [reflexivity|]. rewrite replace_nth_mid. split.
        -- eapply replace_child_WF; eassumption.
        -- rewrite !leaves_inode. now apply cleaves_mid_perm.
      * rewrite IH. reflexivity.
Qed.

(** * the index object *)

Lemma fuel_ok L k : key_ok L k -> L - length (@nil Z) < fuel_for k.
Proof. intros [H _]. unfold fuel_for. cbn [length]. lia. Qed.

Lemma db_get_correct L d k : db_WF L d -> key_ok L k -> db_get d k = Ok (assoc k (db_leaves d)).
Proof.
  unfold db_WF, db_get, db_leaves. intros HWF Hk. destruct (root d) as [n|]; [|reflexivity].
  exact (get_go_correct L k Hk (fuel_for k) n [] HWF (ext_nil k) (fuel_ok L k Hk)).
Qed.

Lemma db_leaves_nodup L d : db_WF L d -> keys_nodup (db_leaves d).
Proof.
  unfold db_WF, db_leaves, keys_nodup. destruct (root d) as [n|]; [apply WF_nodup|constructor].
Qed.

Definition Inv (L : nat) (d : db) (s : sstate) : Prop :=
  db_WF L d /\ next_id d = snd s /\ Forall (fun e : entry => key_ok L (fst e)) (fst s) /\
  forall k, key_ok L k -> assoc k (fst s) = assoc k (db_leaves d).

Lemma Inv_empty L d l nid : Inv L d (l, nid) ->
  match l with [] => true | _ => false end = db_empty d.
Proof.
  intros (HWF & _ & Hkeys & Hagree). cbn [fst snd] in *.
  unfold db_empty, db_WF, db_leaves in *. destruct (root d) as [n|].
  - destruct l as [|[k x] l]; [|reflexivity]. exfalso.
    assert (Hne := WF_nonempty _ _ _ HWF). destruct (leaves n) as [|[k x] ls] eqn:E; [congruence|].
    assert (HF := WF_leaves _ _ _ HWF). rewrite E in HF. apply Forall_cons_iff in HF. destruct HF as [[Hk _] _].
    cbn [fst] in Hk. specialize (Hagree k Hk). cbn [assoc] in Hagree. rewrite lex_eqb_refl in Hagree. discriminate.
  - destruct l as [|[k x] l]; [reflexivity|]. exfalso.
    apply Forall_cons_iff in Hkeys. destruct Hkeys as [Hk _]. cbn [fst] in Hk.
    specialize (Hagree k Hk). cbn [assoc] in Hagree. rewrite lex_eqb_refl in Hagree. discriminate.
Qed.

Lemma step_correct L sz d s o : 1 <= L <= 8 -> Inv L d s -> op_ok L o ->
  snd (step sz d o) = snd (spec_step s o) /\ Inv L (fst (step sz d o)) (fst (spec_step s o)).
Proof.
  intros HL HInv Hop. destruct s as [l nid].
  assert (HInv' := HInv). destruct HInv' as (HWF & Hnid & Hkeys & Hagree). cbn [fst snd] in *.
  destruct o as [k|k v|k| |]; unfold op_ok in Hop; cbn [op_key] in Hop.
  - (* get *)
    cbn [step spec_step fst snd]. rewrite (db_get_correct L d k HWF Hop), (Hagree k Hop). split; [reflexivity|exact HInv].
  - (* insert *)
    cbn [step spec_step]. rewrite (Hagree k Hop). unfold db_insert, db_leaves, db_WF in *.
    destruct (root d) as [n|] eqn:Hroot.
    + assert (Hins := insert_go_correct L k v (next_id d) HL Hop (fuel_for k) n [] HWF (ext_nil k) (fuel_ok L k Hop)).
      cbn [length] in Hins.
      destruct (assoc k (leaves n)) as [x|] eqn:Hass.
      * rewrite Hins. cbn [bind fst snd]. split; [reflexivity|]. exact HInv.
      * destruct Hins as (n' & e & Hins & HWF' & HP). rewrite Hins. cbn [bind fst snd]. split; [reflexivity|].
        unfold Inv, db_WF, db_leaves. cbn [root next_id fst snd]. split; [exact HWF'|]. split; [lia|].
        split; [constructor; [exact Hop|exact Hkeys]|].
        intros k' Hk'. rewrite (assoc_perm k' _ _ (WF_nodup _ _ _ HWF') HP). cbn [assoc].
        rewrite Hnid. now rewrite (Hagree k' Hk').
    + cbn [assoc fst snd]. split; [reflexivity|].
      unfold Inv, db_WF, db_leaves. cbn [root next_id fst snd]. split.
      { apply WF_leaf. split; [exact Hop|apply ext_nil]. }
      split; [lia|]. split; [constructor; [exact Hop|exact Hkeys]|].
      intros k' Hk'. cbn [leaves assoc]. rewrite Hnid. now rewrite (Hagree k' Hk').
  - (* remove *)
    cbn [step spec_step]. rewrite (Hagree k Hop). unfold db_remove, db_leaves, db_WF in *.
    destruct (root d) as [n|] eqn:Hroot.
    + destruct n as [lid lk lv|c p ch].
      * cbn [leaves assoc]. unfold lex_eqb. destruct (lex_compare k lk) eqn:Hcmp;
          try (cbn [fst snd]; split; [reflexivity|exact HInv]).
        apply lex_compare_eq in Hcmp. subst lk. cbn [fst snd]. split; [reflexivity|].
        unfold Inv, db_WF, db_leaves. cbn [root next_id fst snd]. split; [exact I|]. split; [exact Hnid|].
        split; [now apply sremove_keys|].
        intros k' Hk'. rewrite assoc_sremove, (Hagree k' Hk'). cbn [leaves assoc].
        now destruct (lex_eqb k' k).
      * assert (Hget := get_go_correct L k Hop (fuel_for k) _ [] HWF (ext_nil k) (fuel_ok L k Hop)).
        cbn [length] in Hget. rewrite Hget. cbn [bind].
        assert (Hrm := remove_go_correct L k HL Hop (fuel_for k) c p ch [] HWF (ext_nil k) (fuel_ok L k Hop)).
        cbn [length] in Hrm.
        destruct (assoc k (leaves (Inode c p ch))) as [[xid xv]|] eqn:Hass.
        -- destruct Hrm as (n' & e & Hrm & HWF' & HP). rewrite Hrm. cbn [bind fst snd]. split; [reflexivity|].
           unfold Inv, db_WF, db_leaves. cbn [root next_id fst snd]. split; [exact HWF'|]. split; [exact Hnid|].
           split; [now apply sremove_keys|].
           intros k' Hk'. rewrite assoc_sremove, (Hagree k' Hk').
           assert (HND := WF_nodup _ _ _ HWF).
           rewrite (assoc_perm k' _ _ HND HP). cbn [assoc].
           destruct (lex_eqb k' k) eqn:Heq; [|reflexivity].
           apply lex_eqb_eq in Heq. subst k'. symmetry. apply assoc_none.
           assert (HND' : NoDup (map fst ((k, (xid, xv)) :: leaves n'))).
           { eapply Permutation_NoDup; [|exact HND]. now apply Permutation_map. }
           cbn [map fst] in HND'. now apply NoDup_cons_iff in HND'.
        -- rewrite Hrm. cbn [bind fst snd]. split; [reflexivity|exact HInv].
    + cbn [assoc fst snd]. split; [reflexivity|exact HInv].
  - (* empty *)
    cbn [step spec_step fst snd]. split; [|exact HInv]. f_equal. symmetry. exact (Inv_empty L d l nid HInv).
  - (* clear *)
    cbn [step spec_step fst snd]. split; [reflexivity|].
    unfold Inv, db_clear, db_WF, db_leaves. cbn [root next_id fst snd].
    split; [exact I|]. split; [exact Hnid|]. split; [constructor|]. reflexivity.
Qed.

Lemma Inv_init L : Inv L db0 ([], 0%Z).
Proof.
  unfold Inv, db0, db_WF, db_leaves. cbn [root next_id fst snd].
  split; [exact I|]. split; [reflexivity|]. split; [constructor|]. reflexivity.
Qed.

Lemma run_correct L sz : 1 <= L <= 8 -> forall ops d s, Inv L d s -> Forall (op_ok L) ops ->
  run sz d ops = spec_run s ops /\ exists s', Inv L (run_state sz d ops) s'.
Proof.
  intros HL. induction ops as [|o ops IH]; intros d s HInv Hops.
  - split; [reflexivity|]. exists s. exact HInv.
  - apply Forall_cons_iff in Hops. destruct Hops as [Ho Hops].
    destruct (step_correct L sz d s o HL HInv Ho) as [Hout HInv'].
    cbn [run spec_run run_state].
    destruct (step sz d o) as [d' r]. destruct (spec_step s o) as [s' r']. cbn [fst snd] in *. subst r'.
    destruct (IH d' s' HInv' Hops) as [H1 H2]. split; [now f_equal|exact H2].
Qed.

(** * the four theorems *)

Theorem run_refines_spec : forall L sz ops, (1 <= L <= 8)%nat -> Forall (op_ok L) ops ->
  run sz db0 ops = spec_run ([], 0%Z) ops.
Proof.
  intros L sz ops HL Hops. exact (proj1 (run_correct L sz HL ops db0 _ (Inv_init L) Hops)).
Qed.

Theorem run_state_invariant : forall L sz ops, (1 <= L <= 8)%nat -> Forall (op_ok L) ops ->
  let d := run_state sz db0 ops in
  db_WF L d /\ keys_nodup (db_leaves d) /\
  forall k, key_ok L k -> db_get d k = Ok (assoc k (db_leaves d)).
Proof.
  intros L sz ops HL Hops d.
  destruct (proj2 (run_correct L sz HL ops db0 _ (Inv_init L) Hops)) as (s' & HWF & _).
  fold d in HWF. split; [exact HWF|]. split; [now apply (db_leaves_nodup L)|].
  intros k Hk. now apply (db_get_correct L).
Qed.

Theorem spec_step_keeps_entry : forall s o k x,
  assoc k (fst s) = Some x ->
  (match o with ORemove k' => k' <> k | OClear => False | _ => True end) ->
  assoc k (fst (fst (spec_step s o))) = Some x.
Proof.
  intros [l nid] o k x Hass Ho. cbn [fst] in Hass.
  destruct o as [k0|k0 v|k0| |]; cbn [spec_step].
  - exact Hass.
  - destruct (assoc k0 l) eqn:E; cbn [fst]; [exact Hass|].
    cbn [assoc]. destruct (lex_eqb k k0) eqn:Heq; [|exact Hass].
    apply lex_eqb_eq in Heq. subst k0. congruence.
  - destruct (assoc k0 l) eqn:E; cbn [fst]; [|exact Hass].
    rewrite assoc_sremove. rewrite lex_eqb_neq by congruence. exact Hass.
  - exact Hass.
  - contradiction.
Qed.

Theorem long_shared_run_refuted : exists sz ops, run sz db0 ops <> spec_run ([], 0%Z) ops.
Proof.
  exists {| sz_leaf := 11; sz4 := 48; sz16 := 160; sz48 := 672; sz256 := 2064 |}%Z.
  exists [OInsert [97;97;97;97;97;97;97;97;97;88]%Z [1%Z];
          OInsert [97;97;97;97;97;97;97;97;97;89]%Z [2%Z];
          OGet [97;97;97;97;97;97;97;97;97;88]%Z].
  vm_compute. discriminate.
Qed.
