(** Proofs about the iterator and the scans of the ART model: the leaves of a
    well-formed tree are strictly ascending; scan / scan_from / scan_range
    visit exactly the entries of the requested interval in order and stop
    when the visitor says so; the seek of the pinned tree is refuted. *)
From Coq Require Import List ZArith Bool Lia Sorted Permutation.
From Unodb Require Import Base.Lex Art.ArtModel Art.ArtIter Art.ArtSpec Art.ArtInv Art.ArtLemmas
  Art.ArtProofs Art.ArtScanSpec Art.ArtIterLemmas Art.ArtIterStack.
Import ListNotations.

(** * gte_key_byte / lte_key_byte *)

Lemma gte_idx_some ch : forall b j i, gte_idx ch b j = Some i ->
  exists l1 x c l2, ch = l1 ++ (x, c) :: l2 /\ i = j + length l1 /\
    Forall (fun bc : Z * node => (fst bc < b)%Z) l1 /\ (b <= x)%Z.
Proof.
  induction ch as [|[x c] ch IH]; intros b j i H; cbn [gte_idx] in H; [discriminate|].
  destruct (Z.leb_spec b x) as [Hle|Hlt].
  - injection H as <-. exists [], x, c, ch. cbn. repeat split; [lia|constructor|exact Hle].
  - destruct (IH _ _ _ H) as (l1 & y & c' & l2 & -> & -> & H1 & H2).
    exists ((x, c) :: l1), y, c', l2. cbn [app length]. repeat split; [lia| |exact H2].
    constructor; [exact Hlt|exact H1].
Qed.

Lemma gte_idx_none ch : forall b j, gte_idx ch b j = None ->
  Forall (fun bc : Z * node => (fst bc < b)%Z) ch.
Proof.
  induction ch as [|[x c] ch IH]; intros b j H; cbn [gte_idx] in H; [constructor|].
  destruct (Z.leb_spec b x) as [Hle|Hlt]; [discriminate|].
  constructor; [exact Hlt|]. eapply IH; exact H.
Qed.

Lemma lte_idx_none ch : forall b j, lte_idx ch b j = None ->
  Forall (fun bc : Z * node => (b < fst bc)%Z) ch.
Proof.
  induction ch as [|[y c'] ch IH]; intros b j E; [constructor|].
  cbn [lte_idx] in E. destruct (lte_idx ch b (S j)) eqn:E2; [discriminate|].
  destruct (Z.leb_spec y b); [discriminate|]. constructor; [assumption|]. eapply IH; exact E2.
Qed.

Lemma lte_idx_some ch : forall b j i, lte_idx ch b j = Some i ->
  exists l1 x c l2, ch = l1 ++ (x, c) :: l2 /\ i = j + length l1 /\
    (x <= b)%Z /\ Forall (fun bc : Z * node => (b < fst bc)%Z) l2.
Proof.
  induction ch as [|[x c] ch IH]; intros b j i H; cbn [lte_idx] in H; [discriminate|].
  destruct (lte_idx ch b (S j)) as [i'|] eqn:E.
  - injection H as <-. destruct (IH _ _ _ E) as (l1 & y & c' & l2 & -> & -> & H1 & H2).
    exists ((x, c) :: l1), y, c', l2. cbn [app length]. repeat split; [lia|exact H1|exact H2].
  - destruct (Z.leb_spec x b) as [Hle|Hlt]; [|discriminate]. injection H as <-.
    exists [], x, c, ch. cbn [app length]. repeat split; [lia|exact Hle|].
    eapply lte_idx_none; exact E.
Qed.

(** * key prefix mismatch: the whole subtree is on one side of the key *)

Lemma prefix_mismatch L k c p ch pi : key_ok L k -> WF L (Inode c p ch) pi -> ext pi k ->
  shared_len p (skipn (length pi) k) < length p ->
  exists kb pb, nth_error (skipn (length pi) k) (shared_len p (skipn (length pi) k)) = Some kb /\
    nth_error p (shared_len p (skipn (length pi) k)) = Some pb /\
    ((kb < pb)%Z /\ all_gt k (cleaves ch) \/ (pb < kb)%Z /\ all_lt k (cleaves ch)).
Proof.
  intros Hk HWF Hext Hsl.
  destruct (inode_prelude L k c p ch pi Hk HWF Hext) as (_ & Hrem & _).
  apply WF_inode in HWF. destruct HWF as (_ & _ & _ & _ & _ & Hch).
  assert (Hk' : pi ++ skipn (length pi) k = k).
  { unfold ext in Hext. rewrite <- Hext at 1. apply firstn_skipn. }
  remember (skipn (length pi) k) as rem eqn:Erem.
  destruct (shared_len_lt p rem Hrem Hsl) as (Hfn & x & y & Hx & Hy & Hne).
  remember (shared_len p rem) as sl eqn:Esl.
  exists y, x. split; [exact Hy|]. split; [exact Hx|].
  assert (Hlq : length (pi ++ firstn sl p) = length pi + sl).
  { rewrite app_length, firstn_length. lia. }
  assert (Hqk : ext (pi ++ firstn sl p) k).
  { apply ext_iff. exists (skipn sl rem). rewrite <- app_assoc, Hfn, firstn_skipn. now symmetry. }
  assert (Hyk : nth_error k (length (pi ++ firstn sl p)) = Some y).
  { rewrite Hlq, <- nth_error_skipn', <- Erem. exact Hy. }
  assert (He : forall e, In e (cleaves ch) ->
             ext (pi ++ firstn sl p) (fst e) /\ nth_error (fst e) (length (pi ++ firstn sl p)) = Some x).
  { intros e Hin. destruct (WFch_ext _ _ _ _ _ Hch Hin) as [_ H2]. split.
    - apply (ext_app_l _ (skipn sl p)). now rewrite <- app_assoc, firstn_skipn.
    - apply ext_iff in H2. destruct H2 as [s ->]. rewrite Hlq, <- !app_assoc.
      rewrite nth_error_app2 by lia. replace (length pi + sl - length pi) with sl by lia.
      rewrite nth_error_app1 by lia. exact Hx. }
  destruct (Z.lt_total y x) as [Hlt|[Heq|Hgt]]; [left|congruence|right]; (split; [assumption|]).
  - apply Forall_forall. intros e Hin. destruct (He e Hin) as [E1 E2].
    eapply lex_lt_diff; [exact Hqk|exact E1|exact Hyk|exact E2|exact Hlt].
  - apply Forall_forall. intros e Hin. destruct (He e Hin) as [E1 E2].
    eapply lex_lt_diff; [exact E1|exact Hqk|exact E2|exact Hyk|exact Hgt].
Qed.

Lemma tagged_split q l1 x l2 : tagged q (l1 ++ x :: l2) -> tagged q l1 /\ tagged q (x :: l2) /\ tagged q l2.
Proof.
  unfold tagged. intros H. apply Forall_app in H. destruct H as [H1 H2]. split; [exact H1|]. split; [exact H2|].
  now apply Forall_cons_iff in H2.
Qed.

Lemma stack_ok_push n i stk : wfn n -> i < length (children n) -> stack_ok stk -> stack_ok (FI n i :: stk).
Proof. intros. constructor; [split|]; assumption. Qed.

(** * seek, forward *)

Lemma seek_fwd L k : key_ok L k -> forall fuel n pi stk,
  WF L n pi -> ext pi k -> L - length pi < fuel -> stack_ok stk ->
  exists r, seek_go true fuel n k (length pi) true stk = Ok r /\
    stack_ok (fst r) /\ is_pos (fst r) /\
    pos_fwd (fst r) = filter (ge_key k) (leaves n) ++ rest_fwd stk.
Proof.
  intros Hk. induction fuel as [|f IH]; intros n pi stk HWF Hext Hfuel Hs; [lia|].
  destruct n as [id lk v|c p ch].
  - assert (Hs' : stack_ok (FL (Leaf id lk v) :: stk)) by (constructor; [exact I|exact Hs]).
    cbn [seek_go leaves filter]. unfold ge_key. cbn [fst]. unfold lex_leb.
    destruct (lex_compare k lk) eqn:E.
    + eexists. split; [reflexivity|]. cbn [fst]. split; [exact Hs'|]. split; [exact I|]. reflexivity.
    + eexists. split; [reflexivity|]. cbn [fst]. split; [exact Hs'|]. split; [exact I|]. reflexivity.
    + destruct (it_next_spec _ Hs') as (s' & E' & H1 & H2 & H3).
      rewrite E'. cbn [bind]. eexists. split; [reflexivity|]. cbn [fst].
      split; [exact H1|]. split; [exact H2|]. exact H3.
  - assert (Hn : wfn (Inode c p ch)) by (now exists L, pi).
    destruct (inode_prelude L k c p ch pi Hk HWF Hext) as (Hlt & Hrem & Hcase).
    cbn [seek_go]. rewrite Hlt. rewrite leaves_inode.
    destruct (Nat.ltb_spec (shared_len p (skipn (length pi) k)) (length p)) as [Hsl|Hsl].
    + destruct (prefix_mismatch L k c p ch pi Hk HWF Hext Hsl) as (kb & pb & Hkb & Hpb & Hc).
      unfold byte_at. rewrite Hkb, Hpb. cbn [bind].
      destruct Hc as [[Hc Hall]|[Hc Hall]].
      * apply Z.ltb_lt in Hc. rewrite Hc.
        destruct (lm_spec _ stk Hn Hs) as (s1 & E1 & A1 & A2 & A3 & A4).
        rewrite E1. cbn [bind]. eexists. split; [reflexivity|]. cbn [fst].
        split; [exact A1|]. split; [exact A2|].
        rewrite A3, leaves_inode, filter_ge_all_gt by exact Hall. reflexivity.
      * assert (Hc' : (kb <? pb)%Z = false) by (apply Z.ltb_ge; lia). rewrite Hc'.
        destruct (rm_spec _ stk Hn Hs) as (s1 & E1 & A1 & A2 & A3 & A4).
        rewrite E1. cbn [bind].
        destruct (it_next_spec s1 A1) as (s2 & E2 & B1 & B2 & B3). rewrite E2. cbn [bind].
        eexists. split; [reflexivity|]. cbn [fst]. split; [exact B1|]. split; [exact B2|].
        rewrite B3, A4, filter_ge_all_lt by exact Hall. reflexivity.
    + destruct Hcase as [(Hsl' & _)|(_ & b & Hb & Hbyte & Hext' & _)]; [lia|].
      unfold byte_at. rewrite Hb. cbn [bind].
      assert (HWF' := HWF). apply WF_inode in HWF'. destruct HWF' as (Hlen & _ & _ & HS & _ & Hch).
      assert (HT := WFch_tagged _ _ _ _ Hch).
      assert (Hq : ext (pi ++ p) k). { rewrite app_assoc in Hext'. now apply ext_app_l in Hext'. }
      assert (Hbq : nth_error k (length (pi ++ p)) = Some b) by (now rewrite app_length).
      destruct (find_child ch b 0) as [[i c']|] eqn:Hfc.
      * apply find_child_some in Hfc. destruct Hfc as (l1 & l2 & -> & ->). cbn [Nat.add].
        destruct (child_of_WF _ _ _ _ _ _ _ _ HWF) as [_ Hc'].
        destruct (keys_sorted_split _ _ _ _ HS) as [Hl1 Hl2].
        destruct (tagged_split _ _ _ _ HT) as (HT1 & _ & HT2).
        replace (S (length pi + length p)) with (length (pi ++ p ++ [b])) by (rewrite !app_length; cbn; lia).
        destruct (IH c' (pi ++ p ++ [b]) (FI (Inode c p (l1 ++ (b, c') :: l2)) (length l1) :: stk) Hc' Hext')
          as (r & E & A1 & A2 & A3).
        { rewrite !app_length. cbn [length]. lia. }
        { apply stack_ok_push; [exact Hn| |exact Hs]. cbn [children]. rewrite app_length. cbn [length]. lia. }
        exists r. split; [exact E|]. split; [exact A1|]. split; [exact A2|].
        rewrite A3. cbn [rest_fwd children]. rewrite skipn_mid.
        rewrite cleaves_mid. cbn [snd]. rewrite !filter_app.
        rewrite (filter_ge_all_lt k (cleaves l1)) by (eapply tagged_lt; eassumption).
        rewrite (filter_ge_all_gt k (cleaves l2)) by (eapply tagged_gt; eassumption).
        cbn [app]. now rewrite app_assoc.
      * assert (Hnin := find_child_none _ _ _ Hfc).
        destruct (gte_idx ch b 0) as [j|] eqn:Hg.
        -- apply gte_idx_some in Hg. destruct Hg as (l1 & x & c' & l2 & -> & -> & Hl1 & Hbx). cbn [Nat.add].
           rewrite nth_error_mid.
           assert (Hxb : (b < x)%Z).
           { assert (x <> b); [|lia]. intros ->. apply Hnin. rewrite map_app. apply in_or_app. right. now left. }
           destruct (keys_sorted_split _ _ _ _ HS) as [_ Hl2].
           destruct (tagged_split _ _ _ _ HT) as (HT1 & HT2 & _).
           destruct (child_of_WF _ _ _ _ _ _ _ _ HWF) as [_ Hc'].
           destruct (lm_spec c' (FI (Inode c p (l1 ++ (x, c') :: l2)) (length l1) :: stk))
             as (s1 & E1 & A1 & A2 & A3 & _).
           { now exists L, (pi ++ p ++ [x]). }
           { apply stack_ok_push; [exact Hn| |exact Hs]. cbn [children]. rewrite app_length. cbn [length]. lia. }
           rewrite E1. cbn [bind]. eexists. split; [reflexivity|]. cbn [fst].
           split; [exact A1|]. split; [exact A2|].
           rewrite A3. cbn [rest_fwd children]. rewrite skipn_mid.
           rewrite cleaves_app, filter_app.
           rewrite (filter_ge_all_lt k (cleaves l1)) by (eapply tagged_lt; eassumption).
           rewrite (filter_ge_all_gt k (cleaves ((x, c') :: l2))).
           2:{ eapply tagged_gt; [exact Hq|exact Hbq|exact HT2|]. constructor; [exact Hxb|].
               eapply Forall_impl; [|exact Hl2]. cbn beta. intros; lia. }
           rewrite cleaves_cons. cbn [app]. now rewrite app_assoc.
        -- apply gte_idx_none in Hg.
           destruct (it_next_spec stk Hs) as (s2 & E2 & B1 & B2 & B3). rewrite E2. cbn [bind].
           eexists. split; [reflexivity|]. cbn [fst]. split; [exact B1|]. split; [exact B2|].
           rewrite B3, filter_ge_all_lt by (eapply tagged_lt; eassumption). reflexivity.
Qed.

(** * seek, reverse *)

Lemma seek_rev L k : key_ok L k -> forall fuel n pi stk,
  WF L n pi -> ext pi k -> L - length pi < fuel -> stack_ok stk ->
  exists r, seek_go true fuel n k (length pi) false stk = Ok r /\
    stack_ok (fst r) /\ is_pos (fst r) /\
    pos_rev (fst r) = rev (filter (le_key k) (leaves n)) ++ rest_rev stk.
Proof.
  intros Hk. induction fuel as [|f IH]; intros n pi stk HWF Hext Hfuel Hs; [lia|].
  destruct n as [id lk v|c p ch].
  - assert (Hs' : stack_ok (FL (Leaf id lk v) :: stk)) by (constructor; [exact I|exact Hs]).
    cbn [seek_go leaves filter]. unfold le_key. cbn [fst]. unfold lex_leb.
    rewrite (lex_compare_antisym k lk).
    destruct (lex_compare k lk) eqn:E; cbn [CompOpp].
    + eexists. split; [reflexivity|]. cbn [fst]. split; [exact Hs'|]. split; [exact I|]. reflexivity.
    + destruct (it_prior_spec _ Hs') as (s' & E' & H1 & H2 & H3).
      rewrite E'. cbn [bind]. eexists. split; [reflexivity|]. cbn [fst].
      split; [exact H1|]. split; [exact H2|]. exact H3.
    + eexists. split; [reflexivity|]. cbn [fst]. split; [exact Hs'|]. split; [exact I|]. reflexivity.
  - assert (Hn : wfn (Inode c p ch)) by (now exists L, pi).
    destruct (inode_prelude L k c p ch pi Hk HWF Hext) as (Hlt & Hrem & Hcase).
    cbn [seek_go]. rewrite Hlt. rewrite leaves_inode.
    destruct (Nat.ltb_spec (shared_len p (skipn (length pi) k)) (length p)) as [Hsl|Hsl].
    + destruct (prefix_mismatch L k c p ch pi Hk HWF Hext Hsl) as (kb & pb & Hkb & Hpb & Hc).
      unfold byte_at. rewrite Hkb, Hpb. cbn [bind].
      destruct Hc as [[Hc Hall]|[Hc Hall]].
      * apply Z.ltb_lt in Hc. rewrite Hc.
        destruct (lm_spec _ stk Hn Hs) as (s1 & E1 & A1 & A2 & A3 & A4).
        rewrite E1. cbn [bind].
        destruct (it_prior_spec s1 A1) as (s2 & E2 & B1 & B2 & B3). rewrite E2. cbn [bind].
        eexists. split; [reflexivity|]. cbn [fst]. split; [exact B1|]. split; [exact B2|].
        rewrite B3, A4, filter_le_all_gt by exact Hall. reflexivity.
      * assert (Hc' : (kb <? pb)%Z = false) by (apply Z.ltb_ge; lia). rewrite Hc'.
        destruct (rm_spec _ stk Hn Hs) as (s1 & E1 & A1 & A2 & A3 & A4).
        rewrite E1. cbn [bind]. eexists. split; [reflexivity|]. cbn [fst].
        split; [exact A1|]. split; [exact A2|].
        rewrite A3, leaves_inode, filter_le_all_lt by exact Hall. reflexivity.
    + destruct Hcase as [(Hsl' & _)|(_ & b & Hb & Hbyte & Hext' & _)]; [lia|].
      unfold byte_at. rewrite Hb. cbn [bind].
      assert (HWF' := HWF). apply WF_inode in HWF'. destruct HWF' as (Hlen & _ & _ & HS & _ & Hch).
      assert (HT := WFch_tagged _ _ _ _ Hch).
      assert (Hq : ext (pi ++ p) k). { rewrite app_assoc in Hext'. now apply ext_app_l in Hext'. }
      assert (Hbq : nth_error k (length (pi ++ p)) = Some b) by (now rewrite app_length).
      destruct (find_child ch b 0) as [[i c']|] eqn:Hfc.
      * apply find_child_some in Hfc. destruct Hfc as (l1 & l2 & -> & ->). cbn [Nat.add].
        destruct (child_of_WF _ _ _ _ _ _ _ _ HWF) as [_ Hc'].
        destruct (keys_sorted_split _ _ _ _ HS) as [Hl1 Hl2].
        destruct (tagged_split _ _ _ _ HT) as (HT1 & _ & HT2).
        replace (S (length pi + length p)) with (length (pi ++ p ++ [b])) by (rewrite !app_length; cbn; lia).
        destruct (IH c' (pi ++ p ++ [b]) (FI (Inode c p (l1 ++ (b, c') :: l2)) (length l1) :: stk) Hc' Hext')
          as (r & E & A1 & A2 & A3).
        { rewrite !app_length. cbn [length]. lia. }
        { apply stack_ok_push; [exact Hn| |exact Hs]. cbn [children]. rewrite app_length. cbn [length]. lia. }
        exists r. split; [exact E|]. split; [exact A1|]. split; [exact A2|].
        rewrite A3. cbn [rest_rev children]. rewrite firstn_mid.
        rewrite cleaves_mid. cbn [snd]. rewrite !filter_app.
        rewrite (filter_le_all_lt k (cleaves l1)) by (eapply tagged_lt; eassumption).
        rewrite (filter_le_all_gt k (cleaves l2)) by (eapply tagged_gt; eassumption).
        rewrite app_nil_r, rev_app_distr. now rewrite app_assoc.
      * assert (Hnin := find_child_none _ _ _ Hfc).
        destruct (lte_idx ch b 0) as [j|] eqn:Hg.
        -- apply lte_idx_some in Hg. destruct Hg as (l1 & x & c' & l2 & -> & -> & Hbx & Hl2). cbn [Nat.add].
           rewrite nth_error_mid.
           assert (Hxb : (x < b)%Z).
           { assert (x <> b); [|lia]. intros ->. apply Hnin. rewrite map_app. apply in_or_app. right. now left. }
           destruct (keys_sorted_split _ _ _ _ HS) as [Hl1 _].
           destruct (tagged_split _ _ _ _ HT) as (HT1 & HT2 & HT3).
           destruct (child_of_WF _ _ _ _ _ _ _ _ HWF) as [_ Hc'].
           destruct (rm_spec c' (FI (Inode c p (l1 ++ (x, c') :: l2)) (length l1) :: stk))
             as (s1 & E1 & A1 & A2 & A3 & _).
           { now exists L, (pi ++ p ++ [x]). }
           { apply stack_ok_push; [exact Hn| |exact Hs]. cbn [children]. rewrite app_length. cbn [length]. lia. }
           rewrite E1. cbn [bind]. eexists. split; [reflexivity|]. cbn [fst].
           split; [exact A1|]. split; [exact A2|].
           rewrite A3. cbn [rest_rev children]. rewrite firstn_mid.
           replace (l1 ++ (x, c') :: l2) with ((l1 ++ [(x, c')]) ++ l2) by (now rewrite <- app_assoc).
           rewrite cleaves_app, filter_app.
           rewrite (filter_le_all_gt k (cleaves l2)) by (eapply tagged_gt; eassumption).
           rewrite (filter_le_all_lt k (cleaves (l1 ++ [(x, c')]))).
           2:{ eapply tagged_lt; [exact Hq|exact Hbq| |].
               - unfold tagged in *. apply Forall_app. split; [exact HT1|].
                 apply Forall_cons_iff in HT2. constructor; [exact (proj1 HT2)|constructor].
               - apply Forall_app. split; [|repeat constructor; exact Hxb].
                 eapply Forall_impl; [|exact Hl1]. cbn beta. intros; lia. }
           rewrite app_nil_r, cleaves_app, rev_app_distr. rewrite <- app_assoc.
           change (cleaves [(x, c')]) with (leaves c' ++ []). now rewrite app_nil_r.
        -- apply lte_idx_none in Hg.
           destruct (it_prior_spec stk Hs) as (s2 & E2 & B1 & B2 & B3). rewrite E2. cbn [bind].
           eexists. split; [reflexivity|]. cbn [fst]. split; [exact B1|]. split; [exact B2|].
           rewrite B3, filter_le_all_gt by (eapply tagged_gt; eassumption). reflexivity.
Qed.

(** * assembling the scans *)

Lemma twhile_all {A} (f : A -> bool) l : (forall x, f x = true) -> twhile f l = l.
Proof. intros H. induction l as [|a l IH]; cbn [twhile]; [reflexivity|]. now rewrite H, IH. Qed.

Lemma filter_len {A} (f : A -> bool) l : length (filter f l) <= length l.
Proof. induction l as [|a l IH]; cbn [filter length]; [lia|]. destruct (f a); cbn [length]; lia. Qed.

Lemma negb_leb x b : negb (lex_leb x b) = lex_ltb b x.
Proof.
  unfold lex_leb, lex_ltb. rewrite (lex_compare_antisym x b). now destruct (lex_compare x b).
Qed.

Lemma kvs_rev l : kvs (rev l) = rev (kvs l).
Proof. unfold kvs. apply map_rev. Qed.

Theorem db_leaves_sorted : forall L d, db_WF L d -> StronglySorted entries_lt (db_leaves d).
Proof.
  intros L d. unfold db_WF, db_leaves. destruct (root d); [apply WF_leaves_sorted|constructor].
Qed.

Theorem db_scan_correct : forall L d h, (1 <= L <= 8)%nat -> db_WF L d ->
  db_scan d true h = Ok (take_until h (kvs (db_leaves d))) /\
  db_scan d false h = Ok (take_until h (rev (kvs (db_leaves d)))).
Proof.
  intros L d h _ HWF. unfold db_WF, db_scan, db_leaves in *. destruct (root d) as [n|].
  2:{ cbn. now rewrite take_until_nil. }
  assert (Hn : wfn n) by (now exists L, []).
  assert (Hsz := leaves_size n).
  split.
  - cbn [it_first]. destruct (lm_spec n [] Hn (Forall_nil _)) as (s & E & A1 & A2 & A3 & _).
    cbn [rest_fwd] in A3. rewrite app_nil_r in A3.
    rewrite E. cbn [bind]. rewrite scan_loop_fwd; [|exact A1|exact A2|rewrite A3; cbn [scan_fuel]; lia].
    cbn [rev app]. rewrite twhile_all by reflexivity. now rewrite A3.
  - cbn [it_last]. destruct (rm_spec n [] Hn (Forall_nil _)) as (s & E & A1 & A2 & A3 & _).
    cbn [rest_rev] in A3. rewrite app_nil_r in A3.
    rewrite E. cbn [bind].
    rewrite scan_loop_rev; [|exact A1|exact A2|rewrite A3, rev_length; cbn [scan_fuel]; lia].
    cbn [rev app]. rewrite twhile_all by reflexivity. now rewrite A3, kvs_rev.
Qed.

Theorem db_scan_from_correct : forall L d k h, (1 <= L <= 8)%nat -> db_WF L d -> key_ok L k ->
  db_scan_from d k true h = Ok (take_until h (kvs (filter (ge_key k) (db_leaves d)))) /\
  db_scan_from d k false h = Ok (take_until h (rev (kvs (filter (le_key k) (db_leaves d))))).
Proof.
  intros L d k h _ HWF Hk. unfold db_WF, db_scan_from, db_leaves in *. destruct (root d) as [n|].
  2:{ cbn. now rewrite take_until_nil. }
  assert (Hsz := leaves_size n).
  split.
  - destruct (seek_fwd L k Hk (fuel_for k) n [] [] HWF (ext_nil k) (fuel_ok L k Hk) (Forall_nil _))
      as (r & E & A1 & A2 & A3).
    cbn [length] in E. cbn [rest_fwd] in A3. rewrite app_nil_r in A3.
    cbn [it_seek]. rewrite E. cbn [bind].
    assert (Hlen := filter_len (ge_key k) (leaves n)).
    rewrite scan_loop_fwd; [|exact A1|exact A2|rewrite A3; cbn [scan_fuel]; lia].
    cbn [rev app]. rewrite twhile_all by reflexivity. now rewrite A3.
  - destruct (seek_rev L k Hk (fuel_for k) n [] [] HWF (ext_nil k) (fuel_ok L k Hk) (Forall_nil _))
      as (r & E & A1 & A2 & A3).
    cbn [length] in E. cbn [rest_rev] in A3. rewrite app_nil_r in A3.
    cbn [it_seek]. rewrite E. cbn [bind].
    assert (Hlen := filter_len (le_key k) (leaves n)).
    rewrite scan_loop_rev; [|exact A1|exact A2|rewrite A3, rev_length; cbn [scan_fuel]; lia].
    cbn [rev app]. rewrite twhile_all by reflexivity. now rewrite A3, kvs_rev.
Qed.

Theorem db_scan_range_correct : forall L d a b h, (1 <= L <= 8)%nat -> db_WF L d -> key_ok L a -> key_ok L b ->
  db_scan_range d a b h =
  Ok (match lex_compare a b with
      | Eq => []
      | Lt => take_until h (kvs (filter (in_fwd_range a b) (db_leaves d)))
      | Gt => take_until h (rev (kvs (filter (in_rev_range a b) (db_leaves d))))
      end).
Proof.
  intros L d a b h _ HWF Ha Hb. unfold db_scan_range.
  destruct (lex_compare a b) eqn:Eab; [reflexivity| |].
  - unfold db_WF, db_leaves in *. destruct (root d) as [n|].
    2:{ cbn. now rewrite take_until_nil. }
    assert (Hsz := leaves_size n).
    destruct (seek_fwd L a Ha (fuel_for a) n [] [] HWF (ext_nil a) (fuel_ok L a Ha) (Forall_nil _))
      as (r & E & A1 & A2 & A3).
    cbn [length] in E. cbn [rest_fwd] in A3. rewrite app_nil_r in A3.
    cbn [it_seek]. rewrite E. cbn [bind].
    assert (Hlen := filter_len (ge_key a) (leaves n)).
    rewrite scan_loop_fwd; [|exact A1|exact A2|rewrite A3; cbn [scan_fuel]; lia].
    cbn [rev app]. rewrite A3.
    rewrite (twhile_filter_sorted entries_lt).
    + rewrite filter_filter'. do 3 f_equal. apply filter_ext. intros e.
      unfold in_fwd_range, ge_key. now rewrite negb_involutive.
    + eapply SSorted_filter, WF_leaves_sorted. exact HWF.
    + intros x y Hxy Hy. rewrite negb_involutive in *. unfold lex_ltb in *.
      destruct (lex_compare (fst y) b) eqn:E1; try discriminate.
      assert (H : lex_lt (fst x) b) by (eapply lex_lt_trans; [exact Hxy|exact E1]).
      unfold lex_lt in H. now rewrite H.
  - unfold db_WF, db_leaves in *. destruct (root d) as [n|].
    2:{ cbn. now rewrite take_until_nil. }
    assert (Hsz := leaves_size n).
    destruct (seek_rev L a Ha (fuel_for a) n [] [] HWF (ext_nil a) (fuel_ok L a Ha) (Forall_nil _))
      as (r & E & A1 & A2 & A3).
    cbn [length] in E. cbn [rest_rev] in A3. rewrite app_nil_r in A3.
    cbn [it_seek]. rewrite E. cbn [bind].
    assert (Hlen := filter_len (le_key a) (leaves n)).
    rewrite scan_loop_rev; [|exact A1|exact A2|rewrite A3, rev_length; cbn [scan_fuel]; lia].
    cbn [rev app]. rewrite A3.
    rewrite (twhile_filter_sorted (fun x y => entries_lt y x)).
    + rewrite filter_rev', filter_filter', kvs_rev. do 4 f_equal. apply filter_ext. intros e.
      unfold in_rev_range, le_key. rewrite andb_comm. f_equal. apply negb_leb.
    + eapply SSorted_rev, SSorted_filter, WF_leaves_sorted. exact HWF.
    + intros x y Hxy Hy. rewrite negb_leb in *. unfold lex_ltb in *.
      destruct (lex_compare b (fst y)) eqn:E1; try discriminate.
      assert (H : lex_lt b (fst x)) by (eapply lex_lt_trans; [exact E1|exact Hxy]).
      unfold lex_lt in H. now rewrite H.
Qed.

(** * the seek of the pinned tree *)

Definition pin_key (a b : Z) : list Z := [0; 0; 0; 0; 0; 0; a; b]%Z.
Definition pin_db : db :=
  {| root := Some (Inode C4 [0; 0; 0; 0; 0; 0]%Z
                     [(0%Z, Inode C4 [] [(0%Z, Leaf 0 (pin_key 0 0) [1%Z]); (1%Z, Leaf 1 (pin_key 0 1) [2%Z])]);
                      (1%Z, Leaf 2 (pin_key 1 0) [3%Z])]);
     next_id := 3; st := stats0 |}.

Theorem pinned_seek_refuted : exists d k,
  db_WF 8 d /\ key_ok 8 k /\
  db_scan_from_pinned d k true <> Ok (kvs (filter (ge_key k) (db_leaves d))).
Proof.
  exists pin_db, (pin_key 0 5). split; [|split].
  - unfold db_WF, pin_db, pin_key. cbn [root].
    repeat first
      [ apply WF_inode; cbn [length app min_size cap prefix_capacity]
      | apply WF_leaf; unfold key_ok, ext; cbn [length app firstn]
      | match goal with
        | |- _ /\ _ => split
        | |- WFch _ _ _ _ => unfold WFch; cbn [fst snd]
        | |- keys_sorted _ => unfold keys_sorted; cbn [map fst]
        | |- Forall _ _ => constructor
        | |- StronglySorted _ _ => constructor
        | |- is_byte_z _ => unfold is_byte_z; cbn [fst]; lia
        | |- _ = _ => reflexivity
        | |- (_ < _)%Z => lia
        | |- _ < _ => lia
        | |- _ <= _ => unfold prefix_capacity; lia
        end ].
  - unfold key_ok, pin_key. split; [reflexivity|]. repeat constructor; unfold is_byte_z; lia.
  - vm_compute. discriminate.
Qed.
