(** Bridge from the generated key-prefix word functions (coq/Gen/GenKeyPrefix.v,
    regenerated from art_internal_impl.hpp's [key_prefix] / [key_prefix_snapshot]
    on every run) to the byte lists the sequential ART model (Art/ArtModel.v)
    keeps in [Inode c p ch].

    The C++ object is one little-endian 64-bit word: byte i (bits 8i..8i+7) is
    prefix byte i for i < 7 and byte 7 is the length.  [prefix_bytes w] is the
    abstract view: the first [length] bytes of the word.

    Every bridge lemma is stated under the ranges the C++ assertions demand and
    also proves the generated [<fn>_defined] side condition (all the
    UNODB_DETAIL_ASSERTs of the function, including the trailing
    "length <= capacity" ones, no shift out of range, no signed overflow). *)
From Coq Require Import List ZArith Lia Bool.
From Unodb Require Import Base.Lex Base.Bytes Base.GenPrims Base.BitsAux Base.WordBytes.
From Unodb Require Import Art.ArtModel Gen.GenKeyPrefix.
Import ListNotations.
Local Open Scope Z_scope.

Ltac Zify.zify_post_hook ::= Z.div_mod_to_equations.

(** * The abstract view *)

Definition kp_len (w : Z) : Z := w / 2 ^ 56.

(** the 8 bytes of the word, of which the first [kp_len w] are the prefix *)
Definition prefix_bytes (w : Z) : list Z := firstn (Z.to_nat (kp_len w)) (le_bytes 8 w).

(** a 64-bit word whose length byte respects key_prefix_capacity *)
Definition wf_prefix (w : Z) : Prop := 0 <= w < 2 ^ 64 /\ kp_len w <= 7.

(** get_u64(key_view): memcpy of min(size, 8) bytes into a zeroed word *)
Definition key_word (k : list Z) : Z := le_value (firstn 8 (pad8 k)).

Local Ltac numerals :=
  change (2 ^ 64) with 18446744073709551616 in *;
  change (2 ^ 56) with 72057594037927936 in *;
  change (2 ^ 32) with 4294967296 in *.

Lemma kp_len_range w : wf_prefix w -> 0 <= kp_len w <= 7.
Proof. unfold wf_prefix, kp_len. numerals. lia. Qed.

Lemma prefix_bytes_le_bytes w :
  0 <= kp_len w <= 8 -> prefix_bytes w = le_bytes (Z.to_nat (kp_len w)) w.
Proof. intros H. unfold prefix_bytes. apply firstn_le_bytes. lia. Qed.

Lemma prefix_bytes_length w : wf_prefix w -> length (prefix_bytes w) = Z.to_nat (kp_len w).
Proof.
  intros H. pose proof (kp_len_range w H). rewrite prefix_bytes_le_bytes by lia. apply le_bytes_length.
Qed.

Lemma prefix_bytes_ok w : bytes_ok (prefix_bytes w).
Proof. unfold prefix_bytes. apply bytes_ok_firstn, le_bytes_ok. Qed.

Lemma prefix_bytes_capacity w : wf_prefix w -> (length (prefix_bytes w) <= prefix_capacity)%nat.
Proof.
  intros H. rewrite prefix_bytes_length by exact H. pose proof (kp_len_range w H).
  unfold prefix_capacity. lia.
Qed.

(** the low [kp_len] bytes as a number *)
Lemma le_value_prefix_bytes w :
  wf_prefix w -> le_value (prefix_bytes w) = w mod 256 ^ Z.of_nat (Z.to_nat (kp_len w)).
Proof.
  intros H. pose proof (kp_len_range w H). rewrite prefix_bytes_le_bytes by lia.
  apply le_value_le_bytes_mod.
Qed.

(** building a well-formed word from its two fields *)
Lemma word_fields a n :
  0 <= a < 2 ^ 56 -> 0 <= n <= 7 ->
  wf_prefix (a + n * 2 ^ 56) /\ kp_len (a + n * 2 ^ 56) = n.
Proof. unfold wf_prefix, kp_len. numerals. intros Ha Hn. split; [split|]; lia. Qed.

Lemma prefix_bytes_fields a n :
  0 <= a < 2 ^ 56 -> 0 <= n <= 7 -> prefix_bytes (a + n * 2 ^ 56) = le_bytes (Z.to_nat n) a.
Proof.
  intros Ha Hn. destruct (word_fields a n Ha Hn) as [W L].
  rewrite prefix_bytes_le_bytes by (rewrite L; lia). rewrite L.
  change (2 ^ 56) with (256 ^ Z.of_nat 7). apply le_bytes_add_high. lia.
Qed.

(** * zero-padded windows and the model's [common_pad] *)

Lemma common_pad_le n a b : (common_pad n a b <= n)%nat.
Proof.
  revert a b; induction n as [|n IH]; intros a b; cbn [common_pad]; [lia|].
  destruct (_ =? _); [specialize (IH (tl a) (tl b))|]; lia.
Qed.

Lemma common_pad_sym n a b : common_pad n a b = common_pad n b a.
Proof.
  revert a b; induction n as [|n IH]; intros a b; cbn [common_pad]; [reflexivity|].
  rewrite (Z.eqb_sym (hd 0 a)), (IH (tl a)). reflexivity.
Qed.

Lemma common_pad_take_pad_l n m a b : (n <= m)%nat -> common_pad n (take_pad m a) b = common_pad n a b.
Proof.
  revert m a b; induction n as [|n IH]; intros m a b Hn; [reflexivity|].
  destruct m as [|m]; [lia|]. cbn [common_pad take_pad hd tl]. rewrite IH by lia. reflexivity.
Qed.

Lemma common_pad_take_pad n m m' a b :
  (n <= m)%nat -> (n <= m')%nat -> common_pad n (take_pad m a) (take_pad m' b) = common_pad n a b.
Proof.
  intros H H'. rewrite common_pad_take_pad_l by exact H.
  rewrite common_pad_sym, common_pad_take_pad_l by exact H'. apply common_pad_sym.
Qed.

(** the word-level common prefix is the model's, on the words' bytes *)
Lemma common_bytes_common_pad n a b :
  common_bytes n a b = common_pad n (le_bytes n a) (le_bytes n b).
Proof.
  revert a b; induction n as [|n IH]; intros a b; cbn [common_bytes common_pad le_bytes hd tl]; [reflexivity|].
  rewrite IH. reflexivity.
Qed.

Lemma le_bytes_take_pad n m w : (n <= m)%nat -> le_bytes n w = take_pad n (le_bytes m w).
Proof.
  intros H. rewrite <- (firstn_le_bytes n m) by exact H.
  rewrite <- (take_pad_exact (le_bytes m w)) at 1. rewrite le_bytes_length.
  apply firstn_take_pad. exact H.
Qed.

Lemma pad8_window k : firstn 8 (pad8 k) = take_pad 8 k.
Proof. unfold pad8. apply firstn_app_repeat. lia. Qed.

Lemma key_word_range k : bytes_ok k -> 0 <= key_word k < 2 ^ 64.
Proof.
  intros H. unfold key_word. rewrite pad8_window.
  pose proof (le_value_bound (take_pad 8 k) (take_pad_ok 8 k H)) as B.
  rewrite take_pad_length in B. exact B.
Qed.

Lemma le_bytes_key_word n k : bytes_ok k -> (n <= 8)%nat -> le_bytes n (key_word k) = take_pad n k.
Proof.
  intros H Hn. unfold key_word. rewrite pad8_window.
  rewrite <- (firstn_le_bytes n 8) by exact Hn.
  rewrite le_bytes_le_value_take_pad by exact H. apply firstn_take_pad. exact Hn.
Qed.

(** * Word-level normal forms of the generated functions *)

Lemma kp_length_len w : 0 <= w < 2 ^ 64 -> kp_length w = kp_len w.
Proof.
  intros H. unfold kp_length, kp_len. cbv zeta. rewrite Z.shiftr_div_pow2 by lia.
  numerals. apply Z.mod_small. lia.
Qed.

Lemma kp_length_to_word_eq n : 0 <= n <= 255 -> kp_length_to_word n = n * 2 ^ 56.
Proof.
  intros H. unfold kp_length_to_word. rewrite Z.shiftl_mul_pow2 by lia.
  numerals. apply Z.mod_small. lia.
Qed.

Lemma kp_shared_len_eq k1 k2 c :
  0 <= k1 -> 0 <= k2 -> 0 <= c < 8 ->
  kp_shared_len k1 k2 c = Z.of_nat (common_bytes (Z.to_nat c) k1 k2).
Proof.
  intros H1 H2 Hc. unfold kp_shared_len. cbv zeta.
  change 4294967296 with (2 ^ 32). change 18446744073709551616 with (2 ^ 64).
  rewrite (Z.mod_small (c * 8)) by (numerals; lia).
  rewrite Z.shiftl_1_l.
  rewrite (Z.mod_small (2 ^ (c * 8))) by (split; [apply Z.pow_nonneg; lia|apply Z.pow_lt_mono_r; lia]).
  rewrite Z.shiftr_div_pow2 by lia. change (2 ^ 3) with 8.
  replace (c * 8) with (8 * Z.of_nat (Z.to_nat c)) by lia.
  rewrite ctz_xor_common_bytes by assumption.
  pose proof (common_bytes_le (Z.to_nat c) k1 k2) as L.
  apply Z.mod_small. numerals. lia.
Qed.

Local Ltac split_defined :=
  cbv zeta; repeat (apply andb_true_intro; split).
Local Ltac leaf :=
  first [apply Z.leb_le | apply Z.ltb_lt | apply Z.gtb_lt].

Lemma kp_length_defined_ok w : wf_prefix w -> kp_length_defined w = true.
Proof.
  intros [R L]. unfold kp_length_defined. cbv zeta.
  pose proof (kp_length_len w R) as E. unfold kp_length in E. cbv zeta in E. rewrite E.
  apply Z.leb_le. exact L.
Qed.

Lemma kp_length_to_word_defined_ok n : n <= 7 -> kp_length_to_word_defined n = true.
Proof. intros H. unfold kp_length_to_word_defined. split_defined; leaf; lia. Qed.

Lemma kp_shared_len_defined_ok k1 k2 c : 0 <= c < 8 -> kp_shared_len_defined k1 k2 c = true.
Proof.
  intros H. unfold kp_shared_len_defined. split_defined; leaf; try lia.
  all: change 4294967296 with (2 ^ 32); rewrite Z.mod_small by (numerals; lia); lia.
Qed.

(** * Bridge lemmas *)

(** length() *)
Theorem bridge_kp_length w :
  wf_prefix w ->
  kp_length_defined w = true /\ kp_length w = Z.of_nat (length (prefix_bytes w)).
Proof.
  intros H. split; [now apply kp_length_defined_ok|].
  rewrite kp_length_len by apply H. rewrite prefix_bytes_length by exact H.
  pose proof (kp_len_range w H). lia.
Qed.

(** length_to_word(length) : the length goes to the top byte *)
Theorem bridge_kp_length_to_word n :
  0 <= n <= 7 ->
  kp_length_to_word_defined n = true /\
  wf_prefix (kp_length_to_word n) /\ prefix_bytes (kp_length_to_word n) = le_bytes (Z.to_nat n) 0.
Proof.
  intros H. split; [apply kp_length_to_word_defined_ok; lia|].
  rewrite kp_length_to_word_eq by lia.
  assert (Z0 : 0 <= 0 < 2 ^ 56) by (numerals; lia).
  split.
  - apply (proj1 (word_fields 0 n Z0 H)).
  - apply (prefix_bytes_fields 0 n Z0 H).
Qed.

(** shared_len(k1, k2, clamp): common bytes of the two words, at most clamp *)
Theorem bridge_kp_shared_len k1 k2 c :
  0 <= k1 < 2 ^ 64 -> 0 <= k2 < 2 ^ 64 -> 0 <= c < 8 ->
  kp_shared_len_defined k1 k2 c = true /\
  kp_shared_len k1 k2 c = Z.of_nat (common_pad (Z.to_nat c) (le_bytes 8 k1) (le_bytes 8 k2)).
Proof.
  intros H1 H2 Hc. split; [now apply kp_shared_len_defined_ok|].
  rewrite kp_shared_len_eq by lia. rewrite common_bytes_common_pad.
  rewrite (le_bytes_take_pad (Z.to_nat c) 8 k1), (le_bytes_take_pad (Z.to_nat c) 8 k2) by lia.
  f_equal. apply common_pad_take_pad; lia.
Qed.

(** get_shared_length(shifted_key_u64): the model's [shared_len] of the node's
    prefix and the remaining key bytes (whose first 8, zero padded, are the word) *)
Theorem bridge_kp_get_shared_length rem w :
  wf_prefix w -> bytes_ok rem ->
  kp_get_shared_length_defined (key_word rem) w = true /\
  kp_get_shared_length (key_word rem) w = Z.of_nat (shared_len (prefix_bytes w) rem).
Proof.
  intros W R. pose proof (kp_len_range w W) as HL. pose proof (key_word_range rem R) as HK.
  destruct W as [Ww Wl].
  unfold kp_get_shared_length_defined, kp_get_shared_length.
  rewrite (kp_length_len w Ww). split.
  - apply andb_true_intro. split; [apply kp_length_defined_ok; split; assumption|].
    apply kp_shared_len_defined_ok. lia.
  - rewrite kp_shared_len_eq by lia. f_equal.
    unfold shared_len. rewrite prefix_bytes_length by (split; assumption).
    rewrite common_bytes_common_pad.
    rewrite le_bytes_key_word by (try assumption; lia).
    rewrite <- prefix_bytes_le_bytes by lia.
    rewrite common_pad_take_pad_l by lia. apply common_pad_sym.
Qed.

(** get_shared_length(ArtKey shifted_key) = the above on shifted_key.get_u64() *)
Theorem bridge_kp_get_shared_length_key k w :
  kp_get_shared_length_key k w = kp_get_shared_length k w /\
  kp_get_shared_length_key_defined k w = kp_get_shared_length_defined k w.
Proof. split; reflexivity. Qed.

(** operator[](i) *)
Theorem bridge_kp_at i w :
  wf_prefix w -> 0 <= i < kp_len w ->
  kp_at_defined i w = true /\ byte_at (prefix_bytes w) (Z.to_nat i) = Ok (kp_at i w).
Proof.
  intros W Hi. pose proof (kp_len_range w W) as HL. split.
  - unfold kp_at_defined. rewrite (kp_length_len w (proj1 W)), (kp_length_defined_ok w W).
    split_defined; try reflexivity; leaf; lia.
  - unfold byte_at.
    rewrite (nth_error_nth' (prefix_bytes w) 0) by (rewrite prefix_bytes_length by exact W; lia).
    f_equal. rewrite prefix_bytes_le_bytes by lia. rewrite nth_le_bytes by lia.
    unfold kp_at. rewrite Z.shiftr_div_pow2 by lia.
    replace (8 * (0 + 1 * i)) with (8 * Z.of_nat (Z.to_nat i)) by lia.
    rewrite <- pow256_pow2. reflexivity.
Qed.

(** cut(cut_len): drop the first cut_len bytes *)
Lemma kp_cut_eq n w :
  wf_prefix w -> 0 < n <= kp_len w ->
  kp_cut n w = (w / 256 ^ Z.of_nat (Z.to_nat n)) mod 2 ^ 56 + (kp_len w - n) * 2 ^ 56.
Proof.
  intros W Hn. pose proof (kp_len_range w W) as HL.
  unfold kp_cut. cbv zeta. rewrite (kp_length_len w (proj1 W)).
  rewrite (Z.mod_small (kp_len w - n) 256) by lia.
  rewrite kp_length_to_word_eq by lia.
  rewrite Z.shiftr_div_pow2 by lia.
  change 72057594037927935 with (2 ^ 56 - 1). rewrite land_ones_mod by lia.
  replace (n * 8) with (8 * Z.of_nat (Z.to_nat n)) by lia. rewrite <- pow256_pow2.
  apply lor_add_disjoint; [lia|]. apply Z.mod_pos_bound. numerals. lia.
Qed.

Theorem bridge_kp_cut n w :
  wf_prefix w -> 0 < n <= kp_len w ->
  kp_cut_defined n w = true /\ wf_prefix (kp_cut n w) /\
  prefix_bytes (kp_cut n w) = skipn (Z.to_nat n) (prefix_bytes w).
Proof.
  intros W Hn. pose proof (kp_len_range w W) as HL.
  pose proof (kp_cut_eq n w W Hn) as E.
  set (a := (w / 256 ^ Z.of_nat (Z.to_nat n)) mod 2 ^ 56) in E.
  assert (Ha : 0 <= a < 2 ^ 56) by (apply Z.mod_pos_bound; numerals; lia).
  assert (Hk : 0 <= kp_len w - n <= 7) by lia.
  destruct (word_fields a (kp_len w - n) Ha Hk) as [W' L'].
  pose proof (prefix_bytes_fields a (kp_len w - n) Ha Hk) as P'.
  rewrite <- E in W', L', P'.
  assert (V : prefix_bytes (kp_cut n w) = skipn (Z.to_nat n) (prefix_bytes w)).
  { rewrite P'. unfold a. change (2 ^ 56) with (256 ^ Z.of_nat 7).
    rewrite le_bytes_mod by lia.
    rewrite prefix_bytes_le_bytes by lia.
    replace (Z.to_nat (kp_len w)) with (Z.to_nat n + Z.to_nat (kp_len w - n))%nat by lia.
    symmetry. apply skipn_le_bytes. }
  split; [|split; assumption].
  unfold kp_cut_defined. repeat (apply andb_true_intro; split).
  all: try (change (kp_length_defined (kp_cut n w) = true); now apply kp_length_defined_ok).
  all: rewrite ?(kp_length_len w (proj1 W)).
  all: try (now apply kp_length_defined_ok).
  all: try (apply kp_length_to_word_defined_ok; lia).
  all: leaf; lia.
Qed.

(** a byte list of at most 7 bytes, packed *)
Lemma prefix_bytes_of_list l :
  bytes_ok l -> (length l <= 7)%nat ->
  wf_prefix (le_value l + Z.of_nat (length l) * 2 ^ 56) /\
  prefix_bytes (le_value l + Z.of_nat (length l) * 2 ^ 56) = l.
Proof.
  intros B L. pose proof (le_value_bound l B) as R.
  pose proof (pow256_le (length l) 7 L) as P. change (256 ^ Z.of_nat 7) with (2 ^ 56) in P.
  assert (Ha : 0 <= le_value l < 2 ^ 56) by lia.
  assert (Hn : 0 <= Z.of_nat (length l) <= 7) by lia.
  split; [apply (proj1 (word_fields _ _ Ha Hn))|].
  rewrite prefix_bytes_fields by assumption. rewrite Nat2Z.id. now apply le_bytes_le_value.
Qed.

(** prepend(prefix1, prefix2): prefix1 ++ [prefix2] ++ this *)
Lemma kp_prepend_eq w1 b w3 :
  wf_prefix w1 -> wf_prefix w3 -> is_byte b -> kp_len w3 + kp_len w1 < 7 ->
  kp_prepend w1 b w3 =
  le_value (prefix_bytes w1 ++ b :: prefix_bytes w3)
  + Z.of_nat (length (prefix_bytes w1 ++ b :: prefix_bytes w3)) * 2 ^ 56.
Proof.
  intros W1 W3 Hb Hs.
  pose proof (kp_len_range w1 W1) as HL1. pose proof (kp_len_range w3 W3) as HL3.
  rewrite le_value_app. cbn [le_value]. rewrite app_length. cbn [length].
  rewrite !le_value_prefix_bytes, !prefix_bytes_length by assumption.
  set (n1 := Z.to_nat (kp_len w1)). set (n3 := Z.to_nat (kp_len w3)).
  assert (E1 : kp_len w1 = Z.of_nat n1) by (unfold n1; lia).
  assert (E3 : kp_len w3 = Z.of_nat n3) by (unfold n3; lia).
  assert (N : (n1 + n3 < 7)%nat) by lia.
  pose proof (pow256_pos n1) as P1. pose proof (pow256_pos n3) as P3.
  pose proof (pow256_le (n1 + n3 + 1) 7 ltac:(lia)) as PS.
  rewrite !pow256_add in PS. change (256 ^ Z.of_nat 1) with 256 in PS.
  change (256 ^ Z.of_nat 7) with (2 ^ 56) in PS.
  pose proof (Z.mod_pos_bound w1 _ P1) as B1. pose proof (Z.mod_pos_bound w3 _ P3) as B3.
  unfold is_byte in Hb.
  unfold kp_prepend. cbv zeta.
  rewrite (kp_length_len w1 (proj1 W1)), (kp_length_len w3 (proj1 W3)), E1, E3.
  change 4294967296 with (2 ^ 32). change 18446744073709551616 with (2 ^ 64).
  assert (S8 : forall k : nat, (k <= 7)%nat -> (Z.of_nat k * 8) mod 2 ^ 32 = 8 * Z.of_nat k)
    by (intros k Hk; numerals; rewrite Z.mod_small; lia).
  rewrite !S8 by lia.
  assert (M : forall k : nat, (k <= 7)%nat ->
              ((Z.shiftl 1 (8 * Z.of_nat k)) mod 2 ^ 64 - 1) mod 2 ^ 64 = 2 ^ (8 * Z.of_nat k) - 1).
  { intros k Hk. rewrite Z.shiftl_1_l, <- pow256_pow2.
    pose proof (pow256_pos k). pose proof (pow256_le k 7 Hk) as Q.
    change (256 ^ Z.of_nat 7) with 72057594037927936 in Q. numerals.
    rewrite (Z.mod_small (256 ^ Z.of_nat k)) by lia. apply Z.mod_small. lia. }
  rewrite !M by lia. rewrite !land_ones_mod by lia. rewrite <- !pow256_pow2.
  rewrite (Z.mod_small (8 * Z.of_nat n1 + 8)) by (numerals; lia).
  rewrite !Z.shiftl_mul_pow2 by lia.
  replace (8 * Z.of_nat n1 + 8) with (8 * Z.of_nat (n1 + 1)) by lia.
  rewrite <- !pow256_pow2, pow256_add. change (256 ^ Z.of_nat 1) with 256.
  set (Q1 := 256 ^ Z.of_nat n1) in *. set (Q3 := 256 ^ Z.of_nat n3) in *.
  set (p1 := w1 mod Q1) in *. set (p3 := w3 mod Q3) in *.
  assert (T3 : 0 <= p3 * (Q1 * 256) < 2 ^ 56) by nia.
  assert (T2 : 0 <= b * Q1 < Q1 * 256) by nia.
  rewrite (Z.mod_small (p3 * (Q1 * 256))) by (numerals; lia).
  rewrite (Z.mod_small (b * Q1)) by (numerals; nia).
  replace ((Z.of_nat n3 + Z.of_nat n1) mod 2 ^ 32 + 1) with (Z.of_nat (n1 + S n3))
    by (numerals; rewrite Z.mod_small; lia).
  rewrite (Z.mod_small (Z.of_nat (n1 + S n3))) by (numerals; lia).
  rewrite kp_length_to_word_eq by lia.
  (* (sp3 | sp2) | mp1 | len *)
  rewrite (Z.lor_comm (p3 * (Q1 * 256)) (b * Q1)).
  assert (Q1e : Q1 * 256 = 2 ^ (8 * Z.of_nat (n1 + 1))).
  { unfold Q1. rewrite <- pow256_pow2, pow256_add. reflexivity. }
  rewrite Q1e in *.
  rewrite (lor_add_disjoint (b * Q1) p3 (8 * Z.of_nat (n1 + 1))) by lia.
  rewrite <- Q1e in *.
  rewrite (Z.lor_comm (b * Q1 + p3 * (Q1 * 256)) p1).
  assert (Q1f : Q1 = 2 ^ (8 * Z.of_nat n1)) by (unfold Q1; apply pow256_pow2).
  replace (b * Q1 + p3 * (Q1 * 256)) with ((b + p3 * 256) * 2 ^ (8 * Z.of_nat n1)) by (rewrite <- Q1f; ring).
  rewrite (lor_add_disjoint p1 (b + p3 * 256) (8 * Z.of_nat n1)) by (rewrite <- ?Q1f; lia).
  rewrite <- Q1f.
  rewrite lor_add_disjoint by (try lia; nia).
  ring.
Qed.

Theorem bridge_kp_prepend w1 b w3 :
  wf_prefix w1 -> wf_prefix w3 -> is_byte b -> kp_len w3 + kp_len w1 < 7 ->
  kp_prepend_defined w1 b w3 = true /\ wf_prefix (kp_prepend w1 b w3) /\
  prefix_bytes (kp_prepend w1 b w3) = prefix_bytes w1 ++ b :: prefix_bytes w3.
Proof.
  intros W1 W3 Hb Hs.
  pose proof (kp_len_range w1 W1) as HL1. pose proof (kp_len_range w3 W3) as HL3.
  pose proof (kp_prepend_eq w1 b w3 W1 W3 Hb Hs) as E.
  assert (B : bytes_ok (prefix_bytes w1 ++ b :: prefix_bytes w3)).
  { apply bytes_ok_app; [apply prefix_bytes_ok|]. constructor; [exact Hb|apply prefix_bytes_ok]. }
  assert (L : (length (prefix_bytes w1 ++ b :: prefix_bytes w3) <= 7)%nat).
  { rewrite app_length. cbn [length]. rewrite !prefix_bytes_length by assumption. lia. }
  destruct (prefix_bytes_of_list _ B L) as [W' P']. rewrite <- E in W', P'.
  split; [|split; assumption].
  unfold kp_prepend_defined. repeat (apply andb_true_intro; split).
  all: try (change (kp_length_defined (kp_prepend w1 b w3) = true); now apply kp_length_defined_ok).
  all: cbv zeta.
  all: rewrite ?(kp_length_len w1 (proj1 W1)), ?(kp_length_len w3 (proj1 W3)).
  all: try (now apply kp_length_defined_ok).
  all: change 4294967296 with (2 ^ 32).
  all: rewrite ?(Z.mod_small (kp_len w1 * 8) (2 ^ 32)), ?(Z.mod_small (kp_len w3 * 8) (2 ^ 32)),
         ?(Z.mod_small (kp_len w3 + kp_len w1) (2 ^ 32)) by (numerals; lia).
  all: rewrite ?(Z.mod_small (kp_len w1 * 8 + 8) (2 ^ 32)),
         ?(Z.mod_small (kp_len w3 + kp_len w1 + 1) (2 ^ 32)) by (numerals; lia).
  all: try (apply kp_length_to_word_defined_ok; lia).
  all: leaf; lia.
Qed.

(** the model's prepend_prefix on the surviving child of a collapsing N4 *)
Corollary bridge_kp_prepend_model w1 b w3 c ch :
  wf_prefix w1 -> wf_prefix w3 -> is_byte b -> kp_len w3 + kp_len w1 < 7 ->
  prepend_prefix (prefix_bytes w1) b (Inode c (prefix_bytes w3) ch)
  = Inode c (prefix_bytes (kp_prepend w1 b w3)) ch.
Proof.
  intros W1 W3 Hb Hs. cbn [prepend_prefix].
  now rewrite (proj2 (proj2 (bridge_kp_prepend w1 b w3 W1 W3 Hb Hs))).
Qed.

(** key_prefix(key_prefix_len, source): the first key_prefix_len bytes of source *)
Theorem bridge_kp_init_len_src n src :
  0 <= src < 2 ^ 64 -> 0 <= n <= 7 ->
  kp_init_len_src_defined n src = true /\ wf_prefix (kp_init_len_src n src) /\
  prefix_bytes (kp_init_len_src n src) = firstn (Z.to_nat n) (le_bytes 8 src) /\
  (wf_prefix src -> n <= kp_len src ->
   prefix_bytes (kp_init_len_src n src) = firstn (Z.to_nat n) (prefix_bytes src)).
Proof.
  intros Hs Hn.
  assert (E : kp_init_len_src n src = src mod 2 ^ 56 + n * 2 ^ 56).
  { unfold kp_init_len_src. cbv zeta. rewrite kp_length_to_word_eq by lia.
    change 72057594037927935 with (2 ^ 56 - 1). rewrite land_ones_mod by lia.
    apply lor_add_disjoint; [lia|]. apply Z.mod_pos_bound. numerals. lia. }
  assert (Ha : 0 <= src mod 2 ^ 56 < 2 ^ 56) by (apply Z.mod_pos_bound; numerals; lia).
  destruct (word_fields _ n Ha Hn) as [W' L'].
  pose proof (prefix_bytes_fields _ n Ha Hn) as P'. rewrite <- E in W', L', P'.
  assert (V : prefix_bytes (kp_init_len_src n src) = firstn (Z.to_nat n) (le_bytes 8 src)).
  { rewrite P'. change (2 ^ 56) with (256 ^ Z.of_nat 7). rewrite le_bytes_mod by lia.
    symmetry. apply firstn_le_bytes. lia. }
  split; [|split; [exact W'|split; [exact V|]]].
  - unfold kp_init_len_src_defined. apply andb_true_intro.
    split; [apply kp_length_to_word_defined_ok; lia|]. cbv zeta. apply Z.leb_le. lia.
  - intros Ws Hle. pose proof (kp_len_range src Ws). rewrite V. unfold prefix_bytes at 1.
    rewrite firstn_firstn. f_equal. lia.
Qed.

(** make_u64(k1, shifted_k2, depth) of the leaf-split constructor: the bytes the
    two remaining keys share in their zero-padded windows, at most 7 *)
Theorem bridge_kp_make_u64 k1rem rem :
  bytes_ok k1rem -> bytes_ok rem ->
  let n' := common_pad prefix_capacity k1rem rem in
  kp_make_u64_defined (key_word k1rem) (key_word rem) = true /\
  wf_prefix (kp_make_u64 (key_word k1rem) (key_word rem)) /\
  prefix_bytes (kp_make_u64 (key_word k1rem) (key_word rem)) = firstn n' (pad8 k1rem).
Proof.
  intros B1 B2 n'.
  pose proof (key_word_range k1rem B1) as R1. pose proof (key_word_range rem B2) as R2.
  set (k1 := key_word k1rem) in *. set (k2 := key_word rem) in *.
  set (a := k1 mod 2 ^ 56).
  assert (Ha : 0 <= a < 2 ^ 56) by (apply Z.mod_pos_bound; numerals; lia).
  assert (A : Z.land k1 72057594037927935 = a).
  { change 72057594037927935 with (2 ^ 56 - 1). apply land_ones_mod. lia. }
  assert (S : kp_shared_len a k2 7 = Z.of_nat n').
  { rewrite kp_shared_len_eq by lia. f_equal. change (Z.to_nat 7) with 7%nat.
    unfold a. change (2 ^ 56) with (256 ^ Z.of_nat 7). rewrite common_bytes_mod by lia.
    rewrite common_bytes_common_pad. unfold k1, k2.
    rewrite !le_bytes_key_word by (try assumption; lia).
    apply common_pad_take_pad; lia. }
  assert (N : (n' <= 7)%nat) by apply common_pad_le.
  assert (Hn : 0 <= Z.of_nat n' <= 7) by lia.
  assert (E : kp_make_u64 k1 k2 = a + Z.of_nat n' * 2 ^ 56).
  { unfold kp_make_u64. cbv zeta. rewrite A, S. rewrite kp_length_to_word_eq by lia.
    apply lor_add_disjoint; lia. }
  destruct (word_fields a _ Ha Hn) as [W' L'].
  pose proof (prefix_bytes_fields a _ Ha Hn) as P'. rewrite <- E in W', L', P'.
  split; [|split; [exact W'|]].
  - unfold kp_make_u64_defined. cbv zeta. rewrite A, S. apply andb_true_intro. split.
    + apply kp_shared_len_defined_ok. lia.
    + apply kp_length_to_word_defined_ok. lia.
  - rewrite P', Nat2Z.id. unfold a. change (2 ^ 56) with (256 ^ Z.of_nat 7).
    rewrite le_bytes_mod by lia. unfold k1. rewrite le_bytes_key_word by (try assumption; lia).
    unfold pad8. symmetry. apply firstn_app_repeat. lia.
Qed.

(** * key_prefix_snapshot: the iterator's copy of the same word *)

Theorem bridge_kps :
  (forall k1 k2 c, kps_shared_len k1 k2 c = kp_shared_len k1 k2 c /\
                   kps_shared_len_defined k1 k2 c = kp_shared_len_defined k1 k2 c) /\
  (forall w, kps_length w = kp_length w) /\
  (forall k w, kps_get_shared_length k w = kp_get_shared_length k w) /\
  (forall i w, kps_at i w = kp_at i w).
Proof. repeat split. Qed.

Theorem bridge_kps_get_shared_length rem w :
  wf_prefix w -> bytes_ok rem ->
  kps_get_shared_length_defined (key_word rem) w = true /\
  kps_get_shared_length (key_word rem) w = Z.of_nat (shared_len (prefix_bytes w) rem).
Proof.
  intros W R. destruct (bridge_kp_get_shared_length rem w W R) as [D V].
  split; [|exact V].
  unfold kp_get_shared_length_defined in D. apply andb_prop in D. destruct D as [_ D].
  unfold kps_get_shared_length_defined. exact D.
Qed.

Theorem bridge_kps_at i w :
  wf_prefix w -> 0 <= i < kp_len w ->
  kps_at_defined i w = true /\ byte_at (prefix_bytes w) (Z.to_nat i) = Ok (kps_at i w).
Proof.
  intros W Hi. destruct (bridge_kp_at i w W Hi) as [D V]. split; [|exact V].
  unfold kp_at_defined in D. apply andb_prop in D. destruct D as [D1 D2].
  apply andb_prop in D1. destruct D1 as [_ D1].
  unfold kps_at_defined. apply andb_true_intro. split; [|exact D2].
  apply andb_true_intro. split; [reflexivity|exact D1].
Qed.

(** * constants *)
Theorem bridge_kp_constants :
  kp_capacity = Z.of_nat prefix_capacity /\ kp_key_bytes_mask = 2 ^ 56 - 1.
Proof. split; reflexivity. Qed.
