(** Canonical shape of the ART model and the node statistics as functions of
    the tree:
    - [class_by_fanout]: the class of an inner node is the one its fan-out requires;
    - [shape_unique]: two well-formed trees with the same entries have the same shape;
    - [stats_are_tree_functions]: the incrementally maintained counters equal
      the functions of the tree after every history;
    - [counters_monotone], [clear_zero]. *)
From Coq Require Import List ZArith Bool Lia Sorted Permutation.
From Unodb Require Import Base.Lex Art.ArtModel Art.ArtIter Art.ArtSpec Art.ArtInv
  Art.ArtLemmas Art.ArtProofs Art.ArtScanSpec.
Import ListNotations.

(** * the class is a function of the fan-out *)

Theorem class_by_fanout : forall L c p ch pi, WF L (Inode c p ch) pi ->
  c = (if (length ch <=? 4) then C4 else if (length ch <=? 16) then C16
       else if (length ch <=? 48) then C48 else C256) /\ (2 <= length ch <= 256).
Proof.
  intros L c p ch pi H. apply WF_inode in H. destruct H as (_ & _ & _ & _ & Hsz & _).
  destruct c; cbn [min_size cap] in Hsz;
    destruct (Nat.leb_spec (length ch) 4); destruct (Nat.leb_spec (length ch) 16);
    destruct (Nat.leb_spec (length ch) 48); try (exfalso; lia); (split; [reflexivity|lia]).
Qed.

(** * uniqueness of the shape *)

Lemma erase_inode c p ch :
  erase (Inode c p ch) = Inode c p (map (fun bc => (fst bc, erase (snd bc))) ch).
Proof.
  cbn [erase]. f_equal. induction ch as [|[b c'] ch IH]; cbn [map fst snd]; [reflexivity|now f_equal].
Qed.

Lemma kvs_app l1 l2 : kvs (l1 ++ l2) = kvs l1 ++ kvs l2.
Proof. unfold kvs. apply map_app. Qed.

Lemma kvs_keys l : map fst (kvs l) = map fst l.
Proof. unfold kvs. rewrite map_map. reflexivity. Qed.

Lemma kvs_nil_inv l : kvs l = [] -> l = [].
Proof. destruct l; [reflexivity|discriminate]. Qed.

Lemma WFch_nonempty L pi p ch : WFch L pi p ch -> Forall (fun bc => leaves (snd bc) <> []) ch.
Proof.
  unfold WFch. intros H. eapply Forall_impl; [|exact H]. cbn beta. intros bc [_ Hc].
  eapply WF_nonempty; exact Hc.
Qed.

(** the byte of a key/value pair at position d is b *)
Definition bf (d : nat) (b : Z) (kv : list Z * list Z) : bool :=
  match nth_error (fst kv) d with Some x => Z.eqb x b | None => false end.

Lemma filter_tag_true d b (l : list entry) :
  (forall e, In e l -> nth_error (fst e) d = Some b) -> filter (bf d b) (kvs l) = kvs l.
Proof.
  induction l as [|e l IH]; intros H; [reflexivity|].
  cbn [kvs map filter]. unfold bf at 1. cbn [fst]. rewrite (H e (or_introl eq_refl)), Z.eqb_refl.
  f_equal. apply IH. intros e' He'. apply H. now right.
Qed.

Lemma filter_tag_false d b (l : list entry) :
  (forall e, In e l -> exists x, nth_error (fst e) d = Some x /\ x <> b) -> filter (bf d b) (kvs l) = [].
Proof.
  induction l as [|e l IH]; intros H; [reflexivity|].
  cbn [kvs map filter]. unfold bf at 1. cbn [fst].
  destruct (H e (or_introl eq_refl)) as (x & -> & Hx).
  destruct (Z.eqb_spec x b); [contradiction|].
  apply IH. intros e' He'. apply H. now right.
Qed.

Lemma cleaves_tag_other d b ch : Forall (byte_tag d) ch -> ~ In b (map fst ch) ->
  forall e, In e (cleaves ch) -> exists x, nth_error (fst e) d = Some x /\ x <> b.
Proof.
  intros HT Hn e He. unfold cleaves in He. apply in_flat_map in He. destruct He as (bc & Hin & He).
  rewrite Forall_forall in HT. exists (fst bc). split; [exact (HT _ Hin e He)|].
  intros <-. apply Hn. now apply in_map.
Qed.

Definition same_child (a b : Z * node) : Prop :=
  fst a = fst b /\ kvs (leaves (snd a)) = kvs (leaves (snd b)).

(** the entries below an inner node determine the child bytes and the entries
    below each child *)
Lemma children_determined d ch1 : forall ch2,
  Forall (byte_tag d) ch1 -> Forall (byte_tag d) ch2 ->
  NoDup (map fst ch1) -> NoDup (map fst ch2) ->
  Forall (fun bc => leaves (snd bc) <> []) ch1 -> Forall (fun bc => leaves (snd bc) <> []) ch2 ->
  kvs (cleaves ch1) = kvs (cleaves ch2) -> Forall2 same_child ch1 ch2.
Proof.
  induction ch1 as [|[b1 c1] r1 IH]; intros [|[b2 c2] r2] HT1 HT2 ND1 ND2 HN1 HN2 H.
  - constructor.
  - exfalso. apply Forall_cons_iff in HN2. destruct HN2 as [HN2 _]. cbn [snd] in HN2.
    unfold cleaves in H. cbn [flat_map snd] in H. symmetry in H. apply kvs_nil_inv in H.
    apply app_eq_nil in H. tauto.
  - exfalso. apply Forall_cons_iff in HN1. destruct HN1 as [HN1 _]. cbn [snd] in HN1.
    unfold cleaves in H. cbn [flat_map snd] in H. apply kvs_nil_inv in H.
    apply app_eq_nil in H. tauto.
  - apply Forall_cons_iff in HT1. destruct HT1 as [Ht1 HT1].
    apply Forall_cons_iff in HT2. destruct HT2 as [Ht2 HT2].
    apply Forall_cons_iff in HN1. destruct HN1 as [Hn1 HN1].
    apply Forall_cons_iff in HN2. destruct HN2 as [Hn2 HN2].
    cbn [map fst] in ND1, ND2. apply NoDup_cons_iff in ND1. destruct ND1 as [Hb1 ND1].
    apply NoDup_cons_iff in ND2. destruct ND2 as [Hb2 ND2].
    unfold byte_tag in Ht1, Ht2. cbn [fst snd] in *.
    unfold cleaves in H. cbn [flat_map snd] in H. fold (cleaves r1) in H. fold (cleaves r2) in H.
    rewrite !kvs_app in H.
    assert (Hb : b1 = b2).
    { destruct (leaves c1) as [|e1 l1] eqn:E1; [congruence|].
      destruct (leaves c2) as [|e2 l2] eqn:E2; [congruence|].
      cbn [kvs map app] in H. injection H as Hk _ _.
      assert (A1 := Ht1 e1 (or_introl eq_refl)). assert (A2 := Ht2 e2 (or_introl eq_refl)).
      rewrite Hk in A1. congruence. }
    subst b2.
    assert (Hc : kvs (leaves c1) = kvs (leaves c2)).
    { assert (HF := f_equal (filter (bf d b1)) H). rewrite !filter_app in HF.
      rewrite (filter_tag_true d b1 (leaves c1) Ht1), (filter_tag_true d b1 (leaves c2) Ht2) in HF.
      rewrite (filter_tag_false d b1 (cleaves r1) (cleaves_tag_other d b1 r1 HT1 Hb1)) in HF.
      rewrite (filter_tag_false d b1 (cleaves r2) (cleaves_tag_other d b1 r2 HT2 Hb2)) in HF.
      now rewrite !app_nil_r in HF. }
    constructor.
    + split; [reflexivity|exact Hc].
    + apply IH; try assumption. rewrite Hc in H. now apply app_inv_head in H.
Qed.

(** an inner node has two entries that differ right after its prefix *)
Lemma inode_two_diff L c p ch pi : WF L (Inode c p ch) pi ->
  exists e e' b b', In e (cleaves ch) /\ In e' (cleaves ch) /\
    nth_error (fst e) (length pi + length p) = Some b /\
    nth_error (fst e') (length pi + length p) = Some b' /\ b <> b'.
Proof.
  intros H. apply WF_inode in H. destruct H as (_ & _ & _ & HS & Hsz & Hch).
  assert (HT := WFch_tags _ _ _ _ Hch). assert (HN := WFch_nonempty _ _ _ _ Hch).
  destruct ch as [|[b c1] [|[b' c2] r]]; try (exfalso; destruct c; cbn in Hsz; lia).
  apply Forall_cons_iff in HT. destruct HT as [Ht1 HT]. apply Forall_cons_iff in HT. destruct HT as [Ht2 _].
  apply Forall_cons_iff in HN. destruct HN as [Hn1 HN]. apply Forall_cons_iff in HN. destruct HN as [Hn2 _].
  unfold byte_tag in Ht1, Ht2. cbn [fst snd] in *.
  destruct (leaves c1) as [|e l1] eqn:E1; [congruence|].
  destruct (leaves c2) as [|e' l2] eqn:E2; [congruence|].
  exists e, e', b, b'. unfold cleaves. cbn [flat_map snd]. rewrite E1, E2.
  split; [now left|]. split; [apply in_or_app; right; now left|].
  split; [apply Ht1; now left|]. split; [apply Ht2; now left|].
  unfold keys_sorted in HS. cbn [map fst] in HS. apply StronglySorted_inv in HS. destruct HS as [_ HS].
  apply Forall_cons_iff in HS. lia.
Qed.

Lemma ext_nth pi p k i : ext (pi ++ p) k -> i < length p -> nth_error k (length pi + i) = nth_error p i.
Proof.
  intros [s ->]%ext_iff Hi. rewrite <- app_assoc. rewrite nth_error_app2 by lia.
  replace (length pi + i - length pi) with i by lia. now rewrite nth_error_app1.
Qed.

Lemma prefix_len_le L c p ch pi p2 : WF L (Inode c p ch) pi ->
  (forall e, In e (cleaves ch) -> ext (pi ++ p2) (fst e)) -> length p2 <= length p.
Proof.
  intros HWF H. destruct (Nat.le_gt_cases (length p2) (length p)) as [Hle|Hgt]; [exact Hle|exfalso].
  destruct (inode_two_diff _ _ _ _ _ HWF) as (e & e' & b & b' & He & He' & Hb & Hb' & Hne).
  rewrite (ext_nth pi p2 _ _ (H e He) Hgt) in Hb. rewrite (ext_nth pi p2 _ _ (H e' He') Hgt) in Hb'.
  congruence.
Qed.

Lemma ext_same_len a b k : ext a k -> ext b k -> length a = length b -> a = b.
Proof. unfold ext. intros H1 H2 HL. rewrite HL in H1. congruence. Qed.

Lemma same_keys_in (l1 l2 : list entry) e : kvs l1 = kvs l2 -> In e l1 -> exists e2, In e2 l2 /\ fst e2 = fst e.
Proof.
  intros H He. assert (Hk : In (fst e) (map fst l2)).
  { rewrite <- kvs_keys, <- H, kvs_keys. now apply in_map. }
  apply in_map_iff in Hk. destruct Hk as (e2 & H1 & H2). now exists e2.
Qed.

Lemma Forall2_length' {A B} (R : A -> B -> Prop) l1 l2 : Forall2 R l1 l2 -> length l1 = length l2.
Proof. induction 1; cbn; congruence. Qed.

Theorem shape_unique : forall L t1 t2 pi, (1 <= L <= 8) -> WF L t1 pi -> WF L t2 pi ->
  kvs (leaves t1) = kvs (leaves t2) -> erase t1 = erase t2.
Proof.
  intros L t1 t2 pi _. revert t2 pi.
  induction t1 as [id1 k1 v1|c1 p1 ch1 IH] using node_ind2; intros t2 pi H1 H2 HK.
  - destruct t2 as [id2 k2 v2|c2 p2 ch2].
    + cbn in HK. injection HK as -> ->. reflexivity.
    + exfalso. destruct (inode_two_diff _ _ _ _ _ H2) as (e & e' & b & b' & He & He' & Hb & Hb' & Hne).
      rewrite leaves_inode in HK. cbn [leaves kvs map] in HK.
      destruct (cleaves ch2) as [|x [|y l]]; try discriminate.
      destruct He as [<-|[]]. destruct He' as [<-|[]]. congruence.
  - destruct t2 as [id2 k2 v2|c2 p2 ch2].
    + exfalso. destruct (inode_two_diff _ _ _ _ _ H1) as (e & e' & b & b' & He & He' & Hb & Hb' & Hne).
      rewrite leaves_inode in HK. cbn [leaves kvs map] in HK.
      destruct (cleaves ch1) as [|x [|y l]]; try discriminate.
      destruct He as [<-|[]]. destruct He' as [<-|[]]. congruence.
    + rewrite !leaves_inode in HK.
      assert (W1 := H1). assert (W2 := H2).
      apply WF_inode in W1. destruct W1 as (_ & _ & _ & HS1 & _ & Hch1).
      apply WF_inode in W2. destruct W2 as (_ & _ & _ & HS2 & _ & Hch2).
      (* the prefixes agree *)
      assert (E12 : forall e, In e (cleaves ch1) -> ext (pi ++ p2) (fst e)).
      { intros e He. destruct (same_keys_in _ _ e HK He) as (e2 & He2 & <-).
        exact (proj2 (WFch_ext _ _ _ _ _ Hch2 He2)). }
      assert (E21 : forall e, In e (cleaves ch2) -> ext (pi ++ p1) (fst e)).
      { intros e He. destruct (same_keys_in _ _ e (eq_sym HK) He) as (e2 & He2 & <-).
        exact (proj2 (WFch_ext _ _ _ _ _ Hch1 He2)). }
      assert (Hlen : length p1 = length p2).
      { assert (A := prefix_len_le _ _ _ _ _ _ H1 E12). assert (B := prefix_len_le _ _ _ _ _ _ H2 E21). lia. }
      assert (Hp : p1 = p2).
      { destruct (inode_two_diff _ _ _ _ _ H1) as (e & _ & _ & _ & He & _).
        assert (A := proj2 (WFch_ext _ _ _ _ _ Hch1 He)). assert (B := E12 e He).
        assert (C := ext_same_len _ _ _ A B ltac:(rewrite !app_length; lia)).
        now apply app_inv_head in C. }
      subst p2.
      (* the children agree *)
      assert (HF : Forall2 same_child ch1 ch2).
      { apply (children_determined (length pi + length p1)).
        - eapply WFch_tags; exact Hch1.
        - eapply WFch_tags; exact Hch2.
        - apply ssorted_nodup; exact HS1.
        - apply ssorted_nodup; exact HS2.
        - eapply WFch_nonempty; exact Hch1.
        - eapply WFch_nonempty; exact Hch2.
        - exact HK. }
      assert (Hc : c1 = c2).
      { rewrite (proj1 (class_by_fanout _ _ _ _ _ H1)), (proj1 (class_by_fanout _ _ _ _ _ H2)).
        now rewrite (Forall2_length' _ _ _ HF). }
      subst c2. rewrite !erase_inode. f_equal.
      clear H1 H2 HK HS1 HS2 E12 E21 Hlen.
      induction HF as [|[b1 n1] [b2 n2] r1 r2 [Hb Hk] HF IHF]; [reflexivity|].
      cbn [fst snd] in *. subst b2.
      apply Forall_cons_iff in IH. destruct IH as [IH1 IH]. cbn [snd] in IH1.
      unfold WFch in Hch1, Hch2.
      apply Forall_cons_iff in Hch1. destruct Hch1 as [[_ Hn1] Hch1].
      apply Forall_cons_iff in Hch2. destruct Hch2 as [[_ Hn2] Hch2]. cbn [fst snd] in *.
      cbn [map fst snd]. f_equal.
      * f_equal. exact (IH1 n2 _ Hn1 Hn2 Hk).
      * apply IHF; assumption.
Qed.

(** * statistics *)

Local Open Scope Z_scope.

(** sum of a node measure over a child array *)
Definition csum (f : node -> Z) (ch : list (Z * node)) : Z :=
  fold_right (fun bc a => f (snd bc) + a) 0 ch.

Lemma csum_app f l1 l2 : csum f (l1 ++ l2) = csum f l1 + csum f l2.
Proof. unfold csum. induction l1 as [|x l1 IH]; cbn [fold_right app]; lia. Qed.

Lemma csum_cons f x l : csum f (x :: l) = f (snd x) + csum f l.
Proof. reflexivity. Qed.

Lemma csum_insert_at f i x : forall l, csum f (insert_at i x l) = f (snd x) + csum f l.
Proof.
  induction i as [|i IH]; intros l; cbn [insert_at]; [reflexivity|].
  destruct l as [|y l]; [reflexivity|]. rewrite !csum_cons, IH. lia.
Qed.

Lemma csum_two f b1 c1 b2 c2 : csum f (two_children b1 c1 b2 c2) = f c1 + f c2.
Proof. unfold two_children. destruct (b1 <? b2); cbn; lia. Qed.

Lemma count_cls_inode c0 c p ch :
  count_cls c0 (Inode c p ch) = (if cls_eqb c c0 then 1 else 0) + csum (count_cls c0) ch.
Proof.
  cbn [count_cls]. f_equal. induction ch as [|[b c'] ch IH]; [reflexivity|]. rewrite csum_cons. cbn [snd]. now f_equal.
Qed.

Lemma tree_mem_inode sz c p ch : tree_mem sz (Inode c p ch) = sz_of sz c + csum (tree_mem sz) ch.
Proof.
  cbn [tree_mem]. f_equal. induction ch as [|[b c'] ch IH]; [reflexivity|]. rewrite csum_cons. cbn [snd]. now f_equal.
Qed.

Definition lcount (n : node) : Z := Z.of_nat (length (leaves n)).

Lemma lcount_inode c p ch : lcount (Inode c p ch) = 0 + csum lcount ch.
Proof.
  unfold lcount. rewrite leaves_inode. unfold cleaves.
  induction ch as [|x ch IH]; [reflexivity|]. cbn [flat_map]. rewrite csum_cons, app_length, Nat2Z.inj_add. lia.
Qed.

Section Measure.
  Variables (m : node -> Z) (w : cls -> Z) (lf : list Z -> list Z -> Z).
  Hypothesis Hleaf : forall id k v, m (Leaf id k v) = lf k v.
  Hypothesis Hinode : forall c p ch, m (Inode c p ch) = w c + csum m ch.

  Definition dins (e : ev) : Z :=
    match e with
    | ELeafSplit | EPrefixSplit => w C4
    | EGrow c => w c - w (smaller c)
    | _ => 0
    end.

  Definition drem (e : ev) : Z :=
    match e with
    | EShrink C4 => w C4
    | EShrink c => w c - w (smaller c)
    | _ => 0
    end.

  Lemma m_prepend p sb s : m (prepend_prefix p sb s) = m s.
  Proof. destruct s as [id k v|c p3 ch]; cbn [prepend_prefix]; [reflexivity|]. now rewrite !Hinode. Qed.

  Lemma insert_go_measure k v id : forall fuel n depth n' e,
    insert_go fuel n k v id depth = Ok (Some (n', e)) -> m n' = m n + lf k v + dins e.
  Proof.
    induction fuel as [|f IH]; intros n depth n' e H; [discriminate|].
    destruct n as [lid lk lv|c p ch]; cbn [insert_go] in H.
    - assert (H' : (if (length k <? depth)%nat then Err Oob else
                    if (length lk <? depth)%nat then Err Oob else
                    b1 <- byte_at lk (common_pad prefix_capacity (skipn depth lk) (skipn depth k) + depth) ;;
                    b2 <- byte_at (skipn depth k) (common_pad prefix_capacity (skipn depth lk) (skipn depth k)) ;;
                    Ok (Some (Inode C4 (firstn (common_pad prefix_capacity (skipn depth lk) (skipn depth k)) (pad8 (skipn depth lk)))
                                (two_children b1 (Leaf lid lk lv) b2 (Leaf id k v)), ELeafSplit)))
                   = Ok (Some (n', e))).
      { destruct (lex_compare k lk); [discriminate|exact H|exact H]. }
      clear H.
      destruct (length k <? depth)%nat; [discriminate|].
      destruct (length lk <? depth)%nat; [discriminate|].
      destruct (byte_at lk _) as [b1|]; [|discriminate]. cbn [bind] in H'.
      destruct (byte_at (skipn depth k) _) as [b2|]; [|discriminate]. cbn [bind] in H'.
      injection H' as <- <-. rewrite Hinode, csum_two, !Hleaf. cbn [dins]. lia.
    - destruct (length k <? depth)%nat; [discriminate|]. cbv zeta in H.
      destruct (shared_len p (skipn depth k) <? length p)%nat.
      + destruct (byte_at p _) as [sb|]; [|discriminate]. cbn [bind] in H.
        destruct (byte_at k _) as [nb|]; [|discriminate]. cbn [bind] in H.
        injection H as <- <-. rewrite !Hinode, csum_two, Hinode, Hleaf. cbn [dins]. lia.
      + destruct (byte_at k _) as [b|]; [|discriminate]. cbn [bind] in H.
        destruct (find_child ch b 0) as [[i c']|] eqn:Hfc.
        * apply find_child_some in Hfc. destruct Hfc as (l1 & l2 & -> & ->). cbn [Nat.add] in H.
          destruct (insert_go f c' k v id _) as [[[c'' e']|]|] eqn:Hins; cbn [bind] in H; try discriminate.
          injection H as <- <-. rewrite replace_nth_mid, !Hinode, !csum_app, !csum_cons. cbn [snd].
          rewrite (IH _ _ _ _ Hins). lia.
        * destruct (cls_eqb c C256) eqn:Hc.
          -- injection H as <- <-. rewrite !Hinode, csum_insert_at. cbn [snd dins]. rewrite Hleaf. lia.
          -- destruct (Nat.eqb (length ch) (cap c)).
             ++ injection H as <- <-. rewrite !Hinode, csum_insert_at. cbn [snd dins]. rewrite Hleaf.
                destruct c; try discriminate; cbn [larger smaller]; lia.
             ++ injection H as <- <-. rewrite !Hinode, csum_insert_at. cbn [snd dins]. rewrite Hleaf. lia.
  Qed.

  Lemma remove_go_measure k : forall fuel n depth g n' e,
    get_go fuel n k depth = Ok g -> remove_go fuel n k depth = Ok (RmReplaced n' e) ->
    exists lid lv, g = Some (lid, lv) /\ m n = m n' + lf k lv + drem e.
  Proof.
    induction fuel as [|f IH]; intros n depth g n' e Hg H; [discriminate|].
    destruct n as [lid lk lv|c p ch]; cbn [remove_go] in H; [discriminate|]. cbn [get_go] in Hg.
    destruct (length k <? depth)%nat; [discriminate|]. cbv zeta in H, Hg.
    destruct (shared_len p (skipn depth k) <? length p)%nat; [discriminate|].
    destruct (byte_at k _) as [b|]; [|discriminate]. cbn [bind] in H, Hg.
    destruct (find_child ch b 0) as [[i c']|] eqn:Hfc; [|discriminate].
    apply find_child_some in Hfc. destruct Hfc as (l1 & l2 & -> & ->). cbn [Nat.add] in H.
    destruct c' as [lid lk lv|c3 p3 ch3].
    - destruct f as [|f']; [discriminate|]. cbn [get_go] in Hg.
      destruct (lex_compare k lk) eqn:Hcmp; try discriminate.
      apply lex_compare_eq in Hcmp. subst lk. injection Hg as <-.
      exists lid, lv. split; [reflexivity|].
      rewrite Hinode, csum_app, csum_cons. cbn [snd]. rewrite Hleaf.
      destruct (Nat.eqb_spec (length (l1 ++ (b, Leaf lid k lv) :: l2)) (min_size c)) as [Hmin|Hnmin].
      + destruct c.
        * rewrite app_length in Hmin. cbn [length min_size] in Hmin.
          destruct l1 as [|[sb s] l1].
          -- destruct l2 as [|[sb s] l2]; [cbn in Hmin; lia|]. destruct l2; [|cbn in Hmin; lia].
             cbn [length Nat.eqb app nth_error] in H. injection H as <- <-.
             rewrite m_prepend. cbn [csum fold_right snd drem]. lia.
          -- destruct l1; [|cbn in Hmin; lia]. destruct l2; [|cbn in Hmin; lia].
             cbn [length Nat.eqb app nth_error] in H. injection H as <- <-.
             rewrite m_prepend. cbn [csum fold_right snd drem]. lia.
        * injection H as <- <-. rewrite remove_nth_mid, Hinode, csum_app. cbn [drem smaller]. lia.
        * injection H as <- <-. rewrite remove_nth_mid, Hinode, csum_app. cbn [drem smaller]. lia.
        * injection H as <- <-. rewrite remove_nth_mid, Hinode, csum_app. cbn [drem smaller]. lia.
      + injection H as <- <-. rewrite remove_nth_mid, Hinode, csum_app. cbn [drem]. lia.
    - destruct (remove_go f (Inode c3 p3 ch3) k _) as [[|c'' e']|] eqn:Hrm; cbn [bind] in H; try discriminate.
      injection H as <- <-.
      destruct (IH _ _ _ _ _ Hg Hrm) as (lid & lv & -> & Hm).
      exists lid, lv. split; [reflexivity|].
      rewrite replace_nth_mid, !Hinode, !csum_app, !csum_cons. cbn [snd]. lia.
  Qed.
End Measure.

Definition wcount (c0 : cls) : cls -> Z := fun c => if cls_eqb c c0 then 1 else 0.

Lemma stats_insert_fields sz s e k v :
  n_leaf (stats_insert sz s e k v) = n_leaf s + 1 /\
  (forall c0, n_i (stats_insert sz s e k v) c0 = n_i s c0 + dins (wcount c0) e) /\
  mem (stats_insert sz s e k v) = mem s + leaf_size sz k v + dins (sz_of sz) e.
Proof.
  destruct e as [| | | |c|c|c|c|]; cbn [stats_insert n_leaf n_i mem dins sz_of]; (split; [lia|]); (split; [|lia]);
    intros c0; unfold upd, wcount; try destruct c; destruct c0; cbn [cls_eqb smaller]; lia.
Qed.

Lemma stats_remove_fields sz s e k v :
  n_leaf (stats_remove sz s e k v) = n_leaf s - 1 /\
  (forall c0, n_i (stats_remove sz s e k v) c0 = n_i s c0 - drem (wcount c0) e) /\
  mem (stats_remove sz s e k v) = mem s - leaf_size sz k v - drem (sz_of sz) e.
Proof.
  destruct e as [| | | |c|c|c|c|]; try destruct c; cbn [stats_remove n_leaf n_i mem drem sz_of smaller];
    (split; [lia|]); (split; [|lia]);
    intros c0; unfold upd, wcount; destruct c0; cbn [cls_eqb]; lia.
Qed.

Definition SInv (sz : sizes) (d : db) : Prop :=
  n_leaf (st d) = Z.of_nat (length (db_leaves d)) /\
  (forall c, n_i (st d) c = db_count_cls c d) /\
  mem (st d) = db_tree_mem sz d.

Lemma count_cls_leaf c0 id k v : count_cls c0 (Leaf id k v) = 0.
Proof. reflexivity. Qed.

Lemma count_cls_inode' c0 c p ch : count_cls c0 (Inode c p ch) = wcount c0 c + csum (count_cls c0) ch.
Proof. apply count_cls_inode. Qed.

Lemma step_SInv sz d o : SInv sz d -> SInv sz (fst (step sz d o)).
Proof.
  intros HI. assert (HI' := HI). destruct HI' as (H1 & H2 & H3).
  unfold SInv, db_leaves, db_count_cls, db_tree_mem in *.
  destruct o as [k|k v|k| |]; cbn [step fst].
  - exact HI.
  - unfold db_insert. destruct (root d) as [n|] eqn:Hroot.
    + destruct (insert_go (fuel_for k) n k v (next_id d) 0) as [[[n' e]|]|er] eqn:Hins; cbn [bind fst];
        try (rewrite Hroot; exact HI).
      cbn [root st].
      destruct (stats_insert_fields sz (st d) e k v) as (F1 & F2 & F3).
      split; [|split].
      * rewrite F1, H1.
        assert (A := insert_go_measure lcount (fun _ => 0) (fun _ _ => 1) (fun _ _ _ => eq_refl) lcount_inode
                       k v _ _ _ _ _ _ Hins).
        unfold lcount in A. replace (dins (fun _ : cls => 0) e) with 0 in A by (destruct e; cbn; lia). lia.
      * intros c0. rewrite F2, H2.
        rewrite (insert_go_measure (count_cls c0) (wcount c0) (fun _ _ => 0) (count_cls_leaf c0) (count_cls_inode' c0)
                   k v _ _ _ _ _ _ Hins). lia.
      * rewrite F3, H3.
        rewrite (insert_go_measure (tree_mem sz) (sz_of sz) (leaf_size sz) (fun _ _ _ => eq_refl) (tree_mem_inode sz)
                   k v _ _ _ _ _ _ Hins). lia.
    + cbn [fst root st].
      destruct (stats_insert_fields sz (st d) ERootLeaf k v) as (F1 & F2 & F3). cbn [dins] in *.
      split; [|split].
      * rewrite F1, H1. reflexivity.
      * intros c0. rewrite F2, H2. cbn [count_cls]. lia.
      * rewrite F3, H3. cbn [tree_mem]. lia.
  - unfold db_remove. destruct (root d) as [n|] eqn:Hroot; [|cbn [fst]; rewrite Hroot; exact HI].
    destruct n as [lid lk lv|c p ch].
    + destruct (lex_compare k lk); cbn [fst]; try (rewrite Hroot; exact HI).
      cbn [root st].
      destruct (stats_remove_fields sz (st d) ERemoveRoot lk lv) as (F1 & F2 & F3). cbn [drem] in *.
      split; [|split].
      * rewrite F1, H1. reflexivity.
      * intros c0. rewrite F2, H2. cbn [count_cls]. lia.
      * rewrite F3, H3. cbn [tree_mem]. lia.
    + destruct (get_go (fuel_for k) (Inode c p ch) k 0) as [g|er] eqn:Hget; cbn [bind fst];
        [|rewrite Hroot; exact HI].
      destruct (remove_go (fuel_for k) (Inode c p ch) k 0) as [[|n' e]|er] eqn:Hrm; cbn [bind fst];
        try (rewrite Hroot; exact HI).
      destruct (remove_go_measure lcount (fun _ => 0) (fun _ _ => 1) (fun _ _ _ => eq_refl) lcount_inode
                  k _ _ _ _ _ _ Hget Hrm) as (xid & xv & -> & A).
      cbn [fst root st].
      destruct (stats_remove_fields sz (st d) e k xv) as (F1 & F2 & F3).
      split; [|split].
      * rewrite F1, H1. unfold lcount in A.
        replace (drem (fun _ : cls => 0) e) with 0 in A by (destruct e as [| | | |c1|c1|c1|c1|]; try destruct c1; cbn; lia). lia.
      * intros c0. rewrite F2, H2.
        destruct (remove_go_measure (count_cls c0) (wcount c0) (fun _ _ => 0) (count_cls_leaf c0) (count_cls_inode' c0)
                    k _ _ _ _ _ _ Hget Hrm) as (xid' & xv' & E & B).
        rewrite B. lia.
      * rewrite F3, H3.
        destruct (remove_go_measure (tree_mem sz) (sz_of sz) (leaf_size sz) (fun _ _ _ => eq_refl) (tree_mem_inode sz)
                    k _ _ _ _ _ _ Hget Hrm) as (xid' & xv' & E & B).
        injection E as <- <-. rewrite B. lia.
  - exact HI.
  - cbn. repeat split.
Qed.

Lemma run_SInv sz ops : forall d, SInv sz d -> SInv sz (run_state sz d ops).
Proof.
  induction ops as [|o ops IH]; intros d H; cbn [run_state]; [exact H|]. apply IH. now apply step_SInv.
Qed.

Theorem stats_are_tree_functions : forall L sz ops, (1 <= L <= 8)%nat -> Forall (op_ok L) ops ->
  let d := run_state sz db0 ops in
  n_leaf (st d) = Z.of_nat (length (db_leaves d)) /\
  (forall c, n_i (st d) c = db_count_cls c d) /\
  mem (st d) = db_tree_mem sz d.
Proof.
  intros L sz ops _ _. apply run_SInv. unfold SInv. cbn. repeat split.
Qed.

(** * counters only go up *)

Lemma stats_insert_mono sz s e k v c :
  grow s c <= grow (stats_insert sz s e k v) c /\
  shrink s c <= shrink (stats_insert sz s e k v) c /\
  splits s <= splits (stats_insert sz s e k v).
Proof.
  destruct e as [| | | |c1|c1|c1|c1|]; cbn [stats_insert grow shrink splits]; unfold upd;
    repeat split; try lia; destruct (cls_eqb c _); lia.
Qed.

Lemma stats_remove_mono sz s e k v c :
  grow s c <= grow (stats_remove sz s e k v) c /\
  shrink s c <= shrink (stats_remove sz s e k v) c /\
  splits s <= splits (stats_remove sz s e k v).
Proof.
  destruct e as [| | | |c1|c1|c1|c1|]; try destruct c1; cbn [stats_remove grow shrink splits]; unfold upd;
    repeat split; try lia; destruct (cls_eqb c _); lia.
Qed.

Theorem counters_monotone : forall sz d o c,
  grow (st d) c <= grow (st (fst (step sz d o))) c /\
  shrink (st d) c <= shrink (st (fst (step sz d o))) c /\
  splits (st d) <= splits (st (fst (step sz d o))).
Proof.
  intros sz d o c.
  assert (R : grow (st d) c <= grow (st d) c /\ shrink (st d) c <= shrink (st d) c /\ splits (st d) <= splits (st d)) by lia.
  destruct o as [k|k v|k| |]; cbn [step fst]; try exact R.
  - unfold db_insert. destruct (root d) as [n|].
    + destruct (insert_go _ _ _ _ _ _) as [[[n' e]|]|er]; cbn [bind fst]; try exact R.
      cbn [st]. apply stats_insert_mono.
    + cbn [fst st]. apply stats_insert_mono.
  - unfold db_remove. destruct (root d) as [[lid lk lv|c1 p ch]|]; [| |exact R].
    + destruct (lex_compare k lk); cbn [fst]; try exact R; cbn [st]; apply stats_remove_mono.
    + destruct (get_go _ _ _ _) as [g|er]; cbn [bind fst]; [|exact R].
      destruct (remove_go _ _ _ _) as [[|n' e]|er]; cbn [bind fst]; try exact R.
      destruct g as [[xid xv]|]; cbn [fst]; [|exact R].
      cbn [st]. apply stats_remove_mono.
Qed.

Theorem clear_zero : forall d c,
  n_leaf (st (db_clear d)) = 0 /\ n_i (st (db_clear d)) c = 0 /\ mem (st (db_clear d)) = 0.
Proof. intros d c. cbn. repeat split. Qed.
