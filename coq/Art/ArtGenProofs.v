(** The ART model on variable-length, prefix-free byte-string keys:
    get / insert / remove below the root keep [WFg] and act on the leaf list
    as on a finite map, provided the key is prefix-free w.r.t. the stored
    keys and the step does not hit the 7-byte prefix capacity. *)
From Coq Require Import List ZArith Bool Lia Sorted Permutation.
From Unodb Require Import Base.Lex Art.ArtModel Art.ArtIter Art.ArtSpec Art.ArtInv Art.ArtLemmas
  Art.ArtProofs Art.ArtGenInv Art.ArtGenLemmas.
Import ListNotations.

Lemma pfk_in k l e : pfk k l -> In e l -> pf2 k (fst e).
Proof. unfold pfk. rewrite Forall_forall. auto. Qed.

Lemma pfk_mid k l1 x l2 : pfk k (cleaves (l1 ++ x :: l2)) -> pfk k (leaves (snd x)).
Proof.
  unfold pfk. rewrite cleaves_mid, !Forall_app. tauto.
Qed.

(** a key that is prefix-free w.r.t. a key [k0] below an inner node (path
    [pi], prefix [p]) does not end inside path + prefix *)
Lemma no_short k pi p k0 : ext pi k -> ext (pi ++ p) k0 -> length pi + length p < length k0 ->
  pf2 k k0 -> firstn (length (skipn (length pi) k)) p = skipn (length pi) k -> False.
Proof.
  intros Hext Hext0 Hlen Hpf Hpre.
  assert (Hk : is_pre k k0).
  { apply (is_pre_skipn pi); [exact Hext|now apply ext_app_l in Hext0|].
    apply ext_iff in Hext0. destruct Hext0 as [s ->].
    rewrite <- app_assoc, skipn_app, Nat.sub_diag, skipn_all. cbn [skipn app].
    apply is_pre_ext, ext_iff. exists (skipn (length (skipn (length pi) k)) p ++ s).
    rewrite app_assoc. f_equal. symmetry. rewrite <- Hpre at 1. apply firstn_skipn. }
  assert (HE : k = k0) by (apply Hpf; now left).
  assert (HL : length (skipn (length pi) k) <= length p).
  { rewrite <- Hpre. rewrite firstn_length. lia. }
  rewrite skipn_length in HL. subst k0. apply ext_length in Hext. lia.
Qed.

(** * common prelude of the three descents at an inner node *)

Lemma inode_prelude_g k c p ch pi :
  WFg (Inode c p ch) pi -> ext pi k -> pfk k (leaves (Inode c p ch)) ->
  (length k <? length pi) = false /\
  ((shared_len p (skipn (length pi) k) < length p /\
    assoc k (leaves (Inode c p ch)) = None /\
    firstn (shared_len p (skipn (length pi) k)) p =
      firstn (shared_len p (skipn (length pi) k)) (skipn (length pi) k) /\
    exists sb nb, nth_error p (shared_len p (skipn (length pi) k)) = Some sb /\
                  nth_error k (length pi + shared_len p (skipn (length pi) k)) = Some nb /\
                  sb <> nb)
   \/
   (shared_len p (skipn (length pi) k) = length p /\
    exists b, nth_error k (length pi + length p) = Some b /\
              ext (pi ++ p ++ [b]) k /\
              assoc k (leaves (Inode c p ch)) =
              match find_child ch b 0 with Some (_, c') => assoc k (leaves c') | None => None end)).
Proof.
  intros HWF Hext Hpf.
  assert (HWF' := HWF). apply WFg_inode in HWF'. destruct HWF' as (Hp7 & HpB & HS & Hsz & Hch).
  assert (Hpik := ext_length _ _ Hext).
  split; [apply Nat.ltb_ge; exact Hpik|].
  (* a witness key below *)
  destruct (leaves (Inode c p ch)) as [|e0 ls] eqn:El; [exfalso; exact (WFg_nonempty _ _ HWF El)|].
  assert (Hin0 : In e0 (leaves (Inode c p ch))) by (rewrite El; now left).
  destruct (WFg_shorter _ _ _ _ _ HWF Hin0) as [Hext0 Hlen0].
  assert (Hpf0 : pf2 k (fst e0)) by (apply (pfk_in k (e0 :: ls)); [exact Hpf|now left]).
  rewrite <- El. clear El Hin0.
  set (rem := skipn (length pi) k) in *.
  assert (HC : firstn (length rem) p = rem -> False) by (exact (no_short k pi p _ Hext Hext0 Hlen0 Hpf0)).
  assert (Hle := shared_len_le p rem). unfold shared_len in *.
  set (m := common_pad (length p) p rem) in *.
  assert (Hnot : ext (pi ++ p) k -> m = length p).
  { intros H. apply (ext_skipn pi p k Hext) in H. fold rem in H.
    apply shared_len_full; [now apply ext_length in H|exact H]. }
  destruct (Nat.eq_dec m (length p)) as [Heq|Hne].
  - right. split; [exact Heq|].
    destruct (Nat.le_gt_cases (length p) (length rem)) as [Hlr|Hlr].
    2:{ exfalso. apply HC. apply (common_pad_short_r (length p) p rem); fold m; lia. }
    assert (Hep : ext p rem).
    { unfold ext. assert (H := common_pad_firstn (length p) p rem). fold m in H.
      rewrite Heq in H. rewrite firstn_all in H. symmetry. apply H; lia. }
    apply (ext_skipn pi p k Hext) in Hep.
    destruct (nth_error k (length pi + length p)) as [b|] eqn:Hb.
    2:{ exfalso. apply nth_error_None in Hb. apply HC.
        assert (length rem = length p) by (unfold rem in *; rewrite skipn_length in *; lia).
        apply (ext_skipn pi p k Hext) in Hep. fold rem in Hep. unfold ext in Hep.
        rewrite H, firstn_all. transitivity (firstn (length p) rem); [symmetry; exact Hep|].
        rewrite <- H. apply firstn_all. }
    exists b. split; [reflexivity|]. split.
    + rewrite app_assoc. apply ext_snoc; [exact Hep|]. now rewrite app_length.
    + rewrite leaves_inode. eapply assoc_children.
      * eapply WFgch_tags; exact Hch.
      * exact Hb.
      * apply ssorted_nodup. exact HS.
  - left. split; [lia|]. split.
    { apply assoc_none. intros HI. apply in_map_iff in HI. destruct HI as (e & <- & He).
      destruct (WFg_shorter _ _ _ _ _ HWF He) as [H2 _]. apply Hne, Hnot, H2. }
    destruct (Nat.le_gt_cases (length rem) m) as [Hlr|Hlr].
    { exfalso. apply HC. apply (common_pad_short_r (length p) p rem); fold m; lia. }
    split; [apply (common_pad_firstn (length p) p rem); fold m; lia|].
    destruct (common_pad_diff (length p) p rem) as (x & y & Hx & Hy & Hxy); fold m; try lia.
    fold m in Hx, Hy. exists x, y. split; [exact Hx|]. split; [|exact Hxy].
    unfold rem in Hy. now rewrite nth_error_skipn' in Hy.
Qed.

Lemma child_of_WFg c p l1 b c' l2 pi :
  WFg (Inode c p (l1 ++ (b, c') :: l2)) pi -> is_byte_z b /\ WFg c' (pi ++ p ++ [b]).
Proof.
  intros HWF. apply WFg_inode in HWF. destruct HWF as (_ & _ & _ & _ & Hch).
  unfold WFgch in Hch. apply Forall_app in Hch. destruct Hch as [_ Hch].
  apply Forall_cons_iff in Hch. destruct Hch as [Hc' _]. exact Hc'.
Qed.

(** * get *)

Lemma get_go_correct_g k : forall fuel n pi,
  WFg n pi -> ext pi k -> pfk k (leaves n) -> length k - length pi < fuel ->
  get_go fuel n k (length pi) = Ok (assoc k (leaves n)).
Proof.
  induction fuel as [|f IH]; intros n pi HWF Hext Hpf Hfuel; [lia|].
  destruct n as [id lk v|c p ch].
  - cbn [get_go leaves assoc]. unfold lex_eqb. now destruct (lex_compare k lk).
  - destruct (inode_prelude_g k c p ch pi HWF Hext Hpf)
      as (Hlt & [(Hsl & Hass & _)|(Hsl & b & Hb & Hext' & Hass)]).
    + rewrite Hass. cbn [get_go]. rewrite Hlt. apply Nat.ltb_lt in Hsl. now rewrite Hsl.
    + rewrite Hass. cbn [get_go]. rewrite Hlt.
      assert (Hsl' : (shared_len p (skipn (length pi) k) <? length p) = false) by (apply Nat.ltb_ge; lia).
      rewrite Hsl'. unfold byte_at. rewrite Hb. cbn [bind].
      destruct (find_child ch b 0) as [[i c']|] eqn:Hfc; [|reflexivity].
      apply find_child_some in Hfc. destruct Hfc as (l1 & l2 & -> & _).
      destruct (child_of_WFg _ _ _ _ _ _ _ HWF) as [_ Hc'].
      rewrite leaves_inode in Hpf. apply pfk_mid in Hpf. cbn [snd] in Hpf.
      assert (Hd : length pi + length p < length k) by (apply nth_error_Some; congruence).
      replace (S (length pi + length p)) with (length (pi ++ p ++ [b])) by (rewrite !app_length; cbn; lia).
      apply IH; [exact Hc'|exact Hext'|exact Hpf|]. rewrite !app_length. cbn. lia.
Qed.

(** * insert: the structural cases *)

Lemma replace_child_WFg c p l1 b c' c'' l2 pi :
  WFg (Inode c p (l1 ++ (b, c') :: l2)) pi -> WFg c'' (pi ++ p ++ [b]) ->
  WFg (Inode c p (l1 ++ (b, c'') :: l2)) pi.
Proof.
  intros HWF Hc''. apply WFg_inode in HWF. destruct HWF as (H2 & H3 & HS & Hsz & Hch).
  apply WFg_inode. repeat split; try assumption.
  - unfold keys_sorted in *. rewrite map_app in *. exact HS.
  - rewrite app_length in *. cbn [length] in *. lia.
  - rewrite app_length in *. cbn [length] in *. lia.
  - unfold WFgch in *. apply Forall_app in Hch. destruct Hch as [Ha Hb]. apply Forall_app. split; [exact Ha|].
    apply Forall_cons_iff in Hb. destruct Hb as [[Hb1 _] Hb2]. constructor; [|exact Hb2].
    cbn [fst snd] in *. split; assumption.
Qed.

Lemma remove_child_WFg c c2 p l1 x l2 pi :
  WFg (Inode c p (l1 ++ x :: l2)) pi -> min_size c2 <= length (l1 ++ l2) <= cap c2 ->
  WFg (Inode c2 p (l1 ++ l2)) pi.
Proof.
  intros HWF Hsz2. apply WFg_inode in HWF. destruct HWF as (H2 & H3 & HS & Hsz & Hch).
  apply WFg_inode. repeat split; try assumption; try lia.
  - unfold keys_sorted in *. rewrite map_app in *. cbn [map] in HS. eapply ssorted_remove_mid; exact HS.
  - unfold WFgch in *. apply Forall_app in Hch. destruct Hch as [Ha Hb]. apply Forall_app. split; [exact Ha|].
    now apply Forall_cons_iff in Hb.
Qed.

Lemma add_child_WFg c c2 p ch pi b id k v :
  WFg (Inode c p ch) pi -> ~ In b (map fst ch) -> is_byte_z b -> Forall is_byte_z k ->
  ext (pi ++ p ++ [b]) k -> min_size c2 <= S (length ch) <= cap c2 ->
  WFg (Inode c2 p (insert_at (insert_pos c ch b) (b, Leaf id k v) ch)) pi.
Proof.
  intros HWF Hn Hb Hk Hext Hsz2. apply WFg_inode in HWF. destruct HWF as (H2 & H3 & HS & Hsz & Hch).
  apply WFg_inode. rewrite insert_at_length. repeat split; try assumption; try lia.
  - now apply insert_pos_sorted.
  - unfold WFgch in *. apply insert_at_Forall; [|exact Hch]. cbn [fst snd].
    split; [exact Hb|]. apply WFg_leaf. split; assumption.
Qed.

Lemma full_256_g c p ch pi b :
  WFg (Inode c p ch) pi -> ~ In b (map fst ch) -> is_byte_z b -> S (length ch) <= 256.
Proof.
  intros HWF Hn Hb. apply WFg_inode in HWF. destruct HWF as (_ & _ & HS & _ & Hch).
  rewrite <- (insert_at_length (first_ge ch b) (b, Leaf 0%Z [] []) ch).
  apply keys_sorted_length.
  - now apply first_ge_sorted.
  - apply insert_at_Forall; [exact Hb|]. unfold WFgch in Hch. eapply Forall_impl; [|exact Hch].
    cbn beta. tauto.
Qed.

(** leaf split: two different prefix-free keys below the same path; the
    capacity guard says the dispatch bytes found by the 7-byte comparison
    differ *)
Lemma leaf_split_ok_g pi lid lk lv id k v :
  Forall is_byte_z lk -> ext pi lk -> Forall is_byte_z k -> ext pi k -> k <> lk -> pf2 k lk ->
  (let rem := skipn (length pi) k in
   let k1rem := skipn (length pi) lk in
   let n' := common_pad prefix_capacity k1rem rem in
   match nth_error lk (n' + length pi), nth_error rem n' with
   | Some b1, Some b2 => negb (Z.eqb b1 b2)
   | _, _ => true
   end) = true ->
  exists n',
    (if (length k <? length pi) then Err Oob else
     if (length lk <? length pi) then Err Oob else
     let rem := skipn (length pi) k in
     let k1rem := skipn (length pi) lk in
     let n' := common_pad prefix_capacity k1rem rem in
     let pre := firstn n' (pad8 k1rem) in
     b1 <- byte_at lk (n' + length pi) ;;
     b2 <- byte_at rem n' ;;
     Ok (Some (Inode C4 pre (two_children b1 (Leaf lid lk lv) b2 (Leaf id k v)), ELeafSplit)))
    = Ok (Some (n', ELeafSplit)) /\
    WFg n' pi /\ Permutation (leaves n') ((k, (id, v)) :: leaves (Leaf lid lk lv)).
Proof.
  intros HlkB Hextl HkB Hext Hne Hpf Hfits.
  assert (Hpik := ext_length _ _ Hext). assert (Hpilk := ext_length _ _ Hextl).
  assert (E1 : (length k <? length pi) = false) by (apply Nat.ltb_ge; lia).
  assert (E2 : (length lk <? length pi) = false) by (apply Nat.ltb_ge; lia).
  rewrite E1, E2. cbv zeta in *.
  set (rem := skipn (length pi) k) in *. set (k1rem := skipn (length pi) lk) in *.
  assert (Hn7 := common_pad_le prefix_capacity k1rem rem).
  set (n' := common_pad prefix_capacity k1rem rem) in *.
  (* neither remainder is a prefix of the other *)
  assert (HP1 : is_pre k1rem rem -> False).
  { intros H. apply Hne. apply Hpf. right. exact (is_pre_skipn pi lk k Hextl Hext H). }
  assert (HP2 : is_pre rem k1rem -> False).
  { intros H. apply Hne. apply Hpf. left. exact (is_pre_skipn pi k lk Hext Hextl H). }
  assert (Hn1 : n' < length k1rem).
  { destruct (Nat.le_gt_cases (length k1rem) n') as [Hc|Hc]; [exfalso|exact Hc].
    destruct (Nat.le_gt_cases (length k1rem) (length rem)) as [Hd|Hd].
    - apply HP1. apply (common_pad_short_l prefix_capacity); fold n'; lia.
    - apply HP2. apply (common_pad_short_r prefix_capacity k1rem rem); fold n'; lia. }
  assert (Hn2 : n' < length rem).
  { destruct (Nat.le_gt_cases (length rem) n') as [Hc|Hc]; [exfalso|exact Hc].
    destruct (Nat.le_gt_cases (length rem) (length k1rem)) as [Hd|Hd].
    - apply HP2. apply (common_pad_short_r prefix_capacity k1rem rem); fold n'; lia.
    - apply HP1. apply (common_pad_short_l prefix_capacity); fold n'; lia. }
  assert (Hfst : firstn n' k1rem = firstn n' rem)
    by (apply (common_pad_firstn prefix_capacity k1rem rem); fold n'; lia).
  destruct (nth_error k1rem n') as [x|] eqn:Hx; [|apply nth_error_None in Hx; lia].
  destruct (nth_error rem n') as [y|] eqn:Hy; [|apply nth_error_None in Hy; lia].
  assert (Hx' : nth_error lk (length pi + n') = Some x) by (rewrite <- nth_error_skipn'; exact Hx).
  assert (Hy' : nth_error k (length pi + n') = Some y) by (rewrite <- nth_error_skipn'; exact Hy).
  rewrite (Nat.add_comm n' (length pi)), Hx' in Hfits.
  assert (Hxy : x <> y).
  { intros ->. rewrite Z.eqb_refl in Hfits. discriminate. }
  unfold byte_at. rewrite (Nat.add_comm n' (length pi)), Hx', Hy. cbn [bind].
  rewrite firstn_pad8 by lia.
  assert (Hprel : length (firstn n' k1rem) = n') by (apply firstn_length_le; lia).
  eexists. split; [reflexivity|]. split.
  - apply WFg_inode. rewrite two_children_length, Hprel. repeat split.
    + exact Hn7.
    + apply Forall_firstn'. apply Forall_skipn'. exact HlkB.
    + now apply two_children_sorted.
    + cbn; lia.
    + cbn; lia.
    + unfold WFgch. apply two_children_Forall; cbn [fst snd].
      * split; [exact (Forall_nth_error is_byte_z lk _ x HlkB Hx')|].
        apply WFg_leaf. split; [exact HlkB|]. rewrite app_assoc. apply ext_snoc.
        -- apply (ext_skipn pi _ lk Hextl). unfold ext. rewrite Hprel. reflexivity.
        -- rewrite app_length, Hprel. exact Hx'.
      * split; [exact (Forall_nth_error is_byte_z k _ y HkB Hy')|].
        apply WFg_leaf. split; [exact HkB|]. rewrite app_assoc. apply ext_snoc.
        -- apply (ext_skipn pi _ k Hext). unfold ext. rewrite Hprel. symmetry. exact Hfst.
        -- rewrite app_length, Hprel. exact Hy'.
  - rewrite leaves_inode. etransitivity; [apply cleaves_perm, two_children_perm|].
    cbn. apply perm_swap.
Qed.

Lemma prefix_split_ok_g pi c p ch id k v sl sb nb :
  WFg (Inode c p ch) pi -> Forall is_byte_z k -> ext pi k ->
  sl < length p -> firstn sl p = firstn sl (skipn (length pi) k) ->
  nth_error p sl = Some sb -> nth_error k (length pi + sl) = Some nb -> sb <> nb ->
  WFg (Inode C4 (firstn sl p) (two_children sb (Inode c (skipn (S sl) p) ch) nb (Leaf id k v))) pi /\
  Permutation
    (leaves (Inode C4 (firstn sl p) (two_children sb (Inode c (skipn (S sl) p) ch) nb (Leaf id k v))))
    ((k, (id, v)) :: leaves (Inode c p ch)).
Proof.
  intros HWF HkB Hext Hsl Hfst Hsb Hnb Hne.
  apply WFg_inode in HWF. destruct HWF as (Hp7 & HpB & HS & Hsz & Hch).
  assert (Hprel : length (firstn sl p) = sl) by (apply firstn_length_le; lia).
  assert (Hp : p = firstn sl p ++ sb :: skipn (S sl) p) by (now apply nth_error_decomp).
  split.
  - apply WFg_inode. rewrite two_children_length, Hprel. repeat split.
    + lia.
    + now apply Forall_firstn'.
    + now apply two_children_sorted.
    + cbn; lia.
    + cbn; lia.
    + unfold WFgch. apply two_children_Forall; cbn [fst snd].
      * split; [exact (Forall_nth_error is_byte_z p _ sb HpB Hsb)|].
        apply WFg_inode. rewrite skipn_length. repeat split; try assumption; try lia.
        -- now apply Forall_skipn'.
        -- unfold WFgch in *. eapply Forall_impl; [|exact Hch]. cbn beta. intros [b c'] [Hb Hc']. cbn [fst snd] in *.
           split; [exact Hb|].
           replace ((pi ++ firstn sl p ++ [sb]) ++ skipn (S sl) p ++ [b]) with (pi ++ p ++ [b]); [exact Hc'|].
           rewrite Hp at 1. rewrite <- !app_assoc. reflexivity.
      * split; [exact (Forall_nth_error is_byte_z k _ nb HkB Hnb)|].
        apply WFg_leaf. split; [exact HkB|]. rewrite app_assoc. apply ext_snoc.
        -- apply (ext_skipn pi _ k Hext). unfold ext. rewrite Hprel. symmetry. exact Hfst.
        -- rewrite app_length, Hprel. exact Hnb.
  - rewrite !leaves_inode. etransitivity; [apply cleaves_perm, two_children_perm|].
    unfold cleaves at 1. cbn [flat_map snd]. rewrite leaves_inode. cbn [leaves]. rewrite app_nil_r.
    symmetry. apply Permutation_cons_append.
Qed.

(** * insert *)

Lemma insert_go_correct_g k v id : Forall is_byte_z k -> forall fuel n pi,
  WFg n pi -> ext pi k -> pfk k (leaves n) -> length k - length pi < fuel ->
  insert_fits fuel n k (length pi) = true ->
  match assoc k (leaves n) with
  | Some _ => insert_go fuel n k v id (length pi) = Ok None
  | None => exists n' e, insert_go fuel n k v id (length pi) = Ok (Some (n', e)) /\ WFg n' pi /\
                         Permutation (leaves n') ((k, (id, v)) :: leaves n)
  end.
Proof.
  intros HkB. induction fuel as [|f IH]; intros n pi HWF Hext Hpf Hfuel Hfits; [lia|].
  destruct n as [lid lk lv|c p ch].
  - apply WFg_leaf in HWF. destruct HWF as [Hlk Hextl].
    destruct (list_Z_eq_dec k lk) as [->|Hne].
    + cbn [leaves assoc insert_go]. rewrite lex_eqb_refl, lex_compare_refl. reflexivity.
    + assert (Hcmp : lex_compare k lk <> Eq) by (now rewrite lex_compare_eq).
      assert (Hpf2 : pf2 k lk) by (apply (pfk_in k _ (lk, (lid, lv)) Hpf); now left).
      assert (Hg : (let rem := skipn (length pi) k in
                    let k1rem := skipn (length pi) lk in
                    let n' := common_pad prefix_capacity k1rem rem in
                    match nth_error lk (n' + length pi), nth_error rem n' with
                    | Some b1, Some b2 => negb (Z.eqb b1 b2)
                    | _, _ => true
                    end) = true).
      { cbn [insert_fits] in Hfits. destruct (lex_compare k lk); [congruence|exact Hfits|exact Hfits]. }
      destruct (leaf_split_ok_g pi lid lk lv id k v Hlk Hextl HkB Hext Hne Hpf2 Hg) as (n' & H1 & H2 & H3).
      cbn [leaves assoc] in *. rewrite (lex_eqb_neq _ _ Hne).
      exists n', ELeafSplit. split; [|split; assumption].
      cbn [insert_go]. destruct (lex_compare k lk); [congruence|exact H1|exact H1].
  - destruct (inode_prelude_g k c p ch pi HWF Hext Hpf)
      as (Hlt & [(Hsl & Hass & Hfst & sb & nb & Hsb & Hnb & Hsn)|(Hsl & b & Hb & Hext' & Hass)]).
    + rewrite Hass.
      destruct (prefix_split_ok_g pi c p ch id k v _ sb nb HWF HkB Hext Hsl Hfst Hsb Hnb Hsn) as (HWF' & HP).
      eexists _, _. split; [|split; [exact HWF'|exact HP]].
      cbn [insert_go]. rewrite Hlt. apply Nat.ltb_lt in Hsl. rewrite Hsl.
      unfold byte_at. rewrite Hsb, Hnb. reflexivity.
    + rewrite Hass. cbn [insert_go]. rewrite Hlt.
      assert (Hsl' : (shared_len p (skipn (length pi) k) <? length p) = false) by (apply Nat.ltb_ge; lia).
      cbn [insert_fits] in Hfits. rewrite Hsl', Hb in Hfits.
      rewrite Hsl'. unfold byte_at. rewrite Hb. cbn [bind].
      assert (Hbyte : is_byte_z b) by exact (Forall_nth_error is_byte_z k _ b HkB Hb).
      assert (Hd : length pi + length p < length k) by (apply nth_error_Some; congruence).
      destruct (find_child ch b 0) as [[i c']|] eqn:Hfc.
      * apply find_child_some in Hfc. destruct Hfc as (l1 & l2 & -> & ->). cbn [Nat.add].
        destruct (child_of_WFg _ _ _ _ _ _ _ HWF) as [_ Hc'].
        rewrite leaves_inode in Hpf. apply pfk_mid in Hpf. cbn [snd] in Hpf.
        replace (S (length pi + length p)) with (length (pi ++ p ++ [b])) in * by (rewrite !app_length; cbn; lia).
        specialize (IH c' (pi ++ p ++ [b]) Hc' Hext' Hpf ltac:(rewrite !app_length; cbn; lia) Hfits).
        destruct (assoc k (leaves c')) as [x|].
        -- rewrite IH. reflexivity.
        -- destruct IH as (c'' & e & Hins & HWF'' & HP). rewrite Hins. cbn [bind].
           eexists _, _. split; [reflexivity|]. rewrite replace_nth_mid. split.
           ++ eapply replace_child_WFg; eassumption.
           ++ rewrite !leaves_inode. now apply cleaves_mid_perm.
      * apply find_child_none in Hfc.
        assert (Hperm : forall c2, Permutation (leaves (Inode c2 p (insert_at (insert_pos c ch b) (b, Leaf id k v) ch)))
                                      ((k, (id, v)) :: leaves (Inode c p ch))).
        { intros c2. rewrite !leaves_inode. etransitivity; [apply cleaves_perm, insert_at_perm|]. reflexivity. }
        assert (Hsz : min_size c <= length ch <= cap c) by (apply WFg_inode in HWF; tauto).
        destruct (cls_eqb c C256) eqn:Hc256.
        -- eexists _, _. split; [reflexivity|]. split; [|apply Hperm].
           eapply add_child_WFg; try eassumption.
           assert (H256 := full_256_g _ _ _ _ _ HWF Hfc Hbyte).
           destruct c; try discriminate. cbn in *. lia.
        -- destruct (Nat.eqb_spec (length ch) (cap c)) as [Hfull|Hnfull].
           ++ eexists _, _. split; [reflexivity|]. split; [|apply Hperm].
              eapply add_child_WFg; try eassumption.
              destruct c; try discriminate; cbn in *; lia.
           ++ eexists _, _. split; [reflexivity|]. split; [|apply Hperm].
              eapply add_child_WFg; try eassumption. lia.
Qed.

(** * remove *)

Lemma prepend_WFg pi p sb s : is_byte_z sb -> Forall is_byte_z p ->
  match s with Inode _ p3 _ => length p + 1 + length p3 <= prefix_capacity | Leaf _ _ _ => True end ->
  WFg s (pi ++ p ++ [sb]) -> WFg (prepend_prefix p sb s) pi.
Proof.
  intros Hsb Hp Hfit HWF. destruct s as [id k v|c p3 ch]; cbn [prepend_prefix].
  - apply WFg_leaf in HWF. apply WFg_leaf. destruct HWF as [H1 H2]. split; [exact H1|].
    now apply ext_app_l in H2.
  - apply WFg_inode in HWF. destruct HWF as (H2 & H3 & HS & Hsz & Hch).
    apply WFg_inode. rewrite app_length. cbn [length].
    repeat split; try assumption; try lia.
    + apply Forall_app. split; [exact Hp|]. constructor; assumption.
    + unfold WFgch in *. eapply Forall_impl; [|exact Hch]. cbn beta. intros [b c'] [Hb Hc']. cbn [fst snd] in *.
      split; [exact Hb|].
      replace (pi ++ (p ++ sb :: p3) ++ [b]) with ((pi ++ p ++ [sb]) ++ p3 ++ [b]); [exact Hc'|].
      rewrite <- !app_assoc. reflexivity.
Qed.

Lemma remove_go_correct_g k : forall fuel c p ch pi,
  WFg (Inode c p ch) pi -> ext pi k -> pfk k (leaves (Inode c p ch)) -> length k - length pi < fuel ->
  remove_fits fuel (Inode c p ch) k (length pi) = true ->
  match assoc k (leaves (Inode c p ch)) with
  | None => remove_go fuel (Inode c p ch) k (length pi) = Ok RmNotFound
  | Some x => exists n' e, remove_go fuel (Inode c p ch) k (length pi) = Ok (RmReplaced n' e) /\
                           WFg n' pi /\ Permutation (leaves (Inode c p ch)) ((k, x) :: leaves n')
  end.
Proof.
  induction fuel as [|f IH]; intros c p ch pi HWF Hext Hpf Hfuel Hfits; [lia|].
  destruct (inode_prelude_g k c p ch pi HWF Hext Hpf)
    as (Hlt & [(Hsl & Hass & _)|(Hsl & b & Hb & Hext' & Hass)]).
  - rewrite Hass. cbn [remove_go]. rewrite Hlt. apply Nat.ltb_lt in Hsl. now rewrite Hsl.
  - rewrite Hass. cbn [remove_go]. rewrite Hlt.
    assert (Hsl' : (shared_len p (skipn (length pi) k) <? length p) = false) by (apply Nat.ltb_ge; lia).
    cbn [remove_fits] in Hfits. rewrite Hsl', Hb in Hfits.
    rewrite Hsl'. unfold byte_at. rewrite Hb. cbn [bind].
    assert (Hd : length pi + length p < length k) by (apply nth_error_Some; congruence).
    destruct (find_child ch b 0) as [[i c']|] eqn:Hfc; [|reflexivity].
    apply find_child_some in Hfc. destruct Hfc as (l1 & l2 & -> & ->). cbn [Nat.add] in *.
    destruct (child_of_WFg _ _ _ _ _ _ _ HWF) as [_ Hc'].
    assert (HWFi := HWF). apply WFg_inode in HWFi. destruct HWFi as (Hp7 & HpB & HS & Hsz & Hch).
    destruct c' as [lid lk lv|c3 p3 ch3].
    + change (assoc k (leaves (Leaf lid lk lv))) with (if lex_eqb k lk then Some (lid, lv) else @None (Z * list Z)).
      unfold lex_eqb. destruct (lex_compare k lk) eqn:Hcmp; try reflexivity.
      apply lex_compare_eq in Hcmp. subst lk.
      assert (HP : forall c2, Permutation (cleaves (l1 ++ (b, Leaf lid k lv) :: l2))
                                ((k, (lid, lv)) :: leaves (Inode c2 p (l1 ++ l2)))).
      { intros c2. rewrite leaves_inode, cleaves_mid, cleaves_app. cbn [snd leaves app].
        symmetry. apply Permutation_middle. }
      rewrite app_length in Hsz. cbn [length] in Hsz.
      destruct (Nat.eqb_spec (length (l1 ++ (b, Leaf lid k lv) :: l2)) (min_size c)) as [Hmin|Hnmin].
      * rewrite app_length in Hmin. cbn [length] in Hmin.
        destruct c.
        -- (* collapse *)
           cbn [min_size] in Hmin.
           destruct l1 as [|[sb s] l1].
           ++ destruct l2 as [|[sb s] l2]; [cbn in Hmin; lia|].
              destruct l2; [|cbn in Hmin; lia].
              cbn [length Nat.eqb app nth_error] in *.
              eexists _, _. split; [reflexivity|].
              unfold WFgch in Hch. apply Forall_cons_iff in Hch. destruct Hch as [_ Hch].
              apply Forall_cons_iff in Hch. destruct Hch as [[Hsb Hs] _]. cbn [fst snd] in *.
              split.
              { apply prepend_WFg; try assumption.
                destruct s as [|c3 p3 ch3]; [exact I|]. apply Nat.leb_le. exact Hfits. }
              rewrite leaves_inode, prepend_leaves. unfold cleaves. cbn. now rewrite app_nil_r.
           ++ destruct l1; [|cbn in Hmin; lia]. destruct l2; [|cbn in Hmin; lia].
              cbn [length Nat.eqb app nth_error] in *.
              eexists _, _. split; [reflexivity|].
              unfold WFgch in Hch. apply Forall_cons_iff in Hch. destruct Hch as [[Hsb Hs] _]. cbn [fst snd] in *.
              split.
              { apply prepend_WFg; try assumption.
                destruct s as [|c3 p3 ch3]; [exact I|]. apply Nat.leb_le. exact Hfits. }
              rewrite leaves_inode, prepend_leaves. unfold cleaves. cbn.
              symmetry. apply Permutation_cons_append.
        -- eexists _, _. split; [reflexivity|]. rewrite remove_nth_mid. split; [|rewrite leaves_inode; apply HP].
           eapply remove_child_WFg; [exact HWF|]. rewrite app_length. cbn in *. lia.
        -- eexists _, _. split; [reflexivity|]. rewrite remove_nth_mid. split; [|rewrite leaves_inode; apply HP].
           eapply remove_child_WFg; [exact HWF|]. rewrite app_length. cbn in *. lia.
        -- eexists _, _. split; [reflexivity|]. rewrite remove_nth_mid. split; [|rewrite leaves_inode; apply HP].
           eapply remove_child_WFg; [exact HWF|]. rewrite app_length. cbn in *. lia.
      * rewrite app_length in Hnmin. cbn [length] in Hnmin.
        eexists _, _. split; [reflexivity|]. rewrite remove_nth_mid. split; [|rewrite leaves_inode; apply HP].
        eapply remove_child_WFg; [exact HWF|]. rewrite app_length. lia.
    + rewrite leaves_inode in Hpf. apply pfk_mid in Hpf. cbn [snd] in Hpf.
      replace (S (length pi + length p)) with (length (pi ++ p ++ [b])) in * by (rewrite !app_length; cbn; lia).
      specialize (IH c3 p3 ch3 (pi ++ p ++ [b]) Hc' Hext' Hpf ltac:(rewrite !app_length; cbn; lia) Hfits).
      destruct (assoc k (leaves (Inode c3 p3 ch3))) as [x|].
      * destruct IH as (c'' & e & Hrm & HWF'' & HP). rewrite Hrm. cbn [bind].
        eexists _, _. split; [reflexivity|]. rewrite replace_nth_mid. split.
        -- eapply replace_child_WFg; eassumption.
        -- rewrite !leaves_inode. now apply cleaves_mid_perm.
      * rewrite IH. reflexivity.
Qed.
