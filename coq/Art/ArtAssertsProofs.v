(** C16: along every history inside the domain of C01g (prefix-free operation
    keys, 7-byte prefix capacity guard) none of the modelled assertions fails;
    outside the domain they do (the K1 key pair, the collapse guard, a
    looked-up key that is a proper prefix of stored keys). *)
From Coq Require Import String List ZArith Bool Lia Sorted Permutation.
From Unodb Require Import Base.Lex Art.ArtModel Art.ArtIter Art.ArtSpec Art.ArtInv Art.ArtLemmas
  Art.ArtProofs Art.ArtGenInv Art.ArtGenLemmas Art.ArtGenProofs Art.ArtGenRun Art.ArtAsserts.
Import ListNotations.

Lemma chk_true name b : b = true -> chk name b = [].
Proof. intros ->. reflexivity. Qed.

Lemma app_nil2 {A} (l1 l2 : list A) : l1 = [] -> l2 = [] -> l1 ++ l2 = [].
Proof. intros -> ->. reflexivity. Qed.

Ltac silent :=
  repeat match goal with
         | |- _ ++ _ = [] => apply app_nil2
         | |- chk _ _ = [] => apply chk_true
         | |- [] = [] => reflexivity
         | |- true = true => reflexivity
         end; try reflexivity.

(** * sortedness of the key bytes *)

Lemma ssorted_sortedb l : StronglySorted Z.lt l -> sortedb l = true.
Proof.
  induction l as [|x l IH]; intros H; [reflexivity|].
  inversion H as [|? ? Hs Hf]; subst. destruct l as [|y l]; [reflexivity|].
  change (sortedb (x :: y :: l)) with (Z.leb x y && sortedb (y :: l)).
  rewrite (IH Hs). inversion Hf; subst. apply andb_true_iff. split; [apply Z.leb_le; lia|reflexivity].
Qed.

Lemma ssorted_no_adjacent l : StronglySorted Z.lt l -> no_adjacent_eqb l = true.
Proof.
  induction l as [|x l IH]; intros H; [reflexivity|].
  inversion H as [|? ? Hs Hf]; subst. destruct l as [|y l]; [reflexivity|].
  change (no_adjacent_eqb (x :: y :: l)) with (negb (Z.eqb x y) && no_adjacent_eqb (y :: l)).
  rewrite (IH Hs). inversion Hf; subst. apply andb_true_iff. split; [|reflexivity].
  apply negb_true_iff, Z.eqb_neq. lia.
Qed.

Lemma keys_sorted_a ch : keys_sorted ch -> a_keys_sorted ch = true.
Proof. exact (ssorted_sortedb _). Qed.

Lemma keys_nodup_a ch : keys_sorted ch -> a_keys_no_dup ch = true.
Proof. exact (ssorted_no_adjacent _). Qed.

(** * fresh two-child node *)

Lemma two_asserts_silent b1 b2 : b1 <> b2 -> two_asserts b1 b2 = [].
Proof.
  intros Hne. unfold two_asserts. silent.
  - unfold a_two_distinct. now apply negb_true_iff, Z.eqb_neq.
  - unfold a_count_is. rewrite two_children_length. reflexivity.
  - apply keys_sorted_a. now apply two_children_sorted.
Qed.

Lemma leaf_split_silent lk k depth :
  (let rem := skipn depth k in
   let k1rem := skipn depth lk in
   let n' := common_pad prefix_capacity k1rem rem in
   match nth_error lk (n' + depth), nth_error rem n' with
   | Some b1, Some b2 => negb (Z.eqb b1 b2)
   | _, _ => true
   end) = true ->
  leaf_split_asserts lk k depth = [].
Proof.
  cbv zeta. intros H. unfold leaf_split_asserts.
  set (n' := common_pad prefix_capacity (skipn depth lk) (skipn depth k)) in *.
  assert (Hn : n' <= prefix_capacity) by apply common_pad_le.
  destruct (nth_error lk (n' + depth)) as [b1|]; [|reflexivity].
  destruct (nth_error (skipn depth k) n') as [b2|]; [|reflexivity].
  unfold prefix_capacity in *. silent.
  - unfold a_kp_len_to_word, prefix_capacity. apply Nat.leb_le. exact Hn.
  - unfold a_kp_length, prefix_capacity. apply Nat.leb_le. rewrite firstn_length. lia.
  - unfold a_key_index_word. apply Nat.ltb_lt. lia.
  - apply two_asserts_silent. apply negb_true_iff, Z.eqb_neq in H. exact H.
Qed.

Lemma prefix_split_silent p sl k depth :
  sl < length p -> length p <= prefix_capacity ->
  (forall sb nb, nth_error p sl = Some sb -> nth_error k (depth + sl) = Some nb -> sb <> nb) ->
  prefix_split_asserts p sl k depth = [].
Proof.
  intros Hsl Hp Hne. unfold prefix_split_asserts.
  destruct (nth_error p sl) as [sb|]; [|reflexivity].
  destruct (nth_error k (depth + sl)) as [nb|]; [|reflexivity].
  unfold prefix_capacity in *.
  silent.
  - unfold a_kp_ctor_len, prefix_capacity. apply Nat.leb_le. lia.
  - unfold a_kp_len_to_word, prefix_capacity. apply Nat.leb_le. lia.
  - unfold a_kp_index. apply Nat.ltb_lt. lia.
  - unfold a_kp_cut_le. apply Nat.leb_le. lia.
  - unfold a_kp_len_to_word, prefix_capacity. apply Nat.leb_le. lia.
  - unfold a_kp_cut_result, prefix_capacity. apply Nat.leb_le. rewrite skipn_length. lia.
  - apply two_asserts_silent. now apply Hne.
Qed.

(** * add *)

Lemma first_ge_spec ch b : ~ In b (map fst ch) ->
  first_ge ch b = length ch \/
  (first_ge ch b < length ch /\ exists x, nth_error (map fst ch) (first_ge ch b) = Some x /\ x <> b).
Proof.
  induction ch as [|[x c] ch IH]; intros Hn; [now left|].
  cbn [map fst In] in Hn. cbn [first_ge length].
  destruct (Z.leb_spec b x) as [Hle|Hgt].
  - right. split; [lia|]. exists x. split; [reflexivity|]. intros ->. apply Hn. now left.
  - destruct IH as [IH|(IH & y & Hy & Hyb)]; [tauto| |].
    + left. now rewrite IH.
    + right. split; [lia|]. exists y. split; [exact Hy|exact Hyb].
Qed.

Lemma absent_a ch b : find_child ch b 0 = None -> a_key_byte_absent ch b = true.
Proof. unfold a_key_byte_absent. now intros ->. Qed.

Lemma add_asserts_silent c ch b :
  keys_sorted ch -> ~ In b (map fst ch) -> find_child ch b 0 = None ->
  min_size c <= length ch <= cap c -> S (length ch) <= 256 ->
  add_asserts c ch b = [].
Proof.
  intros HS Hn Hfc Hsz H256. unfold add_asserts.
  assert (Hnf : length ch < cap c -> add_nonfull_asserts c ch b = []).
  { intros Hlt. unfold add_nonfull_asserts.
    assert (HS' : a_keys_sorted (insert_at (insert_pos c ch b) (b, dummy_leaf) ch) = true)
      by (apply keys_sorted_a; now apply insert_pos_sorted).
    apply app_nil2; [apply chk_true; unfold a_count_lt_cap; apply Nat.ltb_lt; exact Hlt|].
    destruct c.
    - silent; try (now apply keys_sorted_a); try exact HS'.
      unfold a_mask4. apply Nat.eqb_refl.
    - cbn [insert_pos] in *.
      assert (Hres : (first_ge ch b =? length ch) = true \/
                     ((first_ge ch b =? length ch) = false /\ a_pos16_lt (first_ge ch b) ch = true /\
                      a_pos16_ne (first_ge ch b) ch b = true)).
      { destruct (first_ge_spec ch b Hn) as [E|(Hl & x & Hx & Hxb)].
        - left. rewrite E. apply Nat.eqb_refl.
        - right. split; [apply Nat.eqb_neq; lia|]. split; [unfold a_pos16_lt; apply Nat.ltb_lt; exact Hl|].
          unfold a_pos16_ne, keys_of. rewrite Hx. now apply negb_true_iff, Z.eqb_neq. }
      apply app_nil2; [apply chk_true; now apply keys_sorted_a|].
      apply app_nil2; [apply chk_true; now apply keys_nodup_a|].
      apply app_nil2.
      { apply chk_true. unfold a_pos16_result. destruct Hres as [->|(_ & -> & ->)]; [reflexivity|apply orb_true_r]. }
      apply app_nil2; [|apply chk_true; exact HS'].
      destruct Hres as [->|(-> & -> & ->)]; reflexivity.
    - silent; [unfold a_count_ge_min; apply Nat.leb_le; lia|now apply absent_a].
    - silent. now apply absent_a. }
  destruct (cls_eqb c C256) eqn:Hc.
  - apply Hnf. destruct c; try discriminate. cbn [cap]. lia.
  - destruct (Nat.eqb_spec (length ch) (cap c)) as [Hfull|Hnfull]; [|apply Hnf; lia].
    unfold grow_asserts. apply app_nil2.
    + apply chk_true. unfold a_count_is. rewrite insert_at_length, Hfull.
      destruct c; try discriminate; reflexivity.
    + destruct c; try discriminate.
      * apply chk_true. unfold a_mask4. rewrite Hfull. reflexivity.
      * apply chk_true. now apply absent_a.
      * apply chk_true. now apply absent_a.
Qed.

(** * remove *)

Lemma remove_leaf_silent c l1 x l2 :
  keys_sorted (l1 ++ x :: l2) -> remove_leaf_asserts c (l1 ++ x :: l2) (length l1) = [].
Proof.
  intros HS. unfold remove_leaf_asserts.
  assert (Hi : a_child_index_lt (length l1) (l1 ++ x :: l2) = true).
  { unfold a_child_index_lt. apply Nat.ltb_lt. rewrite app_length. cbn [length]. lia. }
  assert (HS' : a_keys_sorted (remove_nth (length l1) (l1 ++ x :: l2)) = true).
  { rewrite remove_nth_mid. apply keys_sorted_a. unfold keys_sorted in *. rewrite map_app in *. cbn [map] in HS.
    eapply ssorted_remove_mid; exact HS. }
  destruct c; silent; try exact Hi; try exact HS'; now apply keys_sorted_a.
Qed.

Lemma shrink_silent c l1 x l2 :
  keys_sorted (l1 ++ x :: l2) -> length (l1 ++ x :: l2) = min_size c -> c <> C4 ->
  shrink_asserts c (l1 ++ x :: l2) (length l1) = [].
Proof.
  intros HS Hmin Hc. unfold shrink_asserts.
  assert (Hi : a_child_index_lt (length l1) (l1 ++ x :: l2) = true).
  { unfold a_child_index_lt. apply Nat.ltb_lt. rewrite app_length. cbn [length]. lia. }
  assert (HS' : a_keys_sorted (remove_nth (length l1) (l1 ++ x :: l2)) = true).
  { rewrite remove_nth_mid. apply keys_sorted_a. unfold keys_sorted in *. rewrite map_app in *. cbn [map] in HS.
    eapply ssorted_remove_mid; exact HS. }
  rewrite remove_nth_mid in *. rewrite app_length in Hmin. cbn [length] in Hmin.
  assert (Hlen : length (l1 ++ l2) = min_size c - 1) by (rewrite app_length; lia).
  destruct c; [congruence| | |]; cbn [min_size smaller cap] in *.
  - silent; [unfold a_count_is; rewrite Hlen; reflexivity|exact HS'].
  - silent; [unfold a_count_is; rewrite Hlen; reflexivity|exact Hi|
             unfold a_scan48_finds16; rewrite Hlen; reflexivity|exact HS'].
  - silent. unfold a_count_is. rewrite Hlen. reflexivity.
Qed.

Lemma collapse_silent (p : list Z) (ch : list (Z * node)) (i : nat) :
  length ch = 2 -> i < 2 -> length p <= prefix_capacity ->
  match nth_error ch (if Nat.eqb i 0 then 1 else 0) with
  | Some (_, Inode _ p3 _) => (length p + 1 + length p3 <=? prefix_capacity) = true
  | _ => True
  end ->
  collapse_asserts p ch i = [].
Proof.
  intros Hlen Hi Hp Hfit. unfold collapse_asserts.
  apply app_nil2; [apply chk_true; unfold a_count_is; rewrite Hlen; reflexivity|].
  apply app_nil2; [apply chk_true; unfold a_llc_index; apply Nat.leb_le; lia|].
  destruct (nth_error ch (if Nat.eqb i 0 then 1 else 0)) as [[sb [|c3 p3 ch3]]|]; try reflexivity.
  apply Nat.leb_le in Hfit. unfold prefix_capacity in *.
  silent.
  - unfold a_kp_length, prefix_capacity. apply Nat.leb_le. lia.
  - unfold a_kp_length, prefix_capacity. apply Nat.leb_le. lia.
  - unfold a_kp_prepend_fits, prefix_capacity. apply Nat.ltb_lt. lia.
  - unfold a_kp_len_to_word, prefix_capacity. apply Nat.leb_le. lia.
  - unfold a_kp_prepend_result, prefix_capacity. apply Nat.leb_le. rewrite app_length. cbn [length]. lia.
Qed.

(** * the descents *)

Lemma visit_silent c p ch : length p <= prefix_capacity -> visit_asserts (Inode c p ch) p = [].
Proof.
  intros Hp. unfold visit_asserts, prefix_capacity in *. silent.
  - unfold a_kp_length, prefix_capacity. apply Nat.leb_le. lia.
  - unfold a_kp_clamp. apply Nat.ltb_lt. lia.
Qed.

Lemma descend_silent (pi p k : list Z) :
  length p <= prefix_capacity -> length pi + length p < length k ->
  descend_asserts (length p) p (skipn (length pi) k) = [].
Proof.
  intros Hp Hd. unfold descend_asserts, prefix_capacity in *. silent.
  - unfold a_shared_is_length. apply Nat.eqb_refl.
  - unfold a_key_shift_view. apply Nat.leb_le. rewrite skipn_length. lia.
  - unfold a_key_shift_word. apply Nat.leb_le. lia.
Qed.

Lemma step_silent d k : d < length k -> step_asserts (skipn d k) = [].
Proof.
  intros Hd. unfold step_asserts. silent.
  unfold a_key_shift_view. apply Nat.leb_le. rewrite skipn_length. lia.
Qed.

Lemma get_asserts_silent k : forall fuel n pi,
  WFg n pi -> ext pi k -> pfk k (leaves n) -> get_asserts fuel n k (length pi) = [].
Proof.
  induction fuel as [|f IH]; intros n pi HWF Hext Hpf; [reflexivity|].
  destruct n as [lid lk lv|c p ch]; [reflexivity|].
  destruct (inode_prelude_g k c p ch pi HWF Hext Hpf)
    as (Hlt & [(Hsl & _)|(Hsl & b & Hb & Hext' & _)]).
  - assert (Hp7 : length p <= prefix_capacity) by (apply WFg_inode in HWF; tauto).
    cbn [get_asserts]. apply app_nil2; [now apply visit_silent|].
    apply Nat.ltb_lt in Hsl. now rewrite Hsl.
  - assert (Hp7 : length p <= prefix_capacity) by (apply WFg_inode in HWF; tauto).
    assert (Hd : length pi + length p < length k) by (apply nth_error_Some; congruence).
    cbn [get_asserts]. apply app_nil2; [now apply visit_silent|].
    rewrite Hsl, Nat.ltb_irrefl, Hb.
    assert (HD := descend_silent pi p k Hp7 Hd). unfold descend_asserts in HD.
    apply app_eq_nil in HD. destruct HD as [_ HD]. apply app_eq_nil in HD. destruct HD as [H1 HD].
    apply app_eq_nil in HD. destruct HD as [H2 H3].
    apply app_nil2; [exact H1|]. apply app_nil2; [exact H2|]. apply app_nil2; [exact H3|].
    destruct (find_child ch b 0) as [[i c']|] eqn:Hfc; [|reflexivity].
    apply find_child_some in Hfc. destruct Hfc as (l1 & l2 & -> & ->).
    apply app_nil2; [now apply step_silent|].
    destruct (child_of_WFg _ _ _ _ _ _ _ HWF) as [_ Hc'].
    rewrite leaves_inode in Hpf. apply pfk_mid in Hpf. cbn [snd] in Hpf.
    replace (S (length pi + length p)) with (length (pi ++ p ++ [b])) by (rewrite !app_length; cbn; lia).
    now apply IH.
Qed.

Lemma insert_asserts_silent k : Forall is_byte_z k -> forall fuel n pi,
  WFg n pi -> ext pi k -> pfk k (leaves n) ->
  insert_fits fuel n k (length pi) = true ->
  insert_asserts fuel n k (length pi) = [].
Proof.
  intros HkB. induction fuel as [|f IH]; intros n pi HWF Hext Hpf Hfits; [reflexivity|].
  destruct n as [lid lk lv|c p ch].
  - cbn [insert_asserts]. cbn [insert_fits] in Hfits.
    destruct (lex_compare k lk); [reflexivity| |]; now apply leaf_split_silent.
  - assert (Hp7 : length p <= prefix_capacity) by (apply WFg_inode in HWF; tauto).
    destruct (inode_prelude_g k c p ch pi HWF Hext Hpf)
      as (Hlt & [(Hsl & _ & _ & sb & nb & Hsb & Hnb & Hsn)|(Hsl & b & Hb & Hext' & _)]).
    + cbn [insert_asserts]. apply app_nil2; [now apply visit_silent|].
      assert (Hsl' := Hsl). apply Nat.ltb_lt in Hsl'. rewrite Hsl'.
      apply prefix_split_silent; [exact Hsl|exact Hp7|].
      intros sb' nb' E1 E2. congruence.
    + assert (Hd : length pi + length p < length k) by (apply nth_error_Some; congruence).
      cbn [insert_asserts]. apply app_nil2; [now apply visit_silent|].
      rewrite Hsl, Nat.ltb_irrefl, Hb.
      apply app_nil2; [now apply descend_silent|].
      assert (Hsl' : (shared_len p (skipn (length pi) k) <? length p) = false) by (apply Nat.ltb_ge; lia).
      cbn [insert_fits] in Hfits. rewrite Hsl', Hb in Hfits.
      assert (Hbyte : is_byte_z b) by exact (Forall_nth_error is_byte_z k _ b HkB Hb).
      destruct (find_child ch b 0) as [[i c']|] eqn:Hfc.
      * apply find_child_some in Hfc. destruct Hfc as (l1 & l2 & -> & ->).
        apply app_nil2; [now apply step_silent|].
        destruct (child_of_WFg _ _ _ _ _ _ _ HWF) as [_ Hc'].
        rewrite leaves_inode in Hpf. apply pfk_mid in Hpf. cbn [snd] in Hpf.
        replace (S (length pi + length p)) with (length (pi ++ p ++ [b])) in * by (rewrite !app_length; cbn; lia).
        now apply IH.
      * assert (Hfc' := Hfc). apply find_child_none in Hfc'.
        assert (H256 := full_256_g _ _ _ _ _ HWF Hfc' Hbyte).
        apply WFg_inode in HWF. destruct HWF as (_ & _ & HS & Hsz & _).
        now apply add_asserts_silent.
Qed.

Lemma remove_asserts_silent k : forall fuel c p ch pi,
  WFg (Inode c p ch) pi -> ext pi k -> pfk k (leaves (Inode c p ch)) ->
  remove_fits fuel (Inode c p ch) k (length pi) = true ->
  remove_asserts fuel (Inode c p ch) k (length pi) = [].
Proof.
  induction fuel as [|f IH]; intros c p ch pi HWF Hext Hpf Hfits; [reflexivity|].
  assert (Hp7 : length p <= prefix_capacity) by (apply WFg_inode in HWF; tauto).
  destruct (inode_prelude_g k c p ch pi HWF Hext Hpf)
    as (Hlt & [(Hsl & _)|(Hsl & b & Hb & Hext' & _)]).
  - cbn [remove_asserts]. apply app_nil2; [now apply visit_silent|].
    apply Nat.ltb_lt in Hsl. now rewrite Hsl.
  - assert (Hd : length pi + length p < length k) by (apply nth_error_Some; congruence).
    cbn [remove_asserts]. apply app_nil2; [now apply visit_silent|].
    rewrite Hsl, Nat.ltb_irrefl, Hb.
    apply app_nil2; [now apply descend_silent|].
    assert (Hsl' : (shared_len p (skipn (length pi) k) <? length p) = false) by (apply Nat.ltb_ge; lia).
    cbn [remove_fits] in Hfits. rewrite Hsl', Hb in Hfits.
    destruct (find_child ch b 0) as [[i c']|] eqn:Hfc; [|reflexivity].
    apply find_child_some in Hfc. destruct Hfc as (l1 & l2 & -> & ->). cbn [Nat.add] in *.
    destruct (child_of_WFg _ _ _ _ _ _ _ HWF) as [_ Hc'].
    assert (HWFi := HWF). apply WFg_inode in HWFi. destruct HWFi as (_ & _ & HS & Hsz & _).
    destruct c' as [lid lk lv|c3 p3 ch3].
    + destruct (lex_compare k lk); try reflexivity.
      destruct (Nat.eqb_spec (length (l1 ++ (b, Leaf lid lk lv) :: l2)) (min_size c)) as [Hmin|Hnmin].
      * destruct c.
        -- apply collapse_silent; [exact Hmin| |exact Hp7|].
           { cbn [min_size] in Hmin. rewrite app_length in Hmin. cbn [length] in Hmin. lia. }
           destruct (nth_error (l1 ++ (b, Leaf lid lk lv) :: l2) (if Nat.eqb (length l1) 0 then 1 else 0))
             as [[sb [|c3 p3 ch3]]|]; try exact I. exact Hfits.
        -- apply shrink_silent; [exact HS|exact Hmin|discriminate].
        -- apply shrink_silent; [exact HS|exact Hmin|discriminate].
        -- apply shrink_silent; [exact HS|exact Hmin|discriminate].
      * now apply remove_leaf_silent.
    + apply app_nil2; [now apply step_silent|].
      rewrite leaves_inode in Hpf. apply pfk_mid in Hpf. cbn [snd] in Hpf.
      replace (S (length pi + length p)) with (length (pi ++ p ++ [b])) in * by (rewrite !app_length; cbn; lia).
      now apply IH.
Qed.

(** * one step, whole histories *)

Lemma assert_log_silent d s o : Invg d s -> op_pf s o = true -> op_fits d o = true -> assert_log d o = [].
Proof.
  intros HInv Hop Hfits. destruct s as [l nid].
  destruct HInv as (HWF & Hnid & Hagree). cbn [fst snd] in *.
  assert (Hk : forall k, op_key o = Some k -> Forall is_byte_z k /\ pfk k (db_leaves d)).
  { intros k Ek. unfold op_pf in Hop. rewrite Ek in Hop. cbn [fst] in Hop.
    apply andb_true_iff in Hop. destruct Hop as [H1 H2]. split; [now apply bytesb_iff|].
    apply pfreeb_iff in H2. exact (pfk_transfer k _ _ Hagree H2). }
  unfold assert_log, db_WFg, db_leaves, op_fits in *.
  destruct o as [k|k v|k| |]; cbn [op_key] in Hk; destruct (root d) as [n|]; try reflexivity.
  - destruct (Hk k eq_refl) as [HkB Hpf].
    exact (get_asserts_silent k (fuel_for k) n [] HWF (ext_nil k) Hpf).
  - destruct (Hk k eq_refl) as [HkB Hpf].
    exact (insert_asserts_silent k HkB (fuel_for k) n [] HWF (ext_nil k) Hpf Hfits).
  - destruct (Hk k eq_refl) as [HkB Hpf]. destruct n as [|c p ch]; [reflexivity|].
    exact (remove_asserts_silent k (fuel_for k) c p ch [] HWF (ext_nil k) Hpf Hfits).
Qed.

Lemma run_logs_silent sz : forall ops d s, Invg d s -> hist_ok sz d s ops = true ->
  Forall (fun l : list string => l = []) (run_logs sz d ops).
Proof.
  induction ops as [|o ops IH]; intros d s HInv Hops; [constructor|].
  cbn [hist_ok] in Hops. apply andb_true_iff in Hops. destruct Hops as [Ho Hops].
  apply andb_true_iff in Ho. destruct Ho as [Hpf Hfits].
  cbn [run_logs]. constructor; [exact (assert_log_silent d s o HInv Hpf Hfits)|].
  destruct (step_correct_g sz d s o HInv Hpf Hfits) as [_ HInv'].
  exact (IH _ _ HInv' Hops).
Qed.

Theorem asserts_silent : forall sz ops, hist_ok sz db0 ([], 0%Z) ops = true ->
  Forall (fun l : list string => l = []) (run_logs sz db0 ops).
Proof. intros sz ops H. exact (run_logs_silent sz ops db0 _ Invg_init H). Qed.

(** the same, step by step: the state before step [i] and the operation *)
Theorem asserts_silent_at : forall sz ops i, hist_ok sz db0 ([], 0%Z) ops = true -> i < length ops ->
  assert_log (run_state sz db0 (firstn i ops)) (nth i ops OEmpty) = [].
Proof.
  intros sz ops i H Hi.
  assert (G : forall ops d i, i < length ops ->
            nth_error (run_logs sz d ops) i = Some (assert_log (run_state sz d (firstn i ops)) (nth i ops OEmpty))).
  { clear. induction ops as [|o ops IH]; intros d i Hi; [cbn in Hi; lia|].
    destruct i as [|i]; [reflexivity|]. cbn [run_logs nth_error firstn run_state nth]. apply IH. cbn in Hi. lia. }
  assert (F := asserts_silent sz ops H). rewrite Forall_forall in F.
  apply F. eapply nth_error_In. apply G. exact Hi.
Qed.

(** a log only contains names of checks *)
Lemma chk_names name b : In name check_names -> incl (chk name b) check_names.
Proof. intros H x Hx. unfold chk in Hx. destruct b; [contradiction|]. destruct Hx as [<-|[]]. exact H. Qed.

(** * outside the domain the assertions do fire *)

Definition k1_sz : sizes := {| sz_leaf := 11; sz4 := 48; sz16 := 160; sz48 := 672; sz256 := 2064 |}%Z.

Theorem assert_fires_outside_domain :
  (* K1: two prefix-free 10-byte keys sharing 9 bytes: add_two_to_empty's key1 != key2 *)
  (exists ops, hist_pf ([], 0%Z) ops = true /\ hist_ok k1_sz db0 ([], 0%Z) ops = false /\
               In "a_two_distinct" (concat (run_logs k1_sz db0 ops))) /\
  (* collapse beyond the prefix capacity: key_prefix::prepend *)
  (exists ops, hist_pf ([], 0%Z) ops = true /\ hist_ok k1_sz db0 ([], 0%Z) ops = false /\
               hist_ok k1_sz db0 ([], 0%Z) (removelast ops) = true /\
               In "a_kp_prepend_fits" (concat (run_logs k1_sz db0 ops))) /\
  (* a looked-up key that is a proper prefix of the stored keys: key_view shift_right *)
  (exists ops, hist_pf ([], 0%Z) ops = false /\
               In "a_key_shift_view" (concat (run_logs k1_sz db0 ops))).
Proof.
  split; [|split].
  - exists [OInsert [97;97;97;97;97;97;97;97;97;88] [1]; OInsert [97;97;97;97;97;97;97;97;97;89] [2]]%Z.
    vm_compute. repeat split. now left.
  - exists [OInsert [1;2;9] [1]; OInsert [1;2;3;4;5;6;7;8;9;1] [2]; OInsert [1;2;3;4;5;6;7;8;9;2] [3];
            OGet [1;2;3;4;5;6;7;8;9;1]; ORemove [1;2;9]]%Z.
    vm_compute. repeat split. now left.
  - exists [OInsert [1;0;3] [1]; OInsert [1;0;4] [2]; OGet [1]]%Z.
    vm_compute. repeat split. now left.
Qed.

(** * a history inside the domain on which the assertion sites are reached *)

Definition ex_keys (n : nat) : list (list Z) := map (fun i => [5; Z.of_nat i; 7]%Z) (seq 0 n).
Definition ex_asserts : list op :=
  ([OInsert [1;2;3] [10]; OInsert [1;2;4;5] [11] (* leaf split *); OInsert [1;9] [12] (* prefix split *);
    OInsert [2] [13]; OGet [1;2;4;5]] ++
   map (fun k => OInsert k [1]) (ex_keys 50) (* growth 4 -> 16 -> 48 -> 256 *) ++
   [OGet [5;49;7]; OGet [5;77;7]] ++
   map ORemove (ex_keys 50) (* shrink 256 -> 48 -> 16 -> 4, collapse *) ++
   [ORemove [1;9] (* collapse into an inner node *); ORemove [2]; ORemove [1;2;3]; ORemove [1;2;4;5]; OEmpty])%Z.

(** the structural events of the example, in order of first occurrence *)
Definition ev_of_step (sz : sizes) (d : db) (o : op) : ev :=
  match o, root d with
  | OInsert k v, Some n =>
      match insert_go (fuel_for k) n k v 0%Z 0 with Ok (Some (_, e)) => e | _ => ENone end
  | ORemove k, Some n =>
      match remove_go (fuel_for k) n k 0 with Ok (RmReplaced _ e) => e | _ => ENone end
  | _, _ => ENone
  end.
Fixpoint run_events (sz : sizes) (d : db) (ops : list op) : list ev :=
  match ops with
  | [] => []
  | o :: ops' => ev_of_step sz d o :: run_events sz (fst (step sz d o)) ops'
  end.
Definition ev_eqb (a b : ev) : bool :=
  match a, b with
  | ENone, ENone | ERootLeaf, ERootLeaf | ELeafSplit, ELeafSplit | EPrefixSplit, EPrefixSplit | ERemoveRoot, ERemoveRoot => true
  | EAdd c, EAdd c' | EGrow c, EGrow c' | ERemoveLeaf c, ERemoveLeaf c' | EShrink c, EShrink c' => cls_eqb c c'
  | _, _ => false
  end.
Definition has_ev (e : ev) (l : list ev) : bool := existsb (ev_eqb e) l.

Lemma ex_asserts_nonvacuous :
  hist_ok k1_sz db0 ([], 0%Z) ex_asserts = true /\
  forallb (fun e => has_ev e (run_events k1_sz db0 ex_asserts))
    [ELeafSplit; EPrefixSplit; EAdd C4; EAdd C16; EAdd C48; EAdd C256; EGrow C16; EGrow C48; EGrow C256;
     ERemoveLeaf C4; ERemoveLeaf C16; ERemoveLeaf C48; ERemoveLeaf C256;
     EShrink C256; EShrink C48; EShrink C16; EShrink C4] = true /\
  concat (run_logs k1_sz db0 ex_asserts) = [].
Proof. vm_compute. repeat split. Qed.
