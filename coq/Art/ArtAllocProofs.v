(** Proofs about the allocator view of the ART model (Art/ArtAlloc.v):
    after every history the multiset of live block sizes, maintained
    operation by operation as live + allocs - frees, is the multiset of the
    blocks of the tree; its sum is the reported memory use; no operation
    frees a size that is not live (indeed: that was not live before the
    operation began); clear and destruction return everything;
    operations that report "no change" neither allocate nor free.
    Multisets are compared through the counting function [cnt]; the
    balance of one step is an instance of the node-measure lemmas of
    ArtShapeProofs ([insert_go_measure], [remove_go_measure]). *)
From Coq Require Import List ZArith Bool Lia ZifyBool Permutation.
From Unodb Require Import Base.Lex Art.ArtModel Art.ArtIter Art.ArtFault Art.ArtSpec Art.ArtAlloc Art.ArtInv
  Art.ArtLemmas Art.ArtProofs Art.ArtScanSpec Art.ArtShapeProofs.
Import ListNotations.
Local Open Scope Z_scope.

(** * counting *)

Fixpoint cnt (x : Z) (l : list Z) : Z :=
  match l with [] => 0 | y :: l' => (if y =? x then 1 else 0) + cnt x l' end.

Lemma cnt_nonneg x l : 0 <= cnt x l.
Proof. induction l as [|y l IH]; cbn [cnt]; [lia|]. destruct (y =? x); lia. Qed.

Lemma cnt_app x l1 l2 : cnt x (l1 ++ l2) = cnt x l1 + cnt x l2.
Proof. induction l1 as [|y l1 IH]; cbn [cnt app]; lia. Qed.

Lemma cnt_pos_in x l : 0 < cnt x l -> In x l.
Proof.
  induction l as [|y l IH]; cbn [cnt]; [lia|]. intros H.
  destruct (Z.eqb_spec y x) as [->|Hne]; [now left|]. right. apply IH. lia.
Qed.

Lemma cnt_zero_nil l : (forall x, cnt x l = 0) -> l = [].
Proof.
  destruct l as [|y l]; [reflexivity|]. intros H. specialize (H y). cbn [cnt] in H.
  rewrite Z.eqb_refl in H. assert (A := cnt_nonneg y l). lia.
Qed.

Lemma perm_cnt l1 l2 : Permutation l1 l2 -> forall x, cnt x l1 = cnt x l2.
Proof. induction 1 as [|y l1 l2 _ IH|y z l|l1 l2 l3 _ IH1 _ IH2]; intros x; cbn [cnt]; try rewrite IH; try lia. rewrite IH1. apply IH2. Qed.

Lemma cnt_perm l1 : forall l2, (forall x, cnt x l1 = cnt x l2) -> Permutation l1 l2.
Proof.
  induction l1 as [|y l1 IH]; intros l2 H.
  - rewrite (cnt_zero_nil l2); [constructor|]. intros x. now rewrite <- H.
  - assert (Hin : In y l2).
    { apply cnt_pos_in. rewrite <- H. cbn [cnt]. rewrite Z.eqb_refl. assert (A := cnt_nonneg y l1). lia. }
    apply in_split in Hin. destruct Hin as (a & b & ->).
    apply Permutation_cons_app. apply IH. intros x. specialize (H x).
    rewrite cnt_app in *. cbn [cnt] in H. lia.
Qed.

Lemma zsum_app l1 l2 : zsum (l1 ++ l2) = zsum l1 + zsum l2.
Proof. unfold zsum. induction l1 as [|y l1 IH]; cbn [fold_right app]; lia. Qed.

Lemma zsum_perm l1 l2 : Permutation l1 l2 -> zsum l1 = zsum l2.
Proof. unfold zsum. induction 1; cbn [fold_right]; lia. Qed.

(** * removing from the live multiset *)

Lemma live_remove_one_cnt x : forall l l', live_remove_one x l = Some l' ->
  forall y, cnt y l = (if x =? y then 1 else 0) + cnt y l'.
Proof.
  induction l as [|z l IH]; intros l' H y; cbn [live_remove_one] in H; [discriminate|].
  destruct (Z.eqb_spec x z) as [->|Hne].
  - injection H as <-. reflexivity.
  - destruct (live_remove_one x l) as [r|] eqn:Hr; [|discriminate]. injection H as <-.
    cbn [cnt]. rewrite (IH r eq_refl y). lia.
Qed.

Lemma live_remove_one_some x : forall l, 0 < cnt x l -> exists l', live_remove_one x l = Some l'.
Proof.
  induction l as [|z l IH]; cbn [cnt live_remove_one]; [lia|]. intros H.
  destruct (Z.eqb_spec x z) as [->|Hne]; [now eexists|].
  destruct (Z.eqb_spec z x) as [->|_]; [contradiction|].
  destruct (IH ltac:(lia)) as (r & ->). now eexists.
Qed.

Lemma free_all_cnt fs : forall l l', free_all fs l = Some l' -> forall y, cnt y l = cnt y fs + cnt y l'.
Proof.
  induction fs as [|f fs IH]; intros l l' H y; cbn [free_all] in H.
  - injection H as <-. reflexivity.
  - destruct (live_remove_one f l) as [r|] eqn:Hr; [|discriminate].
    rewrite (live_remove_one_cnt _ _ _ Hr y), (IH _ _ H y). cbn [cnt]. lia.
Qed.

Lemma free_all_some fs : forall l, (forall y, cnt y fs <= cnt y l) -> exists l', free_all fs l = Some l'.
Proof.
  induction fs as [|f fs IH]; intros l H; cbn [free_all]; [now eexists|].
  destruct (live_remove_one_some f l) as (r & Hr).
  { specialize (H f). cbn [cnt] in H. rewrite Z.eqb_refl in H. assert (A := cnt_nonneg f fs). lia. }
  rewrite Hr. apply IH. intros y. specialize (H y). cbn [cnt] in H.
  rewrite (live_remove_one_cnt _ _ _ Hr y) in H. lia.
Qed.

(** the freed sizes were a sub-multiset of what was live *)
Lemma free_all_perm fs l l' : free_all fs l = Some l' -> Permutation l (fs ++ l').
Proof. intros H. apply cnt_perm. intros x. rewrite cnt_app. now apply free_all_cnt. Qed.

(** * the blocks of a tree as a node measure *)

Lemma blocks_inode sz c p ch :
  blocks sz (Inode c p ch) = sz_of sz c :: flat_map (fun bc => blocks sz (snd bc)) ch.
Proof.
  cbn [blocks]. f_equal. induction ch as [|[b c'] ch IH]; [reflexivity|]. cbn [flat_map snd]. now f_equal.
Qed.

Definition bm (sz : sizes) (x : Z) (n : node) : Z := cnt x (blocks sz n).
Definition wsz (sz : sizes) (x : Z) (c : cls) : Z := if sz_of sz c =? x then 1 else 0.
Definition lfx (sz : sizes) (x : Z) (k v : list Z) : Z := if leaf_size sz k v =? x then 1 else 0.

Lemma bm_leaf sz x id k v : bm sz x (Leaf id k v) = lfx sz x k v.
Proof. unfold bm, lfx. cbn [blocks cnt]. lia. Qed.

Lemma bm_inode sz x c p ch : bm sz x (Inode c p ch) = wsz sz x c + csum (bm sz x) ch.
Proof.
  unfold bm. rewrite blocks_inode. cbn [cnt]. unfold wsz. f_equal.
  induction ch as [|[b c'] ch IH]; [reflexivity|]. cbn [flat_map snd]. rewrite cnt_app, csum_cons, IH. reflexivity.
Qed.

Lemma tree_mem_zsum sz : forall n, tree_mem sz n = zsum (blocks sz n).
Proof.
  induction n as [id k v|c p ch IH] using node_ind2.
  - cbn [tree_mem blocks]. unfold zsum. cbn [fold_right]. lia.
  - rewrite tree_mem_inode, blocks_inode. unfold zsum at 1. cbn [fold_right]. fold (zsum (flat_map (fun bc => blocks sz (snd bc)) ch)).
    f_equal. induction ch as [|[b c'] ch IHc]; [reflexivity|].
    apply Forall_cons_iff in IH. destruct IH as [IH1 IH]. cbn [snd] in IH1.
    rewrite csum_cons. cbn [flat_map snd]. rewrite zsum_app, IH1, (IHc IH). reflexivity.
Qed.

Lemma db_tree_mem_zsum sz d : db_tree_mem sz d = zsum (db_blocks sz d).
Proof. unfold db_tree_mem, db_blocks. destruct (root d); [apply tree_mem_zsum|reflexivity]. Qed.

(** * one step: the blocks of the tree move by exactly allocs - frees *)

Lemma ins_balance sz x e k v :
  lfx sz x k v + dins (wsz sz x) e = cnt x (ev_ins_allocs sz e k v) - cnt x (ev_ins_frees sz e).
Proof.
  unfold lfx, wsz. destruct e as [| | | |c|c|c|c|]; cbn [dins ev_ins_allocs ev_ins_frees cnt sz_of]; lia.
Qed.

Lemma rem_balance sz x e k v :
  lfx sz x k v + drem (wsz sz x) e = cnt x (ev_rem_frees sz e k v) - cnt x (ev_rem_allocs sz e).
Proof.
  unfold lfx, wsz. destruct e as [| | | |c|c|c|c|]; try destruct c;
    cbn [drem ev_rem_allocs ev_rem_frees cnt sz_of smaller]; lia.
Qed.

Lemma step_balance sz d o x :
  cnt x (db_blocks sz (fst (step sz d o))) =
  cnt x (db_blocks sz d) + cnt x (op_allocs sz d o) - cnt x (op_frees sz d o).
Proof.
  destruct o as [k|k v|k| |]; cbn [step fst op_allocs op_frees cnt]; try lia.
  - (* insert *)
    unfold db_insert, ins_allocs, ins_frees, insert_event, db_blocks. destruct (root d) as [n|] eqn:Hroot.
    + destruct (insert_go (fuel_for k) n k v (next_id d) 0) as [[[n' e]|]|er] eqn:Hins; cbn [bind fst root cnt];
        try (rewrite Hroot; lia).
      assert (A := insert_go_measure (bm sz x) (wsz sz x) (lfx sz x) (bm_leaf sz x) (bm_inode sz x)
                     k v _ _ _ _ _ _ Hins).
      assert (B := ins_balance sz x e k v). unfold bm in A. lia.
    + cbn [fst root blocks ev_ins_allocs ev_ins_frees cnt]. lia.
  - (* remove *)
    unfold db_remove, rem_allocs, rem_frees, remove_event, db_blocks. destruct (root d) as [[lid lk lv|c p ch]|] eqn:Hroot.
    + destruct (lex_compare k lk); cbn [fst root cnt]; try (rewrite Hroot; lia).
      cbn [blocks ev_rem_allocs ev_rem_frees cnt]. lia.
    + destruct (get_go (fuel_for k) (Inode c p ch) k 0) as [g|er] eqn:Hget; cbn [bind fst];
        [|rewrite Hroot; cbn [cnt]; lia].
      destruct (remove_go (fuel_for k) (Inode c p ch) k 0) as [[|n' e]|er] eqn:Hrm; cbn [bind fst].
      * rewrite Hroot. destruct g as [[gid gv]|]; cbn [cnt]; lia.
      * destruct (remove_go_measure (bm sz x) (wsz sz x) (lfx sz x) (bm_leaf sz x) (bm_inode sz x)
                    k _ _ _ _ _ _ Hget Hrm) as (xid & xv & -> & A).
        cbn [fst root]. assert (B := rem_balance sz x e k xv). unfold bm in A. lia.
      * rewrite Hroot. destruct g as [[gid gv]|]; cbn [cnt]; lia.
    + cbn [fst]. rewrite Hroot. cbn [cnt]. lia.
  - (* clear *)
    unfold db_blocks at 1. cbn [db_clear root cnt]. lia.
Qed.

(** * the invariant of the live multiset *)

Definition AInv (sz : sizes) (d : db) (live : list Z) : Prop :=
  forall x, cnt x live = cnt x (db_blocks sz d).

Lemma frees_were_live_cnt sz d live o : AInv sz d live ->
  forall y, cnt y (op_frees sz d o) <= cnt y (live ++ op_allocs sz d o).
Proof.
  intros HI y. rewrite cnt_app, (HI y). assert (A := step_balance sz d o y).
  assert (B := cnt_nonneg y (db_blocks sz (fst (step sz d o)))). lia.
Qed.

Lemma live_step_inv sz d live o : AInv sz d live ->
  exists live', live_step sz d live o = Some live' /\ AInv sz (fst (step sz d o)) live'.
Proof.
  intros HI. unfold live_step.
  destruct (free_all_some _ _ (frees_were_live_cnt sz d live o HI)) as (l' & Hl').
  exists l'. split; [exact Hl'|]. intros x.
  assert (A := free_all_cnt _ _ _ Hl' x). rewrite cnt_app, (HI x) in A.
  assert (B := step_balance sz d o x). lia.
Qed.

Lemma live_run_inv sz ops : forall d live, AInv sz d live ->
  exists live', live_run sz d live ops = Some live' /\ AInv sz (run_state sz d ops) live'.
Proof.
  induction ops as [|o ops IH]; intros d live HI; cbn [live_run run_state]; [now exists live|].
  destruct (live_step_inv sz d live o HI) as (l1 & -> & HI1). exact (IH _ _ HI1).
Qed.

Lemma AInv0 sz : AInv sz db0 [].
Proof. intros x. reflexivity. Qed.

Lemma live_run_snoc sz o ops : forall d live,
  live_run sz d live (ops ++ [o]) =
  match live_run sz d live ops with
  | Some l => live_step sz (run_state sz d ops) l o
  | None => None
  end.
Proof.
  induction ops as [|o' ops IH]; intros d live; cbn [live_run run_state app].
  - destruct (live_step sz d live o); reflexivity.
  - destruct (live_step sz d live o') as [l1|]; [apply IH|reflexivity].
Qed.

Lemma run_state_snoc sz o ops : forall d, run_state sz d (ops ++ [o]) = fst (step sz (run_state sz d ops) o).
Proof. induction ops as [|o' ops IH]; intros d; cbn [run_state app]; [reflexivity|apply IH]. Qed.

(** * the theorems *)

Theorem live_is_tree : forall sz ops,
  exists live, live_run sz db0 [] ops = Some live /\
               Permutation live (db_blocks sz (run_state sz db0 ops)).
Proof.
  intros sz ops. destruct (live_run_inv sz ops db0 [] (AInv0 sz)) as (l & Hl & HI).
  exists l. split; [exact Hl|]. apply cnt_perm. exact HI.
Qed.

Theorem mem_is_live : forall sz ops,
  exists live, live_run sz db0 [] ops = Some live /\
               mem (st (run_state sz db0 ops)) = zsum live.
Proof.
  intros sz ops. destruct (live_is_tree sz ops) as (l & Hl & HP). exists l. split; [exact Hl|].
  assert (S : SInv sz (run_state sz db0 ops)).
  { apply run_SInv. unfold SInv. cbn. repeat split. }
  destruct S as (_ & _ & ->). rewrite db_tree_mem_zsum. symmetry. now apply zsum_perm.
Qed.

(** every size an operation frees is among the live ones (those held before
    the operation plus those the operation itself obtained first) *)
Theorem frees_were_live : forall sz ops o,
  exists live rest,
    live_run sz db0 [] ops = Some live /\
    Permutation (live ++ op_allocs sz (run_state sz db0 ops) o)
                (op_frees sz (run_state sz db0 ops) o ++ rest) /\
    live_run sz db0 [] (ops ++ [o]) = Some rest.
Proof.
  intros sz ops o. destruct (live_run_inv sz ops db0 [] (AInv0 sz)) as (l & Hl & HI).
  destruct (live_step_inv sz _ l o HI) as (r & Hr & _).
  exists l, r. split; [exact Hl|]. split; [exact (free_all_perm _ _ _ Hr)|].
  now rewrite live_run_snoc, Hl.
Qed.

Theorem clear_returns_all : forall sz ops,
  live_run sz db0 [] (ops ++ [OClear]) = Some [].
Proof.
  intros sz ops. destruct (live_run_inv sz (ops ++ [OClear]) db0 [] (AInv0 sz)) as (l & Hl & HI).
  rewrite Hl. f_equal. apply cnt_zero_nil. intros x. rewrite (HI x), run_state_snoc. reflexivity.
Qed.

Theorem destroy_returns_all : forall sz ops,
  exists live, live_run sz db0 [] ops = Some live /\
               free_all (destroy_frees sz (run_state sz db0 ops)) live = Some [].
Proof.
  intros sz ops. destruct (live_run_inv sz ops db0 [] (AInv0 sz)) as (l & Hl & HI).
  exists l. split; [exact Hl|]. unfold destroy_frees.
  destruct (free_all_some (db_blocks sz (run_state sz db0 ops)) l) as (r & Hr).
  { intros y. rewrite (HI y). lia. }
  rewrite Hr. f_equal. apply cnt_zero_nil. intros x.
  assert (A := free_all_cnt _ _ _ Hr x). rewrite (HI x) in A. lia.
Qed.

(** * frees come out of the tree the operation starts from *)

Lemma bm_nonneg sz x n : 0 <= bm sz x n.
Proof. apply cnt_nonneg. Qed.

Lemma csum_bm_nonneg sz x ch : 0 <= csum (bm sz x) ch.
Proof. induction ch as [|bc ch IH]; [cbn; lia|]. rewrite csum_cons. assert (A := bm_nonneg sz x (snd bc)). lia. Qed.

Lemma wsz_nonneg sz x c : 0 <= wsz sz x c.
Proof. unfold wsz. destruct (sz_of sz c =? x); lia. Qed.

(** what an insert frees is in the tree it starts from *)
Lemma insert_go_frees_in sz x k v id : forall fuel n depth n' e,
  insert_go fuel n k v id depth = Ok (Some (n', e)) -> cnt x (ev_ins_frees sz e) <= bm sz x n.
Proof.
  induction fuel as [|f IH]; intros n depth n' e H; [discriminate|].
  assert (N := bm_nonneg sz x n).
  destruct n as [lid lk lv|c p ch]; cbn [insert_go] in H.
  - destruct (lex_compare k lk); [discriminate| |];
      (destruct (length k <? depth)%nat; [discriminate|]);
      (destruct (length lk <? depth)%nat; [discriminate|]);
      (destruct (byte_at lk _) as [b1|]; [|discriminate]); cbn [bind] in H;
      (destruct (byte_at (skipn depth k) _) as [b2|]; [|discriminate]); cbn [bind] in H;
      injection H as _ <-; cbn [ev_ins_frees cnt]; exact N.
  - destruct (length k <? depth)%nat; [discriminate|]. cbv zeta in H.
    destruct (shared_len p (skipn depth k) <? length p)%nat.
    + destruct (byte_at p _) as [sb|]; [|discriminate]. cbn [bind] in H.
      destruct (byte_at k _) as [nb|]; [|discriminate]. cbn [bind] in H.
      injection H as _ <-. cbn [ev_ins_frees cnt]. exact N.
    + destruct (byte_at k _) as [b|]; [|discriminate]. cbn [bind] in H.
      destruct (find_child ch b 0) as [[i c']|] eqn:Hfc.
      * apply find_child_some in Hfc. destruct Hfc as (l1 & l2 & -> & ->).
        destruct (insert_go f c' k v id _) as [[[c'' e']|]|] eqn:Hins; cbn [bind] in H; try discriminate.
        injection H as _ <-. assert (A := IH _ _ _ _ Hins).
        rewrite bm_inode, csum_app, csum_cons. cbn [snd].
        assert (B1 := csum_bm_nonneg sz x l1). assert (B2 := csum_bm_nonneg sz x l2).
        assert (B3 := wsz_nonneg sz x c). lia.
      * destruct (cls_eqb c C256) eqn:Hc; [injection H as _ <-; cbn [ev_ins_frees cnt]; exact N|].
        destruct (Nat.eqb (length ch) (cap c)); injection H as _ <-; cbn [ev_ins_frees cnt]; [|exact N].
        rewrite bm_inode. assert (B := csum_bm_nonneg sz x ch). unfold wsz.
        destruct c; try discriminate; cbn [larger smaller]; lia.
Qed.

(** what a remove frees - the leaf, and the node that shrinks or dissolves - is in the tree it starts from *)
Lemma remove_go_frees_in sz x k : forall fuel n depth g n' e,
  get_go fuel n k depth = Ok g -> remove_go fuel n k depth = Ok (RmReplaced n' e) ->
  exists lid lv, g = Some (lid, lv) /\ cnt x (ev_rem_frees sz e k lv) <= bm sz x n.
Proof.
  induction fuel as [|f IH]; intros n depth g n' e Hg H; [discriminate|].
  destruct n as [lid lk lv|c p ch]; cbn [remove_go] in H; [discriminate|]. cbn [get_go] in Hg.
  destruct (length k <? depth)%nat; [discriminate|]. cbv zeta in H, Hg.
  destruct (shared_len p (skipn depth k) <? length p)%nat; [discriminate|].
  destruct (byte_at k _) as [b|]; [|discriminate]. cbn [bind] in H, Hg.
  destruct (find_child ch b 0) as [[i c']|] eqn:Hfc; [|discriminate].
  apply find_child_some in Hfc. destruct Hfc as (l1 & l2 & -> & ->). cbn [Nat.add] in H.
  rewrite bm_inode, csum_app, csum_cons. cbn [snd].
  assert (B1 := csum_bm_nonneg sz x l1). assert (B2 := csum_bm_nonneg sz x l2).
  assert (B3 := wsz_nonneg sz x c).
  destruct c' as [lid lk lv|c3 p3 ch3].
  - destruct f as [|f']; [discriminate|]. cbn [get_go] in Hg.
    destruct (lex_compare k lk) eqn:Hcmp; try discriminate.
    apply lex_compare_eq in Hcmp. subst lk. injection Hg as <-.
    exists lid, lv. split; [reflexivity|]. rewrite bm_leaf. unfold lfx, wsz in *.
    destruct (Nat.eqb (length (l1 ++ (b, Leaf lid k lv) :: l2)) (min_size c)).
    + destruct c.
      * destruct (nth_error _ _) as [[sb s]|]; [|discriminate]. injection H as _ <-. cbn [ev_rem_frees cnt]. lia.
      * injection H as _ <-. cbn [ev_rem_frees cnt]. lia.
      * injection H as _ <-. cbn [ev_rem_frees cnt]. lia.
      * injection H as _ <-. cbn [ev_rem_frees cnt]. lia.
    + injection H as _ <-. cbn [ev_rem_frees cnt]. lia.
  - destruct (remove_go f (Inode c3 p3 ch3) k _) as [[|c'' e']|] eqn:Hrm; cbn [bind] in H; try discriminate.
    injection H as _ <-.
    destruct (IH _ _ _ _ _ Hg Hrm) as (lid & lv & -> & Hm).
    exists lid, lv. split; [reflexivity|]. lia.
Qed.

Lemma op_frees_in_tree sz d o x : cnt x (op_frees sz d o) <= cnt x (db_blocks sz d).
Proof.
  assert (N := cnt_nonneg x (db_blocks sz d)).
  destruct o as [k|k v|k| |]; cbn [op_frees cnt]; try lia.
  - unfold ins_frees, insert_event, db_blocks in *. destruct (root d) as [n|]; [|cbn [ev_ins_frees cnt]; lia].
    destruct (insert_go (fuel_for k) n k v (next_id d) 0) as [[[n' e]|]|er] eqn:Hins; cbn [cnt]; try lia.
    exact (insert_go_frees_in sz x k v _ _ _ _ _ _ Hins).
  - unfold rem_frees, remove_event, db_blocks in *. destruct (root d) as [[lid lk lv|c p ch]|]; [| |cbn [cnt]; lia].
    + destruct (lex_compare k lk); cbn [cnt] in *; try lia. cbn [ev_rem_frees blocks cnt]. lia.
    + destruct (get_go (fuel_for k) (Inode c p ch) k 0) as [g|er] eqn:Hget; [|cbn [cnt]; lia].
      destruct (remove_go (fuel_for k) (Inode c p ch) k 0) as [[|n' e]|er] eqn:Hrm;
        try (destruct g as [[gid gv]|]; cbn [cnt]; lia).
      destruct (remove_go_frees_in sz x k _ _ _ _ _ _ Hget Hrm) as (xid & xv & -> & A). exact A.
Qed.

(** every size an operation frees was live BEFORE the operation: no operation
    returns a block it obtained itself *)
Theorem frees_were_live_before : forall sz ops o,
  exists live kept,
    live_run sz db0 [] ops = Some live /\
    Permutation live (op_frees sz (run_state sz db0 ops) o ++ kept).
Proof.
  intros sz ops o. destruct (live_run_inv sz ops db0 [] (AInv0 sz)) as (l & Hl & HI).
  destruct (free_all_some (op_frees sz (run_state sz db0 ops) o) l) as (r & Hr).
  { intros y. rewrite (HI y). apply op_frees_in_tree. }
  exists l, r. split; [exact Hl|]. exact (free_all_perm _ _ _ Hr).
Qed.

(** operations that report "nothing changed" - a duplicate insert, a remove
    of an absent key, any step the model refuses with an error, get, empty -
    neither allocate nor free *)
Definition no_change (sz : sizes) (d : db) (o : op) : Prop :=
  match o with
  | OInsert _ _ | ORemove _ => snd (step sz d o) <> RBool true
  | OClear => False
  | OGet _ | OEmpty => True
  end.

Theorem noop_neutral : forall sz d live o, no_change sz d o ->
  op_allocs sz d o = [] /\ op_frees sz d o = [] /\ live_step sz d live o = Some live /\
  fst (step sz d o) = d.
Proof.
  intros sz d live o H.
  assert (E : op_allocs sz d o = [] /\ op_frees sz d o = [] /\ fst (step sz d o) = d).
  { destruct o as [k|k v|k| |]; cbn [no_change] in H; cbn [step fst snd op_allocs op_frees] in *;
      try (now repeat split); try contradiction.
    - unfold db_insert, ins_allocs, ins_frees, insert_event in *. destruct (root d) as [n|].
      + destruct (insert_go (fuel_for k) n k v (next_id d) 0) as [[[n' e]|]|er]; cbn [bind fst snd] in *;
          try (now repeat split); try (now contradiction H).
      + try (now repeat split); try (now contradiction H).
    - unfold db_remove, rem_allocs, rem_frees, remove_event in *. destruct (root d) as [[lid lk lv|c p ch]|].
      + destruct (lex_compare k lk); cbn [fst snd] in *; try (now repeat split); try (now contradiction H).
      + destruct (get_go (fuel_for k) (Inode c p ch) k 0) as [[[gid gv]|]|er]; cbn [bind fst snd] in *;
          try (now repeat split);
          destruct (remove_go (fuel_for k) (Inode c p ch) k 0) as [[|n' e]|er2]; cbn [bind fst snd] in *;
          try (now repeat split); try (now contradiction H).
      + now repeat split. }
  destruct E as (E1 & E2 & E3). repeat split; try assumption.
  unfold live_step. rewrite E1, E2, app_nil_r. reflexivity.
Qed.

(** the number of allocations is the one the fault model (C08) counts *)
Definition ins_ev (e : ev) : bool :=
  match e with ELeafSplit | EPrefixSplit | EAdd _ | EGrow _ => true | _ => false end.

Lemma insert_go_ins_ev k v id : forall fuel n depth n' e,
  insert_go fuel n k v id depth = Ok (Some (n', e)) -> ins_ev e = true.
Proof.
  induction fuel as [|f IH]; intros n depth n' e H; [discriminate|].
  destruct n as [lid lk lv|c p ch]; cbn [insert_go] in H.
  - destruct (lex_compare k lk); [discriminate| |];
      (destruct (length k <? depth)%nat; [discriminate|]);
      (destruct (length lk <? depth)%nat; [discriminate|]);
      (destruct (byte_at lk _) as [b1|]; [|discriminate]); cbn [bind] in H;
      (destruct (byte_at (skipn depth k) _) as [b2|]; [|discriminate]); cbn [bind] in H;
      injection H as _ <-; reflexivity.
  - destruct (length k <? depth)%nat; [discriminate|]. cbv zeta in H.
    destruct (shared_len p (skipn depth k) <? length p)%nat.
    + destruct (byte_at p _) as [sb|]; [|discriminate]. cbn [bind] in H.
      destruct (byte_at k _) as [nb|]; [|discriminate]. cbn [bind] in H.
      injection H as _ <-. reflexivity.
    + destruct (byte_at k _) as [b|]; [|discriminate]. cbn [bind] in H.
      destruct (find_child ch b 0) as [[i c']|].
      * destruct (insert_go f c' k v id _) as [[[c'' e']|]|] eqn:Hins; cbn [bind] in H; try discriminate.
        injection H as _ <-. exact (IH _ _ _ _ Hins).
      * destruct (cls_eqb c C256); [injection H as _ <-; reflexivity|].
        destruct (Nat.eqb (length ch) (cap c)); injection H as _ <-; reflexivity.
Qed.

Theorem alloc_count_insert : forall sz d k v,
  db_insert_allocs d k v = Ok (length (op_allocs sz d (OInsert k v))) \/
  exists e, db_insert_allocs d k v = Err e /\ op_allocs sz d (OInsert k v) = [].
Proof.
  intros sz d k v. unfold db_insert_allocs. cbn [op_allocs]. unfold ins_allocs, insert_event.
  destruct (root d) as [n|]; [|now left].
  destruct (insert_go (fuel_for k) n k v (next_id d) 0) as [[[n' e]|]|er] eqn:Hins; cbn [bind].
  - left. apply insert_go_ins_ev in Hins. destruct e as [| | | |c|c|c|c|]; try discriminate; reflexivity.
  - now left.
  - right. now exists er.
Qed.
