(** M-ART iterator and scans (art.hpp iterator::first/last/next/prior/seek,
    db::scan/scan_from/scan_range), with the seek fall-off as fixed by
    "fix: seek must resume at the parent's sibling ...".  Definitions only.
    [seek_pinned] is the algorithm of the pinned tree, kept for the
    machine-checked refutation. *)
From Coq Require Import List ZArith Bool.
From Unodb Require Import Base.Lex Art.ArtModel.
Import ListNotations.
Local Open Scope Z_scope.

(** stack entry: an inner node with the index of the child taken, or the leaf on top *)
Inductive frame := FI (n : node) (i : nat) | FL (n : node).
Definition stack := list frame.

Definition children (n : node) : list (Z * node) :=
  match n with Inode _ _ ch => ch | Leaf _ _ _ => [] end.
Definition prefix_of (n : node) : list Z :=
  match n with Inode _ p _ => p | Leaf _ _ _ => [] end.

Fixpoint height (n : node) : nat :=
  match n with
  | Leaf _ _ _ => O
  | Inode _ _ ch =>
      S ((fix hl (l : list (Z * node)) : nat :=
            match l with [] => O | (_, c) :: l' => Nat.max (height c) (hl l') end) ch)
  end.

Fixpoint left_most (fuel : nat) (n : node) (stk : stack) : res stack :=
  match fuel with
  | O => Err OutOfFuel
  | S f =>
      match n with
      | Leaf _ _ _ => Ok (FL n :: stk)
      | Inode _ _ ch =>
          match ch with
          | [] => Err Malformed
          | (_, c) :: _ => left_most f c (FI n O :: stk)
          end
      end
  end.

Fixpoint right_most (fuel : nat) (n : node) (stk : stack) : res stack :=
  match fuel with
  | O => Err OutOfFuel
  | S f =>
      match n with
      | Leaf _ _ _ => Ok (FL n :: stk)
      | Inode _ _ ch =>
          match nth_error ch (pred (length ch)) with
          | None => Err Malformed
          | Some (_, c) => right_most f c (FI n (pred (length ch)) :: stk)
          end
      end
  end.

Definition lm (n : node) (stk : stack) : res stack := left_most (S (height n)) n stk.
Definition rm (n : node) (stk : stack) : res stack := right_most (S (height n)) n stk.

Definition it_first (r : option node) : res stack :=
  match r with None => Ok [] | Some n => lm n [] end.
Definition it_last (r : option node) : res stack :=
  match r with None => Ok [] | Some n => rm n [] end.

Fixpoint it_next (stk : stack) : res stack :=
  match stk with
  | [] => Ok []
  | FL _ :: s => it_next s
  | FI n i :: s =>
      match nth_error (children n) (S i) with
      | None => it_next s
      | Some (_, c) => lm c (FI n (S i) :: s)
      end
  end.

Fixpoint it_prior (stk : stack) : res stack :=
  match stk with
  | [] => Ok []
  | FL _ :: s => it_prior s
  | FI n i :: s =>
      match i with
      | O => it_prior s
      | S i' =>
          match nth_error (children n) i' with
          | None => Err Malformed
          | Some (_, c) => rm c (FI n i' :: s)
          end
      end
  end.

(** gte_key_byte / lte_key_byte: index of the first child >= b / last child <= b *)
Fixpoint gte_idx (ch : list (Z * node)) (b : Z) (i : nat) : option nat :=
  match ch with
  | [] => None
  | (x, _) :: ch' => if b <=? x then Some i else gte_idx ch' b (S i)
  end.
Fixpoint lte_idx (ch : list (Z * node)) (b : Z) (i : nat) : option nat :=
  match ch with
  | [] => None
  | (x, _) :: ch' =>
      match lte_idx ch' b (S i) with
      | Some j => Some j
      | None => if x <=? b then Some i else None
      end
  end.

Section Seek.
  Variable fixed : bool.  (* true: the repaired fall-off; false: the pinned tree's *)

  (** the pinned fall-off loops *)
  Fixpoint falloff_fwd (stk : stack) : res stack :=
    match stk with
    | [] => Ok []
    | FL _ :: s => Err Malformed
    | FI n i :: s =>
        match nth_error (children n) (S i) with
        | Some _ =>
            match nth_error (children n) i with
            | Some (_, c) => lm c stk
            | None => Err Malformed
            end
        | None => falloff_fwd s
        end
    end.
  Fixpoint falloff_rev (stk : stack) : res stack :=
    match stk with
    | [] => Ok []
    | FL _ :: s => Err Malformed
    | FI n i :: s =>
        match i with
        | S _ =>
            match nth_error (children n) i with
            | Some (_, c) => rm c stk
            | None => Err Malformed
            end
        | O => falloff_rev s
        end
    end.

  Fixpoint seek_go (fuel : nat) (n : node) (k : list Z) (depth : nat) (fwd : bool) (stk : stack)
    : res (stack * bool) :=
    match fuel with
    | O => Err OutOfFuel
    | S f =>
        match n with
        | Leaf _ lk _ =>
            let stk' := FL n :: stk in
            match lex_compare k lk with
            | Eq => Ok (stk', true)
            | Lt => if fwd then Ok (stk', false) else (s <- it_prior stk' ;; Ok (s, false))
            | Gt => if fwd then (s <- it_next stk' ;; Ok (s, false)) else Ok (stk', false)
            end
        | Inode c p ch =>
            if (length k <? depth)%nat then Err Oob else
            let rem := skipn depth k in
            let sl := shared_len p rem in
            if (sl <? length p)%nat then
              kb <- byte_at rem sl ;;
              pb <- byte_at p sl ;;
              if kb <? pb then
                if fwd then (s <- lm n stk ;; Ok (s, false))
                else (s <- lm n stk ;; s' <- it_prior s ;; Ok (s', false))
              else
                if fwd then (s <- rm n stk ;; s' <- it_next s ;; Ok (s', false))
                else (s <- rm n stk ;; Ok (s, false))
            else
              let d := (depth + length p)%nat in
              b <- byte_at k d ;;
              match find_child ch b O with
              | Some (i, c') => seek_go f c' k (S d) fwd (FI n i :: stk)
              | None =>
                  if fwd then
                    match gte_idx ch b O with
                    | Some j =>
                        match nth_error ch j with
                        | Some (_, c') => s <- lm c' (FI n j :: stk) ;; Ok (s, false)
                        | None => Err Malformed
                        end
                    | None =>
                        if fixed then (s <- it_next stk ;; Ok (s, false))
                        else (s <- falloff_fwd (tl stk) ;; Ok (s, false))
                    end
                  else
                    match lte_idx ch b O with
                    | Some j =>
                        match nth_error ch j with
                        | Some (_, c') => s <- rm c' (FI n j :: stk) ;; Ok (s, false)
                        | None => Err Malformed
                        end
                    | None =>
                        if fixed then (s <- it_prior stk ;; Ok (s, false))
                        else (s <- falloff_rev (tl stk) ;; Ok (s, false))
                    end
              end
        end
    end.
End Seek.

Definition it_seek (r : option node) (k : list Z) (fwd : bool) : res (stack * bool) :=
  match r with
  | None => Ok ([], false)
  | Some n => seek_go true (fuel_for k) n k O fwd []
  end.
Definition it_seek_pinned (r : option node) (k : list Z) (fwd : bool) : res (stack * bool) :=
  match r with
  | None => Ok ([], false)
  | Some n => seek_go false (fuel_for k) n k O fwd []
  end.

Definition current (stk : stack) : option (list Z * list Z) :=
  match stk with
  | FL (Leaf _ k v) :: _ => Some (k, v)
  | _ => None
  end.

Fixpoint size (n : node) : nat :=
  match n with
  | Leaf _ _ _ => 1%nat
  | Inode _ _ ch => S ((fix sl (l : list (Z * node)) : nat :=
                          match l with [] => O | (_, c) :: l' => (size c + sl l')%nat end) ch)
  end.

(** The visitor is abstracted by the index of the call at which it returns
    true ([None] = never).  [bound]: scan_range stops before the first key
    for which [stop] holds. *)
Fixpoint scan_loop (fuel : nat) (fwd : bool) (stop : list Z -> bool) (halt : option nat)
         (stk : stack) (acc : list (list Z * list Z)) : res (list (list Z * list Z)) :=
  match fuel with
  | O => Err OutOfFuel
  | S f =>
      match current stk with
      | None => Ok (rev acc)
      | Some (k, v) =>
          if stop k then Ok (rev acc) else
          let acc' := (k, v) :: acc in
          match halt with
          | Some O => Ok (rev acc')
          | _ =>
              s <- (if fwd then it_next stk else it_prior stk) ;;
              scan_loop f fwd stop (match halt with Some (S h) => Some h | _ => None end) s acc'
          end
      end
  end.

Definition scan_fuel (r : option node) : nat := match r with None => 1%nat | Some n => S (S (size n)) end.

Definition db_scan (d : db) (fwd : bool) (halt : option nat) : res (list (list Z * list Z)) :=
  s <- (if fwd then it_first (root d) else it_last (root d)) ;;
  scan_loop (scan_fuel (root d)) fwd (fun _ => false) halt s [].

Definition db_scan_from (d : db) (k : list Z) (fwd : bool) (halt : option nat) : res (list (list Z * list Z)) :=
  r <- it_seek (root d) k fwd ;;
  scan_loop (scan_fuel (root d)) fwd (fun _ => false) halt (fst r) [].

Definition db_scan_range (d : db) (a b : list Z) (halt : option nat) : res (list (list Z * list Z)) :=
  match lex_compare a b with
  | Eq => Ok []
  | Lt =>
      r <- it_seek (root d) a true ;;
      scan_loop (scan_fuel (root d)) true (fun k => negb (lex_ltb k b)) halt (fst r) []
  | Gt =>
      r <- it_seek (root d) a false ;;
      scan_loop (scan_fuel (root d)) false (fun k => lex_leb k b) halt (fst r) []
  end.

Definition db_scan_from_pinned (d : db) (k : list Z) (fwd : bool) : res (list (list Z * list Z)) :=
  r <- it_seek_pinned (root d) k fwd ;;
  scan_loop (scan_fuel (root d)) fwd (fun _ => false) None (fst r) [].
