(** M-ART, allocator view (C10: "the bytes actually held from the allocator
    equal the reported memory use, and all of it is returned when the index
    is destroyed").  Definitions only.

    - [blocks sz n]: the multiset (as a list, pre-order) of the SIZES of the
      heap blocks a tree consists of: one block of [leaf_size sz k v] bytes per
      leaf (basic_leaf::compute_size = sizeof(leaf) - 1 + key size + value
      size, allocated in make_db_leaf_ptr), one block of [sz_of sz c] bytes per
      inner node (sizeof(INode), allocated in make_db_inode_unique_ptr).
    - [op_allocs sz d o] / [op_frees sz d o]: the sizes of the blocks an
      operation obtains from / returns to the allocator, in source order,
      derived from the structural event [ev] the model computes
      (art.hpp insert_internal / remove_internal, add_or_choose_subtree,
      remove_or_choose_subtree):
        insert  : the leaf (created only once the descent knows the key is
                  absent: db::insert_internal returns false on a matching
                  leaf BEFORE make_db_leaf_ptr, so a duplicate insert does not
                  allocate), then the new N4 of a leaf split / prefix split
                  or the larger node of a growth; a growth frees the old
                  (smaller) node when the constructor of the larger one
                  returns;
        remove  : a shrink of N16/N48/N256 first allocates the smaller node;
                  then the leaf is freed (reclaim_leaf_on_scope_exit) and,
                  on a shrink, the old node; a two-child N4 is dissolved
                  (leave_last_child): the leaf, then the N4;
        clear   : every block of the tree (delete_root_subtree);
        get, empty, a duplicate insert, a remove of an absent key and any
        step on which the model reports [Err]: nothing.
    - [live_step]: live := (live + allocs) - frees, [None] when a freed size
      is not among the live ones (a double free or a free of something never
      allocated, as far as sizes can tell).
    - [destroy_frees]: what ~db() returns (delete_root_subtree on the final
      tree). *)
From Coq Require Import List ZArith Bool.
From Unodb Require Import Base.Lex Art.ArtModel Art.ArtIter Art.ArtSpec.
Import ListNotations.
Local Open Scope Z_scope.

Fixpoint blocks (sz : sizes) (n : node) : list Z :=
  match n with
  | Leaf _ k v => [leaf_size sz k v]
  | Inode c _ ch =>
      sz_of sz c ::
      (fix bl (l : list (Z * node)) : list Z :=
         match l with [] => [] | (_, c') :: l' => blocks sz c' ++ bl l' end) ch
  end.

Definition db_blocks (sz : sizes) (d : db) : list Z :=
  match root d with None => [] | Some n => blocks sz n end.

(** ** allocation effect of a structural event *)

Definition ev_ins_allocs (sz : sizes) (e : ev) (k v : list Z) : list Z :=
  leaf_size sz k v ::
  match e with
  | ELeafSplit | EPrefixSplit => [sz4 sz]
  | EGrow c => [sz_of sz c]
  | _ => []
  end.

Definition ev_ins_frees (sz : sizes) (e : ev) : list Z :=
  match e with EGrow c => [sz_of sz (smaller c)] | _ => [] end.

Definition ev_rem_allocs (sz : sizes) (e : ev) : list Z :=
  match e with
  | EShrink C4 => []
  | EShrink c => [sz_of sz (smaller c)]
  | _ => []
  end.

Definition ev_rem_frees (sz : sizes) (e : ev) (k v : list Z) : list Z :=
  leaf_size sz k v :: match e with EShrink c => [sz_of sz c] | _ => [] end.

(** ** the event an operation performs in a given state ([None]: it changes nothing) *)

Definition insert_event (d : db) (k v : list Z) : option ev :=
  match root d with
  | None => Some ERootLeaf
  | Some n =>
      match insert_go (fuel_for k) n k v (next_id d) O with
      | Ok (Some (_, e)) => Some e
      | _ => None
      end
  end.

(** event, and key / value of the leaf that goes away *)
Definition remove_event (d : db) (k : list Z) : option (ev * (list Z * list Z)) :=
  match root d with
  | None => None
  | Some (Leaf _ lk lv) =>
      match lex_compare k lk with Eq => Some (ERemoveRoot, (lk, lv)) | _ => None end
  | Some n =>
      match get_go (fuel_for k) n k O, remove_go (fuel_for k) n k O with
      | Ok (Some (_, v)), Ok (RmReplaced _ e) => Some (e, (k, v))
      | _, _ => None
      end
  end.

Definition ins_allocs (sz : sizes) (d : db) (k v : list Z) : list Z :=
  match insert_event d k v with Some e => ev_ins_allocs sz e k v | None => [] end.
Definition ins_frees (sz : sizes) (d : db) (k v : list Z) : list Z :=
  match insert_event d k v with Some e => ev_ins_frees sz e | None => [] end.
Definition rem_allocs (sz : sizes) (d : db) (k : list Z) : list Z :=
  match remove_event d k with Some (e, _) => ev_rem_allocs sz e | None => [] end.
Definition rem_frees (sz : sizes) (d : db) (k : list Z) : list Z :=
  match remove_event d k with Some (e, (lk, lv)) => ev_rem_frees sz e lk lv | None => [] end.

Definition op_allocs (sz : sizes) (d : db) (o : op) : list Z :=
  match o with
  | OInsert k v => ins_allocs sz d k v
  | ORemove k => rem_allocs sz d k
  | _ => []
  end.

Definition op_frees (sz : sizes) (d : db) (o : op) : list Z :=
  match o with
  | OInsert k v => ins_frees sz d k v
  | ORemove k => rem_frees sz d k
  | OClear => db_blocks sz d
  | _ => []
  end.

(** ~db(): delete_root_subtree *)
Definition destroy_frees (sz : sizes) (d : db) : list Z := db_blocks sz d.

(** ** the live multiset *)

Fixpoint live_remove_one (x : Z) (l : list Z) : option (list Z) :=
  match l with
  | [] => None
  | y :: l' =>
      if x =? y then Some l'
      else match live_remove_one x l' with Some r => Some (y :: r) | None => None end
  end.

Fixpoint free_all (fs : list Z) (l : list Z) : option (list Z) :=
  match fs with
  | [] => Some l
  | f :: fs' => match live_remove_one f l with Some l' => free_all fs' l' | None => None end
  end.

(** allocations of an operation precede its frees (the larger / smaller node
    exists before the old one is released) *)
Definition live_step (sz : sizes) (d : db) (live : list Z) (o : op) : option (list Z) :=
  free_all (op_frees sz d o) (live ++ op_allocs sz d o).

Fixpoint live_run (sz : sizes) (d : db) (live : list Z) (ops : list op) : option (list Z) :=
  match ops with
  | [] => Some live
  | o :: ops' =>
      match live_step sz d live o with
      | Some live' => live_run sz (fst (step sz d o)) live' ops'
      | None => None
      end
  end.

Definition zsum (l : list Z) : Z := fold_right Z.add 0 l.
