(** Semantics of an iterator stack: the entries still ahead of the position in
    forward and in reverse direction; left_most / right_most / next / prior and
    the scan loop in those terms. *)
From Coq Require Import List ZArith Bool Lia Sorted Permutation.
From Unodb Require Import Base.Lex Art.ArtModel Art.ArtIter Art.ArtSpec Art.ArtInv Art.ArtLemmas
  Art.ArtProofs Art.ArtScanSpec Art.ArtIterLemmas.
Import ListNotations.

Definition wfn (n : node) : Prop := exists L pi, WF L n pi.

Lemma wfn_children c p ch : wfn (Inode c p ch) -> ch <> [] /\ Forall (fun bc => wfn (snd bc)) ch.
Proof.
  intros (L & pi & H). apply WF_inode in H. destruct H as (_ & _ & _ & _ & Hsz & H). split.
  - intros ->. destruct c; cbn in Hsz; lia.
  - unfold WFch in H. eapply Forall_impl; [|exact H]. cbn beta. intros bc [_ Hbc].
    exists L, (pi ++ p ++ [fst bc]). exact Hbc.
Qed.

Definition frame_ok (f : frame) : Prop :=
  match f with FI n i => wfn n /\ i < length (children n) | FL _ => True end.
Definition stack_ok (stk : stack) : Prop := Forall frame_ok stk.

Fixpoint rest_fwd (stk : stack) : list entry :=
  match stk with
  | [] => []
  | FL _ :: s => rest_fwd s
  | FI n i :: s => cleaves (skipn (S i) (children n)) ++ rest_fwd s
  end.
Fixpoint rest_rev (stk : stack) : list entry :=
  match stk with
  | [] => []
  | FL _ :: s => rest_rev s
  | FI n i :: s => rev (cleaves (firstn i (children n))) ++ rest_rev s
  end.
Definition top_leaves (stk : stack) : list entry :=
  match stk with FL n :: _ => leaves n | _ => [] end.
Definition pos_fwd (stk : stack) : list entry := top_leaves stk ++ rest_fwd stk.
Definition pos_rev (stk : stack) : list entry := rev (top_leaves stk) ++ rest_rev stk.

Definition is_pos (stk : stack) : Prop :=
  match stk with [] => True | FL (Leaf _ _ _) :: _ => True | _ => False end.

Lemma is_pos_cases stk : is_pos stk -> stk = [] \/ exists id k v s, stk = FL (Leaf id k v) :: s.
Proof.
  destruct stk as [|[n i|[id k v|c p ch]] s]; cbn; intros H; try contradiction; [now left|right].
  now exists id, k, v, s.
Qed.

Lemma cleaves_nth ch i b c : nth_error ch i = Some (b, c) ->
  cleaves (skipn i ch) = leaves c ++ cleaves (skipn (S i) ch) /\
  cleaves (firstn (S i) ch) = cleaves (firstn i ch) ++ leaves c.
Proof.
  intros H. apply nth_error_split' in H. destruct H as (l1 & l2 & -> & <-). split.
  - rewrite skipn_mid. rewrite skipn_app, Nat.sub_diag, skipn_all. reflexivity.
  - replace (S (length l1)) with (length (l1 ++ [(b, c)])) by (rewrite app_length; cbn; lia).
    replace (l1 ++ (b, c) :: l2) with ((l1 ++ [(b, c)]) ++ l2) by (now rewrite <- app_assoc).
    rewrite firstn_app, Nat.sub_diag, firstn_all. cbn [firstn]. rewrite app_nil_r.
    rewrite <- app_assoc. cbn [app]. rewrite firstn_mid.
    rewrite cleaves_app. unfold cleaves at 2. cbn [flat_map snd]. now rewrite app_nil_r.
Qed.

(** * left_most / right_most *)

Lemma left_most_spec : forall fuel n stk, height n < fuel -> wfn n -> stack_ok stk ->
  exists stk', left_most fuel n stk = Ok stk' /\ stack_ok stk' /\ is_pos stk' /\
    pos_fwd stk' = leaves n ++ rest_fwd stk /\ rest_rev stk' = rest_rev stk.
Proof.
  induction fuel as [|f IH]; intros n stk Hh Hn Hs; [lia|].
  destruct n as [id k v|c p ch].
  - cbn [left_most]. eexists. split; [reflexivity|]. split; [constructor; [exact I|exact Hs]|].
    split; [exact I|]. split; reflexivity.
  - destruct (wfn_children _ _ _ Hn) as [Hne Hch].
    destruct ch as [|[b c0] ch]; [contradiction|]. cbn [left_most].
    assert (Hc0 : wfn c0) by (apply Forall_cons_iff in Hch; exact (proj1 Hch)).
    assert (Hh0 : height c0 < f).
    { assert (X := height_child c p ((b, c0) :: ch) (b, c0) (or_introl eq_refl)). cbn [snd] in X. lia. }
    assert (Hs' : stack_ok (FI (Inode c p ((b, c0) :: ch)) 0 :: stk)).
    { constructor; [|exact Hs]. split; [exact Hn|]. cbn [children length]. lia. }
    destruct (IH c0 _ Hh0 Hc0 Hs') as (stk' & E & H1 & H2 & H3 & H4).
    exists stk'. split; [exact E|]. split; [exact H1|]. split; [exact H2|]. split.
    + rewrite H3. cbn [rest_fwd children skipn]. rewrite leaves_inode, cleaves_cons.
      now rewrite app_assoc.
    + rewrite H4. reflexivity.
Qed.

Lemma right_most_spec : forall fuel n stk, height n < fuel -> wfn n -> stack_ok stk ->
  exists stk', right_most fuel n stk = Ok stk' /\ stack_ok stk' /\ is_pos stk' /\
    pos_rev stk' = rev (leaves n) ++ rest_rev stk /\ rest_fwd stk' = rest_fwd stk.
Proof.
  induction fuel as [|f IH]; intros n stk Hh Hn Hs; [lia|].
  destruct n as [id k v|c p ch].
  - cbn [right_most]. eexists. split; [reflexivity|]. split; [constructor; [exact I|exact Hs]|].
    split; [exact I|]. split; reflexivity.
  - destruct (wfn_children _ _ _ Hn) as [Hne Hch]. cbn [right_most].
    destruct (nth_error ch (pred (length ch))) as [[b c0]|] eqn:En.
    2:{ apply nth_error_None in En. destruct ch; [contradiction|cbn [length] in En; lia]. }
    assert (Hin : In (b, c0) ch) by (eapply nth_error_In; exact En).
    assert (Hc0 : wfn c0) by (rewrite Forall_forall in Hch; exact (Hch _ Hin)).
    assert (Hh0 : height c0 < f).
    { assert (X := height_child c p ch (b, c0) Hin). cbn [snd] in X. lia. }
    assert (Hlen : pred (length ch) < length ch) by (apply nth_error_Some; congruence).
    assert (Hs' : stack_ok (FI (Inode c p ch) (pred (length ch)) :: stk)).
    { constructor; [|exact Hs]. split; [exact Hn|]. exact Hlen. }
    destruct (IH c0 _ Hh0 Hc0 Hs') as (stk' & E & H1 & H2 & H3 & H4).
    exists stk'. split; [exact E|]. split; [exact H1|]. split; [exact H2|].
    destruct (cleaves_nth _ _ _ _ En) as [_ X2].
    replace (S (pred (length ch))) with (length ch) in X2 by lia. rewrite firstn_all in X2.
    split.
    + rewrite H3. cbn [rest_rev children]. rewrite leaves_inode, X2, rev_app_distr.
      now rewrite app_assoc.
    + rewrite H4. cbn [rest_fwd children].
      replace (S (pred (length ch))) with (length ch) by lia. rewrite skipn_all. reflexivity.
Qed.

Lemma lm_spec n stk : wfn n -> stack_ok stk ->
  exists stk', lm n stk = Ok stk' /\ stack_ok stk' /\ is_pos stk' /\
    pos_fwd stk' = leaves n ++ rest_fwd stk /\ rest_rev stk' = rest_rev stk.
Proof. intros. apply left_most_spec; [lia|assumption|assumption]. Qed.

Lemma rm_spec n stk : wfn n -> stack_ok stk ->
  exists stk', rm n stk = Ok stk' /\ stack_ok stk' /\ is_pos stk' /\
    pos_rev stk' = rev (leaves n) ++ rest_rev stk /\ rest_fwd stk' = rest_fwd stk.
Proof. intros. apply right_most_spec; [lia|assumption|assumption]. Qed.

(** * next / prior *)

Lemma it_next_spec stk : stack_ok stk ->
  exists stk', it_next stk = Ok stk' /\ stack_ok stk' /\ is_pos stk' /\ pos_fwd stk' = rest_fwd stk.
Proof.
  induction stk as [|[n i|n] s IH]; intros Hs.
  - exists []. repeat split. constructor.
  - apply Forall_cons_iff in Hs. destruct Hs as [[Hn Hi] Hs]. cbn [it_next].
    destruct (nth_error (children n) (S i)) as [[b c]|] eqn:En.
    + assert (Hin : In (b, c) (children n)) by (eapply nth_error_In; exact En).
      assert (Hc : wfn c).
      { destruct n as [id k v|c0 p ch]; [destruct Hin|]. apply wfn_children in Hn.
        destruct Hn as [_ Hn]. rewrite Forall_forall in Hn. exact (Hn _ Hin). }
      assert (Hs' : stack_ok (FI n (S i) :: s)).
      { constructor; [|exact Hs]. split; [exact Hn|]. apply nth_error_Some. congruence. }
      destruct (lm_spec c _ Hc Hs') as (stk' & E & H1 & H2 & H3 & _).
      exists stk'. split; [exact E|]. split; [exact H1|]. split; [exact H2|].
      rewrite H3. cbn [rest_fwd]. destruct (cleaves_nth _ _ _ _ En) as [X _]. rewrite X.
      now rewrite app_assoc.
    + destruct (IH Hs) as (stk' & E & H1 & H2 & H3).
      exists stk'. split; [exact E|]. split; [exact H1|]. split; [exact H2|].
      rewrite H3. cbn [rest_fwd]. apply nth_error_None in En. rewrite skipn_all2 by exact En.
      reflexivity.
  - apply Forall_cons_iff in Hs. destruct Hs as [_ Hs]. cbn [it_next rest_fwd]. exact (IH Hs).
Qed.

Lemma it_prior_spec stk : stack_ok stk ->
  exists stk', it_prior stk = Ok stk' /\ stack_ok stk' /\ is_pos stk' /\ pos_rev stk' = rest_rev stk.
Proof.
  induction stk as [|[n i|n] s IH]; intros Hs.
  - exists []. repeat split. constructor.
  - apply Forall_cons_iff in Hs. destruct Hs as [[Hn Hi] Hs]. cbn [it_prior].
    destruct i as [|i'].
    + destruct (IH Hs) as (stk' & E & H1 & H2 & H3).
      exists stk'. split; [exact E|]. split; [exact H1|]. split; [exact H2|].
      rewrite H3. reflexivity.
    + destruct (nth_error (children n) i') as [[b c]|] eqn:En.
      2:{ apply nth_error_None in En. lia. }
      assert (Hin : In (b, c) (children n)) by (eapply nth_error_In; exact En).
      assert (Hc : wfn c).
      { destruct n as [id k v|c0 p ch]; [destruct Hin|]. apply wfn_children in Hn.
        destruct Hn as [_ Hn]. rewrite Forall_forall in Hn. exact (Hn _ Hin). }
      assert (Hs' : stack_ok (FI n i' :: s)).
      { constructor; [|exact Hs]. split; [exact Hn|lia]. }
      destruct (rm_spec c _ Hc Hs') as (stk' & E & H1 & H2 & H3 & _).
      exists stk'. split; [exact E|]. split; [exact H1|]. split; [exact H2|].
      rewrite H3. cbn [rest_rev]. destruct (cleaves_nth _ _ _ _ En) as [_ X]. rewrite X.
      rewrite rev_app_distr. now rewrite app_assoc.
  - apply Forall_cons_iff in Hs. destruct Hs as [_ Hs]. cbn [it_prior rest_rev]. exact (IH Hs).
Qed.

(** * the scan loop *)

Lemma kvs_cons e l : kvs (e :: l) = (fst e, snd (snd e)) :: kvs l.
Proof. reflexivity. Qed.

Lemma scan_loop_fwd stop : forall fuel h stk acc,
  stack_ok stk -> is_pos stk -> length (pos_fwd stk) < fuel ->
  scan_loop fuel true stop h stk acc =
  Ok (rev acc ++ take_until h (kvs (twhile (fun e => negb (stop (fst e))) (pos_fwd stk)))).
Proof.
  induction fuel as [|f IH]; intros h stk acc Hs Hp Hf; [lia|].
  destruct (is_pos_cases _ Hp) as [->|(id & k & v & s & ->)].
  - cbn [scan_loop current pos_fwd top_leaves rest_fwd app twhile kvs map].
    now rewrite take_until_nil, app_nil_r.
  - cbn [scan_loop current]. change (pos_fwd (FL (Leaf id k v) :: s)) with ((k, (id, v)) :: rest_fwd s) in *.
    cbn [twhile fst]. destruct (stop k); cbn [negb].
    + cbn [kvs map]. now rewrite take_until_nil, app_nil_r.
    + rewrite kvs_cons. cbn [fst snd].
      destruct (it_next_spec _ Hs) as (stk' & E & H1 & H2 & H3).
      cbn [it_next] in E. cbn [rest_fwd] in H3. cbn [length] in Hf.
      destruct h as [[|h]|].
      * cbn [take_until firstn rev]. reflexivity.
      * cbn [it_next]. rewrite E. cbn [bind]. rewrite IH; [|exact H1|exact H2|rewrite H3; lia].
        rewrite H3. cbn [rev take_until]. rewrite <- app_assoc. reflexivity.
      * cbn [it_next]. rewrite E. cbn [bind]. rewrite IH; [|exact H1|exact H2|rewrite H3; lia].
        rewrite H3. cbn [rev take_until]. rewrite <- app_assoc. reflexivity.
Qed.

Lemma scan_loop_rev stop : forall fuel h stk acc,
  stack_ok stk -> is_pos stk -> length (pos_rev stk) < fuel ->
  scan_loop fuel false stop h stk acc =
  Ok (rev acc ++ take_until h (kvs (twhile (fun e => negb (stop (fst e))) (pos_rev stk)))).
Proof.
  induction fuel as [|f IH]; intros h stk acc Hs Hp Hf; [lia|].
  destruct (is_pos_cases _ Hp) as [->|(id & k & v & s & ->)].
  - cbn [scan_loop current pos_rev top_leaves rest_rev app twhile kvs map rev].
    now rewrite take_until_nil, app_nil_r.
  - cbn [scan_loop current]. change (pos_rev (FL (Leaf id k v) :: s)) with ((k, (id, v)) :: rest_rev s) in *.
    cbn [twhile fst]. destruct (stop k); cbn [negb].
    + cbn [kvs map]. now rewrite take_until_nil, app_nil_r.
    + rewrite kvs_cons. cbn [fst snd].
      destruct (it_prior_spec _ Hs) as (stk' & E & H1 & H2 & H3).
      cbn [it_prior] in E. cbn [rest_rev] in H3. cbn [length] in Hf.
      destruct h as [[|h]|].
      * cbn [take_until firstn rev]. reflexivity.
      * cbn [it_prior]. rewrite E. cbn [bind]. rewrite IH; [|exact H1|exact H2|rewrite H3; lia].
        rewrite H3. cbn [rev take_until]. rewrite <- app_assoc. reflexivity.
      * cbn [it_prior]. rewrite E. cbn [bind]. rewrite IH; [|exact H1|exact H2|rewrite H3; lia].
        rewrite H3. cbn [rev take_until]. rewrite <- app_assoc. reflexivity.
Qed.
