(** Iterator and scans on trees satisfying the generalised invariant [WFg]
    (variable-length prefix-free keys): leaves strictly ascending in the
    byte-wise order; scan / scan_from / scan_range visit exactly the entries
    of the requested interval, for a seek key that is prefix-free w.r.t. the
    stored keys (the far bound of a range is only compared, it may be any
    byte string). *)
From Coq Require Import List ZArith Bool Lia Sorted Permutation.
From Unodb Require Import Base.Lex Art.ArtModel Art.ArtIter Art.ArtSpec Art.ArtInv Art.ArtLemmas
  Art.ArtProofs Art.ArtScanSpec Art.ArtIterLemmas Art.ArtIterStack Art.ArtIterProofs
  Art.ArtGenInv Art.ArtGenLemmas Art.ArtGenProofs Art.ArtGenRun Art.ArtGenIterStack.
Import ListNotations.

(** * order of the leaves *)

Lemma WFgch_tagged pi p ch : WFgch pi p ch -> tagged (pi ++ p) ch.
Proof.
  intros H. assert (HT := WFgch_tags _ _ _ H). unfold tagged. rewrite Forall_forall in *.
  intros bc Hin e He. split.
  - eapply (WFgch_ext pi p ch e H). unfold cleaves. apply in_flat_map. now exists bc.
  - rewrite app_length. exact (HT bc Hin e He).
Qed.

Lemma cleaves_sorted_g pi p ch : WFgch pi p ch -> keys_sorted ch ->
  Forall (fun bc => forall pi', WFg (snd bc) pi' -> StronglySorted entries_lt (leaves (snd bc))) ch ->
  StronglySorted entries_lt (cleaves ch).
Proof.
  intros HW. assert (HT := WFgch_tagged _ _ _ HW). revert HW HT.
  induction ch as [|[x c] ch IH]; intros HW HT HS HF; [constructor|].
  rewrite cleaves_cons.
  apply Forall_cons_iff in HW. destruct HW as [[_ HWc] HW]. cbn [fst snd] in HWc.
  apply Forall_cons_iff in HT. destruct HT as [HTc HT]. cbn [fst snd] in HTc.
  apply Forall_cons_iff in HF. destruct HF as [HFc HF]. cbn [snd] in HFc.
  assert (HS' := HS). unfold keys_sorted in HS'. cbn [map fst] in HS'.
  apply StronglySorted_inv in HS'. destruct HS' as [HS1 HS2].
  apply SSorted_app.
  - eapply HFc; exact HWc.
  - apply IH; assumption.
  - intros e1 e2 H1 H2. destruct (HTc e1 H1) as [E1 E2].
    assert (HG : all_gt (fst e1) (cleaves ch)).
    { eapply tagged_gt; [exact E1|exact E2|exact HT|]. rewrite Forall_map in HS2. exact HS2. }
    unfold all_gt in HG. rewrite Forall_forall in HG. now apply HG.
Qed.

Lemma WFg_leaves_sorted n : forall pi, WFg n pi -> StronglySorted entries_lt (leaves n).
Proof.
  induction n as [id k v|c p ch IH] using node_ind2; intros pi H.
  - cbn [leaves]. repeat constructor.
  - apply WFg_inode in H. destruct H as (_ & _ & HS & _ & H).
    rewrite leaves_inode. eapply cleaves_sorted_g; [exact H|exact HS|].
    eapply Forall_impl; [|exact IH]. cbn beta. intros bc Hbc pi'. apply Hbc.
Qed.

(** * key prefix mismatch: the whole subtree is on one side of the key *)

Lemma prefix_mismatch_g k c p ch pi sl pb kb : WFg (Inode c p ch) pi -> ext pi k ->
  sl < length p -> firstn sl p = firstn sl (skipn (length pi) k) ->
  nth_error p sl = Some pb -> nth_error k (length pi + sl) = Some kb -> pb <> kb ->
  ((kb < pb)%Z /\ all_gt k (cleaves ch) \/ (pb < kb)%Z /\ all_lt k (cleaves ch)).
Proof.
  intros HWF Hext Hsl Hfn Hx Hy Hne.
  apply WFg_inode in HWF. destruct HWF as (_ & _ & _ & _ & Hch).
  assert (Hk' : pi ++ skipn (length pi) k = k).
  { unfold ext in Hext. rewrite <- Hext at 1. apply firstn_skipn. }
  remember (skipn (length pi) k) as rem eqn:Erem.
  assert (Hlq : length (pi ++ firstn sl p) = length pi + sl).
  { rewrite app_length, firstn_length. lia. }
  assert (Hqk : ext (pi ++ firstn sl p) k).
  { apply ext_iff. exists (skipn sl rem). rewrite <- app_assoc, Hfn, firstn_skipn. now symmetry. }
  assert (Hyk : nth_error k (length (pi ++ firstn sl p)) = Some kb) by (now rewrite Hlq).
  assert (He : forall e, In e (cleaves ch) ->
             ext (pi ++ firstn sl p) (fst e) /\ nth_error (fst e) (length (pi ++ firstn sl p)) = Some pb).
  { intros e Hin. destruct (WFgch_ext _ _ _ _ Hch Hin) as (_ & H2 & _). split.
    - apply (ext_app_l _ (skipn sl p)). now rewrite <- app_assoc, firstn_skipn.
    - apply ext_iff in H2. destruct H2 as [s ->]. rewrite Hlq, <- !app_assoc.
      rewrite nth_error_app2 by lia. replace (length pi + sl - length pi) with sl by lia.
      rewrite nth_error_app1 by lia. exact Hx. }
  destruct (Z.lt_total kb pb) as [Hlt|[Heq|Hgt]]; [left|congruence|right]; (split; [assumption|]).
  - apply Forall_forall. intros e Hin. destruct (He e Hin) as [E1 E2].
    eapply lex_lt_diff; [exact Hqk|exact E1|exact Hyk|exact E2|exact Hlt].
  - apply Forall_forall. intros e Hin. destruct (He e Hin) as [E1 E2].
    eapply lex_lt_diff; [exact E1|exact Hqk|exact E2|exact Hyk|exact Hgt].
Qed.

Lemma stack_ok_push_g n i stk : wfng n -> i < length (children n) -> stack_okg stk -> stack_okg (FI n i :: stk).
Proof. intros. constructor; [split|]; assumption. Qed.

(** * seek, forward *)

Lemma seek_fwd_g k : forall fuel n pi stk,
  WFg n pi -> ext pi k -> pfk k (leaves n) -> length k - length pi < fuel -> stack_okg stk ->
  exists r, seek_go true fuel n k (length pi) true stk = Ok r /\
    stack_okg (fst r) /\ is_pos (fst r) /\
    pos_fwd (fst r) = filter (ge_key k) (leaves n) ++ rest_fwd stk.
Proof.
  induction fuel as [|f IH]; intros n pi stk HWF Hext Hpf Hfuel Hs; [lia|].
  destruct n as [id lk v|c p ch].
  - assert (Hs' : stack_okg (FL (Leaf id lk v) :: stk)) by (constructor; [exact I|exact Hs]).
    cbn [seek_go leaves filter]. unfold ge_key. cbn [fst]. unfold lex_leb.
    destruct (lex_compare k lk) eqn:E.
    + eexists. split; [reflexivity|]. cbn [fst]. split; [exact Hs'|]. split; [exact I|]. reflexivity.
    + eexists. split; [reflexivity|]. cbn [fst]. split; [exact Hs'|]. split; [exact I|]. reflexivity.
    + destruct (it_next_spec_g _ Hs') as (s' & E' & H1 & H2 & H3).
      rewrite E'. cbn [bind]. eexists. split; [reflexivity|]. cbn [fst].
      split; [exact H1|]. split; [exact H2|]. exact H3.
  - assert (Hn : wfng (Inode c p ch)) by (now exists pi).
    destruct (inode_prelude_g k c p ch pi HWF Hext Hpf) as (Hlt & Hcase).
    cbn [seek_go]. rewrite Hlt. rewrite leaves_inode.
    destruct (Nat.ltb_spec (shared_len p (skipn (length pi) k)) (length p)) as [Hsl|Hsl].
    + destruct Hcase as [(_ & _ & Hfn & pb & kb & Hpb & Hkb & Hne)|(Hsl' & _)]; [|lia].
      assert (Hc := prefix_mismatch_g k c p ch pi _ pb kb HWF Hext Hsl Hfn Hpb Hkb Hne).
      unfold byte_at. rewrite nth_error_skipn', Hkb, Hpb. cbn [bind].
      destruct Hc as [[Hc Hall]|[Hc Hall]].
      * apply Z.ltb_lt in Hc. rewrite Hc.
        destruct (lm_spec_g _ stk Hn Hs) as (s1 & E1 & A1 & A2 & A3 & A4).
        rewrite E1. cbn [bind]. eexists. split; [reflexivity|]. cbn [fst].
        split; [exact A1|]. split; [exact A2|].
        rewrite A3, leaves_inode, filter_ge_all_gt by exact Hall. reflexivity.
      * assert (Hc' : (kb <? pb)%Z = false) by (apply Z.ltb_ge; lia). rewrite Hc'.
        destruct (rm_spec_g _ stk Hn Hs) as (s1 & E1 & A1 & A2 & A3 & A4).
        rewrite E1. cbn [bind].
        destruct (it_next_spec_g s1 A1) as (s2 & E2 & B1 & B2 & B3). rewrite E2. cbn [bind].
        eexists. split; [reflexivity|]. cbn [fst]. split; [exact B1|]. split; [exact B2|].
        rewrite B3, A4, filter_ge_all_lt by exact Hall. reflexivity.
    + destruct Hcase as [(Hsl' & _)|(_ & b & Hb & Hext' & _)]; [lia|].
      assert (Hd : length pi + length p < length k) by (apply nth_error_Some; congruence).
      unfold byte_at. rewrite Hb. cbn [bind].
      assert (HWF' := HWF). apply WFg_inode in HWF'. destruct HWF' as (_ & _ & HS & _ & Hch).
      assert (HT := WFgch_tagged _ _ _ Hch).
      assert (Hq : ext (pi ++ p) k). { rewrite app_assoc in Hext'. now apply ext_app_l in Hext'. }
      assert (Hbq : nth_error k (length (pi ++ p)) = Some b) by (now rewrite app_length).
      destruct (find_child ch b 0) as [[i c']|] eqn:Hfc.
      * apply find_child_some in Hfc. destruct Hfc as (l1 & l2 & -> & ->). cbn [Nat.add].
        destruct (child_of_WFg _ _ _ _ _ _ _ HWF) as [_ Hc'].
        destruct (keys_sorted_split _ _ _ _ HS) as [Hl1 Hl2].
        destruct (tagged_split _ _ _ _ HT) as (HT1 & _ & HT2).
        replace (S (length pi + length p)) with (length (pi ++ p ++ [b])) by (rewrite !app_length; cbn; lia).
        assert (Hpf' : pfk k (leaves c')) by (rewrite leaves_inode in Hpf; now apply pfk_mid in Hpf).
        destruct (IH c' (pi ++ p ++ [b]) (FI (Inode c p (l1 ++ (b, c') :: l2)) (length l1) :: stk) Hc' Hext' Hpf')
          as (r & E & A1 & A2 & A3).
        { rewrite !app_length. cbn [length]. lia. }
        { apply stack_ok_push_g; [exact Hn| |exact Hs]. cbn [children]. rewrite app_length. cbn [length]. lia. }
        exists r. split; [exact E|]. split; [exact A1|]. split; [exact A2|].
        rewrite A3. cbn [rest_fwd children]. rewrite skipn_mid.
        rewrite cleaves_mid. cbn [snd]. rewrite !filter_app.
        rewrite (filter_ge_all_lt k (cleaves l1)) by (eapply tagged_lt; eassumption).
        rewrite (filter_ge_all_gt k (cleaves l2)) by (eapply tagged_gt; eassumption).
        cbn [app]. now rewrite app_assoc.
      * assert (Hnin := find_child_none _ _ _ Hfc).
        destruct (gte_idx ch b 0) as [j|] eqn:Hg.
        -- apply gte_idx_some in Hg. destruct Hg as (l1 & x & c' & l2 & -> & -> & Hl1 & Hbx). cbn [Nat.add].
           rewrite nth_error_mid.
           assert (Hxb : (b < x)%Z).
           { assert (x <> b); [|lia]. intros ->. apply Hnin. rewrite map_app. apply in_or_app. right. now left. }
           destruct (keys_sorted_split _ _ _ _ HS) as [_ Hl2].
           destruct (tagged_split _ _ _ _ HT) as (HT1 & HT2 & _).
           destruct (child_of_WFg _ _ _ _ _ _ _ HWF) as [_ Hc'].
           destruct (lm_spec_g c' (FI (Inode c p (l1 ++ (x, c') :: l2)) (length l1) :: stk))
             as (s1 & E1 & A1 & A2 & A3 & _).
           { now exists (pi ++ p ++ [x]). }
           { apply stack_ok_push_g; [exact Hn| |exact Hs]. cbn [children]. rewrite app_length. cbn [length]. lia. }
           rewrite E1. cbn [bind]. eexists. split; [reflexivity|]. cbn [fst].
           split; [exact A1|]. split; [exact A2|].
           rewrite A3. cbn [rest_fwd children]. rewrite skipn_mid.
           rewrite cleaves_app, filter_app.
           rewrite (filter_ge_all_lt k (cleaves l1)) by (eapply tagged_lt; eassumption).
           rewrite (filter_ge_all_gt k (cleaves ((x, c') :: l2))).
           2:{ eapply tagged_gt; [exact Hq|exact Hbq|exact HT2|]. constructor; [exact Hxb|].
               eapply Forall_impl; [|exact Hl2]. cbn beta. intros; lia. }
           rewrite cleaves_cons. cbn [app]. now rewrite app_assoc.
        -- apply gte_idx_none in Hg.
           destruct (it_next_spec_g stk Hs) as (s2 & E2 & B1 & B2 & B3). rewrite E2. cbn [bind].
           eexists. split; [reflexivity|]. cbn [fst]. split; [exact B1|]. split; [exact B2|].
           rewrite B3, filter_ge_all_lt by (eapply tagged_lt; eassumption). reflexivity.
Qed.

(** * seek, reverse *)

Lemma seek_rev_g k : forall fuel n pi stk,
  WFg n pi -> ext pi k -> pfk k (leaves n) -> length k - length pi < fuel -> stack_okg stk ->
  exists r, seek_go true fuel n k (length pi) false stk = Ok r /\
    stack_okg (fst r) /\ is_pos (fst r) /\
    pos_rev (fst r) = rev (filter (le_key k) (leaves n)) ++ rest_rev stk.
Proof.
  induction fuel as [|f IH]; intros n pi stk HWF Hext Hpf Hfuel Hs; [lia|].
  destruct n as [id lk v|c p ch].
  - assert (Hs' : stack_okg (FL (Leaf id lk v) :: stk)) by (constructor; [exact I|exact Hs]).
    cbn [seek_go leaves filter]. unfold le_key. cbn [fst]. unfold lex_leb.
    rewrite (lex_compare_antisym k lk).
    destruct (lex_compare k lk) eqn:E; cbn [CompOpp].
    + eexists. split; [reflexivity|]. cbn [fst]. split; [exact Hs'|]. split; [exact I|]. reflexivity.
    + destruct (it_prior_spec_g _ Hs') as (s' & E' & H1 & H2 & H3).
      rewrite E'. cbn [bind]. eexists. split; [reflexivity|]. cbn [fst].
      split; [exact H1|]. split; [exact H2|]. exact H3.
    + eexists. split; [reflexivity|]. cbn [fst]. split; [exact Hs'|]. split; [exact I|]. reflexivity.
  - assert (Hn : wfng (Inode c p ch)) by (now exists pi).
    destruct (inode_prelude_g k c p ch pi HWF Hext Hpf) as (Hlt & Hcase).
    cbn [seek_go]. rewrite Hlt. rewrite leaves_inode.
    destruct (Nat.ltb_spec (shared_len p (skipn (length pi) k)) (length p)) as [Hsl|Hsl].
    + destruct Hcase as [(_ & _ & Hfn & pb & kb & Hpb & Hkb & Hne)|(Hsl' & _)]; [|lia].
      assert (Hc := prefix_mismatch_g k c p ch pi _ pb kb HWF Hext Hsl Hfn Hpb Hkb Hne).
      unfold byte_at. rewrite nth_error_skipn', Hkb, Hpb. cbn [bind].
      destruct Hc as [[Hc Hall]|[Hc Hall]].
      * apply Z.ltb_lt in Hc. rewrite Hc.
        destruct (lm_spec_g _ stk Hn Hs) as (s1 & E1 & A1 & A2 & A3 & A4).
        rewrite E1. cbn [bind].
        destruct (it_prior_spec_g s1 A1) as (s2 & E2 & B1 & B2 & B3). rewrite E2. cbn [bind].
        eexists. split; [reflexivity|]. cbn [fst]. split; [exact B1|]. split; [exact B2|].
        rewrite B3, A4, filter_le_all_gt by exact Hall. reflexivity.
      * assert (Hc' : (kb <? pb)%Z = false) by (apply Z.ltb_ge; lia). rewrite Hc'.
        destruct (rm_spec_g _ stk Hn Hs) as (s1 & E1 & A1 & A2 & A3 & A4).
        rewrite E1. cbn [bind]. eexists. split; [reflexivity|]. cbn [fst].
        split; [exact A1|]. split; [exact A2|].
        rewrite A3, leaves_inode, filter_le_all_lt by exact Hall. reflexivity.
    + destruct Hcase as [(Hsl' & _)|(_ & b & Hb & Hext' & _)]; [lia|].
      assert (Hd : length pi + length p < length k) by (apply nth_error_Some; congruence).
      unfold byte_at. rewrite Hb. cbn [bind].
      assert (HWF' := HWF). apply WFg_inode in HWF'. destruct HWF' as (_ & _ & HS & _ & Hch).
      assert (HT := WFgch_tagged _ _ _ Hch).
      assert (Hq : ext (pi ++ p) k). { rewrite app_assoc in Hext'. now apply ext_app_l in Hext'. }
      assert (Hbq : nth_error k (length (pi ++ p)) = Some b) by (now rewrite app_length).
      destruct (find_child ch b 0) as [[i c']|] eqn:Hfc.
      * apply find_child_some in Hfc. destruct Hfc as (l1 & l2 & -> & ->). cbn [Nat.add].
        destruct (child_of_WFg _ _ _ _ _ _ _ HWF) as [_ Hc'].
        destruct (keys_sorted_split _ _ _ _ HS) as [Hl1 Hl2].
        destruct (tagged_split _ _ _ _ HT) as (HT1 & _ & HT2).
        replace (S (length pi + length p)) with (length (pi ++ p ++ [b])) by (rewrite !app_length; cbn; lia).
        assert (Hpf' : pfk k (leaves c')) by (rewrite leaves_inode in Hpf; now apply pfk_mid in Hpf).
        destruct (IH c' (pi ++ p ++ [b]) (FI (Inode c p (l1 ++ (b, c') :: l2)) (length l1) :: stk) Hc' Hext' Hpf')
          as (r & E & A1 & A2 & A3).
        { rewrite !app_length. cbn [length]. lia. }
        { apply stack_ok_push_g; [exact Hn| |exact Hs]. cbn [children]. rewrite app_length. cbn [length]. lia. }
        exists r. split; [exact E|]. split; [exact A1|]. split; [exact A2|].
        rewrite A3. cbn [rest_rev children]. rewrite firstn_mid.
        rewrite cleaves_mid. cbn [snd]. rewrite !filter_app.
        rewrite (filter_le_all_lt k (cleaves l1)) by (eapply tagged_lt; eassumption).
        rewrite (filter_le_all_gt k (cleaves l2)) by (eapply tagged_gt; eassumption).
        rewrite app_nil_r, rev_app_distr. now rewrite app_assoc.
      * assert (Hnin := find_child_none _ _ _ Hfc).
        destruct (lte_idx ch b 0) as [j|] eqn:Hg.
        -- apply lte_idx_some in Hg. destruct Hg as (l1 & x & c' & l2 & -> & -> & Hbx & Hl2). cbn [Nat.add].
           rewrite nth_error_mid.
           assert (Hxb : (x < b)%Z).
           { assert (x <> b); [|lia]. intros ->. apply Hnin. rewrite map_app. apply in_or_app. right. now left. }
           destruct (keys_sorted_split _ _ _ _ HS) as [Hl1 _].
           destruct (tagged_split _ _ _ _ HT) as (HT1 & HT2 & HT3).
           destruct (child_of_WFg _ _ _ _ _ _ _ HWF) as [_ Hc'].
           destruct (rm_spec_g c' (FI (Inode c p (l1 ++ (x, c') :: l2)) (length l1) :: stk))
             as (s1 & E1 & A1 & A2 & A3 & _).
           { now exists (pi ++ p ++ [x]). }
           { apply stack_ok_push_g; [exact Hn| |exact Hs]. cbn [children]. rewrite app_length. cbn [length]. lia. }
           rewrite E1. cbn [bind]. eexists. split; [reflexivity|]. cbn [fst].
           split; [exact A1|]. split; [exact A2|].
           rewrite A3. cbn [rest_rev children]. rewrite firstn_mid.
           replace (l1 ++ (x, c') :: l2) with ((l1 ++ [(x, c')]) ++ l2) by (now rewrite <- app_assoc).
           rewrite cleaves_app, filter_app.
           rewrite (filter_le_all_gt k (cleaves l2)) by (eapply tagged_gt; eassumption).
           rewrite (filter_le_all_lt k (cleaves (l1 ++ [(x, c')]))).
           2:{ eapply tagged_lt; [exact Hq|exact Hbq| |].
               - unfold tagged in *. apply Forall_app. split; [exact HT1|].
                 apply Forall_cons_iff in HT2. constructor; [exact (proj1 HT2)|constructor].
               - apply Forall_app. split; [|repeat constructor; exact Hxb].
                 eapply Forall_impl; [|exact Hl1]. cbn beta. intros; lia. }
           rewrite app_nil_r, cleaves_app, rev_app_distr. rewrite <- app_assoc.
           change (cleaves [(x, c')]) with (leaves c' ++ []). now rewrite app_nil_r.
        -- apply lte_idx_none in Hg.
           destruct (it_prior_spec_g stk Hs) as (s2 & E2 & B1 & B2 & B3). rewrite E2. cbn [bind].
           eexists. split; [reflexivity|]. cbn [fst]. split; [exact B1|]. split; [exact B2|].
           rewrite B3, filter_le_all_gt by (eapply tagged_gt; eassumption). reflexivity.
Qed.

(** * assembling the scans *)

Theorem db_leaves_sorted_g : forall d, db_WFg d -> StronglySorted entries_lt (db_leaves d).
Proof.
  intros d. unfold db_WFg, db_leaves. destruct (root d); [apply WFg_leaves_sorted|constructor].
Qed.

Theorem db_scan_correct_g : forall d h, db_WFg d ->
  db_scan d true h = Ok (take_until h (kvs (db_leaves d))) /\
  db_scan d false h = Ok (take_until h (rev (kvs (db_leaves d)))).
Proof.
  intros d h HWF. unfold db_WFg, db_scan, db_leaves in *. destruct (root d) as [n|].
  2:{ cbn. now rewrite take_until_nil. }
  assert (Hn : wfng n) by (now exists []).
  assert (Hsz := leaves_size n).
  split.
  - cbn [it_first]. destruct (lm_spec_g n [] Hn (Forall_nil _)) as (s & E & A1 & A2 & A3 & _).
    cbn [rest_fwd] in A3. rewrite app_nil_r in A3.
    rewrite E. cbn [bind]. rewrite scan_loop_fwd_g; [|exact A1|exact A2|rewrite A3; cbn [scan_fuel]; lia].
    cbn [rev app]. rewrite twhile_all by reflexivity. now rewrite A3.
  - cbn [it_last]. destruct (rm_spec_g n [] Hn (Forall_nil _)) as (s & E & A1 & A2 & A3 & _).
    cbn [rest_rev] in A3. rewrite app_nil_r in A3.
    rewrite E. cbn [bind].
    rewrite scan_loop_rev_g; [|exact A1|exact A2|rewrite A3, rev_length; cbn [scan_fuel]; lia].
    cbn [rev app]. rewrite twhile_all by reflexivity. now rewrite A3, kvs_rev.
Qed.

Theorem db_scan_from_correct_g : forall d k h, db_WFg d -> pfk k (db_leaves d) ->
  db_scan_from d k true h = Ok (take_until h (kvs (filter (ge_key k) (db_leaves d)))) /\
  db_scan_from d k false h = Ok (take_until h (rev (kvs (filter (le_key k) (db_leaves d))))).
Proof.
  intros d k h HWF Hk. unfold db_WFg, db_scan_from, db_leaves in *. destruct (root d) as [n|].
  2:{ cbn. now rewrite take_until_nil. }
  assert (Hsz := leaves_size n).
  split.
  - destruct (seek_fwd_g k (fuel_for k) n [] [] HWF (ext_nil k) Hk (fuel_ok_g k) (Forall_nil _))
      as (r & E & A1 & A2 & A3).
    cbn [length] in E. cbn [rest_fwd] in A3. rewrite app_nil_r in A3.
    cbn [it_seek]. rewrite E. cbn [bind].
    assert (Hlen := filter_len (ge_key k) (leaves n)).
    rewrite scan_loop_fwd_g; [|exact A1|exact A2|rewrite A3; cbn [scan_fuel]; lia].
    cbn [rev app]. rewrite twhile_all by reflexivity. now rewrite A3.
  - destruct (seek_rev_g k (fuel_for k) n [] [] HWF (ext_nil k) Hk (fuel_ok_g k) (Forall_nil _))
      as (r & E & A1 & A2 & A3).
    cbn [length] in E. cbn [rest_rev] in A3. rewrite app_nil_r in A3.
    cbn [it_seek]. rewrite E. cbn [bind].
    assert (Hlen := filter_len (le_key k) (leaves n)).
    rewrite scan_loop_rev_g; [|exact A1|exact A2|rewrite A3, rev_length; cbn [scan_fuel]; lia].
    cbn [rev app]. rewrite twhile_all by reflexivity. now rewrite A3, kvs_rev.
Qed.

Theorem db_scan_range_correct_g : forall d a b h, db_WFg d -> pfk a (db_leaves d) ->
  db_scan_range d a b h =
  Ok (match lex_compare a b with
      | Eq => []
      | Lt => take_until h (kvs (filter (in_fwd_range a b) (db_leaves d)))
      | Gt => take_until h (rev (kvs (filter (in_rev_range a b) (db_leaves d))))
      end).
Proof.
  intros d a b h HWF Ha. unfold db_scan_range.
  destruct (lex_compare a b) eqn:Eab; [reflexivity| |].
  - unfold db_WFg, db_leaves in *. destruct (root d) as [n|].
    2:{ cbn. now rewrite take_until_nil. }
    assert (Hsz := leaves_size n).
    destruct (seek_fwd_g a (fuel_for a) n [] [] HWF (ext_nil a) Ha (fuel_ok_g a) (Forall_nil _))
      as (r & E & A1 & A2 & A3).
    cbn [length] in E. cbn [rest_fwd] in A3. rewrite app_nil_r in A3.
    cbn [it_seek]. rewrite E. cbn [bind].
    assert (Hlen := filter_len (ge_key a) (leaves n)).
    rewrite scan_loop_fwd_g; [|exact A1|exact A2|rewrite A3; cbn [scan_fuel]; lia].
    cbn [rev app]. rewrite A3.
    rewrite (twhile_filter_sorted entries_lt).
    + rewrite filter_filter'. do 3 f_equal. apply filter_ext. intros e.
      unfold in_fwd_range, ge_key. now rewrite negb_involutive.
    + eapply SSorted_filter, WFg_leaves_sorted. exact HWF.
    + intros x y Hxy Hy. rewrite negb_involutive in *. unfold lex_ltb in *.
      destruct (lex_compare (fst y) b) eqn:E1; try discriminate.
      assert (H : lex_lt (fst x) b) by (eapply lex_lt_trans; [exact Hxy|exact E1]).
      unfold lex_lt in H. now rewrite H.
  - unfold db_WFg, db_leaves in *. destruct (root d) as [n|].
    2:{ cbn. now rewrite take_until_nil. }
    assert (Hsz := leaves_size n).
    destruct (seek_rev_g a (fuel_for a) n [] [] HWF (ext_nil a) Ha (fuel_ok_g a) (Forall_nil _))
      as (r & E & A1 & A2 & A3).
    cbn [length] in E. cbn [rest_rev] in A3. rewrite app_nil_r in A3.
    cbn [it_seek]. rewrite E. cbn [bind].
    assert (Hlen := filter_len (le_key a) (leaves n)).
    rewrite scan_loop_rev_g; [|exact A1|exact A2|rewrite A3, rev_length; cbn [scan_fuel]; lia].
    cbn [rev app]. rewrite A3.
    rewrite (twhile_filter_sorted (fun x y => entries_lt y x)).
    + rewrite filter_rev', filter_filter', kvs_rev. do 4 f_equal. apply filter_ext. intros e.
      unfold in_rev_range, le_key. rewrite andb_comm. f_equal. apply negb_leb.
    + eapply SSorted_rev, SSorted_filter, WFg_leaves_sorted. exact HWF.
    + intros x y Hxy Hy. rewrite negb_leb in *. unfold lex_ltb in *.
      destruct (lex_compare b (fst y)) eqn:E1; try discriminate.
      assert (H : lex_lt b (fst x)) by (eapply lex_lt_trans; [exact E1|exact Hxy]).
      unfold lex_lt in H. now rewrite H.
Qed.

