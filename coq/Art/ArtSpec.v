(** Specification of the index: an association list from keys to
    (leaf identity, value), i.e. a finite map from byte strings to byte
    strings in which every entry also remembers which insert created it.
    Operations, their expected outputs, and the model's operation runner. *)
From Coq Require Import List ZArith Bool.
From Unodb Require Import Base.Lex Art.ArtModel Art.ArtIter.
Import ListNotations.
Local Open Scope Z_scope.

Definition entry := (list Z * (Z * list Z))%type.

Fixpoint assoc (k : list Z) (l : list entry) : option (Z * list Z) :=
  match l with
  | [] => None
  | (k', x) :: l' => if lex_eqb k k' then Some x else assoc k l'
  end.

Fixpoint sremove (k : list Z) (l : list entry) : list entry :=
  match l with
  | [] => []
  | (k', x) :: l' => if lex_eqb k k' then sremove k l' else (k', x) :: sremove k l'
  end.

Inductive op :=
| OGet (k : list Z) | OInsert (k v : list Z) | ORemove (k : list Z) | OEmpty | OClear.

Inductive out :=
| RGet (o : option (Z * list Z)) | RBool (b : bool) | RUnit | RErr (e : err).

(** spec state: entries and the number of successful inserts so far *)
Definition sstate := (list entry * Z)%type.

Definition spec_step (s : sstate) (o : op) : sstate * out :=
  let '(l, nid) := s in
  match o with
  | OGet k => (s, RGet (assoc k l))
  | OInsert k v =>
      match assoc k l with
      | Some _ => (s, RBool false)
      | None => (((k, (nid, v)) :: l, nid + 1), RBool true)
      end
  | ORemove k =>
      match assoc k l with
      | Some _ => ((sremove k l, nid), RBool true)
      | None => (s, RBool false)
      end
  | OEmpty => (s, RBool (match l with [] => true | _ => false end))
  | OClear => (([], nid), RUnit)
  end.

Fixpoint spec_run (s : sstate) (ops : list op) : list out :=
  match ops with
  | [] => []
  | o :: ops' => let '(s', r) := spec_step s o in r :: spec_run s' ops'
  end.

(** the model's runner; an [Err] leaves the state unchanged and is reported *)
Definition step (sz : sizes) (d : db) (o : op) : db * out :=
  match o with
  | OGet k => (d, match db_get d k with Ok r => RGet r | Err e => RErr e end)
  | OInsert k v => match db_insert sz d k v with Ok (d', b) => (d', RBool b) | Err e => (d, RErr e) end
  | ORemove k => match db_remove sz d k with Ok (d', b) => (d', RBool b) | Err e => (d, RErr e) end
  | OEmpty => (d, RBool (db_empty d))
  | OClear => (db_clear d, RUnit)
  end.

Fixpoint run (sz : sizes) (d : db) (ops : list op) : list out :=
  match ops with
  | [] => []
  | o :: ops' => let '(d', r) := step sz d o in r :: run sz d' ops'
  end.

Fixpoint run_state (sz : sizes) (d : db) (ops : list op) : db :=
  match ops with
  | [] => d
  | o :: ops' => run_state sz (fst (step sz d o)) ops'
  end.

(** the keys an operation mentions *)
Definition op_key (o : op) : option (list Z) :=
  match o with OGet k | OInsert k _ | ORemove k => Some k | _ => None end.

Definition is_byte_z (b : Z) : Prop := 0 <= b < 256.
(** fixed-length keys: 64-bit integer keys are the case L = 8 *)
Definition key_ok (L : nat) (k : list Z) : Prop := length k = L /\ Forall is_byte_z k.
Definition op_ok (L : nat) (o : op) : Prop :=
  match op_key o with Some k => key_ok L k | None => True end.

(** all leaves of a tree, in order *)
Fixpoint leaves (n : node) : list entry :=
  match n with
  | Leaf id k v => [(k, (id, v))]
  | Inode _ _ ch =>
      (fix ll (l : list (Z * node)) : list entry :=
         match l with [] => [] | (_, c) :: l' => leaves c ++ ll l' end) ch
  end.
Definition db_leaves (d : db) : list entry := match root d with None => [] | Some n => leaves n end.
