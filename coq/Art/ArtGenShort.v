(** A purely specification-level sufficient condition for the capacity guard:
    if every key of the history has at most 8 bytes (mixed lengths allowed),
    prefix-freedom alone implies [op_fits] at every step.  (Below a path of
    d bytes two prefix-free keys of at most 8 bytes share at most 7 - d bytes,
    and path + prefix + 1 + child prefix is shorter than a key of <= 8 bytes.) *)
From Coq Require Import List ZArith Bool Lia Sorted Permutation.
From Unodb Require Import Base.Lex Art.ArtModel Art.ArtIter Art.ArtSpec Art.ArtInv Art.ArtLemmas
  Art.ArtProofs Art.ArtGenInv Art.ArtGenLemmas Art.ArtGenProofs Art.ArtGenRun.
Import ListNotations.

Definition short_key (k : list Z) : Prop := length k <= S prefix_capacity.
Definition op_short (o : op) : Prop := match op_key o with Some k => short_key k | None => True end.

(** two strings of at most n+1 bytes, neither a prefix of the other: the
    n-byte comparison stops at a real differing byte *)
Lemma common_pad_split_pf n : forall a b, length a <= S n -> length b <= S n ->
  ~ is_pre a b -> ~ is_pre b a ->
  exists x y, nth_error a (common_pad n a b) = Some x /\
              nth_error b (common_pad n a b) = Some y /\ x <> y.
Proof.
  unfold is_pre. induction n as [|n IH]; intros a b Ha Hb H1 H2; cbn [common_pad].
  - destruct a as [|x a]; [exfalso; apply H1; reflexivity|].
    destruct b as [|y b]; [exfalso; apply H2; reflexivity|].
    cbn [length] in Ha, Hb.
    assert (a = []) as -> by (destruct a; [reflexivity|cbn in Ha; lia]).
    assert (b = []) as -> by (destruct b; [reflexivity|cbn in Hb; lia]).
    exists x, y. cbn. repeat split. intros ->. apply H1. reflexivity.
  - destruct a as [|x a]; [exfalso; apply H1; reflexivity|].
    destruct b as [|y b]; [exfalso; apply H2; reflexivity|].
    cbn [hd tl length] in *. destruct (Z.eqb_spec x y) as [->|Hne].
    + destruct (IH a b ltac:(lia) ltac:(lia)) as (x' & y' & ? & ? & ?).
      * intros H. apply H1. cbn [firstn]. now f_equal.
      * intros H. apply H2. cbn [firstn]. now f_equal.
      * exists x', y'. cbn [nth_error]. now repeat split.
    + exists x, y. cbn. now repeat split.
Qed.

Definition all_short (l : list entry) : Prop := Forall (fun e : entry => short_key (fst e)) l.

Lemma all_short_mid l1 x l2 : all_short (cleaves (l1 ++ x :: l2)) -> all_short (leaves (snd x)).
Proof. unfold all_short. rewrite cleaves_mid, !Forall_app. tauto. Qed.

Lemma insert_fits_short k : short_key k -> forall fuel n pi,
  WFg n pi -> ext pi k -> pfk k (leaves n) -> all_short (leaves n) ->
  insert_fits fuel n k (length pi) = true.
Proof.
  intros Hk. induction fuel as [|f IH]; intros n pi HWF Hext Hpf Hsh; [reflexivity|].
  destruct n as [lid lk lv|c p ch].
  - apply WFg_leaf in HWF. destruct HWF as [_ Hextl].
    cbn [insert_fits].
    destruct (list_Z_eq_dec k lk) as [->|Hne]; [now rewrite lex_compare_refl|].
    assert (Hpf2 : pf2 k lk) by (apply (pfk_in k _ (lk, (lid, lv)) Hpf); now left).
    assert (Hlk : short_key lk).
    { unfold all_short in Hsh. cbn [leaves] in Hsh. apply Forall_cons_iff in Hsh. exact (proj1 Hsh). }
    assert (Hg : (let rem := skipn (length pi) k in
                  let k1rem := skipn (length pi) lk in
                  let n' := common_pad prefix_capacity k1rem rem in
                  match nth_error lk (n' + length pi), nth_error rem n' with
                  | Some b1, Some b2 => negb (Z.eqb b1 b2)
                  | _, _ => true
                  end) = true).
    { cbv zeta. set (rem := skipn (length pi) k). set (k1rem := skipn (length pi) lk).
      destruct (common_pad_split_pf prefix_capacity k1rem rem) as (x & y & Hx & Hy & Hxy).
      - unfold k1rem, short_key in *. rewrite skipn_length. lia.
      - unfold rem, short_key in *. rewrite skipn_length. lia.
      - intros H. apply Hne. apply Hpf2. right. exact (is_pre_skipn pi lk k Hextl Hext H).
      - intros H. apply Hne. apply Hpf2. left. exact (is_pre_skipn pi k lk Hext Hextl H).
      - assert (Hx' : nth_error lk (length pi + common_pad prefix_capacity k1rem rem) = Some x)
          by (rewrite <- nth_error_skipn'; exact Hx).
        rewrite Hy, (Nat.add_comm _ (length pi)), Hx'. apply negb_true_iff. now apply Z.eqb_neq. }
    destruct (lex_compare k lk); [reflexivity|exact Hg|exact Hg].
  - cbn [insert_fits].
    destruct (shared_len p (skipn (length pi) k) <? length p) eqn:Hsl; [reflexivity|].
    destruct (nth_error k (length pi + length p)) as [b|] eqn:Hb; [|reflexivity].
    destruct (find_child ch b 0) as [[i c']|] eqn:Hfc; [|reflexivity].
    apply find_child_some in Hfc. destruct Hfc as (l1 & l2 & -> & _).
    destruct (child_of_WFg _ _ _ _ _ _ _ HWF) as [_ Hc'].
    destruct (inode_prelude_g k c p _ pi HWF Hext Hpf) as (_ & [(Hlt & _)|(_ & b' & Hb' & Hext' & _)]).
    { apply Nat.ltb_ge in Hsl. lia. }
    rewrite Hb in Hb'. injection Hb' as <-.
    rewrite leaves_inode in Hpf, Hsh. apply pfk_mid in Hpf. apply all_short_mid in Hsh. cbn [snd] in *.
    replace (S (length pi + length p)) with (length (pi ++ p ++ [b])) by (rewrite !app_length; cbn; lia).
    now apply IH.
Qed.

Lemma remove_fits_short k : forall fuel n pi,
  WFg n pi -> ext pi k -> pfk k (leaves n) -> all_short (leaves n) ->
  remove_fits fuel n k (length pi) = true.
Proof.
  induction fuel as [|f IH]; intros n pi HWF Hext Hpf Hsh; [reflexivity|].
  destruct n as [lid lk lv|c p ch]; [reflexivity|].
  cbn [remove_fits].
  destruct (shared_len p (skipn (length pi) k) <? length p) eqn:Hsl; [reflexivity|].
  destruct (nth_error k (length pi + length p)) as [b|] eqn:Hb; [|reflexivity].
  destruct (find_child ch b 0) as [[i c']|] eqn:Hfc; [|reflexivity].
  destruct c' as [lid lk lv|c3 p3 ch3].
  - destruct (lex_compare k lk); try reflexivity.
    destruct (Nat.eqb (length ch) (min_size c)); [|reflexivity].
    destruct c; try reflexivity.
    destruct (nth_error ch (if Nat.eqb i 0 then 1 else 0)) as [[sb s]|] eqn:Hn; [|reflexivity].
    destruct s as [|c3 p3 ch3]; [reflexivity|].
    apply Nat.leb_le. apply nth_error_In in Hn.
    assert (HWF' := HWF). apply WFg_inode in HWF'. destruct HWF' as (_ & _ & _ & _ & Hch).
    unfold WFgch in Hch. rewrite Forall_forall in Hch. destruct (Hch _ Hn) as [_ Hs]. cbn [fst snd] in Hs.
    destruct (leaves (Inode c3 p3 ch3)) as [|e ls] eqn:El; [exfalso; exact (WFg_nonempty _ _ Hs El)|].
    assert (Hin : In e (leaves (Inode c3 p3 ch3))) by (rewrite El; now left).
    destruct (WFg_shorter _ _ _ _ _ Hs Hin) as [_ Hlen].
    rewrite !app_length in Hlen. cbn [length] in Hlen.
    assert (Hes : short_key (fst e)).
    { unfold all_short in Hsh. rewrite Forall_forall in Hsh. apply Hsh.
      rewrite leaves_inode. unfold cleaves. apply in_flat_map. exists (sb, Inode c3 p3 ch3). now split. }
    unfold short_key in Hes. lia.
  - apply find_child_some in Hfc. destruct Hfc as (l1 & l2 & -> & _).
    destruct (child_of_WFg _ _ _ _ _ _ _ HWF) as [_ Hc'].
    destruct (inode_prelude_g k c p _ pi HWF Hext Hpf) as (_ & [(Hlt & _)|(_ & b' & Hb' & Hext' & _)]).
    { apply Nat.ltb_ge in Hsl. lia. }
    rewrite Hb in Hb'. injection Hb' as <-.
    rewrite leaves_inode in Hpf, Hsh. apply pfk_mid in Hpf. apply all_short_mid in Hsh. cbn [snd] in *.
    replace (S (length pi + length p)) with (length (pi ++ p ++ [b])) by (rewrite !app_length; cbn; lia).
    now apply IH.
Qed.

Lemma keys_transfer (P : list Z -> Prop) (l l' : list entry) :
  (forall k', assoc k' l = assoc k' l') ->
  Forall (fun e : entry => P (fst e)) l -> Forall (fun e : entry => P (fst e)) l'.
Proof.
  intros Hag Hpf. rewrite Forall_forall in *. intros e He.
  destruct (assoc_in_keys (fst e) l') as [x Hx]; [now apply in_map|].
  rewrite <- Hag in Hx. apply assoc_some_in in Hx. exact (Hpf _ Hx).
Qed.

Lemma spec_step_short s o : all_short (fst s) -> op_short o -> all_short (fst (fst (spec_step s o))).
Proof.
  destruct s as [l nid]. intros Hs Ho. unfold op_short in Ho.
  destruct o as [k|k v|k| |]; cbn [spec_step op_key fst] in *; try exact Hs.
  - destruct (assoc k l); cbn [fst]; [exact Hs|]. constructor; [exact Ho|exact Hs].
  - destruct (assoc k l); cbn [fst]; [|exact Hs]. unfold all_short. now apply sremove_keys.
  - constructor.
Qed.

Lemma hist_ok_short sz : forall ops d s, Invg d s -> all_short (fst s) -> Forall op_short ops ->
  hist_pf s ops = true -> hist_ok sz d s ops = true.
Proof.
  induction ops as [|o ops IH]; intros d s HInv Hsh Hops Hpf; [reflexivity|].
  apply Forall_cons_iff in Hops. destruct Hops as [Ho Hops].
  cbn [hist_pf] in Hpf. apply andb_true_iff in Hpf. destruct Hpf as [Hpf Hpfs].
  cbn [hist_ok].
  assert (Hfits : op_fits d o = true).
  { destruct HInv as (HWF & _ & Hag). unfold op_fits, db_WFg, db_leaves in *.
    destruct o as [k|k v|k| |]; try reflexivity; unfold op_pf in Hpf; cbn [op_key] in Hpf, Ho;
      apply andb_true_iff in Hpf; destruct Hpf as [_ Hpf]; apply pfreeb_iff in Hpf;
      destruct (root d) as [n|]; try reflexivity.
    - apply (insert_fits_short k Ho (fuel_for k) n [] HWF (ext_nil k)).
      + exact (pfk_transfer k _ _ Hag Hpf).
      + exact (keys_transfer short_key _ _ Hag Hsh).
    - apply (remove_fits_short k (fuel_for k) n [] HWF (ext_nil k)).
      + exact (pfk_transfer k _ _ Hag Hpf).
      + exact (keys_transfer short_key _ _ Hag Hsh). }
  rewrite Hpf, Hfits. cbn [andb].
  destruct (step_correct_g sz d s o HInv Hpf Hfits) as [_ HInv'].
  apply IH; [exact HInv'|now apply spec_step_short|exact Hops|exact Hpfs].
Qed.

Theorem short_keys_hist_ok : forall sz ops, Forall op_short ops -> hist_pf ([], 0%Z) ops = true ->
  hist_ok sz db0 ([], 0%Z) ops = true.
Proof.
  intros sz ops Hops Hpf. apply hist_ok_short; [exact Invg_init|constructor|exact Hops|exact Hpf].
Qed.

Theorem short_keys_refine : forall sz ops, Forall op_short ops -> hist_pf ([], 0%Z) ops = true ->
  run sz db0 ops = spec_run ([], 0%Z) ops.
Proof. intros sz ops Hops Hpf. apply run_refines_spec_g. now apply short_keys_hist_ok. Qed.
