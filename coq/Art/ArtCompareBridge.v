(** Bridge from the generated comparison functions (coq/Gen/GenCompare.v,
    regenerated from art_internal.hpp on every run: [detail::compare] on
    pointer + length pairs and on key views, [basic_art_key<KeyType>::cmp] and
    the key constructors for KeyType = key_view and std::uint64_t) to the
    lexicographic order on byte lists the models use ([Base.Lex.lex_compare]).

    Memory is modelled by byte lists (Base/MemPrims.v): a pointer is the list of
    bytes it points to, [memcmp] compares the first n bytes of both and is
    defined when both regions have n bytes.  Every bridge lemma also proves the
    generated [<fn>_defined] side condition, i.e. that memcmp reads inside the
    regions it is given. *)
From Coq Require Import List ZArith Lia Bool Arith.
From Unodb Require Import Base.Lex Base.Bytes Base.GenPrims Base.WordBytes Base.MemPrims Gen.GenCompare.
Import ListNotations.
Local Open Scope Z_scope.

(** the int a three-way comparison returns *)
Definition sign_of (c : comparison) : Z := match c with Lt => -1 | Eq => 0 | Gt => 1 end.

Definition len (l : list Z) : Z := Z.of_nat (length l).

Lemma sign_of_lt c : sign_of c < 0 <-> c = Lt.
Proof. destruct c; cbn; split; intro H; try discriminate; try lia; reflexivity. Qed.

Lemma sign_of_eq c : sign_of c = 0 <-> c = Eq.
Proof. destruct c; cbn; split; intro H; try discriminate; try lia; reflexivity. Qed.

Lemma sign_of_gt c : 0 < sign_of c <-> c = Gt.
Proof. destruct c; cbn; split; intro H; try discriminate; try lia; reflexivity. Qed.

(** * memcmp on equally long strings is the lexicographic comparison *)

Lemma memcmp_sign_lex a b : length a = length b -> memcmp_sign a b = sign_of (lex_compare a b).
Proof.
  revert b; induction a as [|x a IH]; intros [|y b] L; cbn in L; try discriminate; cbn [memcmp_sign lex_compare].
  - reflexivity.
  - destruct (Z.compare_spec x y) as [E|Lt|Gt].
    + subst y. rewrite Z.ltb_irrefl. apply IH. lia.
    + apply Z.ltb_lt in Lt. rewrite Lt. reflexivity.
    + assert (N : (x <? y) = false) by (apply Z.ltb_ge; lia).
      apply Z.ltb_lt in Gt. rewrite N, Gt. reflexivity.
Qed.

(** lexicographic comparison = comparison on the shared length, then the lengths *)
Lemma lex_compare_shared a b :
  lex_compare a b =
  match lex_compare (firstn (Nat.min (length a) (length b)) a) (firstn (Nat.min (length a) (length b)) b) with
  | Eq => Nat.compare (length a) (length b)
  | c => c
  end.
Proof.
  revert b; induction a as [|x a IH]; intros [|y b]; cbn [length Nat.min firstn lex_compare]; try reflexivity.
  destruct (Z.compare x y); try reflexivity.
  rewrite Nat.compare_succ. apply IH.
Qed.

Lemma firstn_min_l {A} n m (l : list A) : firstn (Nat.min n m) (firstn n l) = firstn (Nat.min n m) l.
Proof. rewrite firstn_firstn. f_equal. lia. Qed.

(** * detail::compare(const void*, size_t, const void*, size_t) *)

(** The general form: only the first [alen] / [blen] bytes of the two regions
    matter, and memcmp stays inside them. *)
Theorem bridge_ak_compare_window a alen b blen :
  0 <= alen <= len a -> 0 <= blen <= len b ->
  ak_compare_defined a alen b blen = true /\
  ak_compare a alen b blen =
    sign_of (lex_compare (firstn (Z.to_nat alen) a) (firstn (Z.to_nat blen) b)).
Proof.
  unfold len. intros Ha Hb.
  set (na := Z.to_nat alen). set (nb := Z.to_nat blen).
  assert (Ea : alen = Z.of_nat na) by (unfold na; lia).
  assert (Eb : blen = Z.of_nat nb) by (unfold nb; lia).
  assert (La : length (firstn na a) = na) by (apply firstn_length_le; lia).
  assert (Lb : length (firstn nb b) = nb) by (apply firstn_length_le; lia).
  assert (Em : Z.to_nat (Z.min alen blen) = Nat.min na nb) by lia.
  assert (M : memcmp a b (Z.min alen blen) =
              sign_of (lex_compare (firstn (Nat.min na nb) (firstn na a)) (firstn (Nat.min na nb) (firstn nb b)))).
  { assert (Fa : firstn (Nat.min na nb) (firstn na a) = firstn (Nat.min na nb) a) by apply firstn_min_l.
    assert (Fb : firstn (Nat.min na nb) (firstn nb b) = firstn (Nat.min na nb) b)
      by (rewrite (Nat.min_comm na nb); apply firstn_min_l).
    unfold memcmp. rewrite Em, Fa, Fb.
    apply memcmp_sign_lex. rewrite !firstn_length. lia. }
  assert (D : memcmp_defined a b (Z.min alen blen) = true).
  { unfold memcmp_defined. rewrite !andb_true_iff, !Z.leb_le. lia. }
  rewrite (lex_compare_shared (firstn na a) (firstn nb b)), La, Lb.
  unfold ak_compare_defined, ak_compare. cbv zeta. rewrite D, M.
  destruct (lex_compare (firstn (Nat.min na nb) (firstn na a)) (firstn (Nat.min na nb) (firstn nb b)));
    cbn [sign_of negb Z.eqb andb].
  - (* equal on the shared length: the lengths decide *)
    destruct (Nat.compare_spec na nb) as [E|L|G]; cbn [sign_of].
    + assert (Q : (alen =? blen) = true) by (apply Z.eqb_eq; lia). rewrite Q. split; reflexivity.
    + assert (Q : (alen =? blen) = false) by (apply Z.eqb_neq; lia).
      assert (Q2 : (alen <? blen) = true) by (apply Z.ltb_lt; lia). rewrite Q, Q2. split; reflexivity.
    + assert (Q : (alen =? blen) = false) by (apply Z.eqb_neq; lia).
      assert (Q2 : (alen <? blen) = false) by (apply Z.ltb_ge; lia). rewrite Q, Q2. split; reflexivity.
  - split; reflexivity.
  - split; reflexivity.
Qed.

(** Regions of exactly the stated lengths. *)
Theorem bridge_ak_compare a b :
  ak_compare_defined a (len a) b (len b) = true /\
  ak_compare a (len a) b (len b) = sign_of (lex_compare a b).
Proof.
  pose proof (bridge_ak_compare_window a (len a) b (len b)) as H.
  unfold len in *. rewrite !Nat2Z.id, !firstn_all in H. apply H; lia.
Qed.

(** * detail::compare(key_view, key_view) *)

Theorem bridge_ak_compare_kv a b :
  ak_compare_kv_defined a b = true /\ ak_compare_kv a b = sign_of (lex_compare a b).
Proof. exact (bridge_ak_compare a b). Qed.

Corollary ak_compare_kv_lt a b : ak_compare_kv a b < 0 <-> lex_lt a b.
Proof. rewrite (proj2 (bridge_ak_compare_kv a b)). apply sign_of_lt. Qed.

Corollary ak_compare_kv_eq a b : ak_compare_kv a b = 0 <-> a = b.
Proof. rewrite (proj2 (bridge_ak_compare_kv a b)), sign_of_eq. apply lex_compare_eq. Qed.

Corollary ak_compare_kv_gt a b : 0 < ak_compare_kv a b <-> lex_lt b a.
Proof. rewrite (proj2 (bridge_ak_compare_kv a b)), sign_of_gt. apply lex_lt_gt. Qed.

(** * basic_art_key<key_view>: the key IS the view; both cmp overloads compare
      the viewed bytes of the receiver ([k1]) with those of the argument ([k2]) *)

Theorem bridge_ak_kv_make k : ak_kv_make_defined k = true /\ ak_kv_make k = k.
Proof. split; reflexivity. Qed.

Theorem bridge_ak_kv_cmp_key k1 k2 :
  ak_kv_cmp_key_defined (ak_kv_make k2) (ak_kv_make k1) = true /\
  ak_kv_cmp_key (ak_kv_make k2) (ak_kv_make k1) = sign_of (lex_compare k1 k2).
Proof. exact (bridge_ak_compare_kv k1 k2). Qed.

Theorem bridge_ak_kv_cmp_view k1 v :
  ak_kv_cmp_view_defined v (ak_kv_make k1) = true /\
  ak_kv_cmp_view v (ak_kv_make k1) = sign_of (lex_compare k1 v).
Proof. exact (bridge_ak_compare_kv k1 v). Qed.

(** * basic_art_key<std::uint64_t>: the key is the byte-swapped word; its
      object bytes are the big-endian bytes of the original value *)

Definition word64 (k : Z) : Prop := 0 <= k < 2 ^ 64.

Lemma word64_pow k : word64 k -> 0 <= k < 256 ^ Z.of_nat 8.
Proof. unfold word64. change (256 ^ Z.of_nat 8) with (2 ^ 64). trivial. Qed.

Theorem bridge_ak_u64_make k :
  ak_u64_make_defined k = true /\ word64 (ak_u64_make k) /\
  int_object_bytes 8 (ak_u64_make k) = be_bytes 8 k.
Proof.
  split; [reflexivity|]. split.
  - unfold ak_u64_make, ak_u64_make_binary_comparable, word64. cbv zeta.
    pose proof (bswap_bound 8 k) as B. change (256 ^ Z.of_nat 8) with (2 ^ 64) in B. exact B.
  - unfold ak_u64_make, ak_u64_make_binary_comparable, int_object_bytes. cbv zeta.
    change (Z.to_nat 8) with 8%nat. apply le_bytes_bswap.
Qed.

Lemma memcmp_8_be k1 k2 :
  word64 k1 -> word64 k2 ->
  memcmp_defined (be_bytes 8 k1) (be_bytes 8 k2) 8 = true /\
  memcmp (be_bytes 8 k1) (be_bytes 8 k2) 8 = sign_of (Z.compare k1 k2).
Proof.
  intros W1 W2. split.
  - unfold memcmp_defined. rewrite !be_bytes_length. reflexivity.
  - unfold memcmp. change (Z.to_nat 8) with 8%nat.
    rewrite !firstn_all2 by (rewrite be_bytes_length; lia).
    rewrite memcmp_sign_lex by (now rewrite !be_bytes_length).
    rewrite be_bytes_compare by (now apply word64_pow). reflexivity.
Qed.

(** cmp(basic_art_key): numeric order of the ORIGINAL keys *)
Theorem bridge_ak_u64_cmp_key k1 k2 :
  word64 k1 -> word64 k2 ->
  ak_u64_cmp_key_defined (ak_u64_make k2) (ak_u64_make k1) = true /\
  ak_u64_cmp_key (ak_u64_make k2) (ak_u64_make k1) = sign_of (Z.compare k1 k2).
Proof.
  intros W1 W2. unfold ak_u64_cmp_key_defined, ak_u64_cmp_key.
  rewrite (proj2 (proj2 (bridge_ak_u64_make k1))), (proj2 (proj2 (bridge_ak_u64_make k2))).
  now apply memcmp_8_be.
Qed.

(** cmp(key_view): the 8 big-endian bytes of the original key against the viewed bytes *)
Theorem bridge_ak_u64_cmp_view k1 v :
  word64 k1 ->
  ak_u64_cmp_view_defined v (ak_u64_make k1) = true /\
  ak_u64_cmp_view v (ak_u64_make k1) = sign_of (lex_compare (be_bytes 8 k1) v).
Proof.
  intros W1. unfold ak_u64_cmp_view_defined, ak_u64_cmp_view, span_data, span_size_bytes.
  rewrite (proj2 (proj2 (bridge_ak_u64_make k1))).
  pose proof (bridge_ak_compare (be_bytes 8 k1) v) as H. unfold len in H.
  rewrite be_bytes_length in H. exact H.
Qed.

(** against the encoded form of another u64 key this is again the numeric order *)
Corollary bridge_ak_u64_cmp_view_encoded k1 k2 :
  word64 k1 -> word64 k2 ->
  ak_u64_cmp_view (be_bytes 8 k2) (ak_u64_make k1) = sign_of (Z.compare k1 k2).
Proof.
  intros W1 W2. rewrite (proj2 (bridge_ak_u64_cmp_view k1 (be_bytes 8 k2) W1)).
  rewrite be_bytes_compare by (now apply word64_pow). reflexivity.
Qed.

(** * Why the object bytes of a span must not be compared (defect D1 of the
      pinned tree): they depend on where the viewed buffer lives *)
Lemma span_object_bytes_depend_on_address :
  exists k a1 a2, lex_compare (span_object_bytes a1 k) (span_object_bytes a2 k) = Lt /\
                  lex_compare (span_object_bytes a2 k) (span_object_bytes a1 k) = Gt.
Proof. exists [1; 2; 3], 4096, 8192. split; vm_compute; reflexivity. Qed.
