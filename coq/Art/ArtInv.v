(** The structural invariant of the tree (definitions only). *)
From Coq Require Import List ZArith Bool Sorted.
From Unodb Require Import Base.Lex Art.ArtModel Art.ArtIter Art.ArtSpec.
Import ListNotations.
Local Open Scope Z_scope.

(** child key bytes strictly increasing *)
Definition keys_sorted (ch : list (Z * node)) : Prop := StronglySorted Z.lt (map fst ch).

(** [WF L n pi]: subtree [n] reached after consuming the key bytes [pi], in an
    index whose keys all have length [L]:
    - every leaf below has a key of length L extending the path to it;
    - an inner node's prefix ends strictly before the key does, holds at most
      7 bytes, its child bytes are strictly increasing bytes, and its class is
      the one its fan-out requires (min_size <= fan-out <= capacity). *)
Fixpoint WF (L : nat) (n : node) (pi : list Z) : Prop :=
  match n with
  | Leaf _ k _ => key_ok L k /\ firstn (length pi) k = pi
  | Inode c p ch =>
      (length pi + length p < L)%nat /\ (length p <= prefix_capacity)%nat /\ Forall is_byte_z p /\
      keys_sorted ch /\ (min_size c <= length ch <= cap c)%nat /\
      (fix wfl (l : list (Z * node)) : Prop :=
         match l with
         | [] => True
         | (b, c') :: l' => is_byte_z b /\ WF L c' (pi ++ p ++ [b]) /\ wfl l'
         end) ch
  end.

Definition db_WF (L : nat) (d : db) : Prop :=
  match root d with None => True | Some n => WF L n [] end.

(** no two entries with the same key *)
Definition keys_nodup (l : list entry) : Prop := NoDup (map fst l).
