(** C16 (Coq part): the conditionally compiled search variants of the inner
    nodes, modelled at mask level, equal the list-level functions used by
    the model; the model's outputs do not depend on its statistics. *)
From Coq Require Import List ZArith Bool Lia.
From Unodb Require Import Base.Lex Art.ArtModel Art.ArtIter Art.ArtSpec.
Import ListNotations.
Local Open Scope Z_scope.

(** SSE compare + movemask: bit i is set iff the predicate holds for lane i
    (masked to the first [n] lanes = the live children) *)
Fixpoint mask_of (p : Z -> bool) (keys : list Z) (n : nat) : list bool :=
  match n, keys with
  | O, _ | _, [] => []
  | S n', k :: keys' => p k :: mask_of p keys' n'
  end.

(** std::countr_zero on the mask: index of the lowest set bit *)
Fixpoint ctz_mask (m : list bool) : option nat :=
  match m with
  | [] => None
  | true :: _ => Some O
  | false :: m' => option_map S (ctz_mask m')
  end.

(** std::popcount *)
Fixpoint popcount_mask (m : list bool) : nat :=
  match m with [] => O | b :: m' => ((if b then 1 else 0) + popcount_mask m')%nat end.

(** find_child of N4 / N16 (x86-64): cmpeq, movemask, mask with (1 << count) - 1, countr_zero *)
Definition find_child_simd (ch : list (Z * node)) (b : Z) : option nat :=
  ctz_mask (mask_of (Z.eqb b) (map fst ch) (length ch)).

Lemma find_child_simd_eq ch b i0 :
  option_map (fun i => (i + i0)%nat) (find_child_simd ch b) = option_map fst (find_child ch b i0).
Proof.
  unfold find_child_simd. revert i0; induction ch as [|[x c] ch IH]; intros i0; cbn [map length mask_of ctz_mask find_child fst]; [reflexivity|].
  rewrite (Z.eqb_sym b x). destruct (x =? b) eqn:E; cbn [option_map fst]; [f_equal; lia|].
  specialize (IH (S i0)). destruct (ctz_mask _) as [j|], (find_child ch b (S i0)) as [[j' c']|]; cbn [option_map fst] in *;
    try discriminate; try reflexivity. injection IH as IH. f_equal. lia.
Qed.

(** N4 insert position: popcount of (key <= insert byte) over the live lanes *)
Definition insert_pos4_simd (ch : list (Z * node)) (b : Z) : nat :=
  popcount_mask (mask_of (fun k => k <=? b) (map fst ch) (length ch)).

Lemma insert_pos4_simd_eq ch b : insert_pos4_simd ch b = insert_pos C4 ch b.
Proof.
  unfold insert_pos4_simd, insert_pos. induction ch as [|[x c] ch IH]; cbn [map length mask_of popcount_mask count_le fst]; [reflexivity|].
  rewrite IH. destruct (x <=? b); reflexivity.
Qed.

(** N16 insert position: first lane with insert byte <= key, else the child count *)
Definition insert_pos16_simd (ch : list (Z * node)) (b : Z) : nat :=
  match ctz_mask (mask_of (fun k => b <=? k) (map fst ch) (length ch)) with
  | Some i => i
  | None => length ch
  end.

Lemma insert_pos16_simd_eq ch b : insert_pos16_simd ch b = insert_pos C16 ch b.
Proof.
  unfold insert_pos16_simd, insert_pos. induction ch as [|[x c] ch IH]; cbn [map length mask_of ctz_mask first_ge fst]; [reflexivity|].
  destruct (b <=? x); [reflexivity|].
  destruct (ctz_mask _) as [i|]; cbn [option_map] in *; lia.
Qed.

(** N48 free-slot search: the pointer array is scanned in groups of [g]
    pointers (2 with SSE, 4 with AVX2, 1 in the scalar loop); within the first
    group containing a null pointer the lowest null lane is taken *)
Fixpoint first_free (slots : list bool (* true = free *)) : option nat :=
  match slots with
  | [] => None
  | true :: _ => Some O
  | false :: s' => option_map S (first_free s')
  end.

Fixpoint first_free_grouped (fuel g : nat) (slots : list bool) (base : nat) : option nat :=
  match fuel with
  | O => None
  | S fuel' =>
      match slots with
      | [] => None
      | _ =>
          match first_free (firstn g slots) with
          | Some i => Some (base + i)%nat
          | None => first_free_grouped fuel' g (skipn g slots) (base + g)%nat
          end
      end
  end.

Lemma first_free_app a b :
  first_free (a ++ b) = match first_free a with Some i => Some i | None => option_map (fun i => (length a + i)%nat) (first_free b) end.
Proof.
  induction a as [|x a IH]; cbn [app first_free length].
  - destruct (first_free b); reflexivity.
  - destruct x; [reflexivity|]. rewrite IH. destruct (first_free a); cbn [option_map]; [reflexivity|].
    destruct (first_free b); reflexivity.
Qed.

Lemma first_free_grouped_eq fuel g slots base :
  (0 < g)%nat -> (length slots <= fuel * g)%nat ->
  first_free_grouped fuel g slots base = option_map (fun i => (base + i)%nat) (first_free slots).
Proof.
  intros Hg. revert slots base; induction fuel as [|fuel IH]; intros slots base Hl.
  - destruct slots; [reflexivity|cbn in Hl; lia].
  - cbn [first_free_grouped]. destruct slots as [|s0 sl] eqn:Es; [reflexivity|]. rewrite <- Es in *. clear Es.
    replace (first_free slots) with (first_free (firstn g slots ++ skipn g slots)) by (now rewrite firstn_skipn).
    rewrite first_free_app.
    destruct (first_free (firstn g slots)) as [i|]; [reflexivity|].
    rewrite IH by (rewrite skipn_length; lia).
    destruct (first_free (skipn g slots)) as [j|] eqn:F; cbn [option_map]; [|reflexivity].
    f_equal. rewrite firstn_length.
    destruct (Nat.le_gt_cases g (length slots)) as [Le|Gt]; [lia|].
    rewrite skipn_all2 in F by lia. discriminate.
Qed.

(** all three compiled variants pick the same slot *)
Theorem free_slot_variants_agree slots :
  (length slots <= 48)%nat ->
  first_free_grouped 24 2 slots 0 = first_free slots /\
  first_free_grouped 12 4 slots 0 = first_free slots /\
  first_free_grouped 48 1 slots 0 = first_free slots.
Proof.
  intros H. repeat split; rewrite first_free_grouped_eq by lia; destruct (first_free slots); reflexivity.
Qed.

(** statistics are observers: the results of every history are the same
    whatever the node sizes used for the memory accounting (in particular
    with the statistics compiled out) *)
Lemma step_stats_obs sz1 sz2 d1 d2 o :
  root d1 = root d2 -> next_id d1 = next_id d2 ->
  snd (step sz1 d1 o) = snd (step sz2 d2 o) /\
  root (fst (step sz1 d1 o)) = root (fst (step sz2 d2 o)) /\ next_id (fst (step sz1 d1 o)) = next_id (fst (step sz2 d2 o)).
Proof.
  intros R N.
  destruct o as [k|k v|k| |]; cbn [step]; unfold db_get, db_insert, db_remove, db_empty, db_clear; rewrite ?R, ?N.
  - destruct (root d2) eqn:R2; [destruct (get_go _ _ _ _)|]; cbn [fst snd]; repeat split; congruence.
  - destruct (root d2) as [n|] eqn:R2; cbn [bind fst snd root next_id]; [|repeat split; congruence].
    destruct (insert_go _ _ _ _ _ _) as [[[n' e]|]|er]; cbn [bind fst snd root next_id]; repeat split; congruence.
  - destruct (root d2) as [[id lk lv|c p ch]|] eqn:R2; cbn [bind fst snd root next_id]; [| |repeat split; congruence].
    + destruct (lex_compare k lk); cbn [fst snd root next_id]; repeat split; congruence.
    + destruct (get_go _ _ _ _) as [g|er]; cbn [bind fst snd]; [|repeat split; congruence].
      destruct (remove_go _ _ _ _) as [[|n' e]|er]; cbn [bind fst snd root next_id]; try (repeat split; congruence).
      destruct g as [[i v]|]; cbn [fst snd root next_id]; repeat split; congruence.
  - cbn [fst snd]. repeat split; congruence.
  - cbn [fst snd root next_id]. repeat split; congruence.
Qed.

Theorem run_stats_obs sz1 sz2 ops : run sz1 db0 ops = run sz2 db0 ops.
Proof.
  assert (G : forall d1 d2, root d1 = root d2 -> next_id d1 = next_id d2 -> run sz1 d1 ops = run sz2 d2 ops).
  { induction ops as [|o ops IH]; intros d1 d2 R N; cbn [run]; [reflexivity|].
    destruct (step_stats_obs sz1 sz2 d1 d2 o R N) as (E1 & E2 & E3).
    destruct (step sz1 d1 o) as [d1' r1], (step sz2 d2 o) as [d2' r2]. cbn [fst snd] in *. subst r2. f_equal. now apply IH. }
  now apply G.
Qed.
