(** Bridge from the compile-time node-size constants (coq/Gen/GenSizes.v,
    regenerated on every run: clang folds [basic_inode<...>::capacity],
    [::min_size], the capacities of [larger_derived_type] /
    [smaller_derived_type], [key_prefix_capacity] and inode_48's [empty_child]
    for db / olc_db x u64 / key_view keys; the four configurations must agree)
    to the hand-written constants of the sequential model (Art/ArtModel.v). *)
From Coq Require Import List ZArith Lia Bool.
From Unodb Require Import Art.ArtModel Gen.GenSizes Gen.GenKeyPrefix.
Local Open Scope Z_scope.

Lemma sizes_capacities :
  Z.of_nat (cap C4) = gs_i4_capacity /\ Z.of_nat (cap C16) = gs_i16_capacity /\
  Z.of_nat (cap C48) = gs_i48_capacity /\ Z.of_nat (cap C256) = gs_i256_capacity.
Proof. repeat split; reflexivity. Qed.

Lemma sizes_min_sizes :
  Z.of_nat (min_size C4) = gs_i4_min_size /\ Z.of_nat (min_size C16) = gs_i16_min_size /\
  Z.of_nat (min_size C48) = gs_i48_min_size /\ Z.of_nat (min_size C256) = gs_i256_min_size.
Proof. repeat split; reflexivity. Qed.

(** the class a full node grows into / a minimal node shrinks into *)
Lemma sizes_larger_smaller :
  Z.of_nat (cap (larger C4)) = gs_i4_larger_capacity /\ Z.of_nat (cap (larger C16)) = gs_i16_larger_capacity /\
  Z.of_nat (cap (larger C48)) = gs_i48_larger_capacity /\
  Z.of_nat (cap (smaller C16)) = gs_i16_smaller_capacity /\ Z.of_nat (cap (smaller C48)) = gs_i48_smaller_capacity /\
  Z.of_nat (cap (smaller C256)) = gs_i256_smaller_capacity.
Proof. repeat split; reflexivity. Qed.

(** a node shrinks exactly when it would fit the smaller class with one slot to spare:
    model and source *)
Lemma sizes_min_is_smaller_cap_plus_1 :
  (forall c, c <> C256 -> min_size (larger c) = S (cap c)) /\
  gs_i16_min_size = gs_i4_capacity + 1 /\ gs_i48_min_size = gs_i16_capacity + 1 /\
  gs_i256_min_size = gs_i48_capacity + 1.
Proof. split; [intros [] H; try reflexivity; congruence|repeat split; reflexivity]. Qed.

Lemma sizes_min_below_cap : forall c, (2 <= min_size c < cap c)%nat.
Proof. intros []; cbn; lia. Qed.

Lemma sizes_prefix_capacity :
  Z.of_nat prefix_capacity = gs_key_prefix_capacity /\ gs_key_prefix_capacity = kp_capacity.
Proof. split; reflexivity. Qed.

(** the inode_48 "no child" marker is a byte that is not a slot index *)
Lemma sizes_empty_child : Z.of_nat (cap C48) <= gs_i48_empty_child < 256.
Proof. cbn. unfold gs_i48_empty_child. lia. Qed.
