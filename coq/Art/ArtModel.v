(** M-ART: executable model of the sequential Adaptive Radix Tree
    (art.hpp, art_internal_impl.hpp).  Definitions only; mirrors the code path
    by path (get_internal, insert_internal, remove_internal, the impl_helpers,
    the inode_4 init overloads, leave_last_child, key_prefix cut/prepend).
    Children are kept as the list of (key byte, child) in array order, which is
    what the four node classes expose through find_child / begin / next /
    gte_key_byte ...; the class tag is explicit. *)
From Coq Require Import List ZArith Bool.
From Unodb Require Import Base.Lex.
Import ListNotations.
Local Open Scope Z_scope.

Inductive cls := C4 | C16 | C48 | C256.

Inductive node :=
| Leaf (id : Z) (k v : list Z)
| Inode (c : cls) (p : list Z) (ch : list (Z * node)).

Definition cap (c : cls) : nat := match c with C4 => 4 | C16 => 16 | C48 => 48 | C256 => 256 end%nat.
Definition min_size (c : cls) : nat := match c with C4 => 2 | C16 => 5 | C48 => 17 | C256 => 49 end%nat.
Definition larger (c : cls) : cls := match c with C4 => C16 | C16 => C48 | _ => C256 end.
Definition smaller (c : cls) : cls := match c with C256 => C48 | C48 => C16 | _ => C4 end.
Definition cls_eqb (a b : cls) : bool :=
  match a, b with C4, C4 | C16, C16 | C48, C48 | C256, C256 => true | _, _ => false end.

Definition prefix_capacity : nat := 7.

Inductive err := Oob | OutOfFuel | Malformed.
Inductive res (A : Type) := Ok (a : A) | Err (e : err).
Arguments Ok {A} a.
Arguments Err {A} e.

Definition bind {A B} (r : res A) (f : A -> res B) : res B :=
  match r with Ok a => f a | Err e => Err e end.
Notation "x <- r ;; k" := (bind r (fun x => k)) (at level 61, r at next level, right associativity).

(** key_view[i]; out of bounds is undefined behaviour in the C++. *)
Definition byte_at (k : list Z) (i : nat) : res Z :=
  match nth_error k i with Some b => Ok b | None => Err Oob end.

(** get_u64-style comparison: both operands zero padded, at most [n] bytes. *)
Fixpoint common_pad (n : nat) (a b : list Z) : nat :=
  match n with
  | O => O
  | S n' => if hd 0 a =? hd 0 b then S (common_pad n' (tl a) (tl b)) else O
  end.

(** key_prefix::get_shared_length(shifted_key) *)
Definition shared_len (p rem : list Z) : nat := common_pad (length p) p rem.

Definition pad8 (l : list Z) : list Z := l ++ repeat 0 8.

Fixpoint find_child (ch : list (Z * node)) (b : Z) (i : nat) : option (nat * node) :=
  match ch with
  | [] => None
  | (x, c) :: ch' => if x =? b then Some (i, c) else find_child ch' b (S i)
  end.

(** position at which add_to_nonfull / the growing constructors put a new key byte *)
Fixpoint count_le (ch : list (Z * node)) (b : Z) : nat :=
  match ch with [] => O | (x, _) :: ch' => if x <=? b then S (count_le ch' b) else count_le ch' b end.
Fixpoint first_ge (ch : list (Z * node)) (b : Z) : nat :=
  match ch with [] => O | (x, _) :: ch' => if b <=? x then O else S (first_ge ch' b) end.
Definition insert_pos (c : cls) (ch : list (Z * node)) (b : Z) : nat :=
  match c with C4 => count_le ch b | _ => first_ge ch b end.

Fixpoint insert_at {A} (i : nat) (x : A) (l : list A) : list A :=
  match i, l with
  | O, _ => x :: l
  | S i', y :: l' => y :: insert_at i' x l'
  | S _, [] => [x]
  end.
Fixpoint remove_nth {A} (i : nat) (l : list A) : list A :=
  match i, l with
  | _, [] => []
  | O, _ :: l' => l'
  | S i', y :: l' => y :: remove_nth i' l'
  end.
Fixpoint replace_nth {A} (i : nat) (x : A) (l : list A) : list A :=
  match i, l with
  | _, [] => []
  | O, _ :: l' => x :: l'
  | S i', y :: l' => y :: replace_nth i' x l'
  end.

(** inode_4::add_two_to_empty *)
Definition two_children (b1 : Z) (c1 : node) (b2 : Z) (c2 : node) : list (Z * node) :=
  if b1 <? b2 then [(b1, c1); (b2, c2)] else [(b2, c2); (b1, c1)].

(** * get_internal *)
Fixpoint get_go (fuel : nat) (n : node) (k : list Z) (depth : nat) : res (option (Z * list Z)) :=
  match fuel with
  | O => Err OutOfFuel
  | S f =>
      match n with
      | Leaf id lk v => Ok (match lex_compare k lk with Eq => Some (id, v) | _ => None end)
      | Inode c p ch =>
          if (length k <? depth)%nat then Err Oob else
          let rem := skipn depth k in
          if (shared_len p rem <? length p)%nat then Ok None else
          let d := (depth + length p)%nat in
          b <- byte_at k d ;;
          match find_child ch b O with
          | None => Ok None
          | Some (_, c') => get_go f c' k (S d)
          end
      end
  end.

(** structural events, used for the statistics *)
Inductive ev :=
| ENone | ERootLeaf | ELeafSplit | EPrefixSplit | EAdd (c : cls) | EGrow (to : cls)
| ERemoveLeaf (c : cls) | EShrink (from : cls) | ERemoveRoot.

(** * insert_internal below the root.  [None] = key already present. *)
Fixpoint insert_go (fuel : nat) (n : node) (k v : list Z) (id : Z) (depth : nat)
  : res (option (node * ev)) :=
  match fuel with
  | O => Err OutOfFuel
  | S f =>
      match n with
      | Leaf lid lk lv =>
          match lex_compare k lk with
          | Eq => Ok None
          | _ =>
              (* inode_4::create(db, existing_key, remaining_key, depth, leaf, new_leaf) *)
              if (length k <? depth)%nat then Err Oob else
              if (length lk <? depth)%nat then Err Oob else
              let rem := skipn depth k in
              let k1rem := skipn depth lk in
              let n' := common_pad prefix_capacity k1rem rem in
              let pre := firstn n' (pad8 k1rem) in
              b1 <- byte_at lk (n' + depth) ;;
              b2 <- byte_at rem n' ;;
              Ok (Some (Inode C4 pre (two_children b1 (Leaf lid lk lv) b2 (Leaf id k v)), ELeafSplit))
          end
      | Inode c p ch =>
          if (length k <? depth)%nat then Err Oob else
          let rem := skipn depth k in
          let sl := shared_len p rem in
          if (sl <? length p)%nat then
            (* inode_4::create(db, *node, shared_prefix_len, depth, leaf): prefix split *)
            sb <- byte_at p sl ;;
            nb <- byte_at k (depth + sl) ;;
            Ok (Some (Inode C4 (firstn sl p)
                            (two_children sb (Inode c (skipn (S sl) p) ch) nb (Leaf id k v)),
                      EPrefixSplit))
          else
            let d := (depth + length p)%nat in
            b <- byte_at k d ;;
            match find_child ch b O with
            | Some (i, c') =>
                r <- insert_go f c' k v id (S d) ;;
                match r with
                | None => Ok None
                | Some (c'', e) => Ok (Some (Inode c p (replace_nth i (b, c'') ch), e))
                end
            | None =>
                let pos := insert_pos c ch b in
                if cls_eqb c C256 then
                  Ok (Some (Inode c p (insert_at pos (b, Leaf id k v) ch), EAdd c))
                else if Nat.eqb (length ch) (cap c) then
                  Ok (Some (Inode (larger c) p (insert_at pos (b, Leaf id k v) ch), EGrow (larger c)))
                else
                  Ok (Some (Inode c p (insert_at pos (b, Leaf id k v) ch), EAdd c))
            end
      end
  end.

(** key_prefix::prepend(prefix1, byte) on the surviving child of a collapsing N4 *)
Definition prepend_prefix (p1 : list Z) (b : Z) (n : node) : node :=
  match n with
  | Leaf _ _ _ => n
  | Inode c p3 ch => Inode c (p1 ++ b :: p3) ch
  end.

Inductive rm_result :=
| RmNotFound
| RmReplaced (n : node) (e : ev).   (* this subtree is replaced by n *)

(** * remove_internal below an inner-node root. *)
Fixpoint remove_go (fuel : nat) (n : node) (k : list Z) (depth : nat) : res rm_result :=
  match fuel with
  | O => Err OutOfFuel
  | S f =>
      match n with
      | Leaf _ _ _ => Err Malformed
      | Inode c p ch =>
          if (length k <? depth)%nat then Err Oob else
          let rem := skipn depth k in
          if (shared_len p rem <? length p)%nat then Ok RmNotFound else
          let d := (depth + length p)%nat in
          b <- byte_at k d ;;
          match find_child ch b O with
          | None => Ok RmNotFound
          | Some (i, Leaf lid lk lv) =>
              match lex_compare k lk with
              | Eq =>
                  if Nat.eqb (length ch) (min_size c) then
                    match c with
                    | C4 =>
                        (* leave_last_child *)
                        match nth_error ch (if Nat.eqb i 0 then 1 else 0)%nat with
                        | Some (sb, s) => Ok (RmReplaced (prepend_prefix p sb s) (EShrink C4))
                        | None => Err Malformed
                        end
                    | _ => Ok (RmReplaced (Inode (smaller c) p (remove_nth i ch)) (EShrink c))
                    end
                  else Ok (RmReplaced (Inode c p (remove_nth i ch)) (ERemoveLeaf c))
              | _ => Ok RmNotFound
              end
          | Some (i, c') =>
              r <- remove_go f c' k (S d) ;;
              match r with
              | RmNotFound => Ok RmNotFound
              | RmReplaced c'' e => Ok (RmReplaced (Inode c p (replace_nth i (b, c'') ch)) e)
              end
          end
      end
  end.

(** * Statistics (UNODB_DETAIL_WITH_STATS) *)

Record sizes := { sz_leaf : Z (* sizeof(leaf) - 1 *); sz4 : Z; sz16 : Z; sz48 : Z; sz256 : Z }.
Definition sz_of (s : sizes) (c : cls) : Z :=
  match c with C4 => sz4 s | C16 => sz16 s | C48 => sz48 s | C256 => sz256 s end.

Record stats := {
  n_leaf : Z; n_i : cls -> Z;       (* node counts *)
  grow : cls -> Z; shrink : cls -> Z; (* growing / shrinking inode counts *)
  splits : Z;                        (* key prefix splits *)
  mem : Z                            (* current memory use *)
}.

Definition upd (f : cls -> Z) (c : cls) (d : Z) : cls -> Z :=
  fun x => if cls_eqb x c then f x + d else f x.
Definition zero_c : cls -> Z := fun _ => 0.
Definition stats0 : stats :=
  {| n_leaf := 0; n_i := zero_c; grow := zero_c; shrink := zero_c; splits := 0; mem := 0 |}.

Definition leaf_size (sz : sizes) (k v : list Z) : Z := sz_leaf sz + Z.of_nat (length k) + Z.of_nat (length v).

Definition stats_insert (sz : sizes) (s : stats) (e : ev) (k v : list Z) : stats :=
  let s := {| n_leaf := n_leaf s + 1; n_i := n_i s; grow := grow s; shrink := shrink s; splits := splits s;
              mem := mem s + leaf_size sz k v |} in
  match e with
  | ELeafSplit =>
      {| n_leaf := n_leaf s; n_i := upd (n_i s) C4 1; grow := upd (grow s) C4 1; shrink := shrink s;
         splits := splits s; mem := mem s + sz4 sz |}
  | EPrefixSplit =>
      {| n_leaf := n_leaf s; n_i := upd (n_i s) C4 1; grow := upd (grow s) C4 1; shrink := shrink s;
         splits := splits s + 1; mem := mem s + sz4 sz |}
  | EGrow c =>
      {| n_leaf := n_leaf s; n_i := upd (upd (n_i s) c 1) (smaller c) (-1); grow := upd (grow s) c 1;
         shrink := shrink s; splits := splits s; mem := mem s + sz_of sz c - sz_of sz (smaller c) |}
  | _ => s
  end.

Definition stats_remove (sz : sizes) (s : stats) (e : ev) (k v : list Z) : stats :=
  let s := {| n_leaf := n_leaf s - 1; n_i := n_i s; grow := grow s; shrink := shrink s; splits := splits s;
              mem := mem s - leaf_size sz k v |} in
  match e with
  | EShrink C4 =>
      {| n_leaf := n_leaf s; n_i := upd (n_i s) C4 (-1); grow := grow s; shrink := upd (shrink s) C4 1;
         splits := splits s; mem := mem s - sz4 sz |}
  | EShrink c =>
      {| n_leaf := n_leaf s; n_i := upd (upd (n_i s) c (-1)) (smaller c) 1; grow := grow s;
         shrink := upd (shrink s) c 1; splits := splits s; mem := mem s - sz_of sz c + sz_of sz (smaller c) |}
  | _ => s
  end.

(** clear(): subtree deleted leaf by leaf (leaf count and their memory go
    through the deleter), then memory and inode counts are zeroed; the
    growing / shrinking / split counters stay. *)
Definition stats_clear (s : stats) : stats :=
  {| n_leaf := 0; n_i := zero_c; grow := grow s; shrink := shrink s; splits := splits s; mem := 0 |}.

(** * The index object *)

Record db := { root : option node; next_id : Z; st : stats }.
Definition db0 : db := {| root := None; next_id := 0; st := stats0 |}.

Definition fuel_for (k : list Z) : nat := S (S (length k)).

Definition db_get (d : db) (k : list Z) : res (option (Z * list Z)) :=
  match root d with
  | None => Ok None
  | Some n => get_go (fuel_for k) n k O
  end.

Definition db_insert (sz : sizes) (d : db) (k v : list Z) : res (db * bool) :=
  match root d with
  | None =>
      Ok ({| root := Some (Leaf (next_id d) k v); next_id := next_id d + 1;
             st := stats_insert sz (st d) ERootLeaf k v |}, true)
  | Some n =>
      r <- insert_go (fuel_for k) n k v (next_id d) O ;;
      match r with
      | None => Ok (d, false)
      | Some (n', e) =>
          Ok ({| root := Some n'; next_id := next_id d + 1; st := stats_insert sz (st d) e k v |}, true)
      end
  end.

Definition db_remove (sz : sizes) (d : db) (k : list Z) : res (db * bool) :=
  match root d with
  | None => Ok (d, false)
  | Some (Leaf lid lk lv) =>
      match lex_compare k lk with
      | Eq => Ok ({| root := None; next_id := next_id d; st := stats_remove sz (st d) ERemoveRoot lk lv |}, true)
      | _ => Ok (d, false)
      end
  | Some n =>
      g <- get_go (fuel_for k) n k O ;;
      r <- remove_go (fuel_for k) n k O ;;
      match r, g with
      | RmReplaced n' e, Some (_, v) =>
          Ok ({| root := Some n'; next_id := next_id d; st := stats_remove sz (st d) e k v |}, true)
      | RmReplaced _ _, None => Err Malformed
      | RmNotFound, _ => Ok (d, false)
      end
  end.

Definition db_clear (d : db) : db := {| root := None; next_id := next_id d; st := stats_clear (st d) |}.
Definition db_empty (d : db) : bool := match root d with None => true | Some _ => false end.
