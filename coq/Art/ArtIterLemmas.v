(** Auxiliary lemmas for the iterator / scan proofs: sorted lists, filters,
    the order of the leaves of a well-formed tree, and the semantics of an
    iterator stack (the entries still ahead in either direction). *)
From Coq Require Import List ZArith Bool Lia Sorted Permutation.
From Unodb Require Import Base.Lex Art.ArtModel Art.ArtIter Art.ArtSpec Art.ArtInv Art.ArtLemmas
  Art.ArtProofs Art.ArtScanSpec.
Import ListNotations.

(** * lists *)

Lemma SSorted_app {A} (R : A -> A -> Prop) l1 l2 :
  StronglySorted R l1 -> StronglySorted R l2 -> (forall a b, In a l1 -> In b l2 -> R a b) ->
  StronglySorted R (l1 ++ l2).
Proof.
  intros H1 H2 H. induction H1 as [|a l1 H1 IH Ha]; cbn [app]; [exact H2|].
  constructor.
  - apply IH. intros x y Hx Hy. apply H; [now right|exact Hy].
  - apply Forall_app. split; [exact Ha|]. apply Forall_forall. intros y Hy. apply H; [now left|exact Hy].
Qed.

Lemma SSorted_app_inv {A} (R : A -> A -> Prop) l1 l2 :
  StronglySorted R (l1 ++ l2) ->
  StronglySorted R l1 /\ StronglySorted R l2 /\ (forall a b, In a l1 -> In b l2 -> R a b).
Proof.
  induction l1 as [|x l1 IH]; cbn [app]; intros H.
  - split; [constructor|]. split; [exact H|]. intros a b [].
  - apply StronglySorted_inv in H. destruct H as [H Hx]. destruct (IH H) as (H1 & H2 & H3).
    apply Forall_app in Hx. destruct Hx as [Hx1 Hx2]. split; [now constructor|]. split; [exact H2|].
    intros a b [<-|Ha] Hb; [|now apply H3]. rewrite Forall_forall in Hx2. now apply Hx2.
Qed.

Lemma SSorted_filter {A} (R : A -> A -> Prop) f l : StronglySorted R l -> StronglySorted R (filter f l).
Proof.
  induction 1 as [|a l H IH Ha]; cbn [filter]; [constructor|].
  destruct (f a); [|exact IH]. constructor; [exact IH|].
  rewrite Forall_forall in *. intros x Hx. apply filter_In in Hx. now apply Ha.
Qed.

Lemma SSorted_rev {A} (R : A -> A -> Prop) l :
  StronglySorted R l -> StronglySorted (fun x y => R y x) (rev l).
Proof.
  induction 1 as [|a l H IH Ha]; cbn [rev]; [constructor|].
  apply SSorted_app; [exact IH|repeat constructor|].
  intros x y Hx [<-|[]]. apply in_rev in Hx. rewrite Forall_forall in Ha. now apply Ha.
Qed.

Lemma filter_all {A} (f : A -> bool) l : (forall x, In x l -> f x = true) -> filter f l = l.
Proof.
  induction l as [|a l IH]; intros H; cbn [filter]; [reflexivity|].
  rewrite (H a) by now left. f_equal. apply IH. intros x Hx. apply H. now right.
Qed.

Lemma filter_none {A} (f : A -> bool) l : (forall x, In x l -> f x = false) -> filter f l = [].
Proof.
  induction l as [|a l IH]; intros H; cbn [filter]; [reflexivity|].
  rewrite (H a) by now left. apply IH. intros x Hx. apply H. now right.
Qed.

Lemma filter_filter' {A} (f g : A -> bool) l : filter f (filter g l) = filter (fun x => g x && f x) l.
Proof.
  induction l as [|a l IH]; cbn [filter]; [reflexivity|].
  destruct (g a); cbn [filter andb]; [destruct (f a); now rewrite IH|exact IH].
Qed.

Lemma filter_rev' {A} (f : A -> bool) l : filter f (rev l) = rev (filter f l).
Proof.
  induction l as [|a l IH]; cbn [rev filter]; [reflexivity|].
  rewrite filter_app, IH. cbn [filter]. destruct (f a); cbn [rev]; [reflexivity|apply app_nil_r].
Qed.

Fixpoint twhile {A} (f : A -> bool) (l : list A) : list A :=
  match l with [] => [] | x :: l' => if f x then x :: twhile f l' else [] end.

Lemma twhile_filter_sorted {A} (R : A -> A -> Prop) (f : A -> bool) l :
  StronglySorted R l -> (forall x y, R x y -> f y = true -> f x = true) -> twhile f l = filter f l.
Proof.
  intros HS Hf. induction HS as [|a l H IH Ha]; cbn [twhile filter]; [reflexivity|].
  destruct (f a) eqn:E; [now rewrite IH|].
  symmetry. apply filter_none. intros x Hx. rewrite Forall_forall in Ha.
  destruct (f x) eqn:E2; [|reflexivity]. rewrite (Hf a x (Ha x Hx) E2) in E. discriminate.
Qed.

Lemma twhile_true {A} (l : list A) : twhile (fun _ => true) l = l.
Proof. induction l as [|a l IH]; cbn [twhile]; [reflexivity|now rewrite IH]. Qed.

Lemma take_until_nil {A} h : take_until h (@nil A) = [].
Proof. destruct h; reflexivity. Qed.

Lemma firstn_mid {A} (l1 : list A) x l2 : firstn (length l1) (l1 ++ x :: l2) = l1.
Proof. rewrite firstn_app, Nat.sub_diag, firstn_all. cbn [firstn]. apply app_nil_r. Qed.

Lemma skipn_mid {A} (l1 : list A) x l2 : skipn (S (length l1)) (l1 ++ x :: l2) = l2.
Proof.
  rewrite skipn_app. replace (S (length l1) - length l1) with 1 by lia.
  rewrite skipn_all2 by lia. reflexivity.
Qed.

Lemma nth_error_mid {A} (l1 : list A) x l2 : nth_error (l1 ++ x :: l2) (length l1) = Some x.
Proof. rewrite nth_error_app2 by lia. now rewrite Nat.sub_diag. Qed.

Lemma nth_error_split' {A} (l : list A) n x : nth_error l n = Some x ->
  exists l1 l2, l = l1 ++ x :: l2 /\ length l1 = n.
Proof. intros H. destruct (nth_error_split l n H) as (l1 & l2 & H1 & H2). now exists l1, l2. Qed.

(** * order *)

Lemma lex_lt_diff q k1 k2 b1 b2 : ext q k1 -> ext q k2 ->
  nth_error k1 (length q) = Some b1 -> nth_error k2 (length q) = Some b2 -> (b1 < b2)%Z -> lex_lt k1 k2.
Proof.
  intros [s1 ->]%ext_iff [s2 ->]%ext_iff H1 H2 Hlt.
  rewrite nth_error_app2, Nat.sub_diag in H1 by lia.
  rewrite nth_error_app2, Nat.sub_diag in H2 by lia.
  destruct s1 as [|x s1]; [discriminate|]. destruct s2 as [|y s2]; [discriminate|].
  cbn [nth_error] in H1, H2. injection H1 as ->. injection H2 as ->.
  unfold lex_lt. rewrite lex_compare_app_same. cbn [lex_compare].
  apply Z.compare_lt_iff in Hlt. now rewrite Hlt.
Qed.

Definition all_lt (k : list Z) (l : list entry) : Prop := Forall (fun e => lex_lt (fst e) k) l.
Definition all_gt (k : list Z) (l : list entry) : Prop := Forall (fun e => lex_lt k (fst e)) l.

Lemma lex_leb_lt a b : lex_lt a b -> lex_leb a b = true /\ lex_leb b a = false.
Proof.
  intros H. unfold lex_leb. rewrite (lex_compare_antisym a b). unfold lex_lt in H. rewrite H. now split.
Qed.

Lemma filter_ge_all_gt k l : all_gt k l -> filter (ge_key k) l = l.
Proof.
  intros H. apply filter_all. intros e He. unfold all_gt in H. rewrite Forall_forall in H.
  unfold ge_key. now apply lex_leb_lt, H.
Qed.
Lemma filter_ge_all_lt k l : all_lt k l -> filter (ge_key k) l = [].
Proof.
  intros H. apply filter_none. intros e He. unfold all_lt in H. rewrite Forall_forall in H.
  unfold ge_key. now apply lex_leb_lt, H.
Qed.
Lemma filter_le_all_lt k l : all_lt k l -> filter (le_key k) l = l.
Proof.
  intros H. apply filter_all. intros e He. unfold all_lt in H. rewrite Forall_forall in H.
  unfold le_key. now apply lex_leb_lt, H.
Qed.
Lemma filter_le_all_gt k l : all_gt k l -> filter (le_key k) l = [].
Proof.
  intros H. apply filter_none. intros e He. unfold all_gt in H. rewrite Forall_forall in H.
  unfold le_key. now apply lex_leb_lt, H.
Qed.

(** children whose leaves all extend [q] and carry the child byte right after it *)
Definition tagged (q : list Z) (l : list (Z * node)) : Prop :=
  Forall (fun bc => forall e, In e (leaves (snd bc)) ->
                     ext q (fst e) /\ nth_error (fst e) (length q) = Some (fst bc)) l.

Lemma WFch_tagged L pi p ch : WFch L pi p ch -> tagged (pi ++ p) ch.
Proof.
  intros H. assert (HT := WFch_tags _ _ _ _ H). unfold tagged. rewrite Forall_forall in *.
  intros bc Hin e He. split.
  - eapply (WFch_ext L pi p ch e H). unfold cleaves. apply in_flat_map. now exists bc.
  - rewrite app_length. exact (HT bc Hin e He).
Qed.

Lemma tagged_lt q k b l : ext q k -> nth_error k (length q) = Some b -> tagged q l ->
  Forall (fun bc => (fst bc < b)%Z) l -> all_lt k (cleaves l).
Proof.
  intros Hk Hb HT Hlt. unfold all_lt, cleaves. apply Forall_flat_map.
  unfold tagged in HT. rewrite Forall_forall in *. intros bc Hin.
  apply Forall_forall. intros e He. destruct (HT bc Hin e He) as [H1 H2].
  eapply lex_lt_diff; [exact H1|exact Hk|exact H2|exact Hb|now apply Hlt].
Qed.

Lemma tagged_gt q k b l : ext q k -> nth_error k (length q) = Some b -> tagged q l ->
  Forall (fun bc => (b < fst bc)%Z) l -> all_gt k (cleaves l).
Proof.
  intros Hk Hb HT Hlt. unfold all_gt, cleaves. apply Forall_flat_map.
  unfold tagged in HT. rewrite Forall_forall in *. intros bc Hin.
  apply Forall_forall. intros e He. destruct (HT bc Hin e He) as [H1 H2].
  eapply lex_lt_diff; [exact Hk|exact H1|exact Hb|exact H2|now apply Hlt].
Qed.

Lemma keys_sorted_split l1 x c l2 : keys_sorted (l1 ++ (x, c) :: l2) ->
  Forall (fun bc : Z * node => (fst bc < x)%Z) l1 /\ Forall (fun bc : Z * node => (x < fst bc)%Z) l2.
Proof.
  unfold keys_sorted. rewrite map_app. cbn [map fst]. intros H.
  apply SSorted_app_inv in H. destruct H as (_ & H2 & H3).
  apply StronglySorted_inv in H2. destruct H2 as [_ H2]. split.
  - apply Forall_forall. intros bc Hin. apply H3; [now apply in_map|now left].
  - rewrite Forall_map in H2. exact H2.
Qed.

(** * the leaves of a well-formed tree are strictly ascending *)

Lemma cleaves_cons b c ch : cleaves ((b, c) :: ch) = leaves c ++ cleaves ch.
Proof. reflexivity. Qed.

Lemma cleaves_sorted L pi p ch : WFch L pi p ch -> keys_sorted ch ->
  Forall (fun bc => forall pi', WF L (snd bc) pi' -> StronglySorted entries_lt (leaves (snd bc))) ch ->
  StronglySorted entries_lt (cleaves ch).
Proof.
  intros HW. assert (HT := WFch_tagged _ _ _ _ HW). revert HW HT.
  induction ch as [|[x c] ch IH]; intros HW HT HS HF; [constructor|].
  rewrite cleaves_cons.
  apply Forall_cons_iff in HW. destruct HW as [[_ HWc] HW]. cbn [fst snd] in HWc.
  apply Forall_cons_iff in HT. destruct HT as [HTc HT]. cbn [fst snd] in HTc.
  apply Forall_cons_iff in HF. destruct HF as [HFc HF]. cbn [snd] in HFc.
  assert (HS' := HS). unfold keys_sorted in HS'. cbn [map fst] in HS'.
  apply StronglySorted_inv in HS'. destruct HS' as [HS1 HS2].
  apply SSorted_app.
  - eapply HFc; exact HWc.
  - apply IH; assumption.
  - intros e1 e2 H1 H2. destruct (HTc e1 H1) as [E1 E2].
    assert (HG : all_gt (fst e1) (cleaves ch)).
    { eapply tagged_gt; [exact E1|exact E2|exact HT|]. rewrite Forall_map in HS2. exact HS2. }
    unfold all_gt in HG. rewrite Forall_forall in HG. now apply HG.
Qed.

Lemma WF_leaves_sorted L n : forall pi, WF L n pi -> StronglySorted entries_lt (leaves n).
Proof.
  induction n as [id k v|c p ch IH] using node_ind2; intros pi H.
  - cbn [leaves]. repeat constructor.
  - apply WF_inode in H. destruct H as (_ & _ & _ & HS & _ & H).
    rewrite leaves_inode. eapply cleaves_sorted; [exact H|exact HS|].
    eapply Forall_impl; [|exact IH]. cbn beta. intros bc Hbc pi'. apply Hbc.
Qed.

(** * height and size *)

Lemma height_child c p ch bc : In bc ch -> height (snd bc) < height (Inode c p ch).
Proof.
  intros H. cbn [height]. apply Nat.lt_succ_r.
  induction ch as [|[b c0] ch IH]; [destruct H|].
  destruct H as [<-|H]; cbn [snd].
  - apply Nat.le_max_l.
  - etransitivity; [apply IH, H|apply Nat.le_max_r].
Qed.

Lemma leaves_size n : length (leaves n) <= size n.
Proof.
  induction n as [id k v|c p ch IH] using node_ind2; [cbn; lia|].
  rewrite leaves_inode. cbn [size]. apply Nat.le_le_succ_r.
  induction ch as [|[b c0] ch IHl]; [cbn; lia|].
  apply Forall_cons_iff in IH. destruct IH as [H1 H2]. cbn [snd] in H1.
  rewrite cleaves_cons, app_length. specialize (IHl H2). lia.
Qed.
