(** C08b: the effect-token language into which tools/fault2v.py abstracts
    db::insert_internal / db::remove_internal and their callees (art.hpp,
    art_internal_impl.hpp), an abstract semantics of the tokens with
    "the k-th allocation throws and the stack unwinds", and the boolean shape
    predicate [fault_safe].  Definitions only. *)
From Coq Require Import List ZArith Bool String.
Import ListNotations.
Local Open Scope Z_scope.

(** kinds of heap blocks *)
Inductive kind := KLeaf | KI4 | KI16 | KI48 | KI256.

(** statistics: node count + memory use of a kind (one counter: the C++ moves them together in
    increment_leaf_count / increment_inode_count), growing / shrinking counters, key_prefix_splits *)
Inductive stat := SCount (k : kind) | SGrow (k : kind) | SShrink (k : kind) | SSplits.

Inductive token :=
| TAlloc (k : kind)            (* allocate_aligned for a block of kind k: may throw std::bad_alloc *)
| TStat (s : stat) (d : Z)     (* statistics counter s moves by d *)
| TGuard (k : kind)            (* the block just allocated becomes owned by a unique_ptr with the db deleter *)
| TAdopt (k : kind)            (* an EXISTING block of the tree is put under an owning pointer (reclaim on scope exit) *)
| TRelease (k : kind)          (* release() of an owning pointer: the block leaves the unwinding stack *)
| TPublish (what : string)     (* a store that changes the existing tree *)
| TFree (k : kind)             (* free_aligned of a block of kind k (body of a deleter) *)
| TThrow                       (* throw std::length_error *)
| TEnterNoexcept (f : string)  (* entry of an inlined function declared noexcept *)
| TLeaveNoexcept
| TLock (what : string)        (* OLC: try_upgrade_to_write_lock (not generated yet) *)
| TLoop                        (* back to the head of the descent loop *)
| TReturn.

(** source-order effects with the branch structure; continuations are duplicated into the branches *)
Inductive shape := Stop | Tok (t : token) (k : shape) | Alt (a b : shape).

Fixpoint paths (sh : shape) : list (list token) :=
  match sh with
  | Stop => [[]]
  | Tok t k => map (cons t) (paths k)
  | Alt a b => paths a ++ paths b
  end.

(** ** abstract state *)

Definition kind_ix (k : kind) : nat :=
  match k with KLeaf => 0 | KI4 => 1 | KI16 => 2 | KI48 => 3 | KI256 => 4 end%nat.

Definition stat_ix (s : stat) : nat :=
  match s with
  | SCount k => kind_ix k
  | SGrow k => 5 + kind_ix k
  | SShrink k => 10 + kind_ix k
  | SSplits => 15
  end%nat.

Definition kind_eqb (a b : kind) : bool := Nat.eqb (kind_ix a) (kind_ix b).

Fixpoint bump (i : nat) (d : Z) (l : list Z) : list Z :=
  match l, i with
  | [], _ => []
  | x :: l', O => (x + d) :: l'
  | x :: l', S i' => x :: bump i' d l'
  end.

Fixpoint remove_first (k : kind) (l : list kind) : list kind :=
  match l with
  | [] => []
  | x :: l' => if kind_eqb k x then l' else x :: remove_first k l'
  end.

(** number of stores into the existing tree so far, the statistics vector (indexed by [stat_ix]), the
    number of blocks held from the allocator per kind (indexed by [kind_ix]), the owning pointers on the
    stack (most recent first) *)
Inductive state := mkst (pub : nat) (stats : list Z) (heap : list Z) (live : list kind).

Definition st_live (s : state) : list kind := match s with mkst _ _ _ lv => lv end.

Definition step (t : token) (s : state) : state :=
  match s with
  | mkst p st hp lv =>
      match t with
      | TAlloc k => mkst p st (bump (kind_ix k) 1 hp) lv
      | TStat x d => mkst p (bump (stat_ix x) d st) hp lv
      | TGuard k | TAdopt k => mkst p st hp (k :: lv)
      | TRelease k => mkst p st hp (remove_first k lv)
      | TPublish _ | TLock _ => mkst (S p) st hp lv
      | TFree k => mkst p st (bump (kind_ix k) (-1) hp) (remove_first k lv)
      | _ => s
      end
  end.

(** what the deleter of the most recent owning pointer does (and the pointer is gone) *)
Definition undo (k : kind) (s : state) : state :=
  match s with
  | mkst p st hp lv => mkst p (bump (stat_ix (SCount k)) (-1) st) (bump (kind_ix k) (-1) hp) (tl lv)
  end.

Fixpoint unwind_n (l : list kind) (s : state) : state :=
  match l with
  | [] => s
  | k :: l' => unwind_n l' (undo k s)
  end.

(** stack unwinding: the deleters of the live owning pointers, most recent first *)
Definition unwind (s : state) : state := unwind_n (st_live s) s.

Inductive outcome := Completed (s : state) | Raised (s : state) | Terminated.

(** [fail]: which allocation of the path throws (1 = the first; 0 = none).  [depth]: number of noexcept
    frames entered - an exception that meets one ends in std::terminate. *)
Fixpoint run (fail depth : nat) (p : list token) (s : state) : outcome :=
  match p with
  | [] => Completed s
  | t :: p' =>
      match t with
      | TAlloc _ =>
          match fail with
          | 1%nat => if Nat.eqb depth 0 then Raised (unwind s) else Terminated
          | _ => run (pred fail) depth p' (step t s)
          end
      | TThrow => if Nat.eqb depth 0 then Raised (unwind s) else Terminated
      | TEnterNoexcept _ => run fail (S depth) p' s
      | TLeaveNoexcept => run fail (pred depth) p' s
      | TReturn | TLoop => Completed s
      | _ => run fail depth p' (step t s)
      end
  end.

(** ** the shape predicate *)

(** [c_dirty]: something not undone by unwinding has happened (a store into the tree, a free, an adopted
    or released pointer, a statistics update that is not the count of the block just allocated);
    [c_pend]: a block allocated and not yet owned, and whether its count has been bumped;
    [c_live]: the owning pointers of fresh blocks; [c_depth]: noexcept frames *)
Record cst := { c_dirty : bool; c_pend : option (kind * bool); c_live : list kind; c_depth : nat }.

Definition c_init : cst := {| c_dirty := false; c_pend := None; c_live := []; c_depth := 0 |}.

Definition set_dirty (c : cst) : cst :=
  {| c_dirty := true; c_pend := c_pend c; c_live := c_live c; c_depth := c_depth c |}.

Definition alloc_ok (c : cst) : bool :=
  negb (c_dirty c) && match c_pend c with None => true | Some _ => false end && Nat.eqb (c_depth c) 0.

Definition clean (c : cst) : bool :=
  alloc_ok c && match c_live c with [] => true | _ => false end.

Definition on_alloc (k : kind) (c : cst) : cst :=
  {| c_dirty := c_dirty c; c_pend := Some (k, false); c_live := c_live c; c_depth := c_depth c |}.

Definition on_stat (x : stat) (d : Z) (c : cst) : cst :=
  match x, c_pend c with
  | SCount k, Some (k', false) =>
      if kind_eqb k k' && Z.eqb d 1
      then {| c_dirty := c_dirty c; c_pend := Some (k', true); c_live := c_live c; c_depth := c_depth c |}
      else set_dirty c
  | _, _ => set_dirty c
  end.

Definition on_guard (k : kind) (c : cst) : cst :=
  match c_pend c with
  | Some (k', true) =>
      if kind_eqb k k'
      then {| c_dirty := c_dirty c; c_pend := None; c_live := k :: c_live c; c_depth := c_depth c |}
      else set_dirty c
  | _ => set_dirty c
  end.

Definition on_depth (f : nat -> nat) (c : cst) : cst :=
  {| c_dirty := c_dirty c; c_pend := c_pend c; c_live := c_live c; c_depth := f (c_depth c) |}.

Definition is_stop (sh : shape) : bool := match sh with Stop => true | _ => false end.

(** on every path: at every point that can throw nothing irreversible has happened, no block is
    un-owned, no noexcept frame is open; the descent loop is re-entered in the initial condition; nothing
    follows a return / loop / throw *)
Fixpoint safe_from (sh : shape) (c : cst) : bool :=
  match sh with
  | Stop => true
  | Alt a b => safe_from a c && safe_from b c
  | Tok t k =>
      match t with
      | TAlloc kd => alloc_ok c && safe_from k (on_alloc kd c)
      | TThrow => alloc_ok c && is_stop k
      | TStat x d => safe_from k (on_stat x d c)
      | TGuard kd => safe_from k (on_guard kd c)
      | TReturn => is_stop k
      | TLoop => clean c && is_stop k
      | TEnterNoexcept _ => safe_from k (on_depth S c)
      | TLeaveNoexcept => safe_from k (on_depth pred c)
      | TAdopt _ | TRelease _ | TPublish _ | TFree _ | TLock _ => safe_from k (set_dirty c)
      end
  end.

Definition fault_safe (sh : shape) : bool := safe_from sh c_init.

(** tokens that change what other operations can observe or that take a block off the unwinding stack *)
Definition visible (t : token) : bool :=
  match t with TAdopt _ | TRelease _ | TPublish _ | TFree _ | TLock _ => true | _ => false end.

Definition throwing (t : token) : bool :=
  match t with TAlloc _ | TThrow => true | _ => false end.

Fixpoint count_allocs (p : list token) : nat :=
  match p with
  | [] => 0
  | TAlloc _ :: p' => S (count_allocs p')
  | _ :: p' => count_allocs p'
  end.

Fixpoint max_allocs (sh : shape) : nat :=
  match sh with
  | Stop => 0
  | Tok (TAlloc _) k => S (max_allocs k)
  | Tok _ k => max_allocs k
  | Alt a b => Nat.max (max_allocs a) (max_allocs b)
  end.

(** ** the generated table *)

Record fault_table := { ft_deleters : list (kind * list token); ft_ops : list (string * shape) }.

(** the C++ deleter of kind k frees the block and takes its count back: exactly [undo] *)
Definition deleter_ok (e : kind * list token) : bool :=
  match snd e with
  | [TFree k1; TStat (SCount k2) d] => kind_eqb (fst e) k1 && kind_eqb (fst e) k2 && Z.eqb d (-1)
  | _ => false
  end.

Definition all_kinds : list kind := [KLeaf; KI4; KI16; KI48; KI256].

Definition table_safe (t : fault_table) : bool :=
  forallb deleter_ok (ft_deleters t) &&
  forallb (fun k => existsb (fun e => kind_eqb k (fst e)) (ft_deleters t)) all_kinds &&
  forallb (fun e => fault_safe (snd e)) (ft_ops t).

Fixpoint find_op (tbl : list (string * shape)) (f : string) : shape :=
  match tbl with
  | [] => Stop
  | (g, sh) :: tbl' => if String.eqb g f then sh else find_op tbl' f
  end.

Definition run_tokens (ts : list token) (s : state) : state := fold_left (fun s t => step t s) ts s.
