(** C08b: theorems proved once for every effect shape accepted by [fault_safe]
    (coq/Art/FaultShape.v): whichever allocation of whichever path throws,
    the exception propagates (no noexcept frame is met) and after unwinding
    the abstract state is the initial one. *)
From Coq Require Import List ZArith Bool String Lia Arith.
From Unodb Require Import Art.FaultShape.
Import ListNotations.
Local Open Scope Z_scope.

(** ** counters *)

Lemma bump_inv i d l : bump i (- d) (bump i d l) = l.
Proof.
  revert i. induction l as [|x l IH]; intros i; [now destruct i|].
  destruct i as [|i]; cbn [bump].
  - f_equal. lia.
  - f_equal. apply IH.
Qed.

Lemma kind_eqb_eq a b : kind_eqb a b = true -> a = b.
Proof. now destruct a, b. Qed.

Lemma kind_eqb_refl a : kind_eqb a a = true.
Proof. now destruct a. Qed.

(** ** what a clean checker state says about the concrete state *)

(** the deleter's inverse: a fresh block of kind k, counted and owned *)
Definition credit (k : kind) (s : state) : state :=
  match s with
  | mkst p st hp lv => mkst p (bump (stat_ix (SCount k)) 1 st) (bump (kind_ix k) 1 hp) (k :: lv)
  end.

Definition credits (l : list kind) (s : state) : state := fold_right credit s l.

Definition pendc (o : option (kind * bool)) (s : state) : state :=
  match o, s with
  | None, _ => s
  | Some (k, false), mkst p st hp lv => mkst p st (bump (kind_ix k) 1 hp) lv
  | Some (k, true), mkst p st hp lv => mkst p (bump (stat_ix (SCount k)) 1 st) (bump (kind_ix k) 1 hp) lv
  end.

Definition build (s0 : state) (c : cst) : state := pendc (c_pend c) (credits (c_live c) s0).

(** the checker state [c] describes the concrete state [s] reached from [s0] at noexcept depth [d] *)
Definition rel (c : cst) (s s0 : state) (d : nat) : Prop :=
  d = c_depth c /\ (c_dirty c = false -> s = build s0 c).

Lemma undo_credit k s : undo k (credit k s) = s.
Proof.
  destruct s as [p st hp lv]. cbn [credit undo tl].
  change (-1) with (Z.opp 1). now rewrite !bump_inv.
Qed.

Lemma live_credits l s0 : st_live (credits l s0) = l ++ st_live s0.
Proof.
  induction l as [|k l IH]; [reflexivity|].
  cbn [credits fold_right]. fold (credits l s0).
  destruct (credits l s0) as [p st hp lv] eqn:E. cbn [credit st_live app] in *. now rewrite IH.
Qed.

Lemma unwind_n_credits l s0 : unwind_n l (credits l s0) = s0.
Proof.
  induction l as [|k l IH]; [reflexivity|].
  cbn [credits fold_right unwind_n]. fold (credits l s0). now rewrite undo_credit.
Qed.

Lemma unwind_credits l s0 : st_live s0 = [] -> unwind (credits l s0) = s0.
Proof.
  intros H0. unfold unwind. rewrite live_credits, H0, app_nil_r. apply unwind_n_credits.
Qed.

Lemma alloc_ok_inv c :
  alloc_ok c = true -> c_dirty c = false /\ c_pend c = None /\ c_depth c = O.
Proof.
  unfold alloc_ok. intros H. apply andb_prop in H as [H Hd]. apply andb_prop in H as [Hx Hp].
  repeat split.
  - now destruct (c_dirty c).
  - now destruct (c_pend c).
  - now apply Nat.eqb_eq.
Qed.

Lemma is_stop_inv k : is_stop k = true -> k = Stop.
Proof. now destruct k. Qed.

Lemma rel_dirty c s s0 d : d = c_depth c -> rel (set_dirty c) s s0 d.
Proof. intros ->. split; [reflexivity|]. cbn. discriminate. Qed.

(** one non-throwing, non-terminal token keeps the relation *)
Lemma rel_stat x dz c s s0 d : rel c s s0 d -> rel (on_stat x dz c) (step (TStat x dz) s) s0 d.
Proof.
  intros [Hd Hs]. unfold on_stat.
  destruct x as [k| | |]; try (now apply rel_dirty).
  destruct (c_pend c) as [[k' [|]]|] eqn:P; try (now apply rel_dirty).
  destruct (kind_eqb k k' && Z.eqb dz 1) eqn:E; [|now apply rel_dirty].
  apply andb_prop in E as [E1 E2]. apply kind_eqb_eq in E1 as ->. apply Z.eqb_eq in E2 as ->.
  split; [exact Hd|]. cbn [c_dirty]. intros Hc. rewrite (Hs Hc). unfold build. cbn [c_pend c_live]. rewrite P.
  destruct (credits (c_live c) s0) as [p st hp lv]. reflexivity.
Qed.

Lemma rel_guard k c s s0 d : rel c s s0 d -> rel (on_guard k c) (step (TGuard k) s) s0 d.
Proof.
  intros [Hd Hs]. unfold on_guard.
  destruct (c_pend c) as [[k' [|]]|] eqn:P; try (now apply rel_dirty).
  destruct (kind_eqb k k') eqn:E; [|now apply rel_dirty].
  apply kind_eqb_eq in E as <-.
  split; [exact Hd|]. cbn [c_dirty]. intros Hc. rewrite (Hs Hc). unfold build. cbn [c_pend c_live]. rewrite P.
  cbn [pendc credits fold_right]. fold (credits (c_live c) s0).
  destruct (credits (c_live c) s0) as [p st hp lv]. reflexivity.
Qed.

Lemma rel_alloc k c s s0 d :
  c_pend c = None -> rel c s s0 d -> rel (on_alloc k c) (step (TAlloc k) s) s0 d.
Proof.
  intros P [Hd Hs]. split; [exact Hd|]. cbn [c_dirty on_alloc]. intros Hc. rewrite (Hs Hc).
  unfold build. rewrite P. cbn [c_pend c_live on_alloc pendc].
  destruct (credits (c_live c) s0) as [p st hp lv]. reflexivity.
Qed.

Lemma last_skip (t : token) p :
  t <> TLoop -> last (t :: p) TReturn = TLoop -> last p TReturn = TLoop.
Proof.
  intros Ht H. destruct p as [|x p]; [cbn in H; congruence|exact H].
Qed.

(** ** the main invariant *)

Definition good (s0 : state) (p : list token) (o : outcome) : Prop :=
  match o with
  | Raised s' => s' = s0
  | Terminated => False
  | Completed s' => last p TReturn = TLoop -> s' = s0
  end.

Lemma run_safe s0 : st_live s0 = [] ->
  forall sh c s d fail p, safe_from sh c = true -> rel c s s0 d -> In p (paths sh) ->
  good s0 p (run fail d p s).
Proof.
  intros H0. induction sh as [|t k IH|a IHa b IHb]; intros c s d fail p Hsafe Hrel Hin.
  - cbn in Hin. destruct Hin as [<-|[]]. cbn. discriminate.
  - cbn [paths] in Hin. apply in_map_iff in Hin as (p' & <- & Hin).
    destruct t as [kd|x dz|kd|kd|kd|what|kd| |f| |what| | ]; cbn [safe_from] in Hsafe.
    + (* TAlloc *)
      apply andb_prop in Hsafe as [Hok Hk]. pose proof (alloc_ok_inv _ Hok) as (Hc & Hp & Hz).
      destruct Hrel as [Hd Hs]. cbn [run].
      assert (Hthrow : good s0 (TAlloc kd :: p') (if Nat.eqb d 0 then Raised (unwind s) else Terminated)).
      { rewrite Hd, Hz. cbn. rewrite (Hs Hc). unfold build. rewrite Hp. cbn [pendc]. now apply unwind_credits. }
      assert (Hgo : forall f, good s0 (TAlloc kd :: p') (run f d p' (step (TAlloc kd) s))).
      { intros f. specialize (IH (on_alloc kd c) (step (TAlloc kd) s) d f p' Hk (rel_alloc _ _ _ _ _ Hp (conj Hd Hs)) Hin).
        destruct (run f d p' (step (TAlloc kd) s)); cbn [good] in *; try assumption.
        intros HL. apply IH. apply (last_skip (TAlloc kd)); [discriminate|exact HL]. }
      destruct fail as [|[|f]]; [apply Hgo|exact Hthrow|apply Hgo].
    + (* TStat *)
      cbn [run]. specialize (IH _ _ d fail p' Hsafe (rel_stat x dz _ _ _ _ Hrel) Hin).
      destruct (run fail d p' (step (TStat x dz) s)); cbn [good] in *; try assumption.
      intros HL. apply IH. apply (last_skip (TStat x dz)); [discriminate|exact HL].
    + (* TGuard *)
      cbn [run]. specialize (IH _ _ d fail p' Hsafe (rel_guard kd _ _ _ _ Hrel) Hin).
      destruct (run fail d p' (step (TGuard kd) s)); cbn [good] in *; try assumption.
      intros HL. apply IH. apply (last_skip (TGuard kd)); [discriminate|exact HL].
    + (* TAdopt *)
      cbn [run]. destruct Hrel as [Hd _].
      specialize (IH _ (step (TAdopt kd) s) d fail p' Hsafe (rel_dirty c _ s0 d Hd) Hin).
      destruct (run fail d p' (step (TAdopt kd) s)); cbn [good] in *; try assumption.
      intros HL. apply IH. apply (last_skip (TAdopt kd)); [discriminate|exact HL].
    + (* TRelease *)
      cbn [run]. destruct Hrel as [Hd _].
      specialize (IH _ (step (TRelease kd) s) d fail p' Hsafe (rel_dirty c _ s0 d Hd) Hin).
      destruct (run fail d p' (step (TRelease kd) s)); cbn [good] in *; try assumption.
      intros HL. apply IH. apply (last_skip (TRelease kd)); [discriminate|exact HL].
    + (* TPublish *)
      cbn [run]. destruct Hrel as [Hd _].
      specialize (IH _ (step (TPublish what) s) d fail p' Hsafe (rel_dirty c _ s0 d Hd) Hin).
      destruct (run fail d p' (step (TPublish what) s)); cbn [good] in *; try assumption.
      intros HL. apply IH. apply (last_skip (TPublish what)); [discriminate|exact HL].
    + (* TFree *)
      cbn [run]. destruct Hrel as [Hd _].
      specialize (IH _ (step (TFree kd) s) d fail p' Hsafe (rel_dirty c _ s0 d Hd) Hin).
      destruct (run fail d p' (step (TFree kd) s)); cbn [good] in *; try assumption.
      intros HL. apply IH. apply (last_skip (TFree kd)); [discriminate|exact HL].
    + (* TThrow *)
      apply andb_prop in Hsafe as [Hok Hk]. pose proof (alloc_ok_inv _ Hok) as (Hc & Hp & Hz).
      destruct Hrel as [Hd Hs]. cbn [run]. rewrite Hd, Hz. cbn.
      rewrite (Hs Hc). unfold build. rewrite Hp. cbn [pendc]. now apply unwind_credits.
    + (* TEnterNoexcept *)
      cbn [run]. destruct Hrel as [Hd Hs].
      assert (Hrel' : rel (on_depth S c) s s0 (S d)) by (split; [cbn; now rewrite Hd|exact Hs]).
      specialize (IH _ _ (S d) fail p' Hsafe Hrel' Hin).
      destruct (run fail (S d) p' s); cbn [good] in *; try assumption.
      intros HL. apply IH. apply (last_skip (TEnterNoexcept f)); [discriminate|exact HL].
    + (* TLeaveNoexcept *)
      cbn [run]. destruct Hrel as [Hd Hs].
      assert (Hrel' : rel (on_depth pred c) s s0 (pred d)) by (split; [cbn; now rewrite Hd|exact Hs]).
      specialize (IH _ _ (pred d) fail p' Hsafe Hrel' Hin).
      destruct (run fail (pred d) p' s); cbn [good] in *; try assumption.
      intros HL. apply IH. apply (last_skip TLeaveNoexcept); [discriminate|exact HL].
    + (* TLock *)
      cbn [run]. destruct Hrel as [Hd _].
      specialize (IH _ (step (TLock what) s) d fail p' Hsafe (rel_dirty c _ s0 d Hd) Hin).
      destruct (run fail d p' (step (TLock what) s)); cbn [good] in *; try assumption.
      intros HL. apply IH. apply (last_skip (TLock what)); [discriminate|exact HL].
    + (* TLoop *)
      apply andb_prop in Hsafe as [Hcl Hk]. unfold clean in Hcl. apply andb_prop in Hcl as [Hok Hlv].
      pose proof (alloc_ok_inv _ Hok) as (Hc & Hp & Hz). destruct Hrel as [Hd Hs].
      cbn [run good]. intros _. rewrite (Hs Hc). unfold build. rewrite Hp.
      destruct (c_live c); [reflexivity|discriminate].
    + (* TReturn *)
      apply is_stop_inv in Hsafe as ->. cbn in Hin. destruct Hin as [<-|[]]. cbn. discriminate.
  - cbn [paths] in Hin. cbn [safe_from] in Hsafe. apply andb_prop in Hsafe as [Ha Hb].
    apply in_app_or in Hin as [Hin|Hin]; [now apply (IHa c)|now apply (IHb c)].
Qed.

Lemma rel_init s0 : rel c_init s0 s0 0.
Proof. split; [reflexivity|]. intros _. reflexivity. Qed.

(** Whichever allocation (or length check) of whichever path throws: the exception reaches the caller and
    the state after unwinding is the state before the call; a path that goes round the descent loop
    arrives at the loop head in the state before the call. *)
Theorem fault_safe_strong sh : fault_safe sh = true ->
  forall p, In p (paths sh) -> forall fail s0, st_live s0 = [] ->
    (forall s', run fail 0 p s0 = Raised s' -> s' = s0) /\
    run fail 0 p s0 <> Terminated /\
    (forall s', run fail 0 p s0 = Completed s' -> last p TReturn = TLoop -> s' = s0).
Proof.
  intros Hsafe p Hin fail s0 H0.
  pose proof (run_safe s0 H0 sh c_init s0 0%nat fail p Hsafe (rel_init s0) Hin) as G.
  destruct (run fail 0 p s0) as [s1|s1|]; cbn [good] in G.
  - repeat split; [discriminate|discriminate|]. intros s' E. now injection E as <-.
  - repeat split; [|discriminate|discriminate]. intros s' E. now injection E as <-.
  - contradiction.
Qed.

(** ** nothing that can throw after the first visible change *)

Lemma dirty_no_throw sh : forall c, c_dirty c = true -> safe_from sh c = true ->
  forall p, In p (paths sh) -> forall t, In t p -> throwing t = false.
Proof.
  induction sh as [|t k IH|a IHa b IHb]; intros c Hd Hsafe p Hin t' Ht'.
  - cbn in Hin. destruct Hin as [<-|[]]. destruct Ht'.
  - cbn [paths] in Hin. apply in_map_iff in Hin as (p' & <- & Hin).
    assert (Hno : alloc_ok c = false) by (unfold alloc_ok; now rewrite Hd).
    assert (Hstat : forall x dz, c_dirty (on_stat x dz c) = true).
    { intros x dz. unfold on_stat. destruct x; try reflexivity.
      destruct (c_pend c) as [[k' [|]]|]; try reflexivity.
      destruct (kind_eqb k0 k' && Z.eqb dz 1); [exact Hd|reflexivity]. }
    assert (Hguard : forall kd, c_dirty (on_guard kd c) = true).
    { intros kd. unfold on_guard. destruct (c_pend c) as [[k' [|]]|]; try reflexivity.
      destruct (kind_eqb kd k'); [exact Hd|reflexivity]. }
    destruct Ht' as [<-|Ht'].
    + destruct t; try reflexivity; cbn [safe_from] in Hsafe; rewrite Hno in Hsafe; discriminate.
    + destruct t as [kd|x dz|kd|kd|kd|what|kd| |f| |what| | ]; cbn [safe_from] in Hsafe;
        try (unfold clean in Hsafe; rewrite Hno in Hsafe; discriminate);
        try (apply is_stop_inv in Hsafe as ->; cbn in Hin; destruct Hin as [<-|[]]; destruct Ht').
      * eapply (IH _ (Hstat x dz)); eassumption.
      * eapply (IH _ (Hguard kd)); eassumption.
      * eapply (IH (set_dirty c)); [reflexivity|eassumption..].
      * eapply (IH (set_dirty c)); [reflexivity|eassumption..].
      * eapply (IH (set_dirty c)); [reflexivity|eassumption..].
      * eapply (IH (set_dirty c)); [reflexivity|eassumption..].
      * eapply (IH (on_depth S c)); [exact Hd|eassumption..].
      * eapply (IH (on_depth pred c)); [exact Hd|eassumption..].
      * eapply (IH (set_dirty c)); [reflexivity|eassumption..].
  - cbn [paths] in Hin. cbn [safe_from] in Hsafe. apply andb_prop in Hsafe as [Ha Hb].
    apply in_app_or in Hin as [Hin|Hin]; [eapply IHa|eapply IHb]; eassumption.
Qed.

Lemma no_throw_after_visible_from sh : forall c, safe_from sh c = true ->
  forall p, In p (paths sh) -> forall a t b, p = a ++ t :: b -> visible t = true ->
  forall t', In t' b -> throwing t' = false.
Proof.
  induction sh as [|t0 k IH|x IHx y IHy]; intros c Hsafe p Hin a t b Hp Hv t' Ht'.
  - cbn in Hin. destruct Hin as [<-|[]]. now destruct a.
  - cbn [paths] in Hin. apply in_map_iff in Hin as (p' & <- & Hin).
    destruct a as [|t1 a]; cbn [app] in Hp; injection Hp as -> ->.
    + (* the visible token is the head: the rest runs in a dirty checker state *)
      destruct t; try discriminate; cbn [safe_from] in Hsafe;
        (eapply (dirty_no_throw k (set_dirty c)); [reflexivity|eassumption..]).
    + destruct t1; cbn [safe_from] in Hsafe;
        try (apply andb_prop in Hsafe as [_ Hsafe]);
        try (apply is_stop_inv in Hsafe as ->; cbn in Hin; destruct Hin as [E|[]];
             now destruct a);
        (eapply IH; [eassumption|eassumption|reflexivity|eassumption|eassumption]).
  - cbn [paths] in Hin. cbn [safe_from] in Hsafe. apply andb_prop in Hsafe as [Hx Hy].
    apply in_app_or in Hin as [Hin|Hin]; [eapply IHx|eapply IHy]; eassumption.
Qed.

(** after the first store into the tree / free / release / adoption of a path, the path contains no
    allocation and no throw *)
Theorem no_throw_after_visible sh : fault_safe sh = true ->
  forall p, In p (paths sh) -> forall a t b, p = a ++ t :: b -> visible t = true ->
  forall t', In t' b -> throwing t' = false.
Proof. intros H. exact (no_throw_after_visible_from sh c_init H). Qed.

(** ** allocation counts *)

Theorem count_allocs_le_max sh : forall p, In p (paths sh) -> (count_allocs p <= max_allocs sh)%nat.
Proof.
  induction sh as [|t k IH|a IHa b IHb]; intros p Hin.
  - cbn in Hin. destruct Hin as [<-|[]]. cbn. lia.
  - cbn [paths] in Hin. apply in_map_iff in Hin as (p' & <- & Hin). specialize (IH p' Hin).
    destruct t; cbn [count_allocs max_allocs]; lia.
  - cbn [paths] in Hin. cbn [max_allocs]. apply in_app_or in Hin as [Hin|Hin];
      [specialize (IHa p Hin)|specialize (IHb p Hin)]; lia.
Qed.

(** ** the deleters of the table are [undo] *)

Theorem deleter_is_undo e : deleter_ok e = true ->
  forall p st hp lv, run_tokens (snd e) (mkst p st hp (fst e :: lv)) = undo (fst e) (mkst p st hp (fst e :: lv)).
Proof.
  destruct e as [k ts]. unfold deleter_ok. cbn [fst snd].
  destruct ts as [|t1 ts]; [discriminate|].
  destruct t1 as [?|? ?|?|?|?|?|k1| |?| |?| | ]; try discriminate.
  destruct ts as [|t2 ts]; [discriminate|].
  destruct t2 as [?|x dz|?|?|?|?|?| |?| |?| | ]; try discriminate. destruct x as [k2| | |]; try discriminate.
  destruct ts as [|t3 ts]; [|discriminate].
  intros H. apply andb_prop in H as [H Hd]. apply andb_prop in H as [H1 H2].
  apply kind_eqb_eq in H1 as <-. apply kind_eqb_eq in H2 as <-. apply Z.eqb_eq in Hd as ->.
  intros p st hp lv. cbn [run_tokens fold_left step undo remove_first tl]. now rewrite kind_eqb_refl.
Qed.

Theorem table_safe_ops t : table_safe t = true ->
  forall name sh, In (name, sh) (ft_ops t) -> fault_safe sh = true.
Proof.
  unfold table_safe. intros H name sh Hin. apply andb_prop in H as [_ H].
  rewrite forallb_forall in H. exact (H _ Hin).
Qed.

Theorem table_safe_deleters t : table_safe t = true ->
  forall e, In e (ft_deleters t) -> deleter_ok e = true.
Proof.
  unfold table_safe. intros H e Hin. apply andb_prop in H as [H _]. apply andb_prop in H as [H _].
  rewrite forallb_forall in H. exact (H _ Hin).
Qed.
