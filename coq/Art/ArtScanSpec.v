(** Specification side of the scans: intervals of the (sorted) entry list,
    and the "visitor halts at its h-th call" truncation.  Definitions only. *)
From Coq Require Import List ZArith Bool.
From Unodb Require Import Base.Lex Art.ArtModel Art.ArtIter Art.ArtSpec.
Import ListNotations.
Local Open Scope Z_scope.

(** what the visitor is shown for an entry: key bytes and value bytes *)
Definition kvs (l : list entry) : list (list Z * list Z) := map (fun e => (fst e, snd (snd e))) l.

(** the scan ends as soon as the visitor returns true: the h-th call (0-based) is the last one *)
Definition take_until {A} (h : option nat) (l : list A) : list A :=
  match h with None => l | Some n => firstn (S n) l end.

Definition entries_lt (a b : entry) : Prop := lex_lt (fst a) (fst b).

(** entries with key >= k / <= k / in [a,b) / in (b,a] *)
Definition ge_key (k : list Z) (e : entry) : bool := lex_leb k (fst e).
Definition le_key (k : list Z) (e : entry) : bool := lex_leb (fst e) k.
Definition in_fwd_range (a b : list Z) (e : entry) : bool := lex_leb a (fst e) && lex_ltb (fst e) b.
Definition in_rev_range (a b : list Z) (e : entry) : bool := lex_ltb b (fst e) && lex_leb (fst e) a.

(** erase leaf identities: the shape of a tree *)
Fixpoint erase (n : node) : node :=
  match n with
  | Leaf _ k v => Leaf 0 k v
  | Inode c p ch => Inode c p ((fix el (l : list (Z * node)) : list (Z * node) :=
                                 match l with [] => [] | (b, c') :: l' => (b, erase c') :: el l' end) ch)
  end.

(** node statistics as functions of the tree *)
Fixpoint count_cls (c0 : cls) (n : node) : Z :=
  match n with
  | Leaf _ _ _ => 0
  | Inode c _ ch =>
      (if cls_eqb c c0 then 1 else 0) +
      (fix cl (l : list (Z * node)) : Z := match l with [] => 0 | (_, c') :: l' => count_cls c0 c' + cl l' end) ch
  end.

Fixpoint tree_mem (sz : sizes) (n : node) : Z :=
  match n with
  | Leaf _ k v => leaf_size sz k v
  | Inode c _ ch =>
      sz_of sz c +
      (fix ml (l : list (Z * node)) : Z := match l with [] => 0 | (_, c') :: l' => tree_mem sz c' + ml l' end) ch
  end.

Definition db_count_cls (c : cls) (d : db) : Z := match root d with None => 0 | Some n => count_cls c n end.
Definition db_tree_mem (sz : sizes) (d : db) : Z := match root d with None => 0 | Some n => tree_mem sz n end.
