(** Allocation-failure model for insert / remove (C08).  Every operation
    first performs all its allocations, in source order (leaf, then inner
    node), and only then touches the tree: a failure at the k-th allocation
    therefore aborts the operation before any change.  The number of
    allocation points of an operation is a function of the structural event
    it performs.  Definitions and the (by-construction) proofs. *)
From Coq Require Import List ZArith Bool Lia.
From Unodb Require Import Base.Lex Art.ArtModel.
Import ListNotations.
Local Open Scope Z_scope.

(** allocations made by an operation performing structural event e:
    insert: the leaf, plus the new inner node for a leaf split, a prefix
    split or a growth; remove: the smaller node when an N16/N48/N256 shrinks *)
Definition ev_allocs (e : ev) : nat :=
  match e with
  | ERootLeaf | EAdd _ => 1
  | ELeafSplit | EPrefixSplit | EGrow _ => 2
  | EShrink C4 => 0
  | EShrink _ => 1
  | _ => 0
  end%nat.

Definition db_insert_allocs (d : db) (k v : list Z) : res nat :=
  match root d with
  | None => Ok 1%nat
  | Some n =>
      r <- insert_go (fuel_for k) n k v (next_id d) O ;;
      Ok (match r with None => O | Some (_, e) => ev_allocs e end)
  end.

Definition db_remove_allocs (d : db) (k : list Z) : res nat :=
  match root d with
  | None => Ok O
  | Some (Leaf _ _ _) => Ok O
  | Some n =>
      r <- remove_go (fuel_for k) n k O ;;
      Ok (match r with RmNotFound => O | RmReplaced _ e => ev_allocs e end)
  end.

Inductive outcome := Done (d : db) (b : bool) | Raised (d : db).

(** [fail = Some k]: the k-th allocation made by this operation (and every later one) fails *)
Definition db_insert_fault (fail : option nat) (sz : sizes) (d : db) (k v : list Z) : res outcome :=
  n <- db_insert_allocs d k v ;;
  match fail with
  | Some j => if (Nat.leb 1 j && Nat.leb j n)%bool then Ok (Raised d)
              else r <- db_insert sz d k v ;; Ok (Done (fst r) (snd r))
  | None => r <- db_insert sz d k v ;; Ok (Done (fst r) (snd r))
  end.

Definition db_remove_fault (fail : option nat) (sz : sizes) (d : db) (k : list Z) : res outcome :=
  n <- db_remove_allocs d k ;;
  match fail with
  | Some j => if (Nat.leb 1 j && Nat.leb j n)%bool then Ok (Raised d)
              else r <- db_remove sz d k ;; Ok (Done (fst r) (snd r))
  | None => r <- db_remove sz d k ;; Ok (Done (fst r) (snd r))
  end.

(** A failed insert leaves the index exactly as it was, and repeating it
    without the fault gives the normal result. *)
Theorem insert_fault_strong sz d k v j d' :
  db_insert_fault (Some j) sz d k v = Ok (Raised d') ->
  d' = d /\ db_insert_fault None sz d' k v = (r <- db_insert sz d k v ;; Ok (Done (fst r) (snd r))).
Proof.
  unfold db_insert_fault. destruct (db_insert_allocs d k v) as [n|e] eqn:A; cbn [bind]; [|discriminate].
  destruct (Nat.leb 1 j && Nat.leb j n)%bool.
  - intros H. injection H as <-. split; [reflexivity|]. rewrite A. reflexivity.
  - destruct (db_insert sz d k v); cbn [bind]; discriminate.
Qed.

Theorem remove_fault_strong sz d k j d' :
  db_remove_fault (Some j) sz d k = Ok (Raised d') ->
  d' = d /\ db_remove_fault None sz d' k = (r <- db_remove sz d k ;; Ok (Done (fst r) (snd r))).
Proof.
  unfold db_remove_fault. destruct (db_remove_allocs d k) as [n|e] eqn:A; cbn [bind]; [|discriminate].
  destruct (Nat.leb 1 j && Nat.leb j n)%bool.
  - intros H. injection H as <-. split; [reflexivity|]. rewrite A. reflexivity.
  - destruct (db_remove sz d k); cbn [bind]; discriminate.
Qed.

(** a fault beyond the allocations the operation makes does not occur *)
Theorem insert_fault_beyond sz d k v j n :
  db_insert_allocs d k v = Ok n -> (n < j)%nat ->
  db_insert_fault (Some j) sz d k v = db_insert_fault None sz d k v.
Proof.
  intros A Hj. unfold db_insert_fault. rewrite A. cbn [bind].
  replace (Nat.leb j n) with false by (symmetry; apply Nat.leb_gt; lia). now rewrite andb_false_r.
Qed.

(** an operation allocates at most twice, and a no-op (duplicate insert,
    absent remove) never allocates *)
Theorem ev_allocs_bound e : (ev_allocs e <= 2)%nat.
Proof. destruct e as [| | | | |c|c|[| | |]|]; cbn; lia. Qed.

Theorem insert_noop_no_alloc d k v n :
  db_insert_allocs d k v = Ok n -> (forall sz, exists d', db_insert sz d k v = Ok (d', false)) -> n = O.
Proof.
  unfold db_insert_allocs, db_insert. intros A H. destruct (H {| sz_leaf := 0; sz4 := 0; sz16 := 0; sz48 := 0; sz256 := 0 |}) as (d' & E).
  destruct (root d) as [nd|]; [|discriminate].
  destruct (insert_go (fuel_for k) nd k v (next_id d) 0) as [[[n' e]|]|er]; cbn [bind] in *; try discriminate.
  now injection A as <-.
Qed.
