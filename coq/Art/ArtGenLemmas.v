(** Lemmas for the variable-length (prefix-free) generalisation of the ART
    proofs: reflection of the boolean hypotheses, the padded comparison on
    operands shorter than the compared length, and the structural
    consequences of [WFg]. *)
From Coq Require Import List ZArith Bool Lia Sorted Permutation.
From Unodb Require Import Base.Lex Art.ArtModel Art.ArtIter Art.ArtSpec Art.ArtInv Art.ArtLemmas
  Art.ArtGenInv.
Import ListNotations.

(** * reflection of the boolean hypotheses *)

Lemma is_byteb_iff b : is_byteb b = true <-> is_byte_z b.
Proof. unfold is_byteb, is_byte_z. rewrite andb_true_iff, Z.leb_le, Z.ltb_lt. tauto. Qed.

Lemma bytesb_iff k : bytesb k = true <-> Forall is_byte_z k.
Proof.
  unfold bytesb. rewrite forallb_forall, Forall_forall.
  split; intros H x Hx; apply is_byteb_iff; auto.
Qed.

Lemma is_pre_ext a b : is_pre a b <-> ext a b.
Proof. reflexivity. Qed.

Lemma is_prefix_iff a : forall b, is_prefix a b = true <-> is_pre a b.
Proof.
  unfold is_pre. induction a as [|x a IH]; intros b; cbn [is_prefix length firstn].
  - split; reflexivity.
  - destruct b as [|y b]; [split; discriminate|].
    rewrite andb_true_iff, Z.eqb_eq, IH. split.
    + intros [-> ->]. reflexivity.
    + intros H. injection H as -> H. split; [reflexivity|exact H].
Qed.

Lemma pfree2_iff a b : pfree2 a b = true <-> pf2 a b.
Proof.
  unfold pfree2, pf2. rewrite orb_true_iff, negb_true_iff, orb_false_iff, lex_eqb_eq.
  split.
  - intros [->|[H1 H2]] H; [reflexivity|].
    destruct H as [H|H]; apply is_prefix_iff in H; congruence.
  - intros H. destruct (is_prefix a b) eqn:E1.
    + left. apply H. left. now apply is_prefix_iff.
    + destruct (is_prefix b a) eqn:E2.
      * left. apply H. right. now apply is_prefix_iff.
      * right. split; reflexivity.
Qed.

Lemma pfreeb_iff k l : pfreeb k l = true <-> pfk k l.
Proof.
  unfold pfreeb, pfk. rewrite forallb_forall, Forall_forall.
  split; intros H x Hx; apply pfree2_iff; auto.
Qed.

Lemma pf2_refl a : pf2 a a.
Proof. intros _. reflexivity. Qed.

Lemma pf2_sym a b : pf2 a b -> pf2 b a.
Proof. unfold pf2. intros H H1. symmetry. apply H. tauto. Qed.

Lemma is_pre_same_length a b : is_pre a b -> length a = length b -> a = b.
Proof. intros H HL. symmetry. now apply ext_same_length. Qed.

Lemma pf2_same_length a b : length a = length b -> pf2 a b.
Proof.
  intros HL [H|H]; [now apply is_pre_same_length|symmetry; now apply is_pre_same_length].
Qed.

(** prefix relation on the remainders lifts to the keys *)
Lemma is_pre_skipn pi k k' : ext pi k -> ext pi k' ->
  is_pre (skipn (length pi) k) (skipn (length pi) k') -> is_pre k k'.
Proof.
  intros [s ->]%ext_iff [s' ->]%ext_iff.
  rewrite !skipn_app, !Nat.sub_diag, !skipn_all. cbn [skipn app].
  intros H. apply is_pre_ext, ext_iff in H. destruct H as [t ->].
  apply is_pre_ext, ext_iff. exists t. now rewrite app_assoc.
Qed.

Lemma skipn_eq_ext pi k k' : ext pi k -> ext pi k' ->
  skipn (length pi) k = skipn (length pi) k' -> k = k'.
Proof. intros [s ->]%ext_iff [s' ->]%ext_iff. rewrite !skipn_app, !Nat.sub_diag, !skipn_all. cbn. now intros ->. Qed.

(** * the padded comparison on short operands *)

Lemma common_pad_sym n : forall a b, common_pad n a b = common_pad n b a.
Proof.
  induction n as [|n IH]; intros a b; cbn [common_pad]; [reflexivity|].
  rewrite (Z.eqb_sym (hd 0%Z a)). now rewrite IH.
Qed.

Lemma common_pad_firstn n : forall a b,
  common_pad n a b <= length a -> common_pad n a b <= length b ->
  firstn (common_pad n a b) a = firstn (common_pad n a b) b.
Proof.
  induction n as [|n IH]; intros a b; cbn [common_pad]; [reflexivity|].
  destruct (Z.eqb_spec (hd 0%Z a) (hd 0%Z b)) as [He|Hne]; [|reflexivity].
  destruct a as [|x a]; [cbn; lia|]. destruct b as [|y b]; [cbn; lia|].
  cbn [hd tl length firstn] in *. intros Ha Hb. subst y. f_equal. apply IH; lia.
Qed.

(** the comparison ran past the end of [b] (into the zero padding): [b] is a
    prefix of [a] *)
Lemma common_pad_short_r n : forall a b,
  length b <= common_pad n a b -> length b <= length a -> firstn (length b) a = b.
Proof.
  induction n as [|n IH]; intros a b; cbn [common_pad].
  - intros H _. destruct b; [reflexivity|cbn in H; lia].
  - destruct b as [|y b]; [reflexivity|].
    destruct a as [|x a]; [cbn; lia|]. cbn [hd tl length firstn].
    destruct (Z.eqb_spec x y) as [->|Hne]; [|lia].
    intros H1 H2. f_equal. apply IH; lia.
Qed.

Lemma common_pad_short_l n a b :
  length a <= common_pad n a b -> length a <= length b -> firstn (length a) b = a.
Proof. rewrite common_pad_sym. apply common_pad_short_r. Qed.

Lemma common_pad_diff n : forall a b,
  common_pad n a b < n -> common_pad n a b < length a -> common_pad n a b < length b ->
  exists x y, nth_error a (common_pad n a b) = Some x /\
              nth_error b (common_pad n a b) = Some y /\ x <> y.
Proof.
  induction n as [|n IH]; intros a b; cbn [common_pad]; [lia|].
  destruct a as [|x a]; [cbn; lia|]. destruct b as [|y b]; [cbn; destruct (Z.eqb _ _); lia|].
  cbn [hd tl length]. destruct (Z.eqb_spec x y) as [->|Hne].
  - intros H1 H2 H3. destruct (IH a b ltac:(lia) ltac:(lia) ltac:(lia)) as (x' & y' & ? & ? & ?).
    exists x', y'. cbn [nth_error]. now repeat split.
  - intros _ _ _. exists x, y. cbn. now repeat split.
Qed.

(** * WFg unfolded *)

Definition WFgch (pi p : list Z) (ch : list (Z * node)) : Prop :=
  Forall (fun bc => is_byte_z (fst bc) /\ WFg (snd bc) (pi ++ p ++ [fst bc])) ch.

Lemma WFg_inode c p ch pi :
  WFg (Inode c p ch) pi <->
  length p <= prefix_capacity /\ Forall is_byte_z p /\
  keys_sorted ch /\ (min_size c <= length ch <= cap c) /\ WFgch pi p ch.
Proof.
  cbn [WFg].
  assert (H : (fix wfl (l : list (Z * node)) : Prop :=
         match l with
         | [] => True
         | (b, c') :: l' => is_byte_z b /\ WFg c' (pi ++ p ++ [b]) /\ wfl l'
         end) ch <-> WFgch pi p ch).
  { unfold WFgch. induction ch as [|[b c'] ch IH].
    - split; [constructor|trivial].
    - rewrite Forall_cons_iff. cbn [fst snd]. rewrite <- IH. tauto. }
  rewrite H. tauto.
Qed.

Lemma WFg_leaf id k v pi : WFg (Leaf id k v) pi <-> Forall is_byte_z k /\ ext pi k.
Proof. reflexivity. Qed.

Global Opaque WFg.

(** * structural consequences of WFg *)

Lemma WFg_leaves n : forall pi, WFg n pi ->
  Forall (fun e : entry => Forall is_byte_z (fst e) /\ ext pi (fst e)) (leaves n).
Proof.
  induction n as [id k v|c p ch IH] using node_ind2; intros pi H.
  - apply WFg_leaf in H. cbn [leaves]. constructor; [exact H|constructor].
  - apply WFg_inode in H. destruct H as (_ & _ & _ & _ & H).
    rewrite leaves_inode. unfold cleaves. apply Forall_flat_map.
    unfold WFgch in H. rewrite Forall_forall in *. intros [b c'] Hin.
    specialize (IH _ Hin). specialize (H _ Hin). cbn [fst snd] in *. destruct H as [_ H].
    specialize (IH _ H). rewrite Forall_forall in *. intros e He. destruct (IH e He) as [H1 H2].
    split; [exact H1|]. now apply ext_app_l in H2.
Qed.

Lemma WFgch_tags pi p ch : WFgch pi p ch -> Forall (byte_tag (length pi + length p)) ch.
Proof.
  unfold WFgch. rewrite !Forall_forall. intros H [b c'] Hin e He. cbn [fst snd] in *.
  destruct (H _ Hin) as [_ H1]. cbn [fst snd] in H1.
  apply WFg_leaves in H1. rewrite Forall_forall in H1. destruct (H1 e He) as [_ H2].
  rewrite app_assoc in H2. apply ext_snoc_inv in H2. rewrite app_length in H2. tauto.
Qed.

Lemma WFgch_ext pi p ch e : WFgch pi p ch -> In e (cleaves ch) ->
  Forall is_byte_z (fst e) /\ ext (pi ++ p) (fst e) /\ length pi + length p < length (fst e).
Proof.
  unfold WFgch, cleaves. rewrite Forall_forall. intros H He.
  apply in_flat_map in He. destruct He as ([b c'] & Hin & He). cbn [snd] in He.
  destruct (H _ Hin) as [_ H1]. cbn [fst snd] in H1.
  apply WFg_leaves in H1. rewrite Forall_forall in H1. destruct (H1 e He) as [H2 H3].
  split; [exact H2|]. split.
  - rewrite app_assoc in H3. now apply ext_app_l in H3.
  - apply ext_length in H3. rewrite !app_length in H3. cbn [length] in H3. lia.
Qed.

(** path + prefix of an inner node is strictly shorter than every key below *)
Lemma WFg_shorter c p ch pi e : WFg (Inode c p ch) pi -> In e (leaves (Inode c p ch)) ->
  ext (pi ++ p) (fst e) /\ length pi + length p < length (fst e).
Proof.
  intros H He. apply WFg_inode in H. destruct H as (_ & _ & _ & _ & H).
  rewrite leaves_inode in He. destruct (WFgch_ext _ _ _ _ H He) as (_ & H1 & H2). now split.
Qed.

Lemma WFg_nodup n : forall pi, WFg n pi -> NoDup (map fst (leaves n)).
Proof.
  induction n as [id k v|c p ch IH] using node_ind2; intros pi H.
  - cbn. repeat constructor. intros [].
  - apply WFg_inode in H. destruct H as (_ & _ & HS & _ & H).
    rewrite leaves_inode. eapply tags_nodup.
    + eapply WFgch_tags; exact H.
    + apply ssorted_nodup. exact HS.
    + unfold WFgch in H. rewrite Forall_forall in *. intros bc Hin. destruct (H _ Hin) as [_ H1].
      eapply IH; eassumption.
Qed.

Lemma WFg_nonempty n : forall pi, WFg n pi -> leaves n <> [].
Proof.
  induction n as [id k v|c p ch IH] using node_ind2; intros pi H.
  - discriminate.
  - apply WFg_inode in H. destruct H as (_ & _ & _ & Hsz & H).
    rewrite leaves_inode. destruct ch as [|[b c'] ch]; [cbn in Hsz; destruct c; cbn in Hsz; lia|].
    apply Forall_cons_iff in IH. destruct IH as [IH _].
    apply Forall_cons_iff in H. destruct H as [[_ H] _]. cbn [fst snd] in *.
    unfold cleaves. cbn [flat_map snd]. intros HE. apply app_eq_nil in HE. destruct HE as [HE _].
    exact (IH _ H HE).
Qed.

Lemma nodup_fst_fun {A B} (l : list (A * B)) a x y :
  NoDup (map fst l) -> In (a, x) l -> In (a, y) l -> x = y.
Proof.
  induction l as [|[a' z] l IH]; cbn [map fst In]; intros ND H1 H2; [contradiction|].
  apply NoDup_cons_iff in ND. destruct ND as [Hn ND].
  destruct H1 as [H1|H1]; destruct H2 as [H2|H2].
  - congruence.
  - injection H1 as -> ->. exfalso. apply Hn. change a with (fst (a, y)). now apply in_map.
  - injection H2 as -> ->. exfalso. apply Hn. change a with (fst (a, x)). now apply in_map.
  - now apply IH.
Qed.

(** the key set of a well-formed tree is prefix-free: two keys of which one
    is a prefix of the other are equal *)
Lemma WFg_prefix_eq n : forall pi e1 e2, WFg n pi -> In e1 (leaves n) -> In e2 (leaves n) ->
  is_pre (fst e1) (fst e2) -> fst e1 = fst e2.
Proof.
  induction n as [id k v|c p ch IH] using node_ind2; intros pi e1 e2 H H1 H2 Hpre.
  - cbn [leaves In] in H1, H2. destruct H1 as [<-|[]]. destruct H2 as [<-|[]]. reflexivity.
  - apply WFg_inode in H. destruct H as (_ & _ & HS & _ & H).
    assert (HT := WFgch_tags _ _ _ H). rewrite leaves_inode in H1, H2.
    unfold cleaves in H1, H2. apply in_flat_map in H1, H2.
    destruct H1 as ([b1 c1] & Hin1 & H1). destruct H2 as ([b2 c2] & Hin2 & H2). cbn [snd] in *.
    rewrite Forall_forall in HT.
    assert (T1 := HT _ Hin1 e1 H1). assert (T2 := HT _ Hin2 e2 H2). cbn [fst snd] in T1, T2.
    assert (Hb : b1 = b2).
    { apply is_pre_ext, ext_iff in Hpre. destruct Hpre as [t Ht]. rewrite Ht in T2.
      rewrite nth_error_app1 in T2 by (apply nth_error_Some; congruence). congruence. }
    subst b2.
    assert (c1 = c2) by (eapply nodup_fst_fun; [apply ssorted_nodup; exact HS|eassumption|eassumption]).
    subst c2. rewrite Forall_forall in IH. unfold WFgch in H. rewrite Forall_forall in H.
    destruct (H _ Hin1) as [_ Hc]. cbn [fst snd] in Hc.
    exact (IH _ Hin1 _ e1 e2 Hc H1 H2 Hpre).
Qed.

Lemma WFg_pairwise n pi e1 e2 : WFg n pi -> In e1 (leaves n) -> In e2 (leaves n) ->
  pf2 (fst e1) (fst e2).
Proof.
  intros H H1 H2 [Hp|Hp].
  - eapply WFg_prefix_eq; eassumption.
  - symmetry. eapply WFg_prefix_eq; eassumption.
Qed.

(** the fixed-length invariant is an instance *)
Lemma WF_WFg L n : forall pi, WF L n pi -> WFg n pi.
Proof.
  induction n as [id k v|c p ch IH] using node_ind2; intros pi H.
  - apply WF_leaf in H. destruct H as [[_ H1] H2]. apply WFg_leaf. now split.
  - apply WF_inode in H. destruct H as (_ & H2 & H3 & HS & Hsz & H).
    apply WFg_inode. repeat split; try assumption; try lia.
    unfold WFch in H. unfold WFgch. rewrite Forall_forall in *. intros bc Hin.
    destruct (H _ Hin) as [Hb Hc]. split; [exact Hb|]. exact (IH _ Hin _ Hc).
Qed.
