(** C08b: facts about the REGENERATED effect table (coq/Gen/GenFaultShape.v) that need more than one
    computation step; stated again, closed by [exact], in Properties_C08b.v. *)
From Coq Require Import List ZArith Bool String.
From Unodb Require Import Art.ArtModel Art.ArtFault Art.FaultShape Art.FaultShapeProofs Gen.GenFaultShape.
Import ListNotations.
Local Open Scope string_scope.

Lemma gen_alloc_counts :
  max_allocs (find_op (ft_ops gen_fault_table) "insert_internal") = 2%nat /\
  max_allocs (find_op (ft_ops gen_fault_table) "remove_internal") = 1%nat /\
  (forall e, (ev_allocs e <= max_allocs (find_op (ft_ops gen_fault_table) "insert_internal"))%nat) /\
  (forall c, (ev_allocs (EShrink c) <= max_allocs (find_op (ft_ops gen_fault_table) "remove_internal"))%nat) /\
  ev_allocs ELeafSplit = 2%nat /\ ev_allocs (EShrink C16) = 1%nat /\
  (forall name sh, In (name, sh) (ft_ops gen_fault_table) ->
     forall p, In p (paths sh) -> (count_allocs p <= max_allocs sh)%nat).
Proof.
  assert (Hi : max_allocs (find_op (ft_ops gen_fault_table) "insert_internal") = 2%nat) by (vm_compute; reflexivity).
  assert (Hr : max_allocs (find_op (ft_ops gen_fault_table) "remove_internal") = 1%nat) by (vm_compute; reflexivity).
  split; [exact Hi|]. split; [exact Hr|]. rewrite Hi, Hr.
  split; [exact ev_allocs_bound|].
  split; [intros c; destruct c; cbn; auto|].
  split; [reflexivity|]. split; [reflexivity|].
  intros name sh _ p Hp. exact (count_allocs_le_max sh p Hp).
Qed.
