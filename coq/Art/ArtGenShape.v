(** Canonical shape for trees satisfying the generalised invariant [WFg]
    (variable-length prefix-free keys): the class is the one the fan-out
    requires, and two [WFg] trees below the same path holding the same
    entries have the same shape. *)
From Coq Require Import List ZArith Bool Lia Sorted Permutation.
From Unodb Require Import Base.Lex Art.ArtModel Art.ArtIter Art.ArtSpec Art.ArtInv
  Art.ArtLemmas Art.ArtProofs Art.ArtScanSpec Art.ArtShapeProofs Art.ArtGenInv Art.ArtGenLemmas.
Import ListNotations.

Theorem class_by_fanout_g : forall c p ch pi, WFg (Inode c p ch) pi ->
  c = (if (length ch <=? 4) then C4 else if (length ch <=? 16) then C16
       else if (length ch <=? 48) then C48 else C256) /\ (2 <= length ch <= 256).
Proof.
  intros c p ch pi H. apply WFg_inode in H. destruct H as (_ & _ & _ & Hsz & _).
  destruct c; cbn [min_size cap] in Hsz;
    destruct (Nat.leb_spec (length ch) 4); destruct (Nat.leb_spec (length ch) 16);
    destruct (Nat.leb_spec (length ch) 48); try (exfalso; lia); (split; [reflexivity|lia]).
Qed.


Lemma WFgch_nonempty pi p ch : WFgch pi p ch -> Forall (fun bc => leaves (snd bc) <> []) ch.
Proof.
  unfold WFgch. intros H. eapply Forall_impl; [|exact H]. cbn beta. intros bc [_ Hc].
  eapply WFg_nonempty; exact Hc.
Qed.


(** an inner node has two entries that differ right after its prefix *)
Lemma inode_two_diff_g c p ch pi : WFg (Inode c p ch) pi ->
  exists e e' b b', In e (cleaves ch) /\ In e' (cleaves ch) /\
    nth_error (fst e) (length pi + length p) = Some b /\
    nth_error (fst e') (length pi + length p) = Some b' /\ b <> b'.
Proof.
  intros H. apply WFg_inode in H. destruct H as (_ & _ & HS & Hsz & Hch).
  assert (HT := WFgch_tags _ _ _ Hch). assert (HN := WFgch_nonempty _ _ _ Hch).
  destruct ch as [|[b c1] [|[b' c2] r]]; try (exfalso; destruct c; cbn in Hsz; lia).
  apply Forall_cons_iff in HT. destruct HT as [Ht1 HT]. apply Forall_cons_iff in HT. destruct HT as [Ht2 _].
  apply Forall_cons_iff in HN. destruct HN as [Hn1 HN]. apply Forall_cons_iff in HN. destruct HN as [Hn2 _].
  unfold byte_tag in Ht1, Ht2. cbn [fst snd] in *.
  destruct (leaves c1) as [|e l1] eqn:E1; [congruence|].
  destruct (leaves c2) as [|e' l2] eqn:E2; [congruence|].
  exists e, e', b, b'. unfold cleaves. cbn [flat_map snd]. rewrite E1, E2.
  split; [now left|]. split; [apply in_or_app; right; now left|].
  split; [apply Ht1; now left|]. split; [apply Ht2; now left|].
  unfold keys_sorted in HS. cbn [map fst] in HS. apply StronglySorted_inv in HS. destruct HS as [_ HS].
  apply Forall_cons_iff in HS. lia.
Qed.


Lemma prefix_len_le_g c p ch pi p2 : WFg (Inode c p ch) pi ->
  (forall e, In e (cleaves ch) -> ext (pi ++ p2) (fst e)) -> length p2 <= length p.
Proof.
  intros HWF H. destruct (Nat.le_gt_cases (length p2) (length p)) as [Hle|Hgt]; [exact Hle|exfalso].
  destruct (inode_two_diff_g _ _ _ _ HWF) as (e & e' & b & b' & He & He' & Hb & Hb' & Hne).
  rewrite (ext_nth pi p2 _ _ (H e He) Hgt) in Hb. rewrite (ext_nth pi p2 _ _ (H e' He') Hgt) in Hb'.
  congruence.
Qed.


Theorem shape_unique_g : forall t1 t2 pi, WFg t1 pi -> WFg t2 pi ->
  kvs (leaves t1) = kvs (leaves t2) -> erase t1 = erase t2.
Proof.
  intros t1 t2 pi. revert t2 pi.
  induction t1 as [id1 k1 v1|c1 p1 ch1 IH] using node_ind2; intros t2 pi H1 H2 HK.
  - destruct t2 as [id2 k2 v2|c2 p2 ch2].
    + cbn in HK. injection HK as -> ->. reflexivity.
    + exfalso. destruct (inode_two_diff_g _ _ _ _ H2) as (e & e' & b & b' & He & He' & Hb & Hb' & Hne).
      rewrite leaves_inode in HK. cbn [leaves kvs map] in HK.
      destruct (cleaves ch2) as [|x [|y l]]; try discriminate.
      destruct He as [<-|[]]. destruct He' as [<-|[]]. congruence.
  - destruct t2 as [id2 k2 v2|c2 p2 ch2].
    + exfalso. destruct (inode_two_diff_g _ _ _ _ H1) as (e & e' & b & b' & He & He' & Hb & Hb' & Hne).
      rewrite leaves_inode in HK. cbn [leaves kvs map] in HK.
      destruct (cleaves ch1) as [|x [|y l]]; try discriminate.
      destruct He as [<-|[]]. destruct He' as [<-|[]]. congruence.
    + rewrite !leaves_inode in HK.
      assert (W1 := H1). assert (W2 := H2).
      apply WFg_inode in W1. destruct W1 as (_ & _ & HS1 & _ & Hch1).
      apply WFg_inode in W2. destruct W2 as (_ & _ & HS2 & _ & Hch2).
      (* the prefixes agree *)
      assert (E12 : forall e, In e (cleaves ch1) -> ext (pi ++ p2) (fst e)).
      { intros e He. destruct (same_keys_in _ _ e HK He) as (e2 & He2 & <-).
        exact (proj1 (proj2 (WFgch_ext _ _ _ _ Hch2 He2))). }
      assert (E21 : forall e, In e (cleaves ch2) -> ext (pi ++ p1) (fst e)).
      { intros e He. destruct (same_keys_in _ _ e (eq_sym HK) He) as (e2 & He2 & <-).
        exact (proj1 (proj2 (WFgch_ext _ _ _ _ Hch1 He2))). }
      assert (Hlen : length p1 = length p2).
      { assert (A := prefix_len_le_g _ _ _ _ _ H1 E12). assert (B := prefix_len_le_g _ _ _ _ _ H2 E21). lia. }
      assert (Hp : p1 = p2).
      { destruct (inode_two_diff_g _ _ _ _ H1) as (e & _ & _ & _ & He & _).
        assert (A := proj1 (proj2 (WFgch_ext _ _ _ _ Hch1 He))). assert (B := E12 e He).
        assert (C := ext_same_len _ _ _ A B ltac:(rewrite !app_length; lia)).
        now apply app_inv_head in C. }
      subst p2.
      (* the children agree *)
      assert (HF : Forall2 same_child ch1 ch2).
      { apply (children_determined (length pi + length p1)).
        - eapply WFgch_tags; exact Hch1.
        - eapply WFgch_tags; exact Hch2.
        - apply ssorted_nodup; exact HS1.
        - apply ssorted_nodup; exact HS2.
        - eapply WFgch_nonempty; exact Hch1.
        - eapply WFgch_nonempty; exact Hch2.
        - exact HK. }
      assert (Hc : c1 = c2).
      { rewrite (proj1 (class_by_fanout_g _ _ _ _ H1)), (proj1 (class_by_fanout_g _ _ _ _ H2)).
        now rewrite (Forall2_length' _ _ _ HF). }
      subst c2. rewrite !erase_inode. f_equal.
      clear H1 H2 HK HS1 HS2 E12 E21 Hlen.
      induction HF as [|[b1 n1] [b2 n2] r1 r2 [Hb Hk] HF IHF]; [reflexivity|].
      cbn [fst snd] in *. subst b2.
      apply Forall_cons_iff in IH. destruct IH as [IH1 IH]. cbn [snd] in IH1.
      unfold WFgch in Hch1, Hch2.
      apply Forall_cons_iff in Hch1. destruct Hch1 as [[_ Hn1] Hch1].
      apply Forall_cons_iff in Hch2. destruct Hch2 as [[_ Hn2] Hch2]. cbn [fst snd] in *.
      cbn [map fst snd]. f_equal.
      * f_equal. exact (IH1 n2 _ Hn1 Hn2 Hk).
      * apply IHF; assumption.
Qed.


(** the statistics invariant of ArtShapeProofs needs no hypothesis on the
    history at all (an [Err] step leaves the state unchanged) *)
Theorem stats_are_tree_functions_all : forall sz ops,
  let d := run_state sz db0 ops in
  n_leaf (st d) = Z.of_nat (length (db_leaves d)) /\
  (forall c, n_i (st d) c = db_count_cls c d) /\
  mem (st d) = db_tree_mem sz d.
Proof.
  intros sz ops. apply run_SInv. unfold SInv. cbn. repeat split.
Qed.
