(** Iterator stack semantics for trees satisfying the generalised invariant
    [WFg] (variable-length prefix-free keys).  Same statements and proofs as
    ArtIterStack.v with "some [WF L]" replaced by "some [WFg]"; the stack
    denotations ([rest_fwd], [pos_fwd], ...) are shared. *)
From Coq Require Import List ZArith Bool Lia Sorted Permutation.
From Unodb Require Import Base.Lex Art.ArtModel Art.ArtIter Art.ArtSpec Art.ArtInv Art.ArtLemmas
  Art.ArtProofs Art.ArtScanSpec Art.ArtIterLemmas Art.ArtIterStack Art.ArtGenInv Art.ArtGenLemmas.
Import ListNotations.

Definition wfng (n : node) : Prop := exists pi, WFg n pi.

Lemma wfn_children_g c p ch : wfng (Inode c p ch) -> ch <> [] /\ Forall (fun bc => wfng (snd bc)) ch.
Proof.
  intros (pi & H). apply WFg_inode in H. destruct H as (_ & _ & _ & Hsz & H). split.
  - intros ->. destruct c; cbn in Hsz; lia.
  - unfold WFgch in H. eapply Forall_impl; [|exact H]. cbn beta. intros bc [_ Hbc].
    exists (pi ++ p ++ [fst bc]). exact Hbc.
Qed.

Definition frame_okg (f : frame) : Prop :=
  match f with FI n i => wfng n /\ i < length (children n) | FL _ => True end.
Definition stack_okg (stk : stack) : Prop := Forall frame_okg stk.

(** * left_most / right_most *)

Lemma left_most_spec_g : forall fuel n stk, height n < fuel -> wfng n -> stack_okg stk ->
  exists stk', left_most fuel n stk = Ok stk' /\ stack_okg stk' /\ is_pos stk' /\
    pos_fwd stk' = leaves n ++ rest_fwd stk /\ rest_rev stk' = rest_rev stk.
Proof.
  induction fuel as [|f IH]; intros n stk Hh Hn Hs; [lia|].
  destruct n as [id k v|c p ch].
  - cbn [left_most]. eexists. split; [reflexivity|]. split; [constructor; [exact I|exact Hs]|].
    split; [exact I|]. split; reflexivity.
  - destruct (wfn_children_g _ _ _ Hn) as [Hne Hch].
    destruct ch as [|[b c0] ch]; [contradiction|]. cbn [left_most].
    assert (Hc0 : wfng c0) by (apply Forall_cons_iff in Hch; exact (proj1 Hch)).
    assert (Hh0 : height c0 < f).
    { assert (X := height_child c p ((b, c0) :: ch) (b, c0) (or_introl eq_refl)). cbn [snd] in X. lia. }
    assert (Hs' : stack_okg (FI (Inode c p ((b, c0) :: ch)) 0 :: stk)).
    { constructor; [|exact Hs]. split; [exact Hn|]. cbn [children length]. lia. }
    destruct (IH c0 _ Hh0 Hc0 Hs') as (stk' & E & H1 & H2 & H3 & H4).
    exists stk'. split; [exact E|]. split; [exact H1|]. split; [exact H2|]. split.
    + rewrite H3. cbn [rest_fwd children skipn]. rewrite leaves_inode, cleaves_cons.
      now rewrite app_assoc.
    + rewrite H4. reflexivity.
Qed.

Lemma right_most_spec_g : forall fuel n stk, height n < fuel -> wfng n -> stack_okg stk ->
  exists stk', right_most fuel n stk = Ok stk' /\ stack_okg stk' /\ is_pos stk' /\
    pos_rev stk' = rev (leaves n) ++ rest_rev stk /\ rest_fwd stk' = rest_fwd stk.
Proof.
  induction fuel as [|f IH]; intros n stk Hh Hn Hs; [lia|].
  destruct n as [id k v|c p ch].
  - cbn [right_most]. eexists. split; [reflexivity|]. split; [constructor; [exact I|exact Hs]|].
    split; [exact I|]. split; reflexivity.
  - destruct (wfn_children_g _ _ _ Hn) as [Hne Hch]. cbn [right_most].
    destruct (nth_error ch (pred (length ch))) as [[b c0]|] eqn:En.
    2:{ apply nth_error_None in En. destruct ch; [contradiction|cbn [length] in En; lia]. }
    assert (Hin : In (b, c0) ch) by (eapply nth_error_In; exact En).
    assert (Hc0 : wfng c0) by (rewrite Forall_forall in Hch; exact (Hch _ Hin)).
    assert (Hh0 : height c0 < f).
    { assert (X := height_child c p ch (b, c0) Hin). cbn [snd] in X. lia. }
    assert (Hlen : pred (length ch) < length ch) by (apply nth_error_Some; congruence).
    assert (Hs' : stack_okg (FI (Inode c p ch) (pred (length ch)) :: stk)).
    { constructor; [|exact Hs]. split; [exact Hn|]. exact Hlen. }
    destruct (IH c0 _ Hh0 Hc0 Hs') as (stk' & E & H1 & H2 & H3 & H4).
    exists stk'. split; [exact E|]. split; [exact H1|]. split; [exact H2|].
    destruct (cleaves_nth _ _ _ _ En) as [_ X2].
    replace (S (pred (length ch))) with (length ch) in X2 by lia. rewrite firstn_all in X2.
    split.
    + rewrite H3. cbn [rest_rev children]. rewrite leaves_inode, X2, rev_app_distr.
      now rewrite app_assoc.
    + rewrite H4. cbn [rest_fwd children].
      replace (S (pred (length ch))) with (length ch) by lia. rewrite skipn_all. reflexivity.
Qed.

Lemma lm_spec_g n stk : wfng n -> stack_okg stk ->
  exists stk', lm n stk = Ok stk' /\ stack_okg stk' /\ is_pos stk' /\
    pos_fwd stk' = leaves n ++ rest_fwd stk /\ rest_rev stk' = rest_rev stk.
Proof. intros. apply left_most_spec_g; [lia|assumption|assumption]. Qed.

Lemma rm_spec_g n stk : wfng n -> stack_okg stk ->
  exists stk', rm n stk = Ok stk' /\ stack_okg stk' /\ is_pos stk' /\
    pos_rev stk' = rev (leaves n) ++ rest_rev stk /\ rest_fwd stk' = rest_fwd stk.
Proof. intros. apply right_most_spec_g; [lia|assumption|assumption]. Qed.

(** * next / prior *)

Lemma it_next_spec_g stk : stack_okg stk ->
  exists stk', it_next stk = Ok stk' /\ stack_okg stk' /\ is_pos stk' /\ pos_fwd stk' = rest_fwd stk.
Proof.
  induction stk as [|[n i|n] s IH]; intros Hs.
  - exists []. repeat split. constructor.
  - apply Forall_cons_iff in Hs. destruct Hs as [[Hn Hi] Hs]. cbn [it_next].
    destruct (nth_error (children n) (S i)) as [[b c]|] eqn:En.
    + assert (Hin : In (b, c) (children n)) by (eapply nth_error_In; exact En).
      assert (Hc : wfng c).
      { destruct n as [id k v|c0 p ch]; [destruct Hin|]. apply wfn_children_g in Hn.
        destruct Hn as [_ Hn]. rewrite Forall_forall in Hn. exact (Hn _ Hin). }
      assert (Hs' : stack_okg (FI n (S i) :: s)).
      { constructor; [|exact Hs]. split; [exact Hn|]. apply nth_error_Some. congruence. }
      destruct (lm_spec_g c _ Hc Hs') as (stk' & E & H1 & H2 & H3 & _).
      exists stk'. split; [exact E|]. split; [exact H1|]. split; [exact H2|].
      rewrite H3. cbn [rest_fwd]. destruct (cleaves_nth _ _ _ _ En) as [X _]. rewrite X.
      now rewrite app_assoc.
    + destruct (IH Hs) as (stk' & E & H1 & H2 & H3).
      exists stk'. split; [exact E|]. split; [exact H1|]. split; [exact H2|].
      rewrite H3. cbn [rest_fwd]. apply nth_error_None in En. rewrite skipn_all2 by exact En.
      reflexivity.
  - apply Forall_cons_iff in Hs. destruct Hs as [_ Hs]. cbn [it_next rest_fwd]. exact (IH Hs).
Qed.

Lemma it_prior_spec_g stk : stack_okg stk ->
  exists stk', it_prior stk = Ok stk' /\ stack_okg stk' /\ is_pos stk' /\ pos_rev stk' = rest_rev stk.
Proof.
  induction stk as [|[n i|n] s IH]; intros Hs.
  - exists []. repeat split. constructor.
  - apply Forall_cons_iff in Hs. destruct Hs as [[Hn Hi] Hs]. cbn [it_prior].
    destruct i as [|i'].
    + destruct (IH Hs) as (stk' & E & H1 & H2 & H3).
      exists stk'. split; [exact E|]. split; [exact H1|]. split; [exact H2|].
      rewrite H3. reflexivity.
    + destruct (nth_error (children n) i') as [[b c]|] eqn:En.
      2:{ apply nth_error_None in En. lia. }
      assert (Hin : In (b, c) (children n)) by (eapply nth_error_In; exact En).
      assert (Hc : wfng c).
      { destruct n as [id k v|c0 p ch]; [destruct Hin|]. apply wfn_children_g in Hn.
        destruct Hn as [_ Hn]. rewrite Forall_forall in Hn. exact (Hn _ Hin). }
      assert (Hs' : stack_okg (FI n i' :: s)).
      { constructor; [|exact Hs]. split; [exact Hn|lia]. }
      destruct (rm_spec_g c _ Hc Hs') as (stk' & E & H1 & H2 & H3 & _).
      exists stk'. split; [exact E|]. split; [exact H1|]. split; [exact H2|].
      rewrite H3. cbn [rest_rev]. destruct (cleaves_nth _ _ _ _ En) as [_ X]. rewrite X.
      rewrite rev_app_distr. now rewrite app_assoc.
  - apply Forall_cons_iff in Hs. destruct Hs as [_ Hs]. cbn [it_prior rest_rev]. exact (IH Hs).
Qed.

(** * the scan loop *)

Lemma scan_loop_fwd_g stop : forall fuel h stk acc,
  stack_okg stk -> is_pos stk -> length (pos_fwd stk) < fuel ->
  scan_loop fuel true stop h stk acc =
  Ok (rev acc ++ take_until h (kvs (twhile (fun e => negb (stop (fst e))) (pos_fwd stk)))).
Proof.
  induction fuel as [|f IH]; intros h stk acc Hs Hp Hf; [lia|].
  destruct (is_pos_cases _ Hp) as [->|(id & k & v & s & ->)].
  - cbn [scan_loop current pos_fwd top_leaves rest_fwd app twhile kvs map].
    now rewrite take_until_nil, app_nil_r.
  - cbn [scan_loop current]. change (pos_fwd (FL (Leaf id k v) :: s)) with ((k, (id, v)) :: rest_fwd s) in *.
    cbn [twhile fst]. destruct (stop k); cbn [negb].
    + cbn [kvs map]. now rewrite take_until_nil, app_nil_r.
    + rewrite kvs_cons. cbn [fst snd].
      destruct (it_next_spec_g _ Hs) as (stk' & E & H1 & H2 & H3).
      cbn [it_next] in E. cbn [rest_fwd] in H3. cbn [length] in Hf.
      destruct h as [[|h]|].
      * cbn [take_until firstn rev]. reflexivity.
      * cbn [it_next]. rewrite E. cbn [bind]. rewrite IH; [|exact H1|exact H2|rewrite H3; lia].
        rewrite H3. cbn [rev take_until]. rewrite <- app_assoc. reflexivity.
      * cbn [it_next]. rewrite E. cbn [bind]. rewrite IH; [|exact H1|exact H2|rewrite H3; lia].
        rewrite H3. cbn [rev take_until]. rewrite <- app_assoc. reflexivity.
Qed.

Lemma scan_loop_rev_g stop : forall fuel h stk acc,
  stack_okg stk -> is_pos stk -> length (pos_rev stk) < fuel ->
  scan_loop fuel false stop h stk acc =
  Ok (rev acc ++ take_until h (kvs (twhile (fun e => negb (stop (fst e))) (pos_rev stk)))).
Proof.
  induction fuel as [|f IH]; intros h stk acc Hs Hp Hf; [lia|].
  destruct (is_pos_cases _ Hp) as [->|(id & k & v & s & ->)].
  - cbn [scan_loop current pos_rev top_leaves rest_rev app twhile kvs map rev].
    now rewrite take_until_nil, app_nil_r.
  - cbn [scan_loop current]. change (pos_rev (FL (Leaf id k v) :: s)) with ((k, (id, v)) :: rest_rev s) in *.
    cbn [twhile fst]. destruct (stop k); cbn [negb].
    + cbn [kvs map]. now rewrite take_until_nil, app_nil_r.
    + rewrite kvs_cons. cbn [fst snd].
      destruct (it_prior_spec_g _ Hs) as (stk' & E & H1 & H2 & H3).
      cbn [it_prior] in E. cbn [rest_rev] in H3. cbn [length] in Hf.
      destruct h as [[|h]|].
      * cbn [take_until firstn rev]. reflexivity.
      * cbn [it_prior]. rewrite E. cbn [bind]. rewrite IH; [|exact H1|exact H2|rewrite H3; lia].
        rewrite H3. cbn [rev take_until]. rewrite <- app_assoc. reflexivity.
      * cbn [it_prior]. rewrite E. cbn [bind]. rewrite IH; [|exact H1|exact H2|rewrite H3; lia].
        rewrite H3. cbn [rev take_until]. rewrite <- app_assoc. reflexivity.
Qed.
