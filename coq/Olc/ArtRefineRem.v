(** C03e, remove side: every structural case of ArtModel.remove_go is one
    remove commit shape of Olc/WriteModel.v on a representing heap. *)
From Coq Require Import List ZArith Bool Arith Lia Permutation Sorted.
From Unodb Require Import Base.Lex Art.ArtModel Art.ArtSpec Art.ArtInv Art.ArtLemmas Art.ArtProofs.
From Unodb Require Import Lock.LockModel Olc.ReadModel Olc.WriteModel Olc.WriteShapes Olc.ArtRefine Olc.ArtRefineIns.
Import ListNotations.
Local Open Scope Z_scope.
Local Open Scope nat_scope.

Local Notation AWF := ArtInv.WF.

(** which commit shape each structural event of the sequential remove is *)
Definition rem_shape (e : ev) (k : list Z) (g g' : gstate) : Prop :=
  match e with
  | ERemoveRoot => root_remove k g g'
  | ERemoveLeaf _ => remove_leaf k g g'
  | EShrink C4 => collapse k g g'
  | EShrink _ => replace_rem k g g'
  | _ => False
  end.

Lemma rem_shape_commit : forall e k g g', rem_shape e k g g' -> rem_commit k g g'.
Proof.
  intros e k g g' H. destruct e as [| | | | | | c | c |]; cbn in H; try contradiction.
  - apply rc_remove_leaf; exact H.
  - destruct c; [apply rc_collapse | apply rc_replace_rem | apply rc_replace_rem | apply rc_replace_rem]; exact H.
  - apply rc_root_remove; exact H.
Qed.

(** removing the slot of byte b *)
Lemma remove_mid_slot_set : forall b (m : nid) cs1 cs2, ~ In b (map fst cs1) -> ~ In b (map fst cs2) ->
  slot_set (cs1 ++ (b, m) :: cs2) b None (cs1 ++ cs2).
Proof.
  intros b m cs1 cs2 H1 H2 x. destruct (Z.eqb_spec x b) as [->|Hne].
  - apply find_child_None_iff. rewrite map_app. intros HI. apply in_app_or in HI. tauto.
  - symmetry. apply find_child_skip. exact Hne.
Qed.

Lemma NoDup_cons_mid : forall (n m : nid) i1 i2, NoDup (n :: i1 ++ [m] ++ i2) ->
  NoDup (n :: i1 ++ i2) /\ n <> m /\ ~ In m i1 /\ ~ In m i2 /\ ~ In n i1 /\ ~ In n i2.
Proof.
  intros n m i1 i2 H. inversion H as [|x l Hn Hd]; subst. cbn [app] in *.
  pose proof (NoDup_remove_1 _ _ _ Hd) as H1. pose proof (NoDup_remove_2 _ _ _ Hd) as H2.
  repeat split.
  - constructor; [|exact H1]. intros HI. apply Hn. apply in_app_or in HI. apply in_or_app. destruct HI; [left | right; right]; assumption.
  - intros ->. apply Hn. apply in_or_app. right. left. reflexivity.
  - intros HI. apply H2. apply in_or_app. left. exact HI.
  - intros HI. apply H2. apply in_or_app. right. exact HI.
  - intros HI. apply Hn. apply in_or_app. left. exact HI.
  - intros HI. apply Hn. apply in_or_app. right. right. exact HI.
Qed.

Lemma rem_setup : forall h c p l1 b lid lk lv l2 n ids,
  rep h (Inode c p (l1 ++ (b, Leaf lid lk lv) :: l2)) n ids ->
  NoDup (map fst (l1 ++ (b, Leaf lid lk lv) :: l2)) ->
  exists cl cs1 m cs2 i1 i2 cL, ids = n :: i1 ++ [m] ++ i2 /\
    h n = Some cl /\ w_is_free (word cl) = true /\ cont cl = CInode p (cs1 ++ (b, m) :: cs2) /\
    rep_list h l1 cs1 i1 /\ rep_list h l2 cs2 i2 /\ h m = Some cL /\ cont cL = CLeaf lk lv /\
    ~ In b (map fst cs1) /\ ~ In b (map fst cs2).
Proof.
  intros h c p l1 b lid lk lv l2 n ids Hr Hnd.
  inversion Hr as [|c0 p0 ch0 n0 cl cs ids0 Hc Hfree Hcont Hl]; subst.
  destruct (rep_list_mid _ _ _ _ _ _ _ Hl) as (cs1 & m & cs2 & i1 & im & i2 & -> & -> & _ & R1 & Rm & R2).
  inversion Rm as [id' k' v' n' cL HcL _ HkL|]; subst.
  rewrite <- (rep_list_keys _ _ _ _ Hl) in Hnd. apply nodup_mid_notin in Hnd.
  exists cl, cs1, m, cs2, i1, i2, cL. repeat split; try assumption; tauto.
Qed.

Section Remove.
  Variables (L : nat) (k : list Z) (g : gstate) (f1 : nid).
  Hypothesis Hf1 : hp g f1 = None.

  Let fresh := [f1].

  (** S2: remove from a node above its minimum *)
  Lemma rem_leaf_case : forall s n pi c c2 p l1 b lid lv l2 ids,
    slot_holds g s n pi -> rep (hp g) (Inode c p (l1 ++ (b, Leaf lid k lv) :: l2)) n ids -> NoDup ids ->
    NoDup (map fst (l1 ++ (b, Leaf lid k lv) :: l2)) -> ext (pi ++ p ++ [b]) k ->
    exists g', remove_leaf k g g' /\ local_res g s n ids fresh (Inode c2 p (l1 ++ l2)) g'.
  Proof.
    intros s n pi c c2 p l1 b lid lv l2 ids Hs Hr Hnd Hkeys Hext.
    apply ext_path_facts in Hext. destruct Hext as (Hpi & Hpre & Hnth).
    destruct (rem_setup _ _ _ _ _ _ _ _ _ _ _ Hr Hkeys) as (cl & cs1 & m & cs2 & i1 & i2 & cL & -> & Hc & Hfree & Hcont & R1 & R2 & HcL & HkL & Hb1 & Hb2).
    destruct (NoDup_cons_mid _ _ _ _ Hnd) as (Hnd' & Hnm & Hm1 & Hm2 & Hn1 & Hn2).
    set (h := upd (upd (hp g) m (mk 1%Z (cont cL))) n (mk (bump (word cl)) (CInode p (cs1 ++ cs2)))).
    exists (set_hp g h). split.
    - eapply remove_leaf_intro with (N := n) (d := length pi) (cN := cl) (p := p) (cs := cs1 ++ (b, m) :: cs2) (b := b)
        (L := m) (cL := cL) (v := lv) (cs' := cs1 ++ cs2); try assumption; try reflexivity.
      + repeat split; try assumption.
        * rewrite (ext_firstn _ _ Hpi). eapply slot_holds_reach. exact Hs.
        * apply ext_length. exact Hpi.
      + apply find_child_mid. exact Hb1.
      + apply remove_mid_slot_set; assumption.
    - exists h, n, (n :: i1 ++ i2). split; [|split; [exact Hnd' | split; [|split]]].
      + eapply rep_inode with (cl := mk (bump (word cl)) (CInode p (cs1 ++ cs2))); [apply upd_eq | apply bump_free; exact Hfree | reflexivity |].
        apply rep_list_app; (eapply rep_list_ext; [eassumption|]); intros x Hx; unfold h;
          rewrite !upd_neq; try reflexivity; intros ->; contradiction.
      + intros x [<- | Hx]; [right; left; reflexivity|]. right. right. apply in_app_or in Hx. apply in_or_app.
        destruct Hx; [left | right; right]; assumption.
      + intros x Hx _. unfold h. rewrite !upd_neq; [reflexivity | |]; intros ->; apply Hx.
        * right. apply in_or_app. right. left. reflexivity.
        * left. reflexivity.
      + left. split; reflexivity.
  Qed.

  (** S5: shrink into a fresh copy *)
  Lemma rem_shrink_case : forall s n pi c c2 p l1 b lid lv l2 ids,
    slot_holds g s n pi -> rep (hp g) (Inode c p (l1 ++ (b, Leaf lid k lv) :: l2)) n ids -> NoDup ids ->
    NoDup (map fst (l1 ++ (b, Leaf lid k lv) :: l2)) -> ext (pi ++ p ++ [b]) k ->
    exists g', replace_rem k g g' /\ local_res g s n ids fresh (Inode c2 p (l1 ++ l2)) g'.
  Proof.
    intros s n pi c c2 p l1 b lid lv l2 ids Hs Hr Hnd Hkeys Hext.
    apply ext_path_facts in Hext. destruct Hext as (Hpi & Hpre & Hnth).
    destruct (rem_setup _ _ _ _ _ _ _ _ _ _ _ Hr Hkeys) as (cl & cs1 & m & cs2 & i1 & i2 & cL & -> & Hc & Hfree & Hcont & R1 & R2 & HcL & HkL & Hb1 & Hb2).
    destruct (NoDup_cons_mid _ _ _ _ Hnd) as (Hnd' & Hnm & Hm1 & Hm2 & Hn1 & Hn2).
    assert (Hnf : n <> f1) by (intros ->; congruence).
    assert (Hmf : m <> f1) by (intros ->; congruence).
    assert (Hf1i1 : ~ In f1 i1) by (intros HI; exact (rep_list_alloc _ _ _ _ _ R1 HI Hf1)).
    assert (Hf1i2 : ~ In f1 i2) by (intros HI; exact (rep_list_alloc _ _ _ _ _ R2 HI Hf1)).
    set (h := upd (upd (upd (hp g) m (mk 1%Z (cont cL))) f1 (mk 0%Z (CInode p (cs1 ++ cs2)))) n (mk 1%Z (cont cl))).
    exists (redirect g s h f1). split.
    - eapply replace_rem_intro with (s := s) (N := n) (d := length pi) (cN := cl) (p := p) (cs := cs1 ++ (b, m) :: cs2) (b := b)
        (N' := f1) (wn := 0%Z) (L := m) (cL := cL) (v := lv) (cs' := cs1 ++ cs2) (h := h); try assumption; try reflexivity.
      + repeat split; try assumption.
        * rewrite (ext_firstn _ _ Hpi). exact Hs.
        * apply ext_length. exact Hpi.
      + apply find_child_mid. exact Hb1.
      + apply remove_mid_slot_set; assumption.
      + eapply redirect_ok. exact Hs.
    - exists h, f1, (f1 :: i1 ++ i2). split; [|split; [|split; [|split]]].
      + eapply rep_inode with (cl := mk 0%Z (CInode p (cs1 ++ cs2))); [|reflexivity | reflexivity |].
        * unfold h. rewrite upd_neq by (intros E; apply Hnf; symmetry; exact E). apply upd_eq.
        * apply rep_list_app; (eapply rep_list_ext; [eassumption|]); intros x Hx; unfold h;
            rewrite !upd_neq; try reflexivity; intros ->; contradiction.
      + inversion Hnd' as [|x l _ Hd]; subst. constructor; [|exact Hd].
        intros HI. apply in_app_or in HI. tauto.
      + intros x [<- | Hx]; [left; reflexivity|]. right. right. apply in_app_or in Hx. apply in_or_app.
        destruct Hx; [left | right; right]; assumption.
      + intros x Hx Hxf. unfold h. rewrite !upd_neq; [reflexivity | | |]; intros ->.
        * apply Hx. right. apply in_or_app. right. left. reflexivity.
        * apply Hxf. left. reflexivity.
        * apply Hx. left. reflexivity.
      + right. reflexivity.
  Qed.


  (** S7: collapse of a two-child node *)
  Lemma rem_collapse_case : forall s n pi c p l1 b lid lv l2 ids sb sib,
    slot_holds g s n pi -> rep (hp g) (Inode c p (l1 ++ (b, Leaf lid k lv) :: l2)) n ids -> NoDup ids ->
    NoDup (map fst (l1 ++ (b, Leaf lid k lv) :: l2)) -> ext (pi ++ p ++ [b]) k ->
    l1 ++ l2 = [(sb, sib)] ->
    exists g', collapse k g g' /\ local_res g s n ids fresh (prepend_prefix p sb sib) g'.
  Proof.
    intros s n pi c p l1 b lid lv l2 ids sb sib Hs Hr Hnd Hkeys Hext Hsib.
    apply ext_path_facts in Hext. destruct Hext as (Hpi & Hpre & Hnth).
    destruct (rem_setup _ _ _ _ _ _ _ _ _ _ _ Hr Hkeys) as (cl & cs1 & m & cs2 & i1 & i2 & cL & -> & Hc & Hfree & Hcont & R1 & R2 & HcL & HkL & Hb1 & Hb2).
    destruct (NoDup_cons_mid _ _ _ _ Hnd) as (Hnd' & Hnm & Hm1 & Hm2 & Hn1 & Hn2).
    pose proof (rep_list_app _ _ _ _ _ _ _ R1 R2) as R12.
    assert (HC : exists C, cs1 ++ cs2 = [(sb, C)] /\ rep (hp g) sib C (i1 ++ i2)).
    { rewrite Hsib in R12. inversion R12 as [|b' t' C j1 ch' cs' j2 Rsib Rnil E1 E2 E3]; subst.
      inversion Rnil; subst. exists C. rewrite app_nil_r in *. split; [reflexivity | exact Rsib]. }
    destruct HC as (C & Ecs & Rsib). clear R12.
    assert (Hsbb : sb <> b).
    { intros ->. assert (HI : In b (map fst (cs1 ++ cs2))) by (rewrite Ecs; left; reflexivity).
      rewrite map_app in HI. apply in_app_or in HI. tauto. }
    assert (HCin : In C (i1 ++ i2)) by (eapply rep_root_in; exact Rsib).
    assert (HCn : C <> n) by (intros ->; apply in_app_or in HCin; tauto).
    assert (HCm : C <> m) by (intros ->; apply in_app_or in HCin; tauto).
    assert (Hnd12 : NoDup (i1 ++ i2)) by (inversion Hnd'; assumption).
    assert (Hfind : forall b0, find_child b0 (cs1 ++ (b, m) :: cs2) =
                      if (b0 =? b)%Z then Some m else if (b0 =? sb)%Z then Some C else None).
    { intros b0. destruct (Z.eqb_spec b0 b) as [->|Hne]; [apply find_child_mid; exact Hb1|].
      rewrite (find_child_skip _ _ _ _ _ Hne), Ecs. cbn. reflexivity. }
    assert (Hincl : incl (i1 ++ i2) (fresh ++ n :: i1 ++ [m] ++ i2)).
    { intros x Hx. right. right. apply in_app_or in Hx. apply in_or_app. destruct Hx; [left | right; right]; assumption. }
    assert (Hcommit : forall cC cC', hp g C = Some cC ->
      ((exists kc vc, cont cC = CLeaf kc vc /\ cC' = cC) \/
       (exists pc csC, cont cC = CInode pc csC /\ cC' = mk (bump (word cC)) (CInode (p ++ sb :: pc) csC))) ->
      collapse k g (redirect g s (upd (upd (upd (hp g) m (mk 1%Z (cont cL))) n (mk 1%Z (cont cl))) C cC') C)).
    { intros cC cC' HcC Hor.
      eapply collapse_intro with (s := s) (N := n) (d := length pi) (cN := cl) (p := p) (cs := cs1 ++ (b, m) :: cs2) (b := b)
        (L := m) (cL := cL) (v := lv) (bc := sb) (C := C) (cC := cC) (cC' := cC'); try eassumption; try reflexivity.
      - repeat split; try assumption.
        + rewrite (ext_firstn _ _ Hpi). exact Hs.
        + apply ext_length. exact Hpi.
      - eapply redirect_ok. exact Hs. }
    assert (Hframe : forall cC' x, ~ In x (n :: i1 ++ [m] ++ i2) -> ~ In x fresh ->
      upd (upd (upd (hp g) m (mk 1%Z (cont cL))) n (mk 1%Z (cont cl))) C cC' x = hp g x).
    { intros cC' x Hx _. rewrite !upd_neq; [reflexivity | | |]; intros ->; apply Hx.
      - right. apply in_or_app. right. left. reflexivity.
      - left. reflexivity.
      - apply Hincl in HCin. destruct HCin as [E | HI]; [|exact HI]. subst. exfalso.
        apply (rep_alloc _ _ _ _ _ Rsib (rep_root_in _ _ _ _ Rsib) Hf1). }
    destruct sib as [sid sk sv | c3 p3 ch3]; cbn [prepend_prefix].
    - destruct (rep_root_cell _ _ _ _ Rsib) as (cC & HcC & HfC & HkC & E2).
      eexists. split; [eapply (Hcommit cC cC HcC); left; eauto|].
      eexists _, C, (i1 ++ i2). split; [|split; [exact Hnd12 | split; [exact Hincl | split; [apply Hframe | right; reflexivity]]]].
      rewrite E2. eapply rep_leaf; [apply upd_eq | exact HfC | exact HkC].
    - destruct (rep_root_cell _ _ _ _ Rsib) as (cC & HcC & HfC & csC & ids3 & HkC & Rl3 & E2).
      eexists. split; [eapply (Hcommit cC _ HcC); right; eauto|].
      eexists _, C, (i1 ++ i2). split; [|split; [exact Hnd12 | split; [exact Hincl | split; [apply Hframe | right; reflexivity]]]].
      rewrite E2. eapply rep_inode with (cl := mk (bump (word cC)) (CInode (p ++ sb :: p3) csC));
        [apply upd_eq | apply bump_free; exact HfC | reflexivity |].
      eapply rep_list_ext; [exact Rl3|]. intros x Hx.
      assert (HxI : In x (i1 ++ i2)) by (rewrite E2; right; exact Hx).
      rewrite E2 in Hnd12. inversion Hnd12 as [|y l HCx _]; subst.
      rewrite !upd_neq; [reflexivity | | |]; intros ->; try contradiction; apply in_app_or in HxI; tauto.
  Qed.


  Hypothesis Hk : key_ok L k.

  Lemma two_sibling : forall (A : Type) (l1 l2 : list A) x y, length (l1 ++ x :: l2) = 2 ->
    nth_error (l1 ++ x :: l2) (if Nat.eqb (0 + length l1) 0 then 1 else 0) = Some y -> l1 ++ l2 = [y].
  Proof.
    intros A l1 l2 x y Hlen Hnth. destruct l1 as [|a [|a' l1]]; cbn in *.
    - destruct l2 as [|b [|b' l2]]; cbn in *; try lia. injection Hnth as ->. reflexivity.
    - destruct l2; cbn in *; [|lia]. injection Hnth as ->. reflexivity.
    - rewrite app_length in Hlen. cbn in Hlen. lia.
  Qed.

  Lemma rem_go_commit : forall fuel t pi s n ids t' e,
    slot_holds g s n pi -> rep (hp g) t n ids -> NoDup ids -> AWF L t pi -> ext pi k ->
    remove_go fuel t k (length pi) = Ok (RmReplaced t' e) ->
    exists g', rem_shape e k g g' /\ local_res g s n ids fresh t' g'.
  Proof.
    induction fuel as [|f IH]; intros t pi s n ids t' e Hs Hr Hnd HW Hext Hrem; [discriminate|].
    destruct t as [lid lk lv | c p ch]; [discriminate|].
    destruct (inode_prelude L k c p ch pi Hk HW Hext) as (Hlt & Hrm & [(Hsl & _) | (Hsl & b & Hb & Hbyte & Hext' & _)]);
      cbn [remove_go] in Hrem; rewrite Hlt in Hrem.
    { apply Nat.ltb_lt in Hsl. rewrite Hsl in Hrem. discriminate. }
    assert (Hsl' : (shared_len p (skipn (length pi) k) <? length p) = false) by (apply Nat.ltb_ge; lia).
    rewrite Hsl' in Hrem. unfold byte_at in Hrem at 1. rewrite Hb in Hrem. cbn [bind] in Hrem.
    destruct (ArtModel.find_child ch b 0) as [[i c']|] eqn:Hfc; [|discriminate].
    apply find_child_some in Hfc. destruct Hfc as (l1 & l2 & -> & ->).
    assert (Hkeys : NoDup (map fst (l1 ++ (b, c') :: l2))) by (apply ssorted_nodup; apply WF_inode in HW; tauto).
    destruct c' as [lid lk lv | c3 p3 ch3].
    - destruct (lex_compare k lk) eqn:Hcmp; try discriminate. apply lex_compare_eq in Hcmp. subst lk.
      destruct (Nat.eqb (length (l1 ++ (b, Leaf lid k lv) :: l2)) (min_size c)) eqn:Hmin.
      + destruct c.
        * destruct (nth_error _ _) as [[sb sib]|] eqn:Hnth; [|discriminate]. injection Hrem as <- <-. cbn [rem_shape].
          apply Nat.eqb_eq in Hmin. cbn [min_size] in Hmin. apply two_sibling in Hnth; [|exact Hmin].
          eapply rem_collapse_case; eassumption.
        * injection Hrem as <- <-. cbn [rem_shape Nat.add]. rewrite remove_nth_mid. eapply rem_shrink_case; eassumption.
        * injection Hrem as <- <-. cbn [rem_shape Nat.add]. rewrite remove_nth_mid. eapply rem_shrink_case; eassumption.
        * injection Hrem as <- <-. cbn [rem_shape Nat.add]. rewrite remove_nth_mid. eapply rem_shrink_case; eassumption.
      + injection Hrem as <- <-. cbn [rem_shape Nat.add]. rewrite remove_nth_mid. eapply rem_leaf_case; eassumption.
    - destruct (child_of_WF _ _ _ _ _ _ _ _ HW) as [_ Hc'].
      replace (S (length pi + length p)) with (length (pi ++ p ++ [b])) in Hrem by (rewrite !app_length; cbn; lia).
      destruct (remove_go f (Inode c3 p3 ch3) k (length (pi ++ p ++ [b]))) as [[|c'' e']|] eqn:Hrec; try discriminate.
      cbn [bind Nat.add] in Hrem. injection Hrem as <- <-. rewrite replace_nth_mid.
      inversion Hr as [|c0 p0 ch0 n0 cl cs ids0 Hc Hfree Hcont Hl]; subst.
      destruct (rep_list_mid _ _ _ _ _ _ _ Hl) as (cs1 & m & cs2 & i1 & im & i2 & -> & -> & Hlen1 & R1 & Rm & R2).
      assert (Hkeys' : NoDup (map fst (cs1 ++ (b, m) :: cs2))) by (rewrite (rep_list_keys _ _ _ _ Hl); exact Hkeys).
      destruct (nodup_mid_notin _ _ _ _ _ Hkeys') as [Hnb1 _].
      assert (Hndm : NoDup im).
      { inversion Hnd as [|x l _ Hnd0]; subst. apply NoDup_app_inv in Hnd0. destruct Hnd0 as (_ & Hnd0 & _).
        apply NoDup_app_inv in Hnd0. tauto. }
      destruct (IH (Inode c3 p3 ch3) (pi ++ p ++ [b]) (SChild n b) m im c'' e') as (g' & Hshape & Hres); try assumption.
      + eapply slot_holds_child; [exact Hs | exact Hc | exact Hcont | apply find_child_mid; exact Hnb1].
      + exists g'. split; [exact Hshape|].
        eapply local_lift; try eassumption.
        intros x [<- | []]; assumption.
  Qed.

End Remove.

(** the structural event of a successful remove (what the statistics count) *)
Definition remove_event (d : db) (k : list Z) : option ev :=
  match ArtModel.root d with
  | None => None
  | Some (Leaf _ _ _) => Some ERemoveRoot
  | Some n => match remove_go (fuel_for k) n k 0 with Ok (RmReplaced _ e) => Some e | _ => None end
  end.

Theorem remove_refines_shape : forall L sz d k d' g,
  represents g d -> db_WF L d -> key_ok L k ->
  db_remove sz d k = Ok (d', true) ->
  exists e g', remove_event d k = Some e /\ rem_shape e k g g' /\ represents g' d'.
Proof.
  intros L sz d k d' g [[bound Hb] Hroot] HW Hk Hrem. unfold db_remove in Hrem. unfold db_WF in HW.
  unfold remove_event.
  destruct (ArtModel.root d) as [[lid lk lv | c p ch]|] eqn:Hrt; [| |discriminate].
  - destruct (lex_compare k lk) eqn:Hcmp; try discriminate. apply lex_compare_eq in Hcmp. subst lk.
    injection Hrem as <-. destruct Hroot as (n & ids & Hrg & Hr & Hnd).
    destruct (rep_root_cell _ _ _ _ Hr) as (cL & HcL & _ & HkL & _).
    exists ERemoveRoot, (set_root g (upd (hp g) n (mk 1%Z (cont cL))) None). split; [reflexivity | split].
    + eapply root_remove_intro; [exact Hrg | exact HcL | exact HkL | reflexivity].
    + split; [|reflexivity]. exists bound. intros m Hm. cbn. rewrite upd_neq; [apply Hb; exact Hm|].
      intros ->. rewrite (Hb _ Hm) in HcL. discriminate.
  - destruct Hroot as (n & ids & Hrg & Hr & Hnd).
    destruct (get_go (fuel_for k) (Inode c p ch) k 0) as [gr|]; cbn [bind] in Hrem; [|discriminate].
    destruct (remove_go (fuel_for k) (Inode c p ch) k 0) as [[|t' e]|] eqn:Hgo; cbn [bind] in Hrem; try discriminate.
    destruct gr as [[lid lv]|]; [|discriminate]. injection Hrem as <-.
    destruct (rem_go_commit L k g bound (Hb _ (le_n _)) Hk (fuel_for k) (Inode c p ch) [] SRoot n ids t' e)
      as (g' & Hshape & Hres); try assumption.
    + cbn. split; [exact Hrg | reflexivity].
    + apply ext_nil.
    + exists e, g'. split; [reflexivity | split; [exact Hshape|]].
      assert (Ha : forall m, In m ids -> hp g m <> None) by (intros m Hm; eapply rep_alloc; eassumption).
      assert (Hfr : forall f, In f [bound] -> f < bound + 2) by (intros f [<- | []]; lia).
      destruct (local_res_root g n ids _ t' g' bound Hrg Ha Hb Hfr Hres) as [Hb' Hrep'].
      split; [exists (bound + 2); exact Hb' | cbn; exact Hrep'].
Qed.

Theorem remove_refines : forall L sz d k d' g,
  represents g d -> db_WF L d -> key_ok L k ->
  db_remove sz d k = Ok (d', true) ->
  exists g', rem_commit k g g' /\ represents g' d'.
Proof.
  intros L sz d k d' g Hrep HW Hk Hrem.
  destruct (remove_refines_shape L sz d k d' g Hrep HW Hk Hrem) as (e & g' & _ & Hs & Hr).
  exists g'. split; [eapply rem_shape_commit; exact Hs | exact Hr].
Qed.

Theorem remove_absent : forall sz d k d', db_remove sz d k = Ok (d', false) -> d' = d.
Proof.
  intros sz d k d' H. unfold db_remove in H. destruct (ArtModel.root d) as [[lid lk lv | c p ch]|].
  - destruct (lex_compare k lk); [discriminate | |]; injection H as <-; reflexivity.
  - destruct (get_go _ _ _ _) as [gr|]; cbn [bind] in H; [|discriminate].
    destruct (remove_go _ _ _ _) as [[|t' e]|]; cbn [bind] in H; try discriminate.
    + injection H as <-. reflexivity.
    + destruct gr as [[? ?]|]; discriminate.
  - injection H as <-. reflexivity.
Qed.
