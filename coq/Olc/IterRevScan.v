(** C09d: the scan theorems for chains of interval PREDECESSOR queries (the
    shape of a reverse OLC iterator run), and the link from reverse iterator
    runs (prior = try_prior or the re-seek fallback; positions on inner
    stacks and on a root leaf) to such chains. *)
From Coq Require Import List ZArith Bool Arith Lia Sorted.
From Unodb Require Import Base.Lex Lock.LockModel Olc.ReadModel Olc.ReadProofs Olc.IterModel Olc.IterAux
  Olc.IterProofs Olc.IterSeek Olc.IterScan Olc.IterRevModel Olc.IterRevProofs Olc.IterRevSeek.
Import ListNotations.
Local Open Scope Z_scope.

Lemma rfinal_bound_cons : forall u t1 t2 k v ds,
  rfinal_bound u ((t1, t2, k, v) :: ds) = rfinal_bound (UKey true k) ds.
Proof. intros. unfold rfinal_bound. cbn [map fst snd]. apply last_cons_default. Qed.

Lemma rfinal_bound_snoc : forall u ds t1 t2 k v,
  rfinal_bound u (ds ++ [(t1, t2, k, v)]) = UKey true k.
Proof. intros. unfold rfinal_bound. rewrite map_app. cbn [map fst snd]. apply last_last. Qed.

Lemma rscan_last_moment_ge : forall H t u ds, rscan H t u ds -> (t <= wlast_moment t ds)%nat.
Proof.
  intros H t u ds S. induction S as [t u | t u t1 t2 k v ds Ht Q S IH].
  - unfold wlast_moment. cbn. lia.
  - rewrite wlast_moment_cons. lia.
Qed.

Lemma lex_lt_le_trans : forall a b c, lex_lt a b -> lex_le b c -> lex_lt a c.
Proof. intros a b c Hab Hbc. destruct (lex_le_cases b c Hbc) as [<-|L]; [exact Hab | eapply lex_lt_trans; eassumption]. Qed.

Lemma below_trans_lt : forall u a b, below u a -> lex_lt b a -> below u b.
Proof.
  intros [|[|] hi] a b A L; cbn in *.
  - exact I.
  - eapply lex_lt_trans; eassumption.
  - apply lex_lt_le. eapply lex_lt_le_trans; eassumption.
Qed.

(** delivered keys are strictly decreasing and all below the bound *)
Theorem rscan_ordered_bounded : forall H t u ds, rscan H t u ds ->
  StronglySorted (fun a b => lex_lt b a) (wkeys ds) /\ Forall (below u) (wkeys ds).
Proof.
  intros H t u ds S. induction S as [t u | t u t1 t2 k v ds Ht Q S [IHs IHb]].
  - split; constructor.
  - destruct Q as (Bk & _ & _). cbn [wkeys map fst snd]. split.
    + constructor; [exact IHs | exact IHb].
    + constructor; [exact Bk|]. eapply Forall_impl; [|exact IHb].
      intros x Hx. cbn in Hx. eapply below_trans_lt; eassumption.
Qed.

(** every delivered entry was in the tree at a moment of its step *)
Theorem rscan_values_held : forall H t u ds, rscan H t u ds ->
  Forall (fun d : delivery => let '(t1, t2, k, v) := d in
            (t <= t1)%nat /\ exists T, (t1 <= T <= t2)%nat /\ entry (H T) k v) ds.
Proof.
  intros H t u ds S. induction S as [t u | t u t1 t2 k v ds Ht Q S IH].
  - constructor.
  - constructor.
    + destruct Q as (_ & E & _). split; [lia | exact E].
    + eapply Forall_impl; [|exact IH]. intros [[[a b] c] d] [L E]. split; [lia | exact E].
Qed.

(** a key that is never in the tree is never delivered *)
Theorem rscan_no_phantom : forall H t u ds k, rscan H t u ds ->
  (forall t', ~ has_key (H t') k) -> ~ In k (wkeys ds).
Proof.
  intros H t u ds k S Habs Hin.
  pose proof (rscan_values_held H t u ds S) as HV. rewrite Forall_forall in HV.
  unfold wkeys in Hin. apply in_map_iff in Hin. destruct Hin as [[[[t1 t2] k0] v] [Hk Hd]].
  cbn in Hk. subst k0. destruct (HV _ Hd) as [_ (T & _ & E)]. apply (Habs T). exists v. exact E.
Qed.

(** completeness for stable keys: a key below the bound, not below the last
    delivered key, that is in the tree at every moment of the scan, is delivered *)
Theorem rscan_complete_prefix : forall H t u ds k, rscan H t u ds ->
  below u k -> ~ below (rfinal_bound u ds) k ->
  (forall t', (t <= t' <= wlast_moment t ds)%nat -> has_key (H t') k) -> In k (wkeys ds).
Proof.
  intros H t u ds k S.
  induction S as [t u | t u t1 t2 k1 v ds Ht Q S IH]; intros Bk Hfb Hst.
  - exfalso. apply Hfb. exact Bk.
  - rewrite rfinal_bound_cons in Hfb. cbn [wkeys map fst snd].
    pose proof (rscan_last_moment_ge H t2 (UKey true k1) ds S) as Hmono.
    assert (Hst' : forall t', (t <= t' <= wlast_moment t2 ds)%nat -> has_key (H t') k).
    { intros t' Ht'. apply Hst. rewrite wlast_moment_cons. exact Ht'. }
    destruct Q as (_ & _ & Gap).
    destruct (lex_trichotomy k k1) as [Hlt | [Heq | Hgt]].
    + right. apply IH; [exact Hlt | exact Hfb |]. intros t' Ht'. apply Hst'. lia.
    + left. symmetry. exact Heq.
    + exfalso. destruct (Gap k Bk Hgt) as (T & HT & Habs). apply Habs. apply Hst'. lia.
Qed.

Lemma below_dec : forall u k, below u k \/ ~ below u k.
Proof.
  intros [|[|] hi] k; cbn; [left; exact I | |]; unfold lex_lt, lex_le; destruct (lex_compare k hi).
  - right. discriminate.
  - left. reflexivity.
  - right. discriminate.
  - left. discriminate.
  - left. discriminate.
  - right. intros Hx. apply Hx. reflexivity.
Qed.

(** ... and when the scan ran to completion, every stable key below the bound is delivered *)
Theorem rscan_complete : forall H t u ds te1 te2 k, rscan H t u ds ->
  (wlast_moment t ds <= te1 <= te2)%nat -> rexhausted H te1 te2 (rfinal_bound u ds) ->
  below u k -> (forall t', (t <= t' <= te2)%nat -> has_key (H t') k) -> In k (wkeys ds).
Proof.
  intros H t u ds te1 te2 k S Hte Hex Bk Hst.
  pose proof (rscan_last_moment_ge H t u ds S) as Hmono.
  destruct (below_dec (rfinal_bound u ds) k) as [Hb | Hnb].
  - exfalso. destruct (Hex k Hb) as (T & HT & Habs). apply Habs. apply Hst. lia.
  - apply (rscan_complete_prefix H t u ds k S Bk Hnb).
    intros t' Ht'. apply Hst. lia.
Qed.

(** scan_range(from, to) with to < from: the loop stops at the first position
    whose key is <= to; every stable key of (to, from] was passed to fn *)
Theorem rscan_range_complete : forall H t u ds stop to k, rscan H t u (ds ++ [stop]) ->
  range_stop to ds stop -> below u k -> lex_lt to k ->
  (forall t', (t <= t' <= wlast_moment t (ds ++ [stop]))%nat -> has_key (H t') k) -> In k (wkeys ds).
Proof.
  intros H t u ds [[[t1 t2] ks] vs] to k S [Hall Hstop] Bk Hto Hst. cbn in Hstop.
  assert (Hin : In k (wkeys (ds ++ [(t1, t2, ks, vs)]))).
  { apply (rscan_complete_prefix H t u _ k S Bk); [|exact Hst].
    rewrite rfinal_bound_snoc. cbn. intros L.
    exact (lex_lt_irrefl _ (lex_lt_trans _ _ _ Hto (lex_lt_le_trans _ _ _ L Hstop))). }
  unfold wkeys in Hin |- *. rewrite map_app in Hin. apply in_app_or in Hin.
  destruct Hin as [Hin | [E | []]]; [exact Hin|]. cbn in E. subst ks.
  exfalso. exact (lex_lt_not_le _ _ Hto Hstop).
Qed.

(** an atomic query is an interval query *)
Lemma last_query_rquery : forall (H : history) T u r, last_query (H T) u r -> rquery H T T u r.
Proof.
  intros H T u [[k v]|]; cbn.
  - intros (A & E & G). split; [exact A|]. split; [exists T; split; [lia | exact E]|].
    intros x Ax Lx. exists T. split; [lia | exact (G x Ax Lx)].
  - intros G x Ax. exists T. split; [lia | exact (G x Ax)].
Qed.

Lemma rquery_widen : forall H t1 t2 u1 u2 u r, (u1 <= t1)%nat -> (t2 <= u2)%nat ->
  rquery H t1 t2 u r -> rquery H u1 u2 u r.
Proof.
  intros H t1 t2 u1 u2 u [[k v]|] L1 L2; cbn.
  - intros (A & (T & HT & E) & G). split; [exact A|]. split; [exists T; split; [lia | exact E]|].
    intros x Ax Lx. destruct (G x Ax Lx) as (T' & HT' & N). exists T'. split; [lia | exact N].
  - intros G x Ax. destruct (G x Ax) as (T' & HT' & N). exists T'. split; [lia | exact N].
Qed.

(** ** seek (fwd = false), summarised *)

(** a successful reverse seek positions the iterator on the result of an
    interval query "greatest key <= hi" and establishes the stack invariant
    (or the root-leaf invariant) *)
Theorem rseek_result_ok : forall H, disciplined H -> stays_reachable H -> fullpath_stable H -> wf_history H ->
  forall hi rl t1 t2 pos, rseek_result H hi rl t1 t2 pos ->
  (rl <= t1 <= t2)%nat /\ t2 = ip_at pos /\ gpos_ok H pos /\
  rquery H t1 t2 (UKey false hi) (Some (ip_key pos, ip_val pos)).
Proof.
  intros H Hd Hs Hfp W hi rl t1 t2 pos S.
  destruct S as [rl rw rc n0 hs a q k v S1 S2 S3
                | rl rw rc n0 hs a q kr vr t0 pops pv tc b' c' rest hs2 a2 q2 k' v' S1 S2 S3 S4
                | rl rw rc n0 hs a q pops pv tc b' c' rest hs2 a2 q2 k' v' S1 S2 S3
                | rl rw rc n0 hs a q hs2 a2 q2 k' v' S1 S2 S3 S4 S5
                | rl rw rc n0 hs a q en hs2 a2 q2 k' v' S1 S2 S3 S4 S5].
  - destruct (rseek_hit_query H hi _ _ _ _ _ _ _ _ _ Hd Hs Hfp W S1 S2 S3) as [L Q].
    destruct S1 as [R _]. pose proof (seek_pos_gpos_ok H _ _ _ _ _ _ _ k v Hd Hs Hfp W R S2) as P.
    split; [lia|]. split; [reflexivity|]. split; [exact P|]. apply last_query_rquery. exact Q.
  - destruct (rseek_gt_some_query H hi _ _ _ _ _ _ _ _ _ _ _ _ _ _ _ _ _ _ _ _ _ Hd Hs Hfp W S1 S2 S3 S4) as (L & _ & Q & P).
    split; [lia|]. split; [reflexivity|]. split; [left; exact P | exact Q].
  - destruct (rseek_dead_some_query H hi _ _ _ _ _ _ _ _ _ _ _ _ _ _ _ _ _ _ Hd Hs Hfp W S1 S2 S3) as (L & _ & Q & P).
    split; [lia|]. split; [reflexivity|]. split; [left; exact P | exact Q].
  - destruct (rseek_prefix_gt_query H hi _ _ _ _ _ _ _ _ _ _ _ _ Hd Hs Hfp W S1 S2 S3 S4 S5) as (L & _ & Q & P).
    split; [lia|]. split; [reflexivity|]. split; [left; exact P | exact Q].
  - destruct (rseek_lte_query H hi _ _ _ _ _ _ _ _ _ _ _ _ _ Hd Hs Hfp W S1 S2 S3 S4 S5) as (L & _ & Q & P).
    split; [lia|]. split; [reflexivity|]. split; [left; exact P | exact Q].
Qed.

(** what [match] reports: when the key the seek lands on IS the search key,
    the seek went straight down to that leaf, and the query is atomic (every
    other ending delivers a key strictly below hi) *)
Theorem rseek_match_atomic : forall H, disciplined H -> stays_reachable H -> fullpath_stable H -> wf_history H ->
  forall hi rl t1 t2 pos, rseek_result H hi rl t1 t2 pos -> ip_key pos = hi ->
  t1 = t2 /\ last_query (H t1) (UKey false hi) (Some (ip_key pos, ip_val pos)).
Proof.
  intros H Hd Hs Hfp W hi rl t1 t2 pos S E.
  destruct S as [rl rw rc n0 hs a q k v S1 S2 S3
                | rl rw rc n0 hs a q kr vr t0 pops pv tc b' c' rest hs2 a2 q2 k' v' S1 S2 S3 S4
                | rl rw rc n0 hs a q pops pv tc b' c' rest hs2 a2 q2 k' v' S1 S2 S3
                | rl rw rc n0 hs a q hs2 a2 q2 k' v' S1 S2 S3 S4 S5
                | rl rw rc n0 hs a q en hs2 a2 q2 k' v' S1 S2 S3 S4 S5]; cbn [ip_key ip_val seek_pos prior_pos desc_pos] in *.
  - split; [reflexivity|]. exact (proj2 (rseek_hit_query H hi _ _ _ _ _ _ _ _ _ Hd Hs Hfp W S1 S2 S3)).
  - exfalso. destruct (rseek_gt_some_query H hi _ _ _ _ _ _ _ _ _ _ _ _ _ _ _ _ _ _ _ _ _ Hd Hs Hfp W S1 S2 S3 S4) as (_ & L & _).
    rewrite E in L. exact (lex_lt_irrefl _ L).
  - exfalso. destruct (rseek_dead_some_query H hi _ _ _ _ _ _ _ _ _ _ _ _ _ _ _ _ _ _ Hd Hs Hfp W S1 S2 S3) as (_ & L & _).
    rewrite E in L. exact (lex_lt_irrefl _ L).
  - exfalso. destruct (rseek_prefix_gt_query H hi _ _ _ _ _ _ _ _ _ _ _ _ Hd Hs Hfp W S1 S2 S3 S4 S5) as (_ & L & _).
    rewrite E in L. exact (lex_lt_irrefl _ L).
  - exfalso. destruct (rseek_lte_query H hi _ _ _ _ _ _ _ _ _ _ _ _ _ Hd Hs Hfp W S1 S2 S3 S4 S5) as (_ & L & _).
    rewrite E in L. exact (lex_lt_irrefl _ L).
Qed.

Theorem rseek_end_ok : forall H, disciplined H -> stays_reachable H -> fullpath_stable H -> wf_history H ->
  forall hi rl T, rseek_end H hi rl T ->
  (rl <= T)%nat /\ last_query (H T) (UKey false hi) None.
Proof.
  intros H Hd Hs Hfp W hi rl T S.
  destruct S as [rl Hr | rl rw rc n0 hs a q kr vr t0 pops S1 S2 S3 S4 | rl rw rc n0 hs a q pops S1 S2 S3].
  - split; [lia|]. apply empty_tree_rquery. exact Hr.
  - exact (rseek_gt_none_query H hi _ _ _ _ _ _ _ _ _ _ _ Hd Hs Hfp W S1 S2 S3 S4).
  - exact (rseek_dead_none_query H hi _ _ _ _ _ _ _ _ Hd Hs Hfp W S1 S2 S3).
Qed.

(** ** try_prior from a position that may be a root leaf *)

Lemma gprior_some_pos : forall H pos t0 pops pv tc b' c' rest hs a q k' v', gpos_ok H pos ->
  prior_some H pos t0 pops pv tc b' c' rest hs a q k' v' -> pos_ok H pos.
Proof.
  intros H pos t0 pops pv tc b' c' rest hs a q k' v' [P | (_ & _ & E & _)] [_ N]; [exact P|].
  exfalso. exact (down_some_stack_ne _ _ _ _ _ _ _ _ _ _ _ _ _ _ N E).
Qed.

Theorem gprior_none_end : forall H pos t t0 pops,
  disciplined H -> stays_reachable H -> fullpath_stable H -> wf_history H -> gpos_ok H pos ->
  (t <= ip_at pos)%nat -> (t <= t0)%nat -> prior_none H pos t0 pops ->
  (t <= end_moment pos t0)%nat /\ pred_query (H (end_moment pos t0)) (ip_key pos) None.
Proof.
  intros H pos t t0 pops Hd Hs Hfp W [P | L] Hat Ht0 N.
  - pose proof P as (_ & _ & _ & _ & Hne & _). rewrite end_moment_inner by exact Hne.
    split; [exact Ht0|]. exact (prior_pred_none H pos t0 pops Hd Hs Hfp W P N).
  - pose proof L as (_ & _ & E & _). unfold end_moment. rewrite E. split; [exact Hat|].
    apply (leafpos_end_query H pos (UKey true (ip_key pos)) W L). cbn. apply lex_lt_irrefl.
Qed.

(** ** Runs are chains of interval predecessor queries *)

Lemma rquery_strict : forall H t1 t2 hi k v, rquery H t1 t2 (UKey false hi) (Some (k, v)) -> k <> hi ->
  rquery H t1 t2 (UKey true hi) (Some (k, v)).
Proof.
  intros H t1 t2 hi k v (A & E & G) Hne. cbn in *. split; [|split; [exact E|]].
  - destruct (lex_le_cases _ _ A) as [->|L]; [congruence | exact L].
  - intros x Ax Lx. apply G; [apply lex_lt_le; exact Ax | exact Lx].
Qed.

Lemma last_query_none_strict : forall g hi, last_query g (UKey false hi) None -> last_query g (UKey true hi) None.
Proof. intros g hi G x Ax. apply G. cbn in *. apply lex_lt_le. exact Ax. Qed.

Definition rrun_end (H : history) (t : nat) (u : ubound) (ds : list delivery) (e : option nat) : Prop :=
  forall te, e = Some te -> (wlast_moment t ds <= te)%nat /\ rexhausted H te te (rfinal_bound u ds).

Theorem riter_run_rscan : forall H, disciplined H -> stays_reachable H -> fullpath_stable H -> wf_history H ->
  forall t pos ds e, riter_run H t pos ds e -> gpos_ok H pos -> (t <= ip_at pos)%nat ->
  rscan H t (UKey true (ip_key pos)) ds /\ rrun_end H t (UKey true (ip_key pos)) ds e.
Proof.
  intros H Hd Hs Hfp W t pos ds e R.
  induction R as [t pos | t pos t0 pops Ht N | t pos rl T Ht S | t pos rl t1 t2 pos1 t0 pops Ht S Ek Ht2 N
                 | t pos t0 pops pv tc b' c' rest hs a q k' v' ds e Ht N R IH
                 | t pos rl t1 t2 pos1 ds e Ht S Hne R IH
                 | t pos rl t1 t2 pos1 t0 pops pv tc b' c' rest hs a q k' v' ds e Ht S Ek Ht2 N R IH]; intros Pok Hat.
  - split; [constructor | intros te E; discriminate].
  - split; [constructor|]. intros te E. injection E as <-.
    destruct (gprior_none_end H pos t t0 pops Hd Hs Hfp W Pok Hat Ht N) as [L Q].
    split; [exact L|]. apply (last_query_rquery H _ (UKey true (ip_key pos)) None). exact Q.
  - split; [constructor|]. intros te E. injection E as <-.
    destruct (rseek_end_ok H Hd Hs Hfp W _ _ _ S) as [L Q]. split; [unfold wlast_moment; cbn; lia|].
    apply (last_query_rquery H T (UKey true (ip_key pos)) None). apply last_query_none_strict. exact Q.
  - split; [constructor|]. intros te E. injection E as <-.
    destruct (rseek_result_ok H Hd Hs Hfp W _ _ _ _ _ S) as (L & Eat & P1 & _).
    destruct (gprior_none_end H pos1 t t0 pops Hd Hs Hfp W P1 ltac:(lia) ltac:(lia) N) as [L' Q].
    split; [exact L'|].
    apply (last_query_rquery H _ (UKey true (ip_key pos)) None). rewrite <- Ek. exact Q.
  - pose proof (gprior_some_pos H _ _ _ _ _ _ _ _ _ _ _ _ _ Pok N) as Pok'.
    destruct (prior_pred_some H pos t0 pops pv tc b' c' rest hs a q k' v' Hd Hs Hfp W Pok' N) as (L & Q & P').
    destruct (IH (or_introl P') (le_n _)) as [S' E']. cbn [ip_key prior_pos] in S', E'. split.
    + apply rsc_cons; [lia | exact Q | exact S'].
    + intros te E. rewrite wlast_moment_cons, rfinal_bound_cons. exact (E' te E).
  - destruct (rseek_result_ok H Hd Hs Hfp W _ _ _ _ _ S) as (L & Eat & P1 & Q).
    destruct (IH P1 ltac:(lia)) as [S' E']. split.
    + apply rsc_cons; [lia | apply rquery_strict; assumption | exact S'].
    + intros te E. rewrite wlast_moment_cons, rfinal_bound_cons. exact (E' te E).
  - destruct (rseek_result_ok H Hd Hs Hfp W _ _ _ _ _ S) as (L & Eat & P1 & _).
    pose proof (gprior_some_pos H _ _ _ _ _ _ _ _ _ _ _ _ _ P1 N) as P1'.
    destruct (prior_pred_some H pos1 t0 pops pv tc b' c' rest hs a q k' v' Hd Hs Hfp W P1' N) as (L' & Q & P').
    destruct (IH (or_introl P') (le_n _)) as [S' E']. cbn [ip_key prior_pos] in S', E'. rewrite Ek in Q. split.
    + apply rsc_cons; [lia | exact Q | exact S'].
    + intros te E. rewrite wlast_moment_cons, rfinal_bound_cons. exact (E' te E).
Qed.

Theorem riter_scan_rscan : forall H, disciplined H -> stays_reachable H -> fullpath_stable H -> wf_history H ->
  forall t u ds e, riter_scan H t u ds e -> rscan H t u ds /\ rrun_end H t u ds e.
Proof.
  intros H Hd Hs Hfp W t u ds e S.
  destruct S as [t hi rl T Ht S | t hi rl t1 t2 pos ds e Ht S R | t rl Ht Hr | t rl rw rc n0 hs a q k v ds e Ht S R].
  - split; [constructor|]. intros te E. injection E as <-.
    destruct (rseek_end_ok H Hd Hs Hfp W _ _ _ S) as [L Q]. split; [unfold wlast_moment; cbn; lia|].
    apply (last_query_rquery H T (UKey false hi) None). exact Q.
  - destruct (rseek_result_ok H Hd Hs Hfp W _ _ _ _ _ S) as (L & Eat & P1 & Q).
    destruct (riter_run_rscan H Hd Hs Hfp W _ _ _ _ R P1 ltac:(lia)) as [S' E']. split.
    + apply rsc_cons; [lia | exact Q | exact S'].
    + intros te E. rewrite wlast_moment_cons, rfinal_bound_cons. exact (E' te E).
  - split; [constructor|]. intros te E. injection E as <-. split; [unfold wlast_moment; cbn; lia|].
    apply (last_query_rquery H rl UInf None). apply empty_tree_rquery. exact Hr.
  - destruct (last_down_query H _ _ _ _ _ _ _ _ _ Hd Hs Hfp W S) as (L & Q & P1).
    destruct (riter_run_rscan H Hd Hs Hfp W _ _ _ _ R P1 (le_n _)) as [S' E']. cbn [ip_key seek_pos] in S', E'. split.
    + apply rsc_cons; [lia | exact Q | exact S'].
    + intros te E. rewrite wlast_moment_cons, rfinal_bound_cons. exact (E' te E).
Qed.

(** ** End to end: a reverse iterator scan of the tree *)

(** keys come out in strictly decreasing byte-wise order, all below the
    bound; every delivered entry was in the tree during its step; a key that
    is never in the tree is not delivered; a key that is in the tree
    throughout the scan, below the bound and not below the last delivered
    key, is delivered; and if the scan ran to the end, every such key below
    the bound *)
Theorem riter_scan_c09 : forall H, disciplined H -> stays_reachable H -> fullpath_stable H -> wf_history H ->
  forall t u ds e, riter_scan H t u ds e ->
  StronglySorted (fun a b => lex_lt b a) (wkeys ds) /\ Forall (below u) (wkeys ds) /\
  Forall (fun d : delivery => let '(t1, t2, k, v) := d in
            (t <= t1)%nat /\ exists T, (t1 <= T <= t2)%nat /\ entry (H T) k v) ds /\
  (forall k, (forall t', ~ has_key (H t') k) -> ~ In k (wkeys ds)) /\
  (forall k, below u k -> ~ below (rfinal_bound u ds) k ->
     (forall t', (t <= t' <= wlast_moment t ds)%nat -> has_key (H t') k) -> In k (wkeys ds)) /\
  (forall te k, e = Some te -> below u k ->
     (forall t', (t <= t' <= te)%nat -> has_key (H t') k) -> In k (wkeys ds)).
Proof.
  intros H Hd Hs Hfp W t u ds e S.
  destruct (riter_scan_rscan H Hd Hs Hfp W t u ds e S) as [Sc En].
  destruct (rscan_ordered_bounded H t u ds Sc) as [O B].
  split; [exact O|]. split; [exact B|]. split; [exact (rscan_values_held H t u ds Sc)|].
  split; [intros k Hk; exact (rscan_no_phantom H t u ds k Sc Hk)|]. split.
  - intros k Bk Hfb Hst. exact (rscan_complete_prefix H t u ds k Sc Bk Hfb Hst).
  - intros te k Ee Bk Hst. destruct (En te Ee) as [Hl Hx].
    apply (rscan_complete H t u ds te te k Sc); [lia | exact Hx | exact Bk | exact Hst].
Qed.

(** scan_range(from, to, fn) with to < from: the positions visited are
    ds ++ [stop], fn saw ds; every key of (to, from] that is in the tree
    throughout was passed to fn, and fn saw only keys of (to, from] *)
Theorem riter_scan_range : forall H, disciplined H -> stays_reachable H -> fullpath_stable H -> wf_history H ->
  forall t from to ds stop e, riter_scan H t (UKey false from) (ds ++ [stop]) e -> range_stop to ds stop ->
  Forall (fun k => lex_lt to k /\ lex_le k from) (wkeys ds) /\
  forall k, lex_le k from -> lex_lt to k ->
    (forall t', (t <= t' <= wlast_moment t (ds ++ [stop]))%nat -> has_key (H t') k) -> In k (wkeys ds).
Proof.
  intros H Hd Hs Hfp W t from to ds stop e S Rs.
  destruct (riter_scan_rscan H Hd Hs Hfp W _ _ _ _ S) as [Sc _]. split.
  - destruct (rscan_ordered_bounded H _ _ _ Sc) as [_ B]. destruct Rs as [Hall _].
    unfold wkeys in B. rewrite map_app in B. apply Forall_app in B. destruct B as [B _].
    rewrite Forall_forall in *. intros k Hk. split; [apply Hall; exact Hk | exact (B k Hk)].
  - intros k Bk Hto Hst. exact (rscan_range_complete H t (UKey false from) ds stop to k Sc Rs Bk Hto Hst).
Qed.
