(** C03 (writer side): commit shape S4 leaf_split. *)
From Coq Require Import List ZArith Bool Arith Lia.
From Unodb Require Import Lock.LockModel Olc.ReadModel Olc.ReadProofs Olc.WriteModel Olc.WriteShapes Olc.WriteSlots.
Import ListNotations.
Local Open Scope Z_scope.
Local Open Scope nat_scope.

Section LeafSplit.
  Variables (g g' : gstate) (k : key) (v : val) (s : slot) (L0 : nid) (d : nat) (cL : cell) (kL : key) (vL : val)
            (X : nid) (wx : Z) (px : list Z) (csX : list (Z * nid)) (bl bk : Z) (Lk : nid) (wl : Z).
  Hypothesis W : WF g.
  Hypothesis Hs : slot_holds g s L0 (firstn d k).
  Hypothesis Hd : d <= length k.
  Hypothesis HcL : hp g L0 = Some cL.
  Hypothesis HkL : cont cL = CLeaf kL vL.
  Hypothesis Hpk : prefix_at px d k.
  Hypothesis HpL : prefix_at px d kL.
  Hypothesis Hbk : nth_error k (d + length px) = Some bk.
  Hypothesis Hbl : nth_error kL (d + length px) = Some bl.
  Hypothesis Hne : bl <> bk.
  Hypothesis HcsX : forall b0, find_child b0 csX = if (b0 =? bk)%Z then Some Lk else if (b0 =? bl)%Z then Some L0 else None.
  Hypothesis HX : hp g X = None.
  Hypothesis HLk : hp g Lk = None.
  Hypothesis HXL : X <> Lk.
  Hypothesis Hwx : w_is_free wx = true.
  Hypothesis Hwl : w_is_free wl = true.

  Definition ls_h : heap := upd (upd (hp g) Lk (mk wl (CLeaf k v))) X (mk wx (CInode px csX)).
  Hypothesis Hrd : slot_redirect g s ls_h X g'.
  Definition ls_Q : list Z := firstn d k.

  Lemma ls_h_old : forall n c, hp g n = Some c -> ls_h n = Some c.
  Proof.
    intros n c Hc. unfold ls_h. rewrite !upd_neq; [exact Hc | eapply fresh_neq; eassumption ..].
  Qed.

  Lemma ls_hP : forall P bP, s = SChild P bP -> ls_h P = hp g P.
  Proof.
    intros P bP Es. destruct (sh_P_reach g s L0 _ Hs P bP Es) as [pthP HrP].
    destruct (wf_alloc g W _ _ HrP) as (c & Hc & _). rewrite Hc. apply ls_h_old. exact Hc.
  Qed.

  Lemma ls_rd_hp : forall n, (forall bP, s <> SChild n bP) -> hp g' n = ls_h n.
  Proof. eapply rd_hp; first [eassumption | exact ls_hP]. Qed.

  Lemma ls_hp_fresh : forall n, hp g n = None -> hp g' n = ls_h n.
  Proof.
    intros n Hn. apply ls_rd_hp. intros bP Es.
    destruct (sh_P_reach g s L0 _ Hs n bP Es) as [pthP HrP].
    destruct (wf_alloc g W _ _ HrP) as (c & Hc & _). congruence.
  Qed.

  Lemma ls_hp_X : hp g' X = Some (mk wx (CInode px csX)).
  Proof. rewrite (ls_hp_fresh X HX). unfold ls_h. apply upd_eq. Qed.

  Lemma ls_hp_Lk : hp g' Lk = Some (mk wl (CLeaf k v)).
  Proof. rewrite (ls_hp_fresh Lk HLk). unfold ls_h. rewrite upd_neq by (apply not_eq_sym; exact HXL). apply upd_eq. Qed.

  Lemma ls_hp_L0 : hp g' L0 = Some cL.
  Proof.
    rewrite ls_rd_hp; [apply ls_h_old; exact HcL|].
    intros bP Es. eapply (sh_P_ne_O g s L0 _ W Hs); [exact Es | reflexivity].
  Qed.

  Lemma ls_root_new : forall r', root g' = Some r' ->
    (s = SRoot /\ r' = X) \/ (s <> SRoot /\ root g = Some r' /\ r' <> L0).
  Proof. eapply rd_root_new; first [eassumption | exact ls_hP]. Qed.

  Lemma ls_step_old : forall n pth c c1 p1 cs1 b0 c',
    reach g n pth -> hp g n = Some c -> ls_h n = Some c ->
    hp g' n = Some c1 -> cont c1 = CInode p1 cs1 -> find_child b0 cs1 = Some c' ->
    (c' = X /\ pth ++ p1 ++ [b0] = ls_Q /\ s = SChild n b0) \/
    (c' <> L0 /\ edge g n b0 c' /\ reach g c' (pth ++ p1 ++ [b0])).
  Proof. eapply rd_step_old; first [eassumption | exact ls_hP]. Qed.

  Lemma ls_fwd_old : forall n c p0 cs0 b0 c',
    hp g n = Some c -> ls_h n = Some c -> cont c = CInode p0 cs0 -> find_child b0 cs0 = Some c' -> c' <> L0 ->
    exists c1 cs1, hp g' n = Some c1 /\ cont c1 = CInode p0 cs1 /\ find_child b0 cs1 = Some c'.
  Proof. eapply rd_fwd_old; first [eassumption | exact ls_hP]. Qed.

  Definition ls_new (m : nid) (q : list Z) : Prop :=
    (m = X /\ q = ls_Q) \/ (m = L0 /\ q = ls_Q ++ px ++ [bl]) \/ (m = Lk /\ q = ls_Q ++ px ++ [bk]).

  Lemma ls_reach_bwd : forall m q, reach g' m q -> (reach g m q /\ m <> L0) \/ ls_new m q.
  Proof.
    intros m q Hr. induction Hr as [n Hroot | n pth c p0 cs0 b0 c' Hr IH Hc Hk Hf].
    - destruct (ls_root_new n Hroot) as [[Es ->] | (_ & Hr0 & Hne0)].
      + right. left. split; [reflexivity|]. pose proof Hs as Hs'. rewrite Es in Hs'. cbn in Hs'.
        destruct Hs' as [_ E]. unfold ls_Q. symmetry. exact E.
      + left. split; [apply reach_root; exact Hr0 | exact Hne0].
    - destruct IH as [[Hr0 HnL] | [[-> ->] | [[-> _] | [-> _]]]].
      + destruct (wf_alloc g W _ _ Hr0) as (c0 & Hc0 & _).
        destruct (ls_step_old n pth c0 c p0 cs0 b0 c' Hr0 Hc0 (ls_h_old n c0 Hc0) Hc Hk Hf)
          as [(-> & E & _) | (Hne0 & _ & Hr1)].
        * right. left. auto.
        * left. auto.
      + rewrite ls_hp_X in Hc. injection Hc as <-. cbn [cont mk] in Hk. injection Hk as <- <-.
        rewrite HcsX in Hf. right. right. destruct (Z.eqb_spec b0 bk) as [->|_].
        * injection Hf as <-. right. auto.
        * destruct (Z.eqb_spec b0 bl) as [->|_]; [|discriminate]. injection Hf as <-. left. auto.
      + rewrite ls_hp_L0 in Hc. injection Hc as <-. congruence.
      + rewrite ls_hp_Lk in Hc. injection Hc as <-. cbn in Hk. discriminate.
  Qed.

  Lemma ls_reach_fwd : forall m q, reach g m q -> m <> L0 -> reach g' m q.
  Proof.
    intros m q Hr. induction Hr as [n Hroot | n pth c p0 cs0 b0 c' Hr IH Hc Hk Hf]; intros HmL.
    - apply reach_root. eapply rd_root_old; first [eassumption | exact ls_hP].
    - assert (HnL : n <> L0) by (intros ->; congruence).
      destruct (ls_fwd_old n c p0 cs0 b0 c' Hc (ls_h_old n c Hc) Hk Hf HmL) as (c1 & cs1 & Hc1 & Hk1 & Hf1).
      eapply reach_child; [exact (IH HnL) | exact Hc1 | exact Hk1 | exact Hf1].
  Qed.

  Lemma ls_old_cell : forall n pth c, reach g n pth -> hp g n = Some c ->
    exists c1, hp g' n = Some c1 /\ w_is_free (word c1) = true /\
      (c1 = c \/ exists p1 cs0 cs1, cont c = CInode p1 cs0 /\ cont c1 = CInode p1 cs1).
  Proof.
    intros n pth c Hr Hc. eapply rd_old_cell; first [eassumption | exact ls_hP | apply ls_h_old; exact Hc].
  Qed.

  Lemma ls_P_ne_L0 : forall P bP, s = SChild P bP -> P <> L0.
  Proof. intros P bP Es. eapply (sh_P_ne_O g s L0 _ W Hs). exact Es. Qed.

  Lemma ls_reach_X : reach g' X ls_Q.
  Proof.
    eapply rd_X; first [eassumption | exact ls_hP | idtac].
    intros P bP pthP Es HrP. apply ls_reach_fwd; [exact HrP | eapply ls_P_ne_L0; exact Es].
  Qed.

  Lemma ls_reach_L0 : reach g' L0 (ls_Q ++ px ++ [bl]).
  Proof.
    eapply reach_child; [exact ls_reach_X | exact ls_hp_X | reflexivity |].
    rewrite HcsX. destruct (Z.eqb_spec bl bk) as [E|_]; [contradiction|]. rewrite Z.eqb_refl. reflexivity.
  Qed.

  Lemma ls_reach_Lk : reach g' Lk (ls_Q ++ px ++ [bk]).
  Proof.
    eapply reach_child; [exact ls_reach_X | exact ls_hp_X | reflexivity |].
    rewrite HcsX. rewrite Z.eqb_refl. reflexivity.
  Qed.

  Lemma ls_path_k : ls_Q ++ px ++ [bk] = firstn (d + length px + 1) k /\ d + length px + 1 <= length k.
  Proof. unfold ls_Q. apply path_extend; assumption. Qed.

  Lemma ls_Q_kL : ls_Q = firstn d kL.
  Proof.
    pose proof (wf_leaf g W _ _ _ _ _ (sh_reach g s L0 _ Hs) HcL HkL) as E.
    rewrite firstn_length_le in E by exact Hd. exact E.
  Qed.

  Lemma ls_path_L : ls_Q ++ px ++ [bl] = firstn (d + length px + 1) kL /\ d + length px + 1 <= length kL.
  Proof. rewrite ls_Q_kL. apply path_extend; assumption. Qed.

  Lemma ls_kL_ne : kL <> k.
  Proof. intros E. rewrite E in Hbl. congruence. Qed.

  Lemma ls_unreach_fresh : forall n q, hp g n = None -> reach g n q -> False.
  Proof. intros n q Hn Hr. destruct (wf_alloc g W _ _ Hr) as (c & Hc & _). congruence. Qed.

  (** the edges of g' *)
  Lemma ls_edge_bwd : forall n b0 m, edge g' n b0 m ->
    (edge g n b0 m /\ m <> L0) \/ (m = X /\ s = SChild n b0) \/
    (n = X /\ ((b0 = bl /\ m = L0) \/ (b0 = bk /\ m = Lk))).
  Proof.
    intros n b0 m (q & c & p0 & cs0 & Hr & Hc & Hk & Hf).
    destruct (ls_reach_bwd _ _ Hr) as [[Hr0 HnL] | [[-> _] | [[-> _] | [-> _]]]].
    - destruct (wf_alloc g W _ _ Hr0) as (c0 & Hc0 & _).
      destruct (ls_step_old n q c0 c p0 cs0 b0 m Hr0 Hc0 (ls_h_old n c0 Hc0) Hc Hk Hf)
        as [(-> & _ & Es) | (Hne0 & E & _)]; [right; left; auto | left; auto].
    - rewrite ls_hp_X in Hc. injection Hc as <-. cbn [cont mk] in Hk. injection Hk as <- <-.
      rewrite HcsX in Hf. right. right. split; [reflexivity|]. destruct (Z.eqb_spec b0 bk) as [->|_].
      + injection Hf as <-. right. auto.
      + destruct (Z.eqb_spec b0 bl) as [->|_]; [|discriminate]. injection Hf as <-. left. auto.
    - rewrite ls_hp_L0 in Hc. injection Hc as <-. congruence.
    - rewrite ls_hp_Lk in Hc. injection Hc as <-. cbn in Hk. discriminate.
  Qed.

  Lemma ls_old_target : forall n b0 m, edge g n b0 m -> m <> X /\ m <> Lk.
  Proof.
    intros n b0 m E. destruct (edge_reach _ _ _ _ E) as [q Hr].
    split; intros ->; [exact (ls_unreach_fresh X q HX Hr) | exact (ls_unreach_fresh Lk q HLk Hr)].
  Qed.

  Lemma ls_L0_ne : L0 <> X /\ L0 <> Lk.
  Proof. split; intros E; rewrite E in HcL; congruence. Qed.

  Lemma ls_wf_parent : forall n1 b1 n2 b2 m, edge g' n1 b1 m -> edge g' n2 b2 m -> n1 = n2 /\ b1 = b2.
  Proof.
    intros n1 b1 n2 b2 m E1 E2. destruct ls_L0_ne as [NX NL].
    destruct (ls_edge_bwd _ _ _ E1) as [[A1 N1] | [[M1 S1] | [X1 [[B1 M1] | [B1 M1]]]]];
      destruct (ls_edge_bwd _ _ _ E2) as [[A2 N2] | [[M2 S2] | [X2 [[B2 M2] | [B2 M2]]]]];
      try (destruct (ls_old_target _ _ _ A1) as [T1 T1']); try (destruct (ls_old_target _ _ _ A2) as [T2 T2']);
      subst; try contradiction; try congruence.
    - eapply (wf_parent g W); eassumption.
    - split; congruence.
    - auto.
    - auto.
  Qed.

  Lemma ls_wf_root : forall r n b0, root g' = Some r -> edge g' n b0 r -> False.
  Proof.
    intros r n b0 Hroot E. destruct ls_L0_ne as [NX NL].
    destruct (ls_root_new r Hroot) as [[Es ->] | (Hns & Hr0 & Hne0)];
      destruct (ls_edge_bwd _ _ _ E) as [[A1 N1] | [[M1 S1] | [X1 [[B1 M1] | [B1 M1]]]]];
      try (destruct (ls_old_target _ _ _ A1) as [T1 T1']); subst; try contradiction; try congruence.
    - eapply (wf_root g W); eassumption.
    - eapply ls_unreach_fresh; [exact HX | apply reach_root; exact Hr0].
    - eapply ls_unreach_fresh; [exact HLk | apply reach_root; exact Hr0].
  Qed.

  Lemma ls_WF : WF g'.
  Proof.
    constructor; [| | exact ls_wf_parent | exact ls_wf_root].
    - intros m q Hr. destruct (ls_reach_bwd _ _ Hr) as [[Hr0 HnL] | [[-> _] | [[-> _] | [-> _]]]].
      + destruct (wf_alloc g W _ _ Hr0) as (c0 & Hc0 & _).
        destruct (ls_old_cell m q c0 Hr0 Hc0) as (c1 & Hc1 & Hf1 & _). eauto.
      + rewrite ls_hp_X. eexists. split; [reflexivity | exact Hwx].
      + rewrite ls_hp_L0. exists cL. split; [reflexivity|].
        destruct (wf_alloc g W _ _ (sh_reach g s L0 _ Hs)) as (c0 & Hc0 & Hf0). congruence.
      + rewrite ls_hp_Lk. eexists. split; [reflexivity | exact Hwl].
    - intros m q c kk v0 Hr Hc Hk. destruct (ls_reach_bwd _ _ Hr) as [[Hr0 HnL] | [[-> _] | [[-> ->] | [-> ->]]]].
      + destruct (wf_alloc g W _ _ Hr0) as (c0 & Hc0 & _).
        destruct (ls_old_cell m q c0 Hr0 Hc0) as (c1 & Hc1 & _ & [-> | (p1 & cs0 & cs1 & _ & Hk1)]).
        * rewrite Hc1 in Hc. injection Hc as <-. eapply (wf_leaf g W); eassumption.
        * rewrite Hc1 in Hc. injection Hc as <-. congruence.
      + rewrite ls_hp_X in Hc. injection Hc as <-. cbn in Hk. discriminate.
      + rewrite ls_hp_L0 in Hc. injection Hc as <-. rewrite HkL in Hk. injection Hk as <- <-.
        destruct ls_path_L as [E Hle]. rewrite E. rewrite firstn_length_le by exact Hle. reflexivity.
      + rewrite ls_hp_Lk in Hc. injection Hc as <-. cbn in Hk. injection Hk as <- <-.
        destruct ls_path_k as [E Hle]. rewrite E. rewrite firstn_length_le by exact Hle. reflexivity.
  Qed.

  Lemma ls_step_ok : step_ok g g'.
  Proof.
    split; [exact ls_WF | split; [|split; [|split]]].
    - eapply rd_cell_step; first [eassumption | exact ls_hP | idtac].
      intros n c Hc. exists c. split; [apply ls_h_old; exact Hc | left; reflexivity].
    - eapply rd_root_step; first [eassumption | exact ls_hP].
    - intros n pth Hr _. destruct (Nat.eq_dec n L0) as [->|HnL].
      + eexists. exact ls_reach_L0.
      + exists pth. apply ls_reach_fwd; assumption.
    - intros fp Hfp. exists (fun n => if Nat.eqb n X then ls_Q ++ px else fp n). split.
      + intros n pth c p1 cs1 Hr Hc Hk.
        destruct (ls_reach_bwd _ _ Hr) as [[Hr0 HnL] | [[-> ->] | [[-> _] | [-> _]]]].
        * destruct (wf_alloc g W _ _ Hr0) as (c0 & Hc0 & _).
          destruct (Nat.eqb_spec n X) as [->|_]; [congruence|].
          destruct (ls_old_cell n pth c0 Hr0 Hc0) as (c1 & Hc1 & _ & [-> | (p2 & cs0 & cs2 & Hk0 & Hk1)]).
          -- rewrite Hc1 in Hc. injection Hc as <-. eapply Hfp; eassumption.
          -- rewrite Hc1 in Hc. injection Hc as <-. rewrite Hk in Hk1. injection Hk1 as <- <-. eapply Hfp; eassumption.
        * rewrite Nat.eqb_refl. rewrite ls_hp_X in Hc. injection Hc as <-. cbn in Hk. injection Hk as <- _. reflexivity.
        * rewrite ls_hp_L0 in Hc. injection Hc as <-. congruence.
        * rewrite ls_hp_Lk in Hc. injection Hc as <-. cbn in Hk. discriminate.
      + intros n c Hc. destruct (Nat.eqb_spec n X) as [->|_]; [congruence | reflexivity].
  Qed.

  Lemma ls_leaves : forall k' v', k' <> k -> (leaf_in g' k' v' <-> leaf_in g k' v').
  Proof.
    intros k' v' Hnk. split; intros (n & pth & c & Hr & Hc & Hk).
    - destruct (ls_reach_bwd _ _ Hr) as [[Hr0 HnL] | [[-> _] | [[-> _] | [-> _]]]].
      + destruct (wf_alloc g W _ _ Hr0) as (c0 & Hc0 & _).
        destruct (ls_old_cell n pth c0 Hr0 Hc0) as (c1 & Hc1 & _ & [-> | (p2 & cs0 & cs2 & Hk0 & Hk1)]);
          rewrite Hc1 in Hc; injection Hc as <-; [|congruence].
        exists n, pth, c0. auto.
      + rewrite ls_hp_X in Hc. injection Hc as <-. cbn in Hk. discriminate.
      + rewrite ls_hp_L0 in Hc. injection Hc as <-. exists L0, ls_Q, cL.
        split; [exact (sh_reach g s L0 _ Hs) | auto].
      + rewrite ls_hp_Lk in Hc. injection Hc as <-. cbn in Hk. injection Hk as E _. congruence.
    - destruct (Nat.eq_dec n L0) as [->|HnL].
      + rewrite HcL in Hc. injection Hc as <-. exists L0, (ls_Q ++ px ++ [bl]), cL.
        split; [exact ls_reach_L0 | split; [exact ls_hp_L0 | exact Hk]].
      + exists n, pth, c. split; [apply ls_reach_fwd; assumption | split; [|exact Hk]].
        destruct (ls_old_cell n pth c Hr Hc) as (c1 & Hc1 & _ & [-> | (p2 & cs0 & cs2 & Hk0 & Hk1)]); [exact Hc1 | congruence].
  Qed.

  Lemma ls_effect : insert_effect k v g g'.
  Proof.
    apply insert_effect_intro; [exact W | exact ls_WF | | | exact ls_leaves].
    - apply (reach_lookup g k L0 ls_Q (sh_reach g s L0 _ Hs) d eq_refl Hd).
      eapply lr_leaf_miss; [exact HcL | exact HkL | exact ls_kL_ne].
    - destruct ls_path_k as [E Hle].
      apply (reach_lookup g' k Lk _ ls_reach_Lk (d + length px + 1) E Hle).
      eapply lr_leaf_hit; [exact ls_hp_Lk | reflexivity].
  Qed.
End LeafSplit.

Theorem leaf_split_ok : forall k v g g', WF g -> leaf_split k v g g' -> step_ok g g' /\ insert_effect k v g g'.
Proof.
  intros k v g g' W [s L0 d cL kL vL X wx px csX bl bk Lk wl h Hs Hd HcL HkL Hpk HpL Hbk Hbl Hne HcsX HX HLk HXL Hwx Hwl -> Hrd].
  split; [eapply (ls_step_ok g g' k v s L0 d cL kL vL X wx px csX bl bk Lk wl); eassumption
         | eapply (ls_effect g g' k v s L0 d cL kL vL X wx px csX bl bk Lk wl); eassumption].
Qed.
